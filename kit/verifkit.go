//go:build verif

// Package verifkit is injected (by -overlay) as
// github.com/zeromicro/go-zero/internal/verifkit.  It is stdlib-only so that any
// go-zero package's tests may import it without creating an import cycle.
//
// It records, per test unit, what a run actually covered: number of evaluated
// cases, histogram of case classes, the set of fingerprints of non-trivial cases
// and a few sample cases.  The driver (/verif/check) merges the JSON lines that
// Flush appends to $VERIF_STATS into /verif/evidence/<ID>.json.
package verifkit

import (
	"encoding/json"
	"fmt"
	"hash/fnv"
	"os"
	"sort"
	"strconv"
	"strings"
	"sync"
)

// Stats collects coverage counters for one test unit.
type Stats struct {
	mu       sync.Mutex
	unit     string
	evals    int64
	classes  map[string]int64
	fps      map[uint64]struct{}
	samples  []string
	nsampled int64
	notes    []string
	known    []string
	excluded int64
}

// New creates a collector for the named unit.
func New(unit string) *Stats {
	return &Stats{unit: unit, classes: map[string]int64{}, fps: map[uint64]struct{}{}}
}

// Eval counts one generated case (one execution of the property body).
func (s *Stats) Eval() {
	s.mu.Lock()
	s.evals++
	s.mu.Unlock()
}

// EvalN counts n generated cases.
func (s *Stats) EvalN(n int) {
	s.mu.Lock()
	s.evals += int64(n)
	s.mu.Unlock()
}

// Class adds one to the histogram bucket name.
func (s *Stats) Class(name string) {
	s.mu.Lock()
	s.classes[name]++
	s.mu.Unlock()
}

// ClassN adds n to the histogram bucket name.
func (s *Stats) ClassN(name string, n int) {
	if n == 0 {
		return
	}
	s.mu.Lock()
	s.classes[name] += int64(n)
	s.mu.Unlock()
}

// Excluded counts a generated input that was excluded by construction because it
// matches the signature of a listed known finding.
func (s *Stats) Excluded() {
	s.mu.Lock()
	s.excluded++
	s.mu.Unlock()
}

// NonTrivial records the fingerprint of a case that is non-trivial by the unit's
// stated rule.  desc is the canonical text of the case; it is hashed (FNV-64a) and
// also offered as a sample.
func (s *Stats) NonTrivial(desc string) {
	h := fnv.New64a()
	h.Write([]byte(desc))
	fp := h.Sum64()
	s.mu.Lock()
	if _, ok := s.fps[fp]; !ok {
		s.fps[fp] = struct{}{}
		s.nsampled++
		// keep the 1st, then thin out: samples at 1,2,4,8,... up to 6 kept
		if len(s.samples) < 6 && (s.nsampled&(s.nsampled-1)) == 0 {
			if len(desc) > 1500 {
				desc = desc[:1500] + "…"
			}
			s.samples = append(s.samples, desc)
		}
	}
	s.mu.Unlock()
}

// Sample offers a sample case that is not necessarily non-trivial (used when a
// unit has no non-trivial case by its rule yet still wants to show its inputs).
func (s *Stats) Sample(desc string) {
	s.mu.Lock()
	if len(s.samples) < 6 {
		if len(desc) > 1500 {
			desc = desc[:1500] + "…"
		}
		s.samples = append(s.samples, desc)
	}
	s.mu.Unlock()
}

// Note attaches free text to the evidence (observations, inconclusive sub-steps).
func (s *Stats) Note(format string, a ...any) {
	s.mu.Lock()
	if len(s.notes) < 40 {
		s.notes = append(s.notes, fmt.Sprintf(format, a...))
	}
	s.mu.Unlock()
}

// KnownFinding reports that the minimal input of a listed known finding still
// fails on this tree.  The driver prints it as a KNOWN-FINDING line.
func (s *Stats) KnownFinding(id, what string) {
	s.mu.Lock()
	s.known = append(s.known, id+" "+what)
	s.mu.Unlock()
	fmt.Printf("KNOWN-FINDING-RAW: %s %s\n", id, what)
}

type record struct {
	Unit     string           `json:"unit"`
	Evals    int64            `json:"evals"`
	Classes  map[string]int64 `json:"classes"`
	FPs      []string         `json:"fps"`
	Samples  []string         `json:"samples"`
	Notes    []string         `json:"notes,omitempty"`
	Known    []string         `json:"known,omitempty"`
	Excluded int64            `json:"excluded_known"`
}

// Flush appends the unit's record to $VERIF_STATS (no-op when unset).
func (s *Stats) Flush() {
	path := os.Getenv("VERIF_STATS")
	if path == "" {
		return
	}
	s.mu.Lock()
	defer s.mu.Unlock()
	rec := record{Unit: s.unit, Evals: s.evals, Classes: s.classes, Samples: s.samples,
		Notes: s.notes, Known: s.known, Excluded: s.excluded}
	rec.FPs = make([]string, 0, len(s.fps))
	for fp := range s.fps {
		rec.FPs = append(rec.FPs, strconv.FormatUint(fp, 36))
	}
	sort.Strings(rec.FPs)
	b, err := json.Marshal(rec)
	if err != nil {
		return
	}
	f, err := os.OpenFile(path, os.O_APPEND|os.O_CREATE|os.O_WRONLY, 0o644)
	if err != nil {
		return
	}
	defer f.Close()
	f.Write(append(b, '\n'))
}

// Tier returns "quick" or "thorough" (from $VERIF_TIER; default quick).
func Tier() string {
	if os.Getenv("VERIF_TIER") == "thorough" {
		return "thorough"
	}
	return "quick"
}

// Thorough reports whether the thorough tier is running.
func Thorough() bool { return Tier() == "thorough" }

// EnvInt reads an integer knob set by the driver (VERIF_<NAME>), or def.
func EnvInt(name string, def int) int {
	v := os.Getenv("VERIF_" + strings.ToUpper(name))
	if v == "" {
		return def
	}
	n, err := strconv.Atoi(v)
	if err != nil {
		return def
	}
	return n
}

// KnownFindings returns the ids of findings listed with status "known" for the
// property in the committed known-findings file ($VERIF_KNOWN, set by the driver).
// Tests use it to decide whether inputs matching a finding's signature are
// excluded by construction; a finding that is not listed is never excluded.
func KnownFindings(property string) map[string]bool {
	out := map[string]bool{}
	path := os.Getenv("VERIF_KNOWN")
	if path == "" {
		return out
	}
	b, err := os.ReadFile(path)
	if err != nil {
		return out
	}
	var doc struct {
		Findings []struct {
			Property string `json:"property"`
			ID       string `json:"id"`
			Status   string `json:"status"`
		} `json:"findings"`
	}
	if json.Unmarshal(b, &doc) != nil {
		return out
	}
	for _, f := range doc.Findings {
		if f.Property == property && f.Status == "known" {
			out[f.ID] = true
		}
	}
	return out
}
