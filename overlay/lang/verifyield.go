//go:build verif

package lang

import (
	"runtime"
	"sync/atomic"
	"time"
)

// Schedule amplifier (DESIGN §1.4).  Source files instrumented by /verif/tools/yieldinject call
// VerifYield at synchronisation points.  Disabled (a no-op) until VerifYieldConfig is called.

var (
	verifYieldState  uint64 // splitmix64 state; 0 = disabled
	verifYieldGosch  uint32 // probability (per 1024) of runtime.Gosched()
	verifYieldSleep  uint32 // probability (per 1024) of a short sleep
	verifYieldMaxUs  uint32 // max sleep in microseconds
	verifYieldHits   uint64
)

// VerifYieldConfig seeds the amplifier for one case. seed 0 disables it.
func VerifYieldConfig(seed uint64, goschedPer1024, sleepPer1024, maxSleepUs uint32) {
	atomic.StoreUint32(&verifYieldGosch, goschedPer1024)
	atomic.StoreUint32(&verifYieldSleep, sleepPer1024)
	atomic.StoreUint32(&verifYieldMaxUs, maxSleepUs)
	atomic.StoreUint64(&verifYieldState, seed)
}

// VerifYieldHits returns how many yield points were executed since process start.
func VerifYieldHits() uint64 { return atomic.LoadUint64(&verifYieldHits) }

// VerifYield is a possible rescheduling point.
func VerifYield(site int) {
	if atomic.LoadUint64(&verifYieldState) == 0 {
		return
	}
	atomic.AddUint64(&verifYieldHits, 1)
	z := atomic.AddUint64(&verifYieldState, 0x9e3779b97f4a7c15) + uint64(site)*0xbf58476d1ce4e5b9
	z = (z ^ (z >> 30)) * 0xbf58476d1ce4e5b9
	z = (z ^ (z >> 27)) * 0x94d049bb133111eb
	z ^= z >> 31
	r := uint32(z & 1023)
	g := atomic.LoadUint32(&verifYieldGosch)
	s := atomic.LoadUint32(&verifYieldSleep)
	switch {
	case r < g:
		runtime.Gosched()
	case r < g+s:
		mx := atomic.LoadUint32(&verifYieldMaxUs)
		if mx == 0 {
			mx = 1
		}
		time.Sleep(time.Duration(1+uint32(z>>32)%mx) * time.Microsecond)
	}
}
