// Virtual-clock replacement for core/timex/relativetime.go, substituted by the
// -overlay flag in checks that need to place events exactly on bucket / timeout
// boundaries.  Unfrozen it behaves exactly like the original.  (No build tag: the
// overlay replaces the only definition of Now/Since in the package.)

package timex

import (
	"sync/atomic"
	"time"
)

// Use the long enough past time as start time, in case timex.Now() - lastTime equals 0.
var initTime = time.Now().AddDate(-1, -1, -1)

var (
	verifFrozen int32
	verifNow    int64
)

// VerifFreeze stops the relative clock at t.
func VerifFreeze(t time.Duration) {
	atomic.StoreInt64(&verifNow, int64(t))
	atomic.StoreInt32(&verifFrozen, 1)
}

// VerifAdvance moves the frozen clock forward by d.
func VerifAdvance(d time.Duration) { atomic.AddInt64(&verifNow, int64(d)) }

// VerifUnfreeze returns to the wall clock.
func VerifUnfreeze() { atomic.StoreInt32(&verifFrozen, 0) }

// Now returns a relative time duration since initTime, which is not important.
// The caller only needs to care about the relative value.
func Now() time.Duration {
	if atomic.LoadInt32(&verifFrozen) == 1 {
		return time.Duration(atomic.LoadInt64(&verifNow))
	}
	return time.Since(initTime)
}

// Since returns a diff since given d.
func Since(d time.Duration) time.Duration {
	return Now() - d
}
