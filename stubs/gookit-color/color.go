// Package color is a local stand-in for github.com/gookit/color, which is not in the offline
// module cache.  goctl uses it only for console colouring (util/console, util/pathx); the API
// formatter / parser / scanner checked by C20 never reach it.  Output is returned uncoloured.
package color

import "fmt"

// Color is a terminal colour code.
type Color uint8

// The colours goctl refers to.
const (
	Bold Color = iota + 1
	BgRed
	LightCyan
	LightGreen
	LightYellow
	LightRed
)

// Sprintf formats without colouring.
func (c Color) Sprintf(format string, a ...any) string { return fmt.Sprintf(format, a...) }

// Render renders the arguments without colouring.
func (c Color) Render(a ...any) string { return fmt.Sprint(a...) }

// Style is a set of colours.
type Style []Color

// New builds a Style.
func New(colors ...Color) Style { return Style(colors) }

// Render renders the arguments without colouring.
func (s Style) Render(a ...any) string { return fmt.Sprint(a...) }

// Sprintf formats without colouring.
func (s Style) Sprintf(format string, a ...any) string { return fmt.Sprintf(format, a...) }
