// Package structtag is a local stand-in for github.com/fatih/structtag, which is not in the
// offline module cache.  goctl reaches it only from api/spec tag parsing (spec.Parse), which the
// formatter / parser / scanner paths checked by C20 do not call.  The implementation below follows
// reflect.StructTag's conventions closely enough for goctl to build and for spec.Parse to work on
// well-formed tags.
package structtag

import (
	"errors"
	"strconv"
	"strings"
)

// Tag is one key:"name,opt1,opt2" element.
type Tag struct {
	Key     string
	Name    string
	Options []string
}

// Tags is a parsed struct tag.
type Tags struct{ tags []*Tag }

// Tags returns the parsed elements.
func (t *Tags) Tags() []*Tag { return t.tags }

var errSyntax = errors.New("bad syntax for struct tag")

// Parse parses a struct tag.
func Parse(tag string) (*Tags, error) {
	var out Tags
	for tag != "" {
		i := 0
		for i < len(tag) && tag[i] == ' ' {
			i++
		}
		tag = tag[i:]
		if tag == "" {
			break
		}
		i = 0
		for i < len(tag) && tag[i] > ' ' && tag[i] != ':' && tag[i] != '"' && tag[i] != 0x7f {
			i++
		}
		if i == 0 || i+1 >= len(tag) || tag[i] != ':' || tag[i+1] != '"' {
			return nil, errSyntax
		}
		key := tag[:i]
		tag = tag[i+1:]
		i = 1
		for i < len(tag) && tag[i] != '"' {
			if tag[i] == '\\' {
				i++
			}
			i++
		}
		if i >= len(tag) {
			return nil, errSyntax
		}
		qvalue := tag[:i+1]
		tag = tag[i+1:]
		value, err := strconv.Unquote(qvalue)
		if err != nil {
			return nil, errSyntax
		}
		parts := strings.Split(value, ",")
		out.tags = append(out.tags, &Tag{Key: key, Name: parts[0], Options: parts[1:]})
	}
	return &out, nil
}
