#!/bin/bash
# tools/seed_setup.sh <ID> <variant>: scratch worktree + prompt for an independent seeding sub-agent.
# Creates /tmp/seed-<ID><variant>/{wt,out,prompt.txt}; for C20 also the goctl modfile and copies of the
# two stand-in modules (so that the agent needs nothing from /verif).
set -e
ID=$1; V=$2; N=$ID$V; D=/tmp/seed-$N
git -C /repo worktree remove --force $D/wt 2>/dev/null || true
rm -rf $D; mkdir -p $D/out
git -C /repo worktree add -f $D/wt HEAD >/dev/null 2>&1
if [ "$ID" = C20 ]; then
  cp -r /verif/stubs $D/stubs
  { cat /repo/tools/goctl/go.mod; echo; echo "replace github.com/zeromicro/go-zero => $D/wt";
    echo "replace github.com/gookit/color => $D/stubs/gookit-color";
    echo "replace github.com/fatih/structtag => $D/stubs/fatih-structtag"; } > $D/goctl.go.mod
  sort -u /repo/tools/goctl/go.sum /repo/go.sum > $D/goctl.go.sum
fi
python3 /verif/tools/seed_prompt.py $ID $V > $D/prompt.txt
echo $D/prompt.txt
