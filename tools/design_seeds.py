#!/usr/bin/env python3
"""Refresh the seeded-change table inside DESIGN.md (between the seeded-table markers)."""
import os, subprocess, sys
V = os.path.dirname(os.path.dirname(os.path.abspath(__file__)))
tab = subprocess.run([sys.executable, os.path.join(V, "tools", "seedtable.py")], stdout=subprocess.PIPE, text=True).stdout
p = os.path.join(V, "DESIGN.md")
s = open(p).read()
b, e = "<!-- seeded-table:begin -->", "<!-- seeded-table:end -->"
i, j = s.index(b) + len(b), s.index(e)
open(p, "w").write(s[:i] + "\n" + tab.strip() + "\n" + s[j:])
