#!/usr/bin/env python3
"""Render the table of independently seeded changes (seeded/*/meta.json) as markdown."""
import glob, json, os, re
V = os.path.dirname(os.path.dirname(os.path.abspath(__file__)))
rows = []
for mp in sorted(glob.glob(os.path.join(V, "seeded", "*", "meta.json"))):
    m = json.load(open(mp))
    name = m["name"]
    notes = ""
    np_ = os.path.join(os.path.dirname(mp), "notes.md")
    what = ""
    if os.path.exists(np_):
        txt = open(np_).read()
        # first non-heading paragraph line
        for line in txt.splitlines():
            l = line.strip()
            if l and not l.startswith("#") and len(l) > 30:
                what = re.sub(r"\s+", " ", l)[:170]
                break
    hist = m.get("history", [])
    first = hist[0] if hist else None
    first_caught = first["caught"] if first else m.get("caught")
    now = m.get("caught")
    unit = ""
    for l in (m.get("check", {}).get("verdict_lines") or []):
        mm = re.search(r"replays/[^/]+/([^_]+(?:-[a-z]+)*)__", l)
        if mm:
            unit = mm.group(1)
            break
    steps = m.get("steps", {})
    confirmed = all(steps.get(k) for k in ("patch_applies", "own_tests_pass_with_patch", "demo_fails_with_patch", "demo_passes_without_patch"))
    rows.append((name, m["property"], ", ".join(m.get("touched_files", []))[:70], what, "yes" if confirmed else "NO", 
                 "caught" if first_caught else "missed", "caught (%s, %s)" % (m.get("check", {}).get("tier"), unit) if now else "MISSED"))
print("| seed | property | file | change (from the seeder's notes) | confirmed (own tests pass, demo fails/passes) | first run | after strengthening |")
print("|---|---|---|---|---|---|---|")
for r in rows:
    print("| " + " | ".join(r) + " |")
tot = len(rows); c0 = sum(1 for r in rows if r[5] == "caught"); c1 = sum(1 for r in rows if r[6].startswith("caught"))
print("\n%d seeded changes; %d caught on the first run, %d caught now." % (tot, c0, c1))
