#!/usr/bin/env python3
"""Print the prompt for an independent mutation-seeding sub-agent (property text only; nothing from /verif)."""
import json, sys
pid, variant = sys.argv[1], (sys.argv[2] if len(sys.argv) > 2 else "a")
p = next(json.loads(l) for l in open('/verif/properties.jsonl') if json.loads(l)['id'] == pid)
wt = "/tmp/seed-%s%s/wt" % (pid, variant)
out = "/tmp/seed-%s%s/out" % (pid, variant)
hint = {
 "a": "Prefer a change that needs a particular multi-step sequence of operations or an unusual input/configuration to manifest.",
 "b": "Prefer a change that needs a particular interleaving, a fault/crash at a particular point, or two cooperating edits at different sites that each look harmless alone.",
 "d": "Prefer a change whose effect appears only after a rarely exercised state transition: wrap-around, expiry, recovery after an error or outage, reconnect, restart, reuse of an object after a failure or after Close/Stop, or the second use of something cached, pooled or memoised. First use and fresh-object behaviour must stay identical to the original.",
 "e": "Prefer a change on an error, fault or cancellation path, or at an extreme of a legal argument range: behaviour differs only when a dependency fails at a particular point, a context is cancelled, a callback panics or returns a particular kind of error, or an argument/configuration value is zero, negative, maximal, empty or nil.",
 "f": "Prefer a change in which arithmetic, a comparison or boundary handling is subtly off (off-by-one, <= versus <, integer division or rounding, overflow or wrap-around, a unit conversion, an index or length computation), so that only specific values exactly at a boundary, or a specific size, manifest it; every value the existing tests use must behave as before.",
 "g": "Prefer a change that introduces cross-talk through shared mutable state: a package-level cache or pool, a shared buffer, aliasing of a slice or map, state kept per process or per instance where it must be per key / per call / per object (or the reverse). It must manifest only when two instances, keys, callers or calls are used together or one after the other in a particular way; a single instance used alone must behave exactly as before.",
 "h": "Prefer a change that only matters under a NON-DEFAULT configuration or a rarely used constructor option / functional option / config field (or a particular combination of two options), or that affects only ONE of several sibling entry points (the Ctx variant versus the plain one, a convenience wrapper, a bulk or batch variant, a package-level helper versus the method); with default configuration and through the most commonly used entry point everything must behave exactly as before.",
 "i": "Prefer a change in the LIFECYCLE of the mechanism: construction, lazy initialisation, Close/Stop/Drain/shutdown, use after close, closing twice, operations racing with close, re-creation under the same name or key, or state that should be reset (or must NOT be reset) when an object is reused. Steady-state behaviour of a freshly constructed object that is never closed must stay identical to the original.",
 "j": "Prefer a change in how TIME or ORDER is handled: a timestamp taken at the wrong moment (before instead of after an operation), a deadline/TTL/interval computed from the wrong base, events handled in the wrong order when two arrive in the same tick/batch, a result published before the state it describes is complete, or a stale snapshot used after an update. It must need a specific ordering or a specific time gap to manifest; the orders and gaps the existing tests use must behave as before.",
 "k": "Prefer a change that only matters for LEGAL BUT UNUSUAL BEHAVIOUR OF THE CALLER'S OWN CODE: a user-supplied callback, handler, loader or function argument that calls back into the same object or package from inside the callback (re-entrancy), hands over its result early and keeps running, is still running when the next step of the mechanism starts, calls a cancel/finish/return function twice or late, returns a typed-nil or wrapped or sentinel error, panics with an unusual value, or passes nil / empty / zero / aliased arguments that the documentation allows. Ordinary callbacks that just compute and return must behave exactly as before.",
 "l": "Prefer a change that only matters at SCALE or after a long history: a size, count or duration far larger than anything the existing tests use (thousands of keys or items in flight, a buffer or batch that grows past a threshold, a counter that wraps, a capacity that is reached only after many operations, a history long enough for a cache, pool, free-list or compaction step to kick in), where small and short uses behave exactly as before. Avoid thresholds so large that a test would need more than a few seconds or more than a few hundred MB to reach them.",
 "c": "Prefer a change in one of the *secondary* files listed below (a call site, wrapper, middleware, interceptor, adapter, helper or convenience entry point of the mechanism) rather than in its core data structure, and one that needs an unusual but legal input, configuration or sequence to manifest.",
}
hint = dict(hint, m=hint["b"], n=hint["e"], o=hint["g"])[variant]  # m, n, o: re-draws of b, e, g after the strengthening of sessions 4-5
extra = ""
if pid == "C20":
    extra = ("\nBuild note for this property only: the code lives in the nested Go module %s/tools/goctl, which cannot resolve all of its dependencies offline by itself. "
             "Run every go command for it from inside %s/tools/goctl with the extra flag `-modfile /tmp/seed-%s%s/goctl.go.mod` (already prepared; do not edit it), e.g. "
             "`go test -modfile /tmp/seed-%s%s/goctl.go.mod -vet=off -count=1 ./pkg/parser/api/...`. Put your demonstration test inside one of those packages.\n") % (wt, wt, pid, variant, pid, variant)
print(f"""You are helping evaluate a verification effort by playing the adversary. You work ONLY inside your own scratch git worktree of the Go repository zeromicro/go-zero at {wt} (a checkout of the current HEAD). Never touch /repo or /verif, and never read anything under /verif.

The property under attack ({pid}: {p['title']}):

STATEMENT: {p['statement']}

QUANTIFIED OVER: {p['quantifier']['text']}

Code that is meant to make it hold lives (mainly) in: {', '.join(p['anchors']['files'])}
{extra}
Your task: craft ONE realistic change to the go-zero source (not to its tests) — the kind of regression a plausible refactoring, optimisation or "small fix" could introduce — such that
  1. the repository still compiles and the EXISTING unit tests of every package you touched (and of the packages that directly use the changed code) still pass, and
  2. the property above is violated, but only under specific circumstances: {hint} It must NOT be something ordinary use or the existing tests expose at once.
Keep the change small (ideally < 25 changed lines) and plausible. Do not just delete the feature.

Then write a demonstration: a Go test file (placed in the relevant package of the worktree, name it zz_seed_demo_test.go) or a small program, that deterministically (or with overwhelming probability within a few seconds) FAILS with your change applied and PASSES on the unchanged code, and that fails *because the property's statement is violated* (say which clause).

Procedure and rules:
- Every shell call must `export GOFLAGS=-mod=mod GOPROXY=off GOSUMDB=off GOTOOLCHAIN=local`; there is no network. Run tests with `go test -vet=off -count=1 ./path/to/pkg/`. If `git status` shows go.sum modified by the go tool, restore it (`git checkout go.sum`).
- First read the relevant code and its existing tests so your change slips past them. Verify claim 1 by actually running those tests with your change; verify the demonstration both ways (with the change: fails; revert the source change with `git apply -R` of your diff (do NOT use `git stash`: the stash is shared between all worktrees of this repository and other people are using it): passes).
- Deliver into {out}/ (create it): `patch.diff` (output of `git diff` for the SOURCE change only, without the demo file; must apply with `git apply` on a clean checkout of the same HEAD), the demonstration file(s) copied there, and `notes.md` containing: what the change is and why it is plausible; which clause of the statement it breaks; exactly what is needed for it to manifest (sequence / input / interleaving / fault point); the exact commands you ran and their outcomes (existing tests with the change: pass; demo with change: FAIL; demo without: PASS).
- Leave the worktree with your source change reverted (clean `git status` except possibly the untracked demo file).
Final answer: a 5-line summary (what, where, what it needs to manifest, commands verified).""")
