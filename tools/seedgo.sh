#!/bin/bash
# tools/seedgo.sh <name>...: confirm + run each finished seed, one summary line each
export GOFLAGS=-mod=mod GOPROXY=off GOSUMDB=off GOTOOLCHAIN=local
cd /verif; mkdir -p work
for n in "$@"; do
  id=${n:0:3}
  python3 tools/seedrun.py $n $id > work/seedrun_$n.log 2>&1
  python3 - "$n" <<'PY'
import json,sys
n=sys.argv[1]
try:
    m=json.load(open('/verif/seeded/%s/meta.json'%n))
except Exception as e:
    print(n,'NO META',e); sys.exit()
st=m.get('steps',{})
conf='confirmed' if all(st.get(k) for k in ('patch_applies','own_tests_pass_with_patch','demo_fails_with_patch','demo_passes_without_patch')) else 'NOT-CONFIRMED %s'%st
c=m.get('check',{})
print('== %s %s | exit %s wall %s | %s'%(n,conf,c.get('exit'),c.get('wall_s'),(c.get('first_failure') or '')[:240]))
PY
done
