// yieldinject copies a Go source file and inserts a call to lang.VerifYield(site) before every
// statement that contains a channel send/receive, a select, a go statement, or a call to a
// method named Lock/Unlock/RLock/RUnlock/Wait/Done/Add/Signal/Broadcast/Load/Store/CompareAndSwap
// (DESIGN §1.4: schedule amplifier).  The copy is produced from the *current* working-tree
// file, so a mutated file is instrumented as mutated.  stdlib only.
//
//	yieldinject <in.go> <out.go> <siteBase>
package main

import (
	"bytes"
	"fmt"
	"go/ast"
	"go/format"
	"go/parser"
	"go/token"
	"os"
	"strconv"
)

var syncNames = map[string]bool{"Lock": true, "Unlock": true, "RLock": true, "RUnlock": true, "Wait": true,
	"Done": true, "Add": true, "Signal": true, "Broadcast": true, "Load": true, "Store": true,
	"CompareAndSwap": true, "Set": true, "True": true}

const alias = "verifyieldlang"

func interesting(n ast.Node) bool {
	found := false
	ast.Inspect(n, func(x ast.Node) bool {
		if found {
			return false
		}
		switch v := x.(type) {
		case *ast.FuncLit:
			return false // statements inside closures are handled when their own block is visited
		case *ast.SendStmt, *ast.SelectStmt, *ast.GoStmt:
			found = true
		case *ast.UnaryExpr:
			if v.Op == token.ARROW {
				found = true
			}
		case *ast.CallExpr:
			if sel, ok := v.Fun.(*ast.SelectorExpr); ok && syncNames[sel.Sel.Name] {
				found = true
			}
			if id, ok := v.Fun.(*ast.Ident); ok && id.Name == "close" {
				found = true
			}
		case *ast.RangeStmt:
			found = true // may range over a channel; cheap to yield anyway
		}
		return true
	})
	return found
}

var site int

func yieldStmt() ast.Stmt {
	site++
	return &ast.ExprStmt{X: &ast.CallExpr{
		Fun:  &ast.SelectorExpr{X: ast.NewIdent(alias), Sel: ast.NewIdent("VerifYield")},
		Args: []ast.Expr{&ast.BasicLit{Kind: token.INT, Value: strconv.Itoa(site)}},
	}}
}

func instrumentList(list []ast.Stmt) []ast.Stmt {
	for _, s := range list {
		switch s.(type) {
		case *ast.CaseClause, *ast.CommClause:
			return list // body of a switch/select: only the clauses' own bodies are instrumented
		}
	}
	var out []ast.Stmt
	for _, s := range list {
		switch s.(type) {
		case *ast.DeclStmt, *ast.LabeledStmt, *ast.EmptyStmt:
			out = append(out, s)
			continue
		}
		// composite statements: yield before them only when their header (not body) is interesting
		hdr := ast.Node(s)
		switch v := s.(type) {
		case *ast.BlockStmt:
			hdr = nil
		case *ast.IfStmt:
			hdr = &ast.BlockStmt{List: nonNil(v.Init, exprStmt(v.Cond))}
		case *ast.ForStmt:
			hdr = &ast.BlockStmt{List: nonNil(v.Init)}
		case *ast.SwitchStmt:
			hdr = &ast.BlockStmt{List: nonNil(v.Init, exprStmt(v.Tag))}
		case *ast.TypeSwitchStmt:
			hdr = nil
		case *ast.RangeStmt:
			hdr = &ast.BlockStmt{List: nonNil(exprStmt(v.X))}
		case *ast.DeferStmt:
			hdr = nil // do not reorder defers' registration; the deferred body is a FuncLit handled separately
		}
		hit := hdr != nil && interesting(hdr)
		if hit {
			out = append(out, yieldStmt())
		}
		out = append(out, s)
		if hit {
			// also yield right after simple (non-terminating) statements: stretches the window
			// between e.g. an Unlock or a channel operation and whatever follows
			switch s.(type) {
			case *ast.ExprStmt, *ast.AssignStmt, *ast.SendStmt, *ast.IncDecStmt, *ast.GoStmt:
				if !isPanicCall(s) {
					out = append(out, yieldStmt())
				}
			}
		}
	}
	return out
}

func isPanicCall(s ast.Stmt) bool {
	es, ok := s.(*ast.ExprStmt)
	if !ok {
		return false
	}
	c, ok := es.X.(*ast.CallExpr)
	if !ok {
		return false
	}
	id, ok := c.Fun.(*ast.Ident)
	return ok && id.Name == "panic"
}

func exprStmt(e ast.Expr) ast.Stmt {
	if e == nil {
		return nil
	}
	return &ast.ExprStmt{X: e}
}

func nonNil(ss ...ast.Stmt) []ast.Stmt {
	var out []ast.Stmt
	for _, s := range ss {
		if s != nil {
			// typed-nil guard
			switch v := s.(type) {
			case *ast.ExprStmt:
				if v == nil || v.X == nil {
					continue
				}
			}
			out = append(out, s)
		}
	}
	return out
}

func main() {
	if len(os.Args) != 4 {
		fmt.Fprintln(os.Stderr, "usage: yieldinject in.go out.go siteBase")
		os.Exit(2)
	}
	base, _ := strconv.Atoi(os.Args[3])
	site = base
	fset := token.NewFileSet()
	f, err := parser.ParseFile(fset, os.Args[1], nil, parser.ParseComments)
	if err != nil {
		fmt.Fprintln(os.Stderr, err)
		os.Exit(1)
	}
	ast.Inspect(f, func(n ast.Node) bool {
		switch v := n.(type) {
		case *ast.BlockStmt:
			v.List = instrumentList(v.List)
		case *ast.CaseClause:
			v.Body = instrumentList(v.Body)
		case *ast.CommClause:
			v.Body = instrumentList(v.Body)
		}
		return true
	})
	if site > base {
		// add the import
		imp := &ast.ImportSpec{Name: ast.NewIdent(alias), Path: &ast.BasicLit{Kind: token.STRING, Value: `"github.com/zeromicro/go-zero/core/lang"`}}
		decl := &ast.GenDecl{Tok: token.IMPORT, Specs: []ast.Spec{imp}}
		f.Decls = append([]ast.Decl{decl}, f.Decls...)
		f.Imports = append(f.Imports, imp)
	}
	var buf bytes.Buffer
	if err := format.Node(&buf, fset, f); err != nil {
		fmt.Fprintln(os.Stderr, err)
		os.Exit(1)
	}
	if err := os.WriteFile(os.Args[2], buf.Bytes(), 0o644); err != nil {
		fmt.Fprintln(os.Stderr, err)
		os.Exit(1)
	}
	fmt.Printf("%d\n", site-base)
}
