module verif/yieldinject

go 1.21
