#!/usr/bin/env python3
"""Confirm an independently seeded change and run the property's check against it.

  tools/seedrun.py <name> <ID> [--tier thorough] [--keep]

<name> e.g. C12a: the sub-agent's deliverables are in /tmp/seed-<name>/out (patch.diff, notes.md,
demo file) and its worktree /tmp/seed-<name>/wt holds the untracked demo file at its package path.
Steps: fresh scratch worktree of /repo HEAD; apply patch; own tests of the touched packages must
pass; demo must FAIL with the patch and PASS without; then `./check <ID>` with VERIF_REPO pointing
at the patched worktree.  Results go to /verif/seeded/<name>/ (patch.diff, demo, notes.md, meta.json).
Nothing is ever applied to /repo.
"""
import json, os, shutil, subprocess, sys, time

V = os.path.dirname(os.path.dirname(os.path.abspath(__file__)))
ENV = dict(os.environ, GOFLAGS="-mod=mod", GOPROXY="off", GOSUMDB="off", GOTOOLCHAIN="local")


def sh(cmd, cwd=None, env=None, timeout=1800):
    r = subprocess.run(cmd, cwd=cwd, env=env or ENV, shell=isinstance(cmd, str), stdout=subprocess.PIPE,
                       stderr=subprocess.STDOUT, text=True, errors="replace", timeout=timeout)
    return r.returncode, r.stdout


def main():
    name, pid = sys.argv[1], sys.argv[2]
    tier = "thorough" if "--tier" in sys.argv and sys.argv[sys.argv.index("--tier") + 1] == "thorough" else "quick"
    src = "/tmp/seed-%s" % name
    out = os.path.join(src, "out")
    wt = "/tmp/seedrun-%s" % name
    dst = os.path.join(V, "seeded", name)
    os.makedirs(dst, exist_ok=True)
    meta = {"name": name, "property": pid, "ran_at": time.strftime("%Y-%m-%d %H:%M:%S"), "steps": {}}
    patch = os.path.join(out, "patch.diff")
    demo_src = {}  # repo-relative demo path -> file to copy from
    if os.path.exists(patch) and os.path.isdir(os.path.join(src, "wt")):
        # locate demo files: untracked files in the agent's worktree
        rc, o = sh("git status --porcelain --untracked-files=all", cwd=os.path.join(src, "wt"))
        for l in o.splitlines():
            if l.startswith("?? ") and l.endswith(".go"):
                demo_src[l[3:]] = os.path.join(src, "wt", l[3:])
    elif os.path.exists(os.path.join(dst, "patch.diff")):
        # re-run of an already recorded seed: everything is under /verif/seeded/<name>
        patch = os.path.join(dst, "patch.diff.rerun")
        shutil.copy(os.path.join(dst, "patch.diff"), patch)
        out = dst
        old = json.load(open(os.path.join(dst, "meta.json")))
        for d in old.get("demo_files", []):
            demo_src[d] = os.path.join(dst, os.path.basename(d) + ".keep")
            shutil.copy(os.path.join(dst, os.path.basename(d)), demo_src[d])
    else:
        print("no patch.diff in", out)
        return 2
    demos = sorted(demo_src)
    sh("git -C /repo worktree remove --force %s" % wt)
    rc, o = sh("git -C /repo worktree add -f %s HEAD" % wt)
    if rc != 0:
        print(o)
        return 2
    head = sh("git -C /repo rev-parse --short HEAD")[1].strip()
    meta["repo_head"] = head
    try:
        rc, o = sh("git apply %s" % patch, cwd=wt)
        meta["steps"]["patch_applies"] = rc == 0
        if rc != 0:
            print("patch does not apply:", o)
            json.dump(meta, open(os.path.join(dst, "meta.json"), "w"), indent=1)
            return 2
        rc, o = sh("git diff --name-only", cwd=wt)
        touched = [l for l in o.splitlines() if l.endswith(".go") or l.endswith(".lua")]
        pkgs = sorted({"./" + os.path.dirname(f) + "/" for f in touched})
        meta["touched_files"] = touched
        goctl = any(f.startswith("tools/goctl/") for f in touched)
        modflag = ""
        cwd = wt
        if goctl:
            modflag = "-modfile %s/goctl.go.mod " % src
            cwd = os.path.join(wt, "tools/goctl")
            pkgs = sorted({"./" + os.path.dirname(f)[len("tools/goctl/"):] + "/" for f in touched})
        # existing tests of touched packages (and rest/zrpc users are left to the agent's claim)
        rc, o = sh("go build %s./... 2>&1 | tail -5" % modflag if not goctl else "go build %s./pkg/parser/api/... 2>&1 | tail -5" % modflag, cwd=cwd)
        rc, o = sh("go test %s-vet=off -count=1 -timeout 600s %s 2>&1 | tail -15" % (modflag, " ".join(pkgs)), cwd=cwd)
        own_ok = "FAIL" not in o and "panic:" not in o
        meta["steps"]["own_tests_pass_with_patch"] = own_ok
        meta["own_tests_output"] = o[-1500:]
        # demo with patch
        demo_with = demo_without = None
        for d in demos:
            os.makedirs(os.path.dirname(os.path.join(wt, d)), exist_ok=True)
            shutil.copy(demo_src[d], os.path.join(wt, d))
            if os.path.abspath(demo_src[d]) != os.path.abspath(os.path.join(dst, os.path.basename(d)) + ".keep"):
                shutil.copy(demo_src[d], os.path.join(dst, os.path.basename(d)))
        if demos:
            dpk = sorted({"./" + os.path.dirname(d) + "/" for d in demos})
            if goctl:
                dpk = sorted({"./" + os.path.dirname(d)[len("tools/goctl/"):] + "/" for d in demos})
            cmd = "go test %s-vet=off -count=1 -timeout 600s -run 'Seed|seed|Demo|demo' %s 2>&1 | tail -25" % (modflag, " ".join(dpk))
            rc, o1 = sh(cmd, cwd=cwd)
            demo_with = ("FAIL" in o1 or "panic:" in o1)
            sh("git apply -R %s" % patch, cwd=wt)
            rc, o2 = sh(cmd, cwd=cwd)
            demo_without = ("FAIL" not in o2 and "panic:" not in o2 and ("ok" in o2))
            sh("git apply %s" % patch, cwd=wt)
            meta["demo_output_with_patch"] = o1[-1500:]
            meta["demo_output_without_patch"] = o2[-600:]
            for d in demos:
                os.remove(os.path.join(wt, d))
        meta["steps"]["demo_fails_with_patch"] = demo_with
        meta["steps"]["demo_passes_without_patch"] = demo_without
        meta["demo_files"] = demos
        # the check
        env = dict(ENV, VERIF_REPO=wt, VERIF_TAG="-seed-" + name)
        t0 = time.time()
        rc, o = sh([os.path.join(V, "check"), pid, "--tier", tier], cwd=V, env=env, timeout=7200)
        lines = [l for l in o.splitlines() if l.startswith(("VIOLATION", "OK ", "INFRA", "KNOWN-FINDING"))]
        meta["check"] = {"tier": tier, "exit": rc, "wall_s": round(time.time() - t0, 1), "verdict_lines": lines[:6],
                         "first_failure": next((l.strip()[:600] for l in o.splitlines() if "failed after" in l or "flaky test" in l), None),
                         "failure_lines": [l.strip()[:400] for l in o.splitlines() if ("raceback (" in l or ("_test.go:" in l and "[rapid]" not in l and "\t" not in l))][:8]}
        meta["caught"] = rc == 1
    finally:
        sh("git -C /repo worktree remove --force %s" % wt)
        sh("git -C /repo worktree prune")
        shutil.rmtree(os.path.join(V, "build", pid + "-seed-" + name), ignore_errors=True)
        shutil.rmtree(os.path.join(V, "work", pid + "-seed-" + name), ignore_errors=True)
        shutil.rmtree(os.path.join(V, "replays", pid + "-seed-" + name), ignore_errors=True)
    if patch.endswith(".rerun"):
        os.remove(patch)
        for d in demos:
            k = os.path.join(dst, os.path.basename(d) + ".keep")
            if os.path.exists(k):
                os.remove(k)
    else:
        shutil.copy(patch, os.path.join(dst, "patch.diff"))
        if os.path.exists(os.path.join(out, "notes.md")):
            shutil.copy(os.path.join(out, "notes.md"), os.path.join(dst, "notes.md"))
    # keep earlier tier results
    mp = os.path.join(dst, "meta.json")
    if os.path.exists(mp):
        try:
            old = json.load(open(mp))
            meta.setdefault("history", old.get("history", []))
            if "check" in old:
                meta["history"].append({"ran_at": old.get("ran_at"), "check": old["check"], "caught": old.get("caught")})
        except Exception:
            pass
    json.dump(meta, open(mp, "w"), indent=1)
    print(json.dumps({k: meta[k] for k in ("name", "property", "steps", "caught")}, indent=1))
    print(meta.get("check"))
    return 0


if __name__ == "__main__":
    sys.exit(main())
