#!/usr/bin/env python3
"""Rewrite the block between <!-- seeded-table:begin --> and <!-- seeded-table:end --> in DESIGN.md."""
import os, subprocess, re
V = os.path.dirname(os.path.dirname(os.path.abspath(__file__)))
tab = subprocess.run(["python3", os.path.join(V, "tools", "seedtable.py")], stdout=subprocess.PIPE, text=True).stdout.strip("\n")
p = os.path.join(V, "DESIGN.md")
s = open(p).read()
a, b = s.index("<!-- seeded-table:begin -->"), s.index("<!-- seeded-table:end -->")
s = s[:a] + "<!-- seeded-table:begin -->\n" + tab + "\n" + s[b:]
open(p, "w").write(s)
print(tab.splitlines()[-1])
