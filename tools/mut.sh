#!/bin/bash
# usage: mut.sh <ID> <file-rel-to-repo> <python-regex-or-literal old> <new> [extra check args]
# Applies a one-off textual mutation to the scratch worktree /tmp/mut, runs the package's own tests
# (to show they still pass) and the check, then reverts.  Development aid, not part of any check.
ID=$1; F=$2; OLD=$3; NEW=$4; shift 4
M=${MUT_DIR:-/tmp/mut}
[ -d "$M" ] || git -C /repo worktree add -f "$M" HEAD >/dev/null 2>&1
TAGN=-$(basename $M)
export GOFLAGS=-mod=mod GOPROXY=off GOSUMDB=off GOTOOLCHAIN=local
python3 - "$M/$F" "$OLD" "$NEW" <<'PY' || exit 3
import sys
p,old,new=sys.argv[1:4]
s=open(p).read()
if s.count(old)!=1:
    print("pattern count",s.count(old)); sys.exit(1)
open(p,'w').write(s.replace(old,new))
PY
if [ -z "$SKIP_OWN" ]; then
( cd $M/$(dirname $F) && go test -vet=off -count=1 -timeout 90s . 2>&1 | tail -3 )
fi
( cd /verif && VERIF_REPO=$M VERIF_TAG=$TAGN ./check $ID "$@" 2>&1 | grep -E "VIOLATION|^OK|INFRA|Fatalf|\.go:[0-9]+:" | head -${MUT_LINES:-8} )
git -C $M checkout -- . 
