#!/usr/bin/env python3
"""Regenerate MANIFEST.json's checks/not_applicable from checks/*/check.json (+ manifest fields there)."""
import json, glob, os
V = os.path.dirname(os.path.dirname(os.path.abspath(__file__)))
m = json.load(open(os.path.join(V, "MANIFEST.json")))
props = [json.loads(l) for l in open(os.path.join(V, "properties.jsonl"))]
na_path = os.path.join(V, "not_applicable.json")
na = json.load(open(na_path)) if os.path.exists(na_path) else {}
claimed = set(open(os.path.join(V, "claimed.txt")).read().split())  # ids whose checks are finished and reviewed
checks, notapp, served = [], [], []
for p in props:
    pid = p["id"]
    cp = os.path.join(V, "checks", pid, "check.json")
    if os.path.exists(cp) and pid in claimed:
        c = json.load(open(cp))
        mf = c.get("manifest", {})
        checks.append({
            "property_id": pid,
            "quick_cmd": "./check %s --tier quick" % pid,
            "thorough_cmd": "./check %s --tier thorough" % pid,
            "evidence_file": "/verif/evidence/%s.json" % pid,
            "replay_cmd_template": "./check %s --replay {path}" % pid,
            "engine": "check",
            "level_claimed": {"category": c.get("level", "exploration"),
                              "text": mf.get("level_text", "generated-input search against an explicit oracle; finds violations, never proves absence"),
                              "design_ref": mf.get("design_ref", "DESIGN.md §4 " + pid)},
            "level_note": mf.get("level_note", "; ".join(c.get("assumptions", []))),
            "technique": mf.get("technique", "property-based testing (rapid)"),
        })
        served.append(pid)
    else:
        notapp.append({"property_id": pid, "reason": na.get(pid, "check not built yet in this session (planned in DESIGN.md §4); not claimed until its machinery exists")})
m["checks"] = checks
m["not_applicable"] = notapp
m["engines"][0]["serves_properties"] = served
json.dump(m, open(os.path.join(V, "MANIFEST.json"), "w"), indent=1)
print("claimed:", served)
