#!/usr/bin/env python3
"""Statement coverage of a property's anchored files by its check (development aid, not a verdict).

  tools/anchorcov.py <ID> [--tier quick|thorough] [--min-lines N]

Runs `./check <ID>` with VERIF_TAG=-cover VERIF_COVER=<packages of the anchored .go files> (scratch
build/work dirs, committed evidence untouched), merges the per-job cover profiles and prints, per
anchored file, covered/total statements and the uncovered blocks (with their source lines), so that
behaviour behind the property that no unit drives shows up as a list instead of a guess.
Output also goes to build/<ID>-cover/anchorcov.txt.
"""
import glob, json, os, subprocess, sys

V = os.path.dirname(os.path.dirname(os.path.abspath(__file__)))
REPO = os.environ.get("VERIF_REPO", "/repo")
MOD = "github.com/zeromicro/go-zero"


def main():
    pid = sys.argv[1]
    tier = sys.argv[sys.argv.index("--tier") + 1] if "--tier" in sys.argv else "quick"
    p = next(json.loads(l) for l in open(os.path.join(V, "properties.jsonl")) if json.loads(l)["id"] == pid)
    files = [f for f in p["anchors"]["files"] if f.endswith(".go")]
    extra = sys.argv[sys.argv.index("--also") + 1].split(",") if "--also" in sys.argv else []
    files += extra
    pkgs = sorted({MOD + "/" + os.path.dirname(f) for f in files})
    wt = "/tmp/anchorcov-%s" % pid
    subprocess.run("git -C /repo worktree remove --force %s; rm -rf %s; git -C /repo worktree add -f %s HEAD" % (wt, wt, wt),
                   shell=True, stdout=subprocess.DEVNULL, stderr=subprocess.DEVNULL)
    env = dict(os.environ, VERIF_TAG="-cover", VERIF_COVER=",".join(pkgs), VERIF_REPO=wt, GOFLAGS="-mod=mod", GOPROXY="off",
               GOSUMDB="off", GOTOOLCHAIN="local")
    try:
        r = subprocess.run([os.path.join(V, "check"), pid, "--tier", tier], cwd=V, env=env, stdout=subprocess.PIPE,
                           stderr=subprocess.STDOUT, text=True)
    finally:
        subprocess.run("git -C /repo worktree remove --force %s; git -C /repo worktree prune" % wt, shell=True,
                       stdout=subprocess.DEVNULL, stderr=subprocess.DEVNULL)
    tail = [l for l in r.stdout.splitlines() if l.startswith(("OK ", "VIOLATION", "INFRA"))]
    blocks = {}  # (file, "sl.sc,el.ec") -> [nstmt, count]
    for prof in glob.glob(os.path.join(V, "work", pid + "-cover", "*", "cover.out")):
        for l in open(prof):
            if l.startswith("mode:"):
                continue
            loc, n, c = l.rsplit(" ", 2)
            if "/zz_verif_" in loc or "/internal/verif" in loc:
                continue
            f, rng = loc.rsplit(":", 1)
            k = (f[len(MOD) + 1:], rng)
            b = blocks.setdefault(k, [int(n), 0])
            b[1] += int(c)
    out = ["# anchor coverage of %s (%s tier): %s" % (pid, tier, "; ".join(tail))]
    for f in files:
        bs = sorted(((rng, v) for (ff, rng), v in blocks.items() if ff == f),
                    key=lambda x: [int(y) for y in x[0].replace(",", ".").split(".")])
        tot = sum(v[0] for _, v in bs)
        cov = sum(v[0] for _, v in bs if v[1] > 0)
        if not bs:
            out.append("%-70s NOT INSTRUMENTED (package not linked into any binary of this check)" % f)
            continue
        out.append("%-70s %4d/%4d statements (%.0f%%)" % (f, cov, tot, 100.0 * cov / max(1, tot)))
        try:
            src = open(os.path.join(REPO, f)).read().splitlines()
        except OSError:
            src = []
        for rng, v in bs:
            if v[1] == 0:
                s, e = rng.split(",")
                sl, el = int(s.split(".")[0]), int(e.split(".")[0])
                first = src[sl - 1].strip() if 0 < sl <= len(src) else ""
                out.append("    uncovered %s:%d-%d (%d stmts)  %s" % (os.path.basename(f), sl, el, v[0], first[:110]))
    txt = "\n".join(out)
    print(txt)
    os.makedirs(os.path.join(V, "build", pid + "-cover"), exist_ok=True)
    open(os.path.join(V, "build", pid + "-cover", "anchorcov.txt"), "w").write(txt + "\n")
    return 0


if __name__ == "__main__":
    sys.exit(main())
