//go:build verif

package syncx_test

import (
	"errors"
	"fmt"
	"io"
	"runtime"
	"sort"
	"strings"
	"sync"
	"sync/atomic"
	"testing"
	"time"

	"github.com/zeromicro/go-zero/core/lang"
	"github.com/zeromicro/go-zero/core/syncx"
	"github.com/zeromicro/go-zero/internal/verifkit"
	"pgregory.net/rapid"
)

// ---------------------------------------------------------------- shared: plans, jitter, logical clock

var lclock int64

func tick() int64 { return atomic.AddInt64(&lclock, 1) }

// jitter plan: a generated micro-delay executed inside user callbacks / between calls
type jit struct{ kind, n int }

func (j jit) run() {
	switch j.kind {
	case 1:
		for i := 0; i < j.n; i++ {
			runtime.Gosched()
		}
	case 2:
		x := 0
		for i := 0; i < j.n*200; i++ {
			x += i
		}
		_ = x
	case 3:
		time.Sleep(time.Duration(j.n) * 10 * time.Microsecond)
	}
}

func genJit(t *rapid.T, label string) jit {
	return jit{rapid.IntRange(0, 3).Draw(t, label+"Kind"), rapid.IntRange(0, 30).Draw(t, label+"N")}
}

func configYield(t *rapid.T) {
	seed := rapid.Uint64Range(1, 1<<62).Draw(t, "yieldSeed")
	g := rapid.SampledFrom([]uint32{0, 50, 200, 500}).Draw(t, "yieldGosched")
	s := rapid.SampledFrom([]uint32{0, 20, 100}).Draw(t, "yieldSleep")
	lang.VerifYieldConfig(seed, g, s, 150)
}

type callPlan struct {
	key    int
	before jit
	inFn   jit
	fail   bool
	pan    bool // the function panics (the caller recovers, as a server's recover middleware would)
	ex     bool // use DoEx
}

type callRec struct {
	g, i     int
	key      int
	inv, ret int64
	val      any
	err      error
	fresh    bool
	hasFresh bool
	ownExec  int64 // execution token if this call's own fn ran (0 otherwise)
	ownRuns  int32
	panicked any // value recovered from the call, if it panicked
}

type execRec struct {
	token      int64
	key        int
	start, end int64
	err        error
	owner      *callRec
	panicked   bool // the function panicked: sharers of this execution receive (nil, nil)
}

func renderPlans(plans [][]callPlan) string {
	var b strings.Builder
	for g, pl := range plans {
		fmt.Fprintf(&b, "g%d:", g)
		for _, p := range pl {
			fmt.Fprintf(&b, " k%d/%d.%d/%d.%d/%v", p.key, p.before.kind, p.before.n, p.inFn.kind, p.inFn.n, p.fail)
			if p.pan {
				b.WriteString("/PANIC")
			}
		}
		b.WriteString("; ")
	}
	return b.String()
}

func genPlans(t *rapid.T) [][]callPlan {
	g := rapid.IntRange(2, 24).Draw(t, "goroutines")
	keys := rapid.IntRange(1, 3).Draw(t, "keys")
	per := rapid.IntRange(1, 6).Draw(t, "callsPerGoroutine")
	plans := make([][]callPlan, g)
	for i := range plans {
		for j := 0; j < per; j++ {
			plans[i] = append(plans[i], callPlan{
				key: rapid.IntRange(0, keys-1).Draw(t, "key"), before: genJit(t, "before"), inFn: genJit(t, "inFn"),
				fail: rapid.IntRange(0, 4).Draw(t, "fail") == 0, ex: rapid.Bool().Draw(t, "useDoEx"),
				pan: rapid.IntRange(0, 9).Draw(t, "panic") == 0,
			})
		}
	}
	return plans
}

var execSeq int64

// ---------------------------------------------------------------- SingleFlight

func checkSingleFlightHistory(calls []*callRec, execs []*execRec) (string, int) {
	byToken := map[int64]*execRec{}
	perKey := map[int][]*execRec{}
	for _, e := range execs {
		byToken[e.token] = e
		perKey[e.key] = append(perKey[e.key], e)
	}
	// 1. executions of one key are pairwise disjoint
	for k, es := range perKey {
		sort.Slice(es, func(i, j int) bool { return es[i].start < es[j].start })
		for i := 1; i < len(es); i++ {
			if es[i].start < es[i-1].end {
				return fmt.Sprintf("two executions for key k%d overlap: [%d,%d] and [%d,%d]", k, es[i-1].start, es[i-1].end, es[i].start, es[i].end), 0
			}
		}
	}
	shared := 0
	freshPerExec := map[int64]int{}
	for _, c := range calls {
		if c.ownRuns > 1 {
			return fmt.Sprintf("call g%d#%d: its function ran %d times", c.g, c.i, c.ownRuns), 0
		}
		if c.panicked != nil {
			// only the call that ran the function may see its panic, with the planned value
			pv, isPlanned := c.panicked.(tokenPanic)
			if !isPlanned || c.ownExec == 0 || pv.token != c.ownExec {
				return fmt.Sprintf("call g%d#%d on k%d panicked with %v (own execution %d)", c.g, c.i, c.key, c.panicked, c.ownExec), 0
			}
			continue
		}
		if c.ownExec != 0 && byToken[c.ownExec] != nil && byToken[c.ownExec].panicked {
			return fmt.Sprintf("call g%d#%d: its function panicked (execution %d) but the call returned (%v,%v) normally", c.g, c.i, c.ownExec, c.val, c.err), 0
		}
		tok, ok := c.val.(int64)
		var e *execRec
		if ok {
			e = byToken[tok]
		} else if c.val == nil && c.err == nil && c.ownExec == 0 {
			// (nil, nil): legal only as the outcome of a panicked execution whose leading call overlaps
			for _, x := range perKey[c.key] {
				if x.panicked && x.owner.inv < c.ret && c.inv < x.owner.ret {
					e = x
				}
			}
			if e == nil {
				for _, x := range perKey[c.key] {
					if x.panicked {
						return fmt.Sprintf("STALE: call g%d#%d on k%d [inv %d, ret %d] ran nothing and received (nil,nil): the leftover of execution %d, which panicked and whose leading call g%d#%d [inv %d, ret %d] had long returned",
							c.g, c.i, c.key, c.inv, c.ret, x.token, x.owner.g, x.owner.i, x.owner.inv, x.owner.ret), 0
					}
				}
			}
			if e != nil {
				shared++
				if c.hasFresh && c.fresh {
					return fmt.Sprintf("call g%d#%d: fresh=true but its own function never ran", c.g, c.i), 0
				}
				continue
			}
		} else if c.err != nil {
			// failed executions return (nil, err) with the token inside the error
			var te tokenErr
			if errors.As(c.err, &te) {
				e = byToken[te.token]
			}
		}
		if e == nil {
			return fmt.Sprintf("call g%d#%d on k%d returned (%v,%v), which no execution produced", c.g, c.i, c.key, c.val, c.err), 0
		}
		if e.key != c.key {
			return fmt.Sprintf("call g%d#%d on k%d received the result of an execution for k%d", c.g, c.i, c.key, e.key), 0
		}
		if (e.err == nil) != (c.err == nil) || (e.err == nil && c.val != any(e.token)) {
			return fmt.Sprintf("call g%d#%d: value/error pair (%v,%v) differs from execution %d's (%v)", c.g, c.i, c.val, c.err, e.token, e.err), 0
		}
		if c.ownExec != 0 {
			if e.token != c.ownExec {
				return fmt.Sprintf("call g%d#%d ran its own function (execution %d) but returned execution %d's result", c.g, c.i, c.ownExec, e.token), 0
			}
		} else {
			shared++
			l := e.owner
			// the leader's call must overlap this call in time
			if !(l.inv < c.ret && c.inv < l.ret) {
				return fmt.Sprintf("STALE: call g%d#%d on k%d [inv %d, ret %d] received the result of execution %d whose leading call g%d#%d spanned [inv %d, ret %d] and had already returned",
					c.g, c.i, c.key, c.inv, c.ret, e.token, l.g, l.i, l.inv, l.ret), 0
			}
		}
		if c.hasFresh {
			if c.fresh != (c.ownExec != 0) {
				return fmt.Sprintf("call g%d#%d: fresh=%v but own function ran=%v", c.g, c.i, c.fresh, c.ownExec != 0), 0
			}
			if c.fresh {
				freshPerExec[e.token]++
			}
		}
	}
	for tok, n := range freshPerExec {
		if n > 1 {
			return fmt.Sprintf("execution %d reported fresh to %d callers", tok, n), 0
		}
	}
	return "", shared
}

type tokenPanic struct{ token int64 }

type tokenErr struct{ token int64 }

func (e tokenErr) Error() string { return fmt.Sprintf("planned failure of execution %d", e.token) }

func runSingleFlight(t *rapid.T, st *verifkit.Stats, yield bool) {
	st.Eval()
	if yield {
		configYield(t)
		defer lang.VerifYieldConfig(0, 0, 0, 0)
	}
	plans := genPlans(t)
	sf := syncx.NewSingleFlight()
	var mu sync.Mutex
	var calls []*callRec
	var execs []*execRec
	var wg sync.WaitGroup
	start := make(chan struct{})
	for g := range plans {
		wg.Add(1)
		go func(g int) {
			defer wg.Done()
			<-start
			for i, p := range plans[g] {
				p.before.run()
				rec := &callRec{g: g, i: i, key: p.key}
				fn := func() (any, error) {
					atomic.AddInt32(&rec.ownRuns, 1)
					e := &execRec{token: atomic.AddInt64(&execSeq, 1), key: p.key, owner: rec}
					rec.ownExec = e.token
					e.start = tick()
					p.inFn.run()
					if p.fail {
						e.err = tokenErr{e.token}
					}
					e.panicked = p.pan
					e.end = tick()
					mu.Lock()
					execs = append(execs, e)
					mu.Unlock()
					if p.pan {
						panic(tokenPanic{e.token})
					}
					if p.fail {
						return nil, e.err
					}
					return e.token, nil
				}
				key := fmt.Sprintf("k%d", p.key)
				rec.inv = tick()
				func() {
					defer func() { rec.panicked = recover() }()
					if p.ex {
						rec.val, rec.fresh, rec.err = sf.DoEx(key, fn)
						rec.hasFresh = true
					} else {
						rec.val, rec.err = sf.Do(key, fn)
					}
				}()
				if rec.panicked != nil {
					rec.hasFresh = false
				}
				rec.ret = tick()
				mu.Lock()
				calls = append(calls, rec)
				mu.Unlock()
			}
		}(g)
	}
	close(start)
	done := make(chan struct{})
	go func() { wg.Wait(); close(done) }()
	select {
	case <-done:
	case <-time.After(20 * time.Second):
		t.Fatalf("SingleFlight calls did not finish within 20 s (a waiter was never released); plans: %s", renderPlans(plans))
	}
	msg, shared := checkSingleFlightHistory(calls, execs)
	if msg != "" {
		t.Fatalf("%s\nplans: %s", msg, renderPlans(plans))
	}
	multi := false
	cnt := map[int]int{}
	for _, e := range execs {
		cnt[e.key]++
		if cnt[e.key] >= 2 {
			multi = true
		}
	}
	st.ClassN("calls", len(calls))
	st.ClassN("executions", len(execs))
	st.ClassN("shared-results", shared)
	if shared > 0 && multi {
		st.NonTrivial(renderPlans(plans))
	}
}

func TestVerifC07SingleFlight(t *testing.T) {
	st := verifkit.New("singleflight")
	defer st.Flush()
	rapid.Check(t, func(t *rapid.T) { runSingleFlight(t, st, verifkit.EnvInt("yield", 0) == 1) })
	st.ClassN("yield-points-hit", int(lang.VerifYieldHits()))
}

// ---------------------------------------------------------------- LockedCalls

func runLockedCalls(t *rapid.T, st *verifkit.Stats, yield bool) {
	st.Eval()
	if yield {
		configYield(t)
		defer lang.VerifYieldConfig(0, 0, 0, 0)
	}
	plans := genPlans(t)
	lc := syncx.NewLockedCalls()
	var mu sync.Mutex
	var execs []*execRec
	var bad atomic.Value
	var wg sync.WaitGroup
	start := make(chan struct{})
	ncalls := 0
	for g := range plans {
		ncalls += len(plans[g])
		wg.Add(1)
		go func(g int) {
			defer wg.Done()
			<-start
			for i, p := range plans[g] {
				p.before.run()
				runs := 0
				var tok int64
				fn := func() (any, error) {
					runs++
					e := &execRec{token: atomic.AddInt64(&execSeq, 1), key: p.key}
					tok = e.token
					e.start = tick()
					p.inFn.run()
					e.end = tick()
					mu.Lock()
					execs = append(execs, e)
					mu.Unlock()
					if p.pan {
						panic(tokenPanic{e.token})
					}
					if p.fail {
						return nil, tokenErr{e.token}
					}
					return e.token, nil
				}
				var v any
				var err error
				var pv any
				func() {
					defer func() { pv = recover() }()
					v, err = lc.Do(fmt.Sprintf("k%d", p.key), fn)
				}()
				if p.pan {
					if tp, ok := pv.(tokenPanic); !ok || tp.token != tok || runs != 1 {
						bad.Store(fmt.Sprintf("call g%d#%d: planned panic %d, recovered %v, function ran %d times", g, i, tok, pv, runs))
					}
					continue
				}
				if pv != nil {
					bad.Store(fmt.Sprintf("call g%d#%d panicked with %v although its function did not", g, i, pv))
					continue
				}
				if runs != 1 {
					bad.Store(fmt.Sprintf("call g%d#%d: own function ran %d times", g, i, runs))
				}
				if p.fail {
					var te tokenErr
					if v != nil || !errors.As(err, &te) || te.token != tok {
						bad.Store(fmt.Sprintf("call g%d#%d: got (%v,%v), want its own failure %d", g, i, v, err, tok))
					}
				} else if err != nil || v != any(tok) {
					bad.Store(fmt.Sprintf("call g%d#%d: got (%v,%v), want its own result %d", g, i, v, err, tok))
				}
			}
		}(g)
	}
	close(start)
	done := make(chan struct{})
	go func() { wg.Wait(); close(done) }()
	select {
	case <-done:
	case <-time.After(20 * time.Second):
		t.Fatalf("LockedCalls did not finish within 20 s; plans: %s", renderPlans(plans))
	}
	if v := bad.Load(); v != nil {
		t.Fatalf("%v\nplans: %s", v, renderPlans(plans))
	}
	if len(execs) != ncalls {
		t.Fatalf("%d calls but %d executions; plans: %s", ncalls, len(execs), renderPlans(plans))
	}
	perKey := map[int][]*execRec{}
	for _, e := range execs {
		perKey[e.key] = append(perKey[e.key], e)
	}
	contended := false
	for k, es := range perKey {
		sort.Slice(es, func(i, j int) bool { return es[i].start < es[j].start })
		for i := 1; i < len(es); i++ {
			if es[i].start < es[i-1].end {
				t.Fatalf("LockedCalls: two executions for key k%d overlap: [%d,%d] and [%d,%d]\nplans: %s", k, es[i-1].start, es[i-1].end, es[i].start, es[i].end, renderPlans(plans))
			}
		}
		if len(es) >= 3 {
			contended = true
		}
	}
	if contended && len(plans) >= 3 {
		st.NonTrivial(renderPlans(plans))
	}
}

func TestVerifC07LockedCalls(t *testing.T) {
	st := verifkit.New("lockedcalls")
	defer st.Flush()
	rapid.Check(t, func(t *rapid.T) { runLockedCalls(t, st, verifkit.EnvInt("yield", 0) == 1) })
}

// calls on different keys never wait for each other: while a call on key A is parked inside its
// function, calls on other keys (SingleFlight and LockedCalls) complete.
func TestVerifC07KeyIndependence(t *testing.T) {
	st := verifkit.New("key-independence")
	defer st.Flush()
	rapid.Check(t, func(t *rapid.T) {
		st.Eval()
		useSF := rapid.Bool().Draw(t, "singleFlight")
		nOther := rapid.IntRange(1, 6).Draw(t, "otherKeys")
		nWaitersA := rapid.IntRange(0, 4).Draw(t, "waitersOnA")
		var do func(key string, fn func() (any, error)) (any, error)
		if useSF {
			do = syncx.NewSingleFlight().Do
		} else {
			do = syncx.NewLockedCalls().Do
		}
		gate := make(chan struct{})
		inA := make(chan struct{})
		var wg sync.WaitGroup
		wg.Add(1)
		go func() {
			defer wg.Done()
			do("A", func() (any, error) { close(inA); <-gate; return 1, nil })
		}()
		<-inA
		for i := 0; i < nWaitersA; i++ {
			wg.Add(1)
			go func() { defer wg.Done(); do("A", func() (any, error) { return 2, nil }) }()
		}
		fin := make(chan int, nOther)
		for i := 0; i < nOther; i++ {
			go func(i int) {
				do(fmt.Sprintf("B%d", i), func() (any, error) { return i, nil })
				fin <- i
			}(i)
		}
		for i := 0; i < nOther; i++ {
			select {
			case <-fin:
			case <-time.After(15 * time.Second):
				close(gate)
				t.Fatalf("a call on another key did not complete within 15 s while key A was held (singleFlight=%v)", useSF)
			}
		}
		close(gate)
		wg.Wait()
		st.NonTrivial(fmt.Sprintf("sf=%v other=%d waiters=%d", useSF, nOther, nWaitersA))
	})
}

// The same clause at scale: N calls on N distinct keys are all inside their functions at the same
// time (each function parks on one shared gate after reporting that it started).  Any scheme that
// maps keys onto fewer than about N*N/2 shared locks (striping, sharding by hash, one lock per
// prefix) makes two of them wait for each other and at least one function never starts.
func TestVerifC07ManyKeysInFlight(t *testing.T) {
	st := verifkit.New("many-keys")
	defer st.Flush()
	rapid.Check(t, func(t *rapid.T) {
		st.Eval()
		useSF := rapid.Bool().Draw(t, "singleFlight")
		n := rapid.IntRange(20, 400).Draw(t, "keys")
		if rapid.IntRange(0, 4).Draw(t, "burst") == 0 {
			n = rapid.IntRange(1000, 3000).Draw(t, "burstKeys")
		}
		// 0-2 resident keys: a call on each stays inside its function across all waves of the other
		// keys; after every wave new calls arrive on the resident keys and must still find that flight
		nres := rapid.IntRange(0, 2).Draw(t, "residents")
		waves := 1
		if nres > 0 {
			waves = rapid.IntRange(1, 3).Draw(t, "waves")
		}
		style := rapid.IntRange(0, 3).Draw(t, "keyStyle")
		salt := rapid.StringMatching(`[a-z#:/]{0,6}`).Draw(t, "salt")
		var do func(key string, fn func() (any, error)) (any, error)
		if useSF {
			do = syncx.NewSingleFlight().Do
		} else {
			do = syncx.NewLockedCalls().Do
		}
		key := func(i int) string {
			switch style {
			case 0:
				return fmt.Sprintf("%s%d", salt, i)
			case 1:
				return fmt.Sprintf("%d%s", i, salt)
			case 2:
				return fmt.Sprintf("%s%08x", salt, uint32(i)*2654435761)
			default:
				return strings.Repeat(salt+"k", i%5) + fmt.Sprint(i)
			}
		}
		rgate := make(chan struct{})
		rstarted := make(chan int, nres)
		rend := make([]int64, nres)
		rkey := func(j int) string { return fmt.Sprintf("resident-%s-%d", salt, j) }
		var rwg sync.WaitGroup
		for j := 0; j < nres; j++ {
			rwg.Add(1)
			go func(j int) {
				defer rwg.Done()
				do(rkey(j), func() (any, error) { rstarted <- j; <-rgate; rend[j] = tick(); return "resident", nil })
			}(j)
		}
		for j := 0; j < nres; j++ {
			select {
			case <-rstarted:
			case <-time.After(15 * time.Second):
				close(rgate)
				t.Fatalf("C07: resident call did not start within 15 s (singleFlight=%v)", useSF)
			}
		}
		type joinT struct {
			key      int
			val      any
			ownStart int64 // stamp at which the joiner's own function started, 0 = never ran
			wave     int
		}
		var jmu sync.Mutex
		var joins []*joinT
		joinStarted := make(chan *joinT, 64)
		for wave := 0; wave < waves; wave++ {
			gate := make(chan struct{})
			started := make(chan int, n)
			var wg sync.WaitGroup
			vals := make([]any, n)
			for i := 0; i < n; i++ {
				wg.Add(1)
				go func(i int) {
					defer wg.Done()
					vals[i], _ = do(key(i), func() (any, error) { started <- i; <-gate; return i, nil })
				}(i)
			}
			seen := map[int]bool{}
			deadline := time.After(15 * time.Second)
			for len(seen) < n {
				select {
				case i := <-started:
					seen[i] = true
				case <-deadline:
					var missing []string
					for i := 0; i < n && len(missing) < 5; i++ {
						if !seen[i] {
							missing = append(missing, key(i))
						}
					}
					close(gate)
					close(rgate)
					t.Fatalf("C07 violated (calls on different keys never wait for each other): with %d distinct keys in flight (wave %d, %d resident), "+
						"%d functions did not start within 15 s while the others were parked, e.g. keys %q (singleFlight=%v)",
						n, wave, nres, n-len(seen), missing, useSF)
				}
			}
			close(gate)
			wg.Wait()
			for i := 0; i < n; i++ {
				if vals[i] != i {
					close(rgate)
					t.Fatalf("C07 violated: call on key %q returned %v, its own function returned %d (singleFlight=%v)", key(i), vals[i], i, useSF)
				}
			}
			// the wave is over; the resident flights are still in progress: new calls on their keys
			for j := 0; j < nres; j++ {
				jn := &joinT{key: j, wave: wave}
				jmu.Lock()
				joins = append(joins, jn)
				jmu.Unlock()
				rwg.Add(1)
				go func(jn *joinT) {
					defer rwg.Done()
					jn.val, _ = do(rkey(jn.key), func() (any, error) {
						jn.ownStart = tick()
						select {
						case joinStarted <- jn:
						default:
						}
						return "joiner", nil
					})
				}(jn)
			}
			if nres > 0 {
				select {
				case jn := <-joinStarted:
					close(rgate)
					t.Fatalf("C07 violated (at most one execution per key in progress / per-key exclusion): a call on key %q, made after wave %d of %d other keys had "+
						"come and gone, started its own function while the earlier call on that key was still inside its function (singleFlight=%v)",
						rkey(jn.key), jn.wave, n, useSF)
				case <-time.After(5 * time.Millisecond):
				}
			}
		}
		close(rgate)
		rwg.Wait()
		for _, jn := range joins {
			if jn.ownStart != 0 && jn.ownStart < rend[jn.key] {
				t.Fatalf("C07 violated: a later call on key %q (after wave %d) executed its function at stamp %d, before the earlier execution on that key ended (stamp %d) (singleFlight=%v)",
					rkey(jn.key), jn.wave, jn.ownStart, rend[jn.key], useSF)
			}
			if useSF && jn.ownStart == 0 && jn.val != "resident" {
				t.Fatalf("C07 violated: a call on key %q that did not execute returned %v, the execution in flight returned \"resident\"", rkey(jn.key), jn.val)
			}
			if !useSF && (jn.ownStart == 0 || jn.val != "joiner") {
				t.Fatalf("C07 violated: LockedCalls caller on key %q: own function ran=%v, got %v", rkey(jn.key), jn.ownStart != 0, jn.val)
			}
		}
		if nres > 0 {
			st.Class(fmt.Sprintf("residents-waves=%d", waves))
		}
		st.Class(fmt.Sprintf("keys>=%d", n/100*100))
		st.NonTrivial(fmt.Sprintf("sf=%v n=%d style=%d salt=%q res=%d waves=%d", useSF, n, style, salt, nres, waves))
	})
}

// ---------------------------------------------------------------- ResourceManager

type res struct{ id int64 }

func (r *res) Close() error { return nil }

func TestVerifC07ResourceManager(t *testing.T) {
	st := verifkit.New("resourcemanager")
	defer st.Flush()
	yield := verifkit.EnvInt("yield", 0) == 1
	rapid.Check(t, func(t *rapid.T) {
		st.Eval()
		if yield {
			configYield(t)
			defer lang.VerifYieldConfig(0, 0, 0, 0)
		}
		plans := genPlans(t)
		// one to three managers in the same process, used with the same key names: every manager is
		// judged on its own (model keys are manager*100+key), so state shared between managers shows
		nm := rapid.SampledFrom([]int{1, 2, 2, 3}).Draw(t, "managers")
		rms := make([]*syncx.ResourceManager, nm)
		for i := range rms {
			rms[i] = syncx.NewResourceManager()
		}
		mgrOf := make([][]int, len(plans))
		for g := range plans {
			for range plans[g] {
				mgrOf[g] = append(mgrOf[g], rapid.IntRange(0, nm-1).Draw(t, "manager"))
			}
		}
		var mu sync.Mutex
		type foreignPanic struct {
			key      int
			inv, ret int64
			msg      string
		}
		var foreign []foreignPanic
		panicLeaders := map[int][][2]int64{}
		created := map[int][]*res{}   // successful creates per key
		got := map[int]map[*res]int{} // instances handed out per key
		failedCreates, failedGets := 0, 0
		var bad atomic.Value
		var wg sync.WaitGroup
		start := make(chan struct{})
		for g := range plans {
			wg.Add(1)
			go func(g int) {
				defer wg.Done()
				<-start
				for pi, p := range plans[g] {
					rm := rms[mgrOf[g][pi]]
					mk := mgrOf[g][pi]*100 + p.key
					p.before.run()
					var r io.Closer
					var err error
					var pv any
					inv := tick()
					func() {
						defer func() { pv = recover() }()
						r, err = rm.GetResource(fmt.Sprintf("k%d", p.key), func() (io.Closer, error) {
							p.inFn.run()
							if p.pan {
								mu.Lock()
								failedCreates++
								mu.Unlock()
								panic(tokenPanic{-1})
							}
							if p.fail {
								mu.Lock()
								failedCreates++
								mu.Unlock()
								return nil, errors.New("create failed")
							}
							x := &res{atomic.AddInt64(&execSeq, 1)}
							mu.Lock()
							created[mk] = append(created[mk], x)
							mu.Unlock()
							return x, nil
						})
					}()
					ret := tick()
					if pv != nil {
						mu.Lock()
						if _, planned := pv.(tokenPanic); planned && p.pan {
							panicLeaders[mk] = append(panicLeaders[mk], [2]int64{inv, ret})
						} else {
							// a caller that joined a flight whose create panicked has nothing to return; today
							// that surfaces as a nil-interface conversion panic in the joiner.  The statement is
							// silent about it, so it is accepted *if* such a flight overlaps this call; a panic
							// with no overlapping panicked create is a leftover of an earlier call.
							foreign = append(foreign, foreignPanic{mk, inv, ret, fmt.Sprint(pv)})
						}
						mu.Unlock()
						continue
					}
					mu.Lock()
					if err != nil {
						failedGets++
						if r != nil {
							bad.Store("GetResource returned both a resource and an error")
						}
					} else {
						if got[mk] == nil {
							got[mk] = map[*res]int{}
						}
						got[mk][r.(*res)]++
					}
					mu.Unlock()
				}
			}(g)
		}
		close(start)
		wg.Wait()
		if v := bad.Load(); v != nil {
			t.Fatalf("%v", v)
		}
		for _, f := range foreign {
			ok := false
			for _, l := range panicLeaders[f.key] {
				if l[0] < f.ret && f.inv < l[1] {
					ok = true
				}
			}
			if !ok {
				t.Fatalf("STALE: GetResource(k%d) [inv %d, ret %d] panicked with %q although no create that panicked overlaps it (leftover of an earlier panicked create); plans: %s", f.key, f.inv, f.ret, f.msg, renderPlans(plans))
			}
			st.Class("observed:joiner-of-panicked-create-panics")
		}
		for k, cs := range created {
			if len(cs) > 1 {
				t.Fatalf("resource for key k%d of manager %d was created successfully %d times; managers of the calls %v; plans: %s", k%100, k/100, len(cs), mgrOf, renderPlans(plans))
			}
		}
		for k, insts := range got {
			if len(insts) > 1 {
				t.Fatalf("callers of key k%d of manager %d were handed %d different instances; managers of the calls %v; plans: %s", k%100, k/100, len(insts), mgrOf, renderPlans(plans))
			}
			for r := range insts {
				if len(created[k]) != 1 || created[k][0] != r {
					t.Fatalf("key k%d of manager %d: the handed-out instance is not the one this manager created; managers of the calls %v; plans: %s", k%100, k/100, mgrOf, renderPlans(plans))
				}
			}
		}
		if failedGets > 0 && failedCreates == 0 {
			t.Fatalf("GetResource failed although no create failed")
		}
		st.Class(fmt.Sprintf("managers:%d", nm))
		if failedCreates > 0 && len(created) > 0 {
			st.NonTrivial(fmt.Sprintf("managers=%d %v ", nm, mgrOf) + renderPlans(plans))
		}
	})
}
