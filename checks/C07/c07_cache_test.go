//go:build verif

package collection_test

import (
	"errors"
	"fmt"
	"runtime"
	"sync"
	"sync/atomic"
	"testing"
	"time"

	"github.com/zeromicro/go-zero/core/collection"
	"github.com/zeromicro/go-zero/core/logx"
	"github.com/zeromicro/go-zero/internal/verifkit"
	"pgregory.net/rapid"
)

// Call site of SingleFlight (anchor core/collection/cache.go): concurrent Take on an uncached key
// runs at most one loader at a time per key, every caller receives the value (or error) of a
// loader execution that overlaps its own call, a loader error is not cached (the next Take loads
// again), and a loaded value is served without loading again.
func TestVerifC07CacheTake(t *testing.T) {
	logx.Disable()
	st := verifkit.New("cache-take")
	defer st.Flush()
	rapid.Check(t, func(t *rapid.T) {
		st.Eval()
		c, err := collection.NewCache(time.Hour)
		if err != nil {
			t.Fatal(err)
		}
		g := rapid.IntRange(2, 24).Draw(t, "goroutines")
		keys := rapid.IntRange(1, 3).Draw(t, "keys")
		rounds := rapid.IntRange(1, 4).Draw(t, "rounds")
		failFirst := rapid.Bool().Draw(t, "firstLoadFails")
		spin := rapid.IntRange(0, 30).Draw(t, "loaderSpin")
		var cur [3]int32
		var loads [3]int32
		var seq int64
		var bad atomic.Value
		loadErr := errors.New("loader failed")
		type call struct {
			key      int
			inv, ret int64
			val      any
			err      error
			loaded   int64 // token if this caller's loader ran
		}
		var mu sync.Mutex
		var calls []call
		type exec struct{ start, end, token int64; err bool }
		execs := map[int][]exec{}
		var clock int64
		tick := func() int64 { return atomic.AddInt64(&clock, 1) }
		var wg sync.WaitGroup
		for i := 0; i < g; i++ {
			wg.Add(1)
			go func(id int) {
				defer wg.Done()
				for r := 0; r < rounds; r++ {
					k := (id + r) % keys
					cl := call{key: k}
					cl.inv = tick()
					cl.val, cl.err = c.Take(fmt.Sprintf("k%d", k), func() (any, error) {
						if n := atomic.AddInt32(&cur[k], 1); n > 1 {
							bad.Store(fmt.Sprintf("%d loaders for key k%d at once", n, k))
						}
						defer atomic.AddInt32(&cur[k], -1)
						n := atomic.AddInt32(&loads[k], 1)
						e := exec{start: tick(), token: atomic.AddInt64(&seq, 1)}
						for s := 0; s < spin; s++ {
							runtime.Gosched()
						}
						cl.loaded = e.token
						e.err = failFirst && n == 1
						e.end = tick()
						mu.Lock()
						execs[k] = append(execs[k], e)
						mu.Unlock()
						if e.err {
							return nil, loadErr
						}
						return e.token, nil
					})
					cl.ret = tick()
					mu.Lock()
					calls = append(calls, cl)
					mu.Unlock()
				}
			}(i)
		}
		wg.Wait()
		if v := bad.Load(); v != nil {
			t.Fatalf("%v", v)
		}
		for k := 0; k < keys; k++ {
			okLoads := 0
			for _, e := range execs[k] {
				if !e.err {
					okLoads++
				}
			}
			if okLoads > 1 {
				t.Fatalf("key k%d was loaded successfully %d times although it never expired (expire 1h)", k, okLoads)
			}
		}
		for _, cl := range calls {
			if cl.err != nil {
				if cl.err != loadErr {
					t.Fatalf("Take returned foreign error %v", cl.err)
				}
				// must stem from a failed load whose leading call overlaps this call
				ok := false
				for _, e := range execs[cl.key] {
					if !e.err {
						continue
					}
					for _, l := range calls {
						if l.loaded == e.token && l.inv < cl.ret && cl.inv < l.ret {
							ok = true
						}
					}
				}
				if !ok {
					t.Fatalf("Take(k%d) [%d,%d] returned the loader error although no failed load overlaps it (error cached?)", cl.key, cl.inv, cl.ret)
				}
				continue
			}
			tok, isTok := cl.val.(int64)
			found := false
			for _, e := range execs[cl.key] {
				if isTok && e.token == tok && !e.err {
					found = true
				}
			}
			if !found {
				t.Fatalf("Take(k%d) returned %v, which no successful load of that key produced", cl.key, cl.val)
			}
		}
		if g >= 4 && failFirst {
			st.NonTrivial(fmt.Sprintf("g=%d keys=%d rounds=%d spin=%d", g, keys, rounds, spin))
		} else if g >= 8 {
			st.NonTrivial(fmt.Sprintf("g=%d keys=%d rounds=%d spin=%d ok", g, keys, rounds, spin))
		}
	})
}
