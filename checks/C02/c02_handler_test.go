//go:build verif

package handler_test

import (
	"fmt"
	"net/http"
	"net/http/httptest"
	"testing"

	"github.com/zeromicro/go-zero/core/load"
	"github.com/zeromicro/go-zero/core/logx"
	"github.com/zeromicro/go-zero/core/stat"
	"github.com/zeromicro/go-zero/internal/verifkit"
	"github.com/zeromicro/go-zero/rest/handler"
	"pgregory.net/rapid"
)

type c02Promise struct{ pass, fail *int }

func (p c02Promise) Pass() { *p.pass++ }
func (p c02Promise) Fail() { *p.fail++ }

type c02Shedder struct {
	refuse     bool
	allows     int
	pass, fail int
}

func (s *c02Shedder) Allow() (load.Promise, error) {
	s.allows++
	if s.refuse {
		return nil, load.ErrServiceOverloaded
	}
	return c02Promise{&s.pass, &s.fail}, nil
}

// Call site: REST shedding middleware.  For every handler behaviour the promise obtained from
// Allow is resolved exactly once (Fail iff the handler answered 503, else Pass); a refused
// request gets 503, the handler is not run and no promise is touched.
func TestVerifC02SheddingHandler(t *testing.T) {
	logx.Disable()
	st := verifkit.New("rest-sheddinghandler")
	defer st.Flush()
	metrics := stat.NewMetrics("verif-c02")
	rapid.Check(t, func(t *rapid.T) {
		st.Eval()
		sh := &c02Shedder{}
		code := 0
		body := false
		doPanic := false
		ran := 0
		h := handler.SheddingHandler(sh, metrics)(http.HandlerFunc(func(w http.ResponseWriter, r *http.Request) {
			ran++
			if code != 0 {
				w.WriteHeader(code)
			}
			if body {
				w.Write([]byte("x"))
			}
			if doPanic {
				panic("handler panic")
			}
		}))
		n := rapid.IntRange(1, 40).Draw(t, "requests")
		desc := ""
		for i := 0; i < n; i++ {
			sh.refuse = rapid.IntRange(0, 4).Draw(t, "refuse") == 0
			code = rapid.SampledFrom([]int{0, 200, 204, 404, 429, 500, 502, 503, 503, 504}).Draw(t, "code")
			body = rapid.Bool().Draw(t, "body")
			doPanic = rapid.IntRange(0, 9).Draw(t, "panic") == 0
			desc += fmt.Sprintf(" %v/%d/%v", sh.refuse, code, doPanic)
			ran, sh.pass, sh.fail, sh.allows = 0, 0, 0, 0
			rr := httptest.NewRecorder()
			var pan any
			func() {
				defer func() { pan = recover() }()
				h.ServeHTTP(rr, httptest.NewRequest(http.MethodGet, "/x", nil))
			}()
			if sh.allows != 1 {
				t.Fatalf("Allow called %d times for one request", sh.allows)
			}
			if sh.refuse {
				if ran != 0 || rr.Code != http.StatusServiceUnavailable || sh.pass+sh.fail != 0 {
					t.Fatalf("refused request: handler ran %d, status %d, promise resolutions %d", ran, rr.Code, sh.pass+sh.fail)
				}
				continue
			}
			if ran != 1 {
				t.Fatalf("admitted request: handler ran %d times", ran)
			}
			if doPanic && pan == nil {
				t.Fatalf("handler panic swallowed by the shedding middleware")
			}
			wantFail := code == http.StatusServiceUnavailable
			if sh.pass+sh.fail != 1 || (wantFail && sh.fail != 1) || (!wantFail && sh.pass != 1) {
				t.Fatalf("admitted request with status %d (panic=%v): Pass x%d, Fail x%d; want exactly one, Fail iff 503", code, doPanic, sh.pass, sh.fail)
			}
		}
		if n >= 3 {
			st.NonTrivial(desc)
		}
	})
}

// nil shedder: middleware is the identity.
func TestVerifC02SheddingHandlerNil(t *testing.T) {
	ran := 0
	h := handler.SheddingHandler(nil, nil)(http.HandlerFunc(func(w http.ResponseWriter, r *http.Request) { ran++; w.WriteHeader(503) }))
	rr := httptest.NewRecorder()
	h.ServeHTTP(rr, httptest.NewRequest(http.MethodGet, "/x", nil))
	if ran != 1 || rr.Code != 503 {
		t.Fatalf("nil shedder: ran=%d code=%d", ran, rr.Code)
	}
}
