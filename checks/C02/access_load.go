//go:build verif

package load

import "sync/atomic"

// White-box accessors for the C02 check (injected by -overlay only).

// VerifSetOverloadChecker replaces the CPU probe; returns a restore func.
func VerifSetOverloadChecker(fn func(threshold int64) bool) (restore func()) {
	old := systemOverloadChecker
	systemOverloadChecker = fn
	return func() { systemOverloadChecker = old }
}

// VerifFlying returns the shedder's in-flight counter (ok=false for other implementations).
func VerifFlying(s Shedder) (int64, bool) {
	as, ok := s.(*adaptiveShedder)
	if !ok {
		return 0, false
	}
	return atomic.LoadInt64(&as.flying), true
}

// VerifEnable undoes Disable() so that later cases in the same process get real shedders.
func VerifEnable() { enabled.Set(true) }
