//go:build verif

package stat

import "sync/atomic"

// VerifSetCpuUsage stores a CPU usage reading (millicpu) as if the sampler had produced it.
// The real sampler keeps running: every 250 ms of real time it replaces the value v by
// 0.95*v + 0.05*current, so a reader shortly afterwards sees a value in [0.95v, max(v, 0.95v+50)].
func VerifSetCpuUsage(v int64) { atomic.StoreInt64(&cpuUsage, v) }
