//go:build verif

package load_test

import (
	"fmt"
	"math"
	"strings"
	"sync"
	"sync/atomic"
	"testing"
	"time"

	"github.com/zeromicro/go-zero/core/load"
	"github.com/zeromicro/go-zero/core/logx"
	"github.com/zeromicro/go-zero/core/stat"
	"github.com/zeromicro/go-zero/core/timex"
	"github.com/zeromicro/go-zero/internal/verifkit"
	"pgregory.net/rapid"
)

const vbase = 400 * 24 * time.Hour

type pbucket struct {
	passes int64
	latLo  float64 // sum of exact latencies in ms
	latHi  float64 // sum of latencies rounded up to whole ms (the code's documented resolution)
}

type shedModel struct {
	now       time.Duration
	bucketDur time.Duration
	size      int64
	scale     float64 // buckets per second / 1000
	buckets   map[int64]*pbucket
	inflight  int64
	ema       float64
	lastOverloadAllow time.Duration // -1: never
	dropped   bool
}

// c02WindowSlack (VERIF_C02_WINDOW_SLACK=1) widens the capacity interval to the documented window shifted
// or extended by one bucket either way.  It was the default until seed C02j (an estimate cached for up to
// one bucket interval past a roll) showed that the slack hides exactly the staleness the clause "over the
// sliding window" forbids; the model runs on the same virtual clock and the same bucket grid as the code
// (grid anchored at construction, C16 decides RollingWindow itself), so it can be exact.
var c02WindowSlack = verifkit.EnvInt("c02_window_slack", 0) == 1

// capacity interval over the documented window (the only tolerance left is the rounding of the average
// latency, which the statement leaves open).
func (m *shedModel) capacity() (lo, hi float64) {
	cur := int64(m.now / m.bucketDur)
	type rng struct{ from, to int64 }
	variants := []rng{
		{cur - m.size + 1, cur - 1}, // documented: last `size` buckets, current one ignored
	}
	if c02WindowSlack {
		variants = append(variants, rng{cur - m.size, cur - 1}, rng{cur - m.size + 2, cur - 1},
			rng{cur - m.size + 1, cur}, rng{cur - m.size + 1, cur - 2})
	}
	lo, hi = math.Inf(1), 0
	for _, v := range variants {
		var maxPass int64 = 1
		minLo, minHi := 1000.0, 1000.0
		for i := v.from; i <= v.to; i++ {
			b := m.buckets[i]
			if b == nil || b.passes == 0 {
				continue
			}
			if b.passes > maxPass {
				maxPass = b.passes
			}
			if l := math.Max(b.latLo/float64(b.passes)-0.5, 0); l < minLo {
				minLo = l
			}
			if h := b.latHi/float64(b.passes) + 0.5; h < minHi {
				minHi = h
			}
		}
		cl := math.Max(float64(maxPass)*minLo*m.scale, 1)
		ch := math.Max(float64(maxPass)*minHi*m.scale, 1)
		lo = math.Min(lo, cl)
		hi = math.Max(hi, ch)
	}
	return
}

func TestVerifC02StateMachine(t *testing.T) {
	logx.Disable()
	stat.SetReporter(nil)
	st := verifkit.New("shedder-sm")
	defer st.Flush()
	defer timex.VerifUnfreeze()
	rapid.Check(t, func(t *rapid.T) {
		st.Eval()
		load.VerifEnable()
		timex.VerifFreeze(vbase)
		windowMs := rapid.IntRange(1000, 10000).Draw(t, "windowMs")
		nb := rapid.IntRange(5, 50).Draw(t, "buckets")
		threshold := int64(rapid.IntRange(100, 900).Draw(t, "cpuThreshold"))
		// CPU readings are generated: clearly at/above the threshold (>= thr+80) or clearly below
		// (<= thr-80); the margin absorbs one step of the real sampler's smoothing (see access_stat.go).
		usageGen := func(over bool) *rapid.Generator[int64] {
			if over {
				return rapid.OneOf(rapid.Just(int64(1000)), rapid.Just(threshold+80), rapid.Int64Range(threshold+80, 1000))
			}
			return rapid.OneOf(rapid.Just(int64(0)), rapid.Just(threshold-80), rapid.Int64Range(0, threshold-80))
		}
		factor := func(u float64) float64 {
			return math.Min(math.Max((1000-u)/(1000-float64(threshold)), 0.1), 1)
		}
		window := time.Duration(windowMs) * time.Millisecond
		sh := load.NewAdaptiveShedder(load.WithWindow(window), load.WithBuckets(nb), load.WithCpuThreshold(threshold))
		bd := window / time.Duration(nb)
		m := &shedModel{bucketDur: bd, size: int64(nb), scale: float64(time.Second) / float64(bd) / 1000,
			buckets: map[int64]*pbucket{}, lastOverloadAllow: -1}
		type out struct {
			p     load.Promise
			start time.Duration
		}
		var outstanding []out
		var logb strings.Builder
		nlog := 0
		logf := func(f string, a ...any) {
			if nlog < 150 {
				fmt.Fprintf(&logb, f, a...)
			}
			nlog++
		}
		fmt.Fprintf(&logb, "window=%v buckets=%d thr=%d:", window, nb, threshold)
		drops, admAfterDrop, mustDrops, allows, episodesEnded := 0, 0, 0, 0, 0
		adv := func(d time.Duration) {
			m.now += d
			timex.VerifAdvance(d)
		}
		checkFlying := func() {
			f, ok := load.VerifFlying(sh)
			if !ok {
				t.Fatalf("white-box accessor no longer matches the shedder's structure")
			}
			if f != m.inflight {
				t.Fatalf("in-flight accounting: shedder counts %d, admitted-unresolved is %d; %s", f, m.inflight, logb.String())
			}
		}
		allow := func(usage int64) bool {
			allows++
			cpu := usage >= threshold
			capLo, capHi := m.capacity()
			// the factor that scales the capacity depends on the CPU reading, known up to one smoothing step
			fLo := factor(math.Max(float64(usage), 0.95*float64(usage)+50))
			fHi := factor(0.95*float64(usage) - 1)
			// "… or was at an Allow within the preceding second while shedding was already in progress": an
			// episode of shedding is over once an Allow finds the CPU calm and the last overloaded Allow more
			// than a second ago; a later overloaded reading starts a new episode, in which nothing has been
			// shed yet (exactly one second is left to either reading)
			if !cpu && m.dropped && m.lastOverloadAllow >= 0 && m.now-m.lastOverloadAllow > time.Second {
				m.dropped = false
				episodesEnded++
			}
			hot := m.dropped && m.lastOverloadAllow >= 0 && m.now-m.lastOverloadAllow <= time.Second
			mayDrop := (cpu || hot) && float64(m.inflight) > fLo*capLo
			mustDrop := cpu && float64(m.inflight) > fHi*capHi && m.ema > fHi*capHi*1.001
			stat.VerifSetCpuUsage(usage)
			p, err := sh.Allow()
			if cpu {
				m.lastOverloadAllow = m.now
			}
			if err != nil {
				if err != load.ErrServiceOverloaded {
					t.Fatalf("Allow returned unexpected error %v", err)
				}
				drops++
				logf(" allow(cpu=%d)=SHED", usage)
				if !mayDrop {
					t.Fatalf("only-if violated: shed with cpu=%d (overloaded=%v) hot=%v in-flight=%d capacity in [%.2f,%.2f], load factor >= %.3f (bound %.2f); %s",
						usage, cpu, hot, m.inflight, capLo, capHi, fLo, fLo*capLo, logb.String())
				}
				if mustDrop {
					mustDrops++
				}
				m.dropped = true
				return false
			}
			logf(" allow(cpu=%d)", usage)
			if mustDrop {
				t.Fatalf("must-shed violated: admitted with cpu=%d (overloaded), in-flight=%d, moving average=%.2f, capacity at most %.2f x factor %.3f; %s",
					usage, m.inflight, m.ema, capHi, fHi, logb.String())
			}
			if drops > 0 {
				admAfterDrop++
			}
			m.inflight++
			outstanding = append(outstanding, out{p, m.now})
			return true
		}
		resolve := func(i int, pass bool) {
			o := outstanding[i]
			outstanding = append(outstanding[:i], outstanding[i+1:]...)
			if pass {
				o.p.Pass()
				idx := int64(m.now / m.bucketDur)
				b := m.buckets[idx]
				if b == nil {
					b = &pbucket{}
					m.buckets[idx] = b
				}
				b.passes++
				rt := float64(m.now-o.start) / float64(time.Millisecond)
				b.latLo += rt
				b.latHi += math.Ceil(rt)
			} else {
				o.p.Fail()
			}
			m.inflight--
			m.ema = m.ema*0.9 + float64(m.inflight)*0.1
		}
		t.Repeat(map[string]func(*rapid.T){
			"allow": func(t *rapid.T) {
				allow(usageGen(rapid.Bool().Draw(t, "cpuOverloaded")).Draw(t, "cpu"))
			},
			"resolve": func(t *rapid.T) {
				if len(outstanding) == 0 {
					t.Skip("nothing outstanding")
				}
				i := rapid.IntRange(0, len(outstanding)-1).Draw(t, "which")
				pass := rapid.Bool().Draw(t, "pass")
				resolve(i, pass)
				logf(" resolve(pass=%v)", pass)
			},
			"advance": func(t *rapid.T) {
				ch := rapid.IntRange(0, 9).Draw(t, "kind")
				var d time.Duration
				switch ch {
				case 0:
					d = time.Millisecond
				case 1:
					d = bd - m.now%bd // exactly to the next bucket boundary
				case 2:
					d = bd - m.now%bd - 1
				case 3:
					d = bd
				case 4:
					d = 999 * time.Millisecond
				case 5:
					d = time.Second
				case 6:
					d = 1001 * time.Millisecond
				case 7:
					d = window
				default:
					d = time.Duration(rapid.Int64Range(0, int64(2*window)).Draw(t, "d")) / time.Millisecond * time.Millisecond
				}
				if d < 0 {
					d = 0
				}
				adv(d)
				logf(" adv(%v)", d)
			},
			"batch": func(t *rapid.T) {
				n := rapid.IntRange(1, 200).Draw(t, "n")
				rt := time.Duration(rapid.SampledFrom([]int{0, 1, 2, 5, 20, 100}).Draw(t, "rtMs")) * time.Millisecond
				logf(" batch[%d x rt=%v", n, rt)
				for i := 0; i < n; i++ {
					if allow(0) {
						adv(rt)
						resolve(len(outstanding)-1, true)
					}
				}
				logf(" ]")
			},
			"hold": func(t *rapid.T) {
				n := rapid.IntRange(1, 300).Draw(t, "n")
				u := usageGen(rapid.IntRange(0, 3).Draw(t, "over") == 0).Draw(t, "cpu")
				logf(" hold[%d", n)
				for i := 0; i < n; i++ {
					allow(u)
				}
				logf(" ]")
			},
			"drain": func(t *rapid.T) {
				if len(outstanding) == 0 {
					t.Skip("nothing outstanding")
				}
				n := rapid.IntRange(1, min(len(outstanding), 60)).Draw(t, "n")
				pass := rapid.Bool().Draw(t, "pass")
				for i := 0; i < n; i++ {
					resolve(len(outstanding)-1, pass)
				}
				logf(" drain(%d,pass=%v)", n, pass)
			},
			"": func(t *rapid.T) { checkFlying() },
		})
		// conservation: resolve everything; with nothing in flight no Allow is ever refused
		for len(outstanding) > 0 {
			resolve(len(outstanding)-1, rapid.Bool().Draw(t, "finalPass"))
		}
		checkFlying()
		for i := 0; i < 20; i++ {
			stat.VerifSetCpuUsage(1000)
			p, err := sh.Allow()
			if err != nil {
				t.Fatalf("with nothing in flight Allow under overload was refused; %s", logb.String())
			}
			p.Pass()
		}
		st.ClassN("allows", allows)
		st.ClassN("sheds", drops)
		st.ClassN("shedding-episodes-ended-by-a-calm-allow-after-the-cool-off", episodesEnded)
		if mustDrops > 0 {
			st.Class("must-shed-exercised")
		}
		if drops > 0 && admAfterDrop > 0 {
			st.NonTrivial(logb.String())
		}
	})
}

// A disabled shedder never sheds; and after re-enabling, real shedders shed again (so the
// first half is not vacuous).
func TestVerifC02Disabled(t *testing.T) {
	logx.Disable()
	stat.SetReporter(nil)
	st := verifkit.New("shedder-disabled")
	defer st.Flush()
	defer timex.VerifUnfreeze()
	defer load.VerifEnable()
	rapid.Check(t, func(t *rapid.T) {
		st.Eval()
		timex.VerifFreeze(vbase)
		n := rapid.IntRange(50, 2000).Draw(t, "held")
		load.Disable()
		sh := load.NewAdaptiveShedder(load.WithBuckets(rapid.IntRange(5, 50).Draw(t, "buckets")))
		grp := load.NewShedderGroup().GetShedder(fmt.Sprintf("k%d", n))
		var ps []load.Promise
		for i := 0; i < n; i++ {
			for _, s := range []load.Shedder{sh, grp} {
				stat.VerifSetCpuUsage(1000)
				p, err := s.Allow()
				if err != nil {
					t.Fatalf("disabled shedder refused request %d: %v", i, err)
				}
				ps = append(ps, p)
			}
			if i%7 == 0 {
				ps[len(ps)-1].Fail()
				ps = ps[:len(ps)-1]
			}
		}
		for _, p := range ps {
			p.Pass()
		}
		load.VerifEnable()
		// control: an enabled shedder in the same situation does shed
		real := load.NewAdaptiveShedder()
		shed := false
		var held []load.Promise
		for i := 0; i < 400 && !shed; i++ {
			stat.VerifSetCpuUsage(1000)
			p, err := real.Allow()
			if err != nil {
				shed = true
				break
			}
			held = append(held, p)
			if i%2 == 0 { // finishes move the moving average up while in-flight stays high
				q, err := real.Allow()
				if err != nil {
					shed = true
					break
				}
				q.Fail()
			}
		}
		if !shed {
			t.Fatalf("control: enabled shedder under overload with %d in flight never shed", len(held))
		}
		st.NonTrivial(fmt.Sprintf("held=%d", n))
	})
}

// Concurrent Allow/Pass/Fail storm, then quiescence: in-flight returns to exactly 0 and
// the next Allows under overload (each resolved before the next) are all admitted.
func TestVerifC02Concurrent(t *testing.T) {
	logx.Disable()
	stat.SetReporter(nil)
	st := verifkit.New("shedder-concurrent")
	defer st.Flush()
	rapid.Check(t, func(t *rapid.T) {
		st.Eval()
		load.VerifEnable()
		timex.VerifUnfreeze()
		g := rapid.IntRange(2, 32).Draw(t, "goroutines")
		per := rapid.IntRange(10, 300).Draw(t, "perGoroutine")
		holdN := rapid.IntRange(0, 8).Draw(t, "holdDepth")
		failEvery := rapid.IntRange(1, 5).Draw(t, "failEvery")
		sh := load.NewAdaptiveShedder(load.WithWindow(time.Second), load.WithBuckets(10))
		var wg sync.WaitGroup
		var admitted, shed int64
		for i := 0; i < g; i++ {
			wg.Add(1)
			go func(id int) {
				defer wg.Done()
				var held []load.Promise
				for j := 0; j < per; j++ {
					stat.VerifSetCpuUsage(int64((id+j)%2) * 1000)
					p, err := sh.Allow()
					if err != nil {
						atomic.AddInt64(&shed, 1)
					} else {
						atomic.AddInt64(&admitted, 1)
						held = append(held, p)
					}
					if len(held) > holdN {
						if j%failEvery == 0 {
							held[0].Fail()
						} else {
							held[0].Pass()
						}
						held = held[1:]
					}
				}
				for _, p := range held {
					p.Pass()
				}
			}(i)
		}
		wg.Wait()
		f, ok := load.VerifFlying(sh)
		if !ok {
			t.Fatalf("white-box accessor no longer matches the shedder's structure")
		}
		if f != 0 {
			t.Fatalf("after every promise was resolved once the shedder still counts %d in flight (admitted=%d)", f, admitted)
		}
		for i := 0; i < 100; i++ {
			stat.VerifSetCpuUsage(1000)
			p, err := sh.Allow()
			if err != nil {
				t.Fatalf("nothing in flight after the storm, yet Allow #%d under overload was refused", i)
			}
			p.Pass()
		}
		if shed > 0 {
			st.Class("storm-with-sheds")
		}
		if g >= 4 && admitted >= 100 {
			st.NonTrivial(fmt.Sprintf("g=%d per=%d hold=%d failEvery=%d admitted=%d shed=%d", g, per, holdN, failEvery, admitted, shed))
		}
	})
}
