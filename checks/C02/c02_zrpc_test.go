//go:build verif

package serverinterceptors_test

import (
	"context"
	"errors"
	"fmt"
	"testing"

	"github.com/zeromicro/go-zero/core/load"
	"github.com/zeromicro/go-zero/core/logx"
	"github.com/zeromicro/go-zero/core/stat"
	"github.com/zeromicro/go-zero/internal/verifkit"
	"github.com/zeromicro/go-zero/zrpc/internal/serverinterceptors"
	"google.golang.org/grpc"
	"google.golang.org/grpc/codes"
	"google.golang.org/grpc/status"
	"pgregory.net/rapid"
)

type c02Promise struct{ pass, fail *int }

func (p c02Promise) Pass() { *p.pass++ }
func (p c02Promise) Fail() { *p.fail++ }

type c02Shedder struct {
	refuse     bool
	allows     int
	pass, fail int
}

func (s *c02Shedder) Allow() (load.Promise, error) {
	s.allows++
	if s.refuse {
		return nil, load.ErrServiceOverloaded
	}
	return c02Promise{&s.pass, &s.fail}, nil
}

// Call site: zrpc unary shedding interceptor: promise resolved exactly once, Fail iff the
// handler's error is a deadline error; refused => ResourceExhausted, handler not run.
func TestVerifC02ZrpcShedding(t *testing.T) {
	logx.Disable()
	st := verifkit.New("zrpc-shedding")
	defer st.Flush()
	metrics := stat.NewMetrics("verif-c02-rpc")
	plain := errors.New("plain")
	wrapped := fmt.Errorf("wrapped: %w", context.DeadlineExceeded)
	rapid.Check(t, func(t *rapid.T) {
		st.Eval()
		sh := &c02Shedder{}
		ic := serverinterceptors.UnarySheddingInterceptor(sh, metrics)
		n := rapid.IntRange(1, 40).Draw(t, "calls")
		desc := ""
		for i := 0; i < n; i++ {
			sh.refuse = rapid.IntRange(0, 4).Draw(t, "refuse") == 0
			kind := rapid.IntRange(0, 6).Draw(t, "kind")
			var herr error
			wantFail := false
			switch kind {
			case 1:
				herr = plain
			case 2:
				herr, wantFail = context.DeadlineExceeded, true
			case 3:
				herr, wantFail = wrapped, true
			case 4:
				herr = context.Canceled
			case 5:
				herr = status.Error(codes.Internal, "x")
			}
			doPanic := kind == 6
			desc += fmt.Sprintf(" %v/%d", sh.refuse, kind)
			sh.pass, sh.fail, sh.allows = 0, 0, 0
			ran := 0
			resp := &struct{ int }{i}
			var got any
			var err error
			var pan any
			func() {
				defer func() { pan = recover() }()
				got, err = ic(context.Background(), nil, &grpc.UnaryServerInfo{FullMethod: "/v/m"}, func(ctx context.Context, req any) (any, error) {
					ran++
					if doPanic {
						panic("handler panic")
					}
					return resp, herr
				})
			}()
			if sh.allows != 1 {
				t.Fatalf("Allow called %d times", sh.allows)
			}
			if sh.refuse {
				if ran != 0 || status.Code(err) != codes.ResourceExhausted || sh.pass+sh.fail != 0 {
					t.Fatalf("refused call: ran=%d err=%v resolutions=%d", ran, err, sh.pass+sh.fail)
				}
				continue
			}
			if ran != 1 {
				t.Fatalf("handler ran %d times", ran)
			}
			if doPanic {
				if pan == nil {
					t.Fatalf("handler panic swallowed")
				}
				if sh.pass+sh.fail != 1 {
					t.Fatalf("panicking handler: promise resolved %d times", sh.pass+sh.fail)
				}
				continue
			}
			if got != any(resp) || err != herr {
				t.Fatalf("result not passed through: %v %v", got, err)
			}
			if sh.pass+sh.fail != 1 || (wantFail && sh.fail != 1) || (!wantFail && sh.pass != 1) {
				t.Fatalf("handler error %v: Pass x%d Fail x%d; want exactly one, Fail iff deadline exceeded", herr, sh.pass, sh.fail)
			}
		}
		if n >= 3 {
			st.NonTrivial(desc)
		}
	})
}
