//go:build verif

package rest

import (
	"fmt"
	"net/http"
	"net/http/httptest"
	"testing"
	"time"

	"github.com/zeromicro/go-zero/core/logx"
	"github.com/zeromicro/go-zero/internal/verifkit"
	"github.com/zeromicro/go-zero/rest/router"
	"pgregory.net/rapid"
)

// Engine wiring: a route runs under its own WithTimeout if that is > 0, else under conf.Timeout;
// with the timeout middleware switched off, or an effective timeout <= 0, under no deadline.
// The handler's deadline must never be later than now + the effective timeout.
func TestVerifC04Engine(t *testing.T) {
	logx.Disable()
	st := verifkit.New("engine-timeout")
	defer st.Flush()
	rapid.Check(t, func(t *rapid.T) {
		st.Eval()
		ms := []int64{0, 40, 700, 3000, 20000}
		conf := RestConf{Timeout: rapid.SampledFrom(ms).Draw(t, "confTimeoutMs")}
		conf.Middlewares.Timeout = rapid.IntRange(0, 4).Draw(t, "middlewareOn") != 0
		nroutes := rapid.IntRange(1, 4).Draw(t, "routes")
		type obs struct {
			has bool
			dl  time.Time
			at  time.Time
		}
		seen := make([]obs, nroutes)
		routeTimeout := make([]time.Duration, nroutes)
		s := &Server{ngin: newEngine(conf), router: router.NewRouter()}
		for i := 0; i < nroutes; i++ {
			i := i
			routeTimeout[i] = time.Duration(rapid.SampledFrom([]int64{-1, 0, 25, 900, 5000, 60000}).Draw(t, "routeTimeoutMs")) * time.Millisecond
			rt := Route{Method: http.MethodGet, Path: fmt.Sprintf("/r%d", i), Handler: func(w http.ResponseWriter, r *http.Request) {
				seen[i].at = time.Now()
				seen[i].dl, seen[i].has = r.Context().Deadline()
				w.WriteHeader(204)
			}}
			if rapid.Bool().Draw(t, "withTimeoutOption") {
				s.AddRoute(rt, WithTimeout(routeTimeout[i]))
			} else {
				routeTimeout[i] = 0
				s.AddRoute(rt)
			}
		}
		h := router.NewRouter()
		if err := s.ngin.bindRoutes(h); err != nil {
			t.Fatalf("bindRoutes: %v", err)
		}
		desc := fmt.Sprintf("conf=%dms mw=%v routes=%v", conf.Timeout, conf.Middlewares.Timeout, routeTimeout)
		for i := 0; i < nroutes; i++ {
			rr := httptest.NewRecorder()
			h.ServeHTTP(rr, httptest.NewRequest(http.MethodGet, fmt.Sprintf("/r%d", i), nil))
			if rr.Code != 204 {
				t.Fatalf("route %d answered %d; %s", i, rr.Code, desc)
			}
			eff := routeTimeout[i]
			if eff <= 0 {
				eff = time.Duration(conf.Timeout) * time.Millisecond
			}
			if !conf.Middlewares.Timeout || eff <= 0 {
				if seen[i].has {
					t.Fatalf("route %d: no timeout configured (middleware on=%v, effective %v) but the handler has a deadline %v ahead; %s",
						i, conf.Middlewares.Timeout, eff, seen[i].dl.Sub(seen[i].at), desc)
				}
				continue
			}
			if !seen[i].has {
				t.Fatalf("route %d: effective timeout %v but the handler context has no deadline; %s", i, eff, desc)
			}
			if seen[i].dl.After(seen[i].at.Add(eff)) {
				t.Fatalf("DEADLINE EXTENDED: route %d handler deadline is %v after its start, effective timeout %v; %s", i, seen[i].dl.Sub(seen[i].at), eff, desc)
			}
		}
		if nroutes >= 2 && conf.Middlewares.Timeout {
			st.NonTrivial(desc)
		}
	})
}
