//go:build verif

package handler_test

import (
	"bytes"
	"context"
	"errors"
	"fmt"
	"net/http"
	"net/http/httptest"
	"runtime"
	"strings"
	"sync"
	"testing"
	"time"

	"github.com/zeromicro/go-zero/core/lang"
	"github.com/zeromicro/go-zero/core/logx"
	"github.com/zeromicro/go-zero/internal/verifkit"
	"github.com/zeromicro/go-zero/rest/handler"
	"pgregory.net/rapid"
)

// one step of a generated handler behaviour
type c04step struct {
	kind  string // header, status, write, jitter, waitCtx, waitGate, panic
	key   string
	val   string
	code  int
	chunk string
	n     int
}

type c04plan struct {
	steps []c04step
}

func (p c04plan) String() string {
	var b strings.Builder
	for _, s := range p.steps {
		switch s.kind {
		case "header":
			fmt.Fprintf(&b, " H(%s=%s)", s.key, s.val)
		case "status":
			fmt.Fprintf(&b, " S(%d)", s.code)
		case "write":
			fmt.Fprintf(&b, " W(%q)", s.chunk)
		case "jitter":
			fmt.Fprintf(&b, " j%d", s.n)
		default:
			b.WriteString(" " + s.kind)
		}
	}
	return b.String()
}

// the complete result of the plan under net/http semantics
func (p c04plan) complete() (code int, hdr map[string]string, body string) {
	code = 200
	hdr = map[string]string{}
	fixed := false
	var b strings.Builder
	for _, s := range p.steps {
		switch s.kind {
		case "header":
			if !fixed {
				hdr[s.key] = s.val
			}
		case "status":
			if !fixed {
				code, fixed = s.code, true
			}
		case "write":
			fixed = true
			b.WriteString(s.chunk)
		}
	}
	return code, hdr, b.String()
}

func (p c04plan) has(kind string) bool {
	for _, s := range p.steps {
		if s.kind == kind {
			return true
		}
	}
	return false
}

func (p c04plan) writes() int {
	n := 0
	for _, s := range p.steps {
		if s.kind == "write" || s.kind == "status" {
			n++
		}
	}
	return n
}

var c04codes = []int{200, 201, 202, 400, 404, 418, 500, 502, 503}

func c04genPlan(t *rapid.T, allowBlock bool) c04plan {
	n := rapid.IntRange(0, 8).Draw(t, "steps")
	var p c04plan
	wrote := false
	for i := 0; i < n; i++ {
		kinds := []string{"write", "write", "status", "jitter", "jitter"}
		if !wrote {
			kinds = append(kinds, "header", "header")
		}
		if allowBlock {
			kinds = append(kinds, "waitCtx", "waitGate")
		}
		k := rapid.SampledFrom(kinds).Draw(t, "kind")
		s := c04step{kind: k}
		switch k {
		case "header":
			s.key = rapid.SampledFrom([]string{"X-A", "X-B", "Content-Type", "X-Trace"}).Draw(t, "hkey")
			s.val = rapid.SampledFrom([]string{"1", "two", "text/plain", ""}).Draw(t, "hval")
		case "status":
			s.code = rapid.SampledFrom(c04codes).Draw(t, "code")
			wrote = true
		case "write":
			s.chunk = rapid.SampledFrom([]string{"", "a", "hello", "Request Timeout", strings.Repeat("z", 5000)}).Draw(t, "chunk")
			wrote = true
		case "jitter":
			s.n = rapid.IntRange(0, 40).Draw(t, "n")
		}
		p.steps = append(p.steps, s)
	}
	if rapid.IntRange(0, 7).Draw(t, "endsInPanic") == 0 {
		p.steps = append(p.steps, c04step{kind: "panic"})
	}
	return p
}

type c04obs struct {
	mu           sync.Mutex
	started      bool
	hasDeadline  bool
	deadline     time.Time
	startedAt    time.Time
	ctxErrAtEnd  error
	finished     bool
	sawFlushable bool
}

// run the plan inside a handler; gate is closed by the harness
func c04handler(p c04plan, obs *c04obs, gate chan struct{}, panicVal any) http.Handler {
	return http.HandlerFunc(func(w http.ResponseWriter, r *http.Request) {
		ctx := r.Context()
		obs.mu.Lock()
		obs.started = true
		obs.startedAt = time.Now()
		obs.deadline, obs.hasDeadline = ctx.Deadline()
		obs.mu.Unlock()
		defer func() {
			obs.mu.Lock()
			obs.finished = true
			obs.ctxErrAtEnd = ctx.Err()
			obs.mu.Unlock()
		}()
		for _, s := range p.steps {
			switch s.kind {
			case "header":
				w.Header().Set(s.key, s.val)
			case "status":
				w.WriteHeader(s.code)
			case "write":
				w.Write([]byte(s.chunk))
			case "jitter":
				if s.n%3 == 0 {
					time.Sleep(time.Duration(s.n) * 50 * time.Microsecond)
				} else {
					for i := 0; i < s.n; i++ {
						runtime.Gosched()
					}
				}
			case "waitCtx":
				<-ctx.Done()
			case "waitGate":
				<-gate
			case "panic":
				panic(panicVal)
			}
		}
	})
}

type c04resp struct {
	code int
	hdr  http.Header
	body string
}

func c04snapshot(rr *httptest.ResponseRecorder) c04resp {
	h := http.Header{}
	for k, v := range rr.Header() {
		h[k] = append([]string(nil), v...)
	}
	return c04resp{rr.Code, h, rr.Body.String()}
}

func c04isComplete(r c04resp, p c04plan) bool {
	code, hdr, body := p.complete()
	if r.code != code || r.body != body {
		return false
	}
	for k, v := range hdr {
		if r.hdr.Get(k) != v {
			return false
		}
	}
	return true
}

func c04isTimeout(r c04resp, p c04plan, allowed []int) bool {
	okCode := false
	for _, c := range allowed {
		if r.code == c {
			okCode = true
		}
	}
	if !okCode || r.body != "Request Timeout" {
		return false
	}
	// none of the plan's headers may have leaked into a timeout answer
	_, hdr, _ := p.complete()
	for k, v := range hdr {
		if v != "" && r.hdr.Get(k) == v && !(k == "Content-Type" && strings.HasPrefix(v, "text/plain")) {
			return false
		}
	}
	return true
}

func TestVerifC04HTTP(t *testing.T) {
	logx.Disable()
	st := verifkit.New("http-timeout")
	defer st.Flush()
	yield := verifkit.EnvInt("yield", 0) == 1
	rapid.Check(t, func(t *rapid.T) {
		st.Eval()
		if yield {
			lang.VerifYieldConfig(rapid.Uint64Range(1, 1<<62).Draw(t, "yieldSeed"),
				rapid.SampledFrom([]uint32{0, 100, 400}).Draw(t, "yieldGosched"), rapid.SampledFrom([]uint32{0, 50, 200}).Draw(t, "yieldSleep"), 300)
			defer lang.VerifYieldConfig(0, 0, 0, 0)
		}
		class := rapid.SampledFrom([]string{"large", "small", "small", "race"}).Draw(t, "timeoutClass")
		var dt time.Duration
		switch class {
		case "large":
			dt = time.Duration(rapid.IntRange(2000, 5000).Draw(t, "dtMs")) * time.Millisecond
		case "small":
			dt = time.Duration(rapid.IntRange(5, 60).Draw(t, "dtMs")) * time.Millisecond
		case "race":
			dt = time.Duration(rapid.IntRange(1, 4).Draw(t, "dtMs")) * time.Millisecond
		}
		blocking := class == "small"
		p := c04genPlan(t, blocking)
		if class == "race" {
			// plans whose duration is comparable with dt: either outcome is legal, nothing else
			p.steps = append([]c04step{{kind: "jitter", n: rapid.IntRange(0, 60).Draw(t, "raceJitter") * 3}}, p.steps...)
		}
		callerMode := rapid.SampledFrom([]string{"none", "none", "laterDeadline", "earlierDeadline", "cancelDuring"}).Draw(t, "caller")
		if class != "small" && (callerMode == "earlierDeadline" || callerMode == "cancelDuring") {
			callerMode = "laterDeadline"
		}
		// the caller's context may end with a cause of its own (WithCancelCause / WithDeadlineCause): ctx.Err()
		// is unchanged, so the timeout answer must be too
		withCause := rapid.Bool().Draw(t, "callerCause")
		ctx := context.Background()
		var cancel context.CancelFunc = func() {}
		var callerDeadline time.Time
		switch callerMode {
		case "laterDeadline":
			callerDeadline = time.Now().Add(dt + time.Hour)
			ctx, cancel = context.WithDeadline(ctx, callerDeadline)
		case "earlierDeadline":
			callerDeadline = time.Now().Add(dt / 2)
			if withCause {
				ctx, cancel = context.WithDeadlineCause(ctx, callerDeadline, errors.New("caller's own deadline cause"))
			} else {
				ctx, cancel = context.WithDeadline(ctx, callerDeadline)
			}
		case "cancelDuring":
			if withCause {
				var cc context.CancelCauseFunc
				ctx, cc = context.WithCancelCause(ctx)
				cancel = func() { cc(errors.New("caller's own cancel cause")) }
			} else {
				ctx, cancel = context.WithCancel(ctx)
			}
		}
		if withCause && (callerMode == "earlierDeadline" || callerMode == "cancelDuring") {
			st.Class("caller-context-with-cause")
		}
		defer cancel()
		obs := &c04obs{}
		gate := make(chan struct{})
		gateOpen := false
		openGate := func() {
			if !gateOpen {
				gateOpen = true
				close(gate)
			}
		}
		defer openGate()
		panicVal := fmt.Sprintf("planned-panic-%d", rapid.IntRange(0, 1000).Draw(t, "panicId"))
		h := handler.TimeoutHandler(dt)(c04handler(p, obs, gate, panicVal))
		rr := httptest.NewRecorder()
		req := httptest.NewRequest(http.MethodPost, "/c04", bytes.NewReader(nil)).WithContext(ctx)
		if callerMode == "cancelDuring" {
			d := time.Duration(rapid.IntRange(0, int(dt/time.Millisecond)).Draw(t, "cancelAfterMs")) * time.Millisecond
			go func() { time.Sleep(d); cancel() }()
		}
		before := time.Now()
		var pan any
		returned := make(chan struct{})
		go func() {
			defer close(returned)
			defer func() { pan = recover() }()
			h.ServeHTTP(rr, req)
		}()
		select {
		case <-returned:
		case <-time.After(dt + 15*time.Second):
			openGate()
			<-returned
			t.Fatalf("DID NOT RETURN AT THE DEADLINE: timeout %v, the wrapper was still waiting 15 s after it while the handler ignored the context; plan:%v", dt, p)
		}
		elapsed := time.Since(before)
		first := c04snapshot(rr)
		handlerWasBlocked := false
		obs.mu.Lock()
		if !obs.finished {
			handlerWasBlocked = true
		}
		started := obs.started
		hasDl, dl, startedAt := obs.hasDeadline, obs.deadline, obs.startedAt
		obs.mu.Unlock()
		// release the handler and let it finish writing
		openGate()
		cancel()
		deadline := time.Now().Add(20 * time.Second)
		for {
			obs.mu.Lock()
			fin := obs.finished || !obs.started
			obs.mu.Unlock()
			if fin || p.has("panic") && pan != nil {
				break
			}
			if time.Now().After(deadline) {
				t.Fatalf("handler goroutine did not finish within 20 s after gate and context were released; plan:%v", p)
			}
			time.Sleep(200 * time.Microsecond)
		}
		time.Sleep(300 * time.Microsecond)
		second := c04snapshot(rr)
		// ---- clause 1: deadline only shrinks
		if started {
			if !hasDl {
				t.Fatalf("handler context has no deadline although the timeout is %v; plan:%v", dt, p)
			}
			if dl.After(startedAt.Add(dt)) {
				t.Fatalf("DEADLINE EXTENDED: handler's deadline is %v after its start, timeout is %v", dl.Sub(startedAt), dt)
			}
			if !callerDeadline.IsZero() && dl.After(callerDeadline) {
				t.Fatalf("DEADLINE EXTENDED: handler's deadline %v is later than the caller's %v", dl, callerDeadline)
			}
		}
		// ---- clause 4: panic
		if pan != nil {
			if !p.has("panic") || pan != any(panicVal) {
				t.Fatalf("wrapper panicked with %v; plan:%v", pan, p)
			}
			if rr.Body.Len() != 0 {
				t.Fatalf("panic re-raised but %d bytes were written to the client; plan:%v", rr.Body.Len(), p)
			}
			st.Class("outcome:panic")
			return
		}
		// ---- clause 3: all-or-nothing, and nothing after the timeout reaches the client
		if first.code != second.code || first.body != second.body || fmt.Sprint(first.hdr) != fmt.Sprint(second.hdr) {
			t.Fatalf("RESPONSE CHANGED AFTER THE WRAPPER RETURNED: first %d %q, later %d %q; plan:%v", first.code, trunc(first.body), second.code, trunc(second.body), p)
		}
		allowed := []int{http.StatusServiceUnavailable}
		if callerMode == "cancelDuring" {
			allowed = append(allowed, 499)
		}
		complete, timedOut := c04isComplete(first, p), c04isTimeout(first, p, allowed)
		reachesEnd := !p.has("waitCtx") && !p.has("waitGate") && !p.has("panic")
		switch {
		case p.has("panic") && class == "large":
			// nothing can stop the handler from reaching its panic before a 2-5 s timeout,
			// except a machine stall of that length (inconclusive)
			if timedOut && elapsed >= dt*9/10 {
				st.Note("inconclusive: %v timeout fired on a non-blocking plan after %v (machine stall)", dt, elapsed)
				return
			}
			t.Fatalf("SWALLOWED PANIC: the handler panicked, the wrapper returned normally with %d %q; plan:%v", first.code, trunc(first.body), p)
		case p.has("panic"):
			// the panic was not re-raised, so the deadline came first: only the timeout result is legal
			if !timedOut {
				t.Fatalf("panic planned, none re-raised, and the answer %d %q is not the timeout result; dt=%v; plan:%v", first.code, trunc(first.body), dt, p)
			}
			st.Class("outcome:timeout")
		case class == "large":
			if !reachesEnd {
				break
			}
			if timedOut && !complete && elapsed >= dt*9/10 {
				st.Note("inconclusive: %v timeout fired on a non-blocking plan after %v (machine stall)", dt, elapsed)
				return
			}
			if !complete {
				code, hdr, body := p.complete()
				t.Fatalf("INCOMPLETE RESULT without timeout (dt=%v): client saw %d %v %q, handler produced %d %v %q; plan:%v", dt, first.code, first.hdr, trunc(first.body), code, hdr, trunc(body), p)
			}
			st.Class("outcome:complete")
		default:
			if !complete && !timedOut {
				code, _, body := p.complete()
				t.Fatalf("MIXTURE: client saw %d %v %q, which is neither the complete result (%d %q) nor the timeout result (503/499 Request Timeout); dt=%v caller=%s; plan:%v",
					first.code, first.hdr, trunc(first.body), code, trunc(body), dt, callerMode, p)
			}
			if (p.has("waitCtx") || p.has("waitGate")) && !timedOut && !complete {
				t.Fatalf("blocking plan did not yield the timeout result")
			}
			if timedOut {
				st.Class("outcome:timeout")
			} else {
				st.Class("outcome:complete")
			}
		}
		// ---- clause 2: returned while the handler was still blocked on the gate
		if p.has("waitGate") && handlerWasBlocked {
			st.Class("returned-while-handler-blocked")
			if time.Since(before) < 0 {
				t.Fatalf("clock went backwards")
			}
		}
		if p.writes() >= 2 && (timedOut || class == "race") {
			st.NonTrivial(fmt.Sprintf("dt=%v caller=%s plan:%v", dt, callerMode, p))
		}
	})
}

func trunc(s string) string {
	if len(s) > 60 {
		return s[:60] + fmt.Sprintf("…(%d bytes)", len(s))
	}
	return s
}

// timeout <= 0: no wrapper; websocket upgrade and event-stream requests are exempt: the handler
// runs on the caller's context and on the real writer.
func TestVerifC04Exempt(t *testing.T) {
	logx.Disable()
	st := verifkit.New("http-exempt")
	defer st.Flush()
	rapid.Check(t, func(t *rapid.T) {
		st.Eval()
		mode := rapid.SampledFrom([]string{"zero", "negative", "websocket", "sse", "nearMiss", "nearMiss"}).Draw(t, "mode")
		if mode == "nearMiss" {
			// requests that are neither a websocket upgrade nor an event stream are not exempt
			req := httptest.NewRequest(http.MethodGet, "/x", nil)
			if rapid.Bool().Draw(t, "viaAccept") {
				req.Header.Set("Accept", rapid.SampledFrom([]string{"text/html", "text/plain", "application/json", "*/*", "text/css"}).Draw(t, "accept"))
			} else {
				req.Header.Set("Upgrade", rapid.SampledFrom([]string{"h2c", "TLS/1.0", "web"}).Draw(t, "upgrade"))
			}
			// schedule-free: the handler stays blocked on a gate that is opened only after the wrapper has
			// returned, so "the handler finished just as the timeout fired" cannot happen; a wrapper that
			// (wrongly) exempts the request waits for the handler and trips the 10 s watchdog instead
			var has bool
			rr := httptest.NewRecorder()
			gate := make(chan struct{})
			started := make(chan struct{})
			served := make(chan struct{})
			go func() {
				defer close(served)
				handler.TimeoutHandler(20*time.Millisecond)(http.HandlerFunc(func(w http.ResponseWriter, r *http.Request) {
					_, has = r.Context().Deadline()
					w.Write([]byte("early"))
					close(started)
					<-gate
				})).ServeHTTP(rr, req)
			}()
			exempt := false
			select {
			case <-served:
			case <-time.After(10 * time.Second):
				exempt = true
			}
			close(gate)
			<-served
			select {
			case <-started: // also orders the handler's write of `has` before the read below
			case <-time.After(10 * time.Second):
				st.Note("nearMiss: handler goroutine did not start within 10 s (inconclusive)")
				return
			}
			if exempt || !has || rr.Code != http.StatusServiceUnavailable || rr.Body.String() != "Request Timeout" {
				t.Fatalf("request with headers %v was treated as exempt: wrapper waited for the handler=%v, deadline in handler=%v, answer %d %q", req.Header, exempt, has, rr.Code, rr.Body.String())
			}
			st.NonTrivial("nearMiss" + fmt.Sprint(req.Header))
			return
		}
		dt := 50 * time.Millisecond
		switch mode {
		case "zero":
			dt = 0
		case "negative":
			dt = -time.Duration(rapid.IntRange(1, 1000).Draw(t, "neg")) * time.Millisecond
		}
		var sawDeadline, sawRealWriter bool
		rr := httptest.NewRecorder()
		inner := http.HandlerFunc(func(w http.ResponseWriter, r *http.Request) {
			_, sawDeadline = r.Context().Deadline()
			w.Header().Set("X-Early", "1")
			w.WriteHeader(201)
			w.Write([]byte("first"))
			// on the real writer the bytes are already visible to the client side
			sawRealWriter = rr.Body.String() == "first" && rr.Code == 201
			time.Sleep(80 * time.Millisecond) // outlive the 50 ms timeout
			w.Write([]byte("-second"))
		})
		req := httptest.NewRequest(http.MethodGet, "/x", nil)
		switch mode {
		case "websocket":
			req.Header.Set("Upgrade", "websocket")
		case "sse":
			req.Header.Set("Accept", "text/event-stream")
		}
		handler.TimeoutHandler(dt)(inner).ServeHTTP(rr, req)
		if sawDeadline || !sawRealWriter || rr.Body.String() != "first-second" || rr.Code != 201 {
			t.Fatalf("%s request was not exempt: deadline in handler=%v, writes went straight to the client=%v, final answer %d %q", mode, sawDeadline, sawRealWriter, rr.Code, rr.Body.String())
		}
		st.NonTrivial(mode + fmt.Sprint(dt))
	})
}

// Overlapping requests: request A times out while its handler is blocked; later requests B run
// through the timeout middleware while A's handler is released and keeps writing.  Nothing A
// writes after its timeout may reach any client: every B sees exactly its own complete result
// and A's answer stays the timeout result.  (Catches state shared between requests, e.g. a
// recycled response buffer.)
func TestVerifC04HTTPOverlap(t *testing.T) {
	logx.Disable()
	st := verifkit.New("http-overlap")
	defer st.Flush()
	rapid.Check(t, func(t *rapid.T) {
		st.Eval()
		dt := time.Duration(rapid.IntRange(5, 30).Draw(t, "dtMs")) * time.Millisecond
		nA := rapid.IntRange(1, 3).Draw(t, "timedOutRequests")
		nB := rapid.IntRange(1, 3).Draw(t, "laterRequests")
		lateChunks := rapid.IntRange(1, 4).Draw(t, "lateChunks")
		lateStatus := rapid.SampledFrom([]int{0, 202, 500}).Draw(t, "lateStatus")
		sameInstance := rapid.Bool().Draw(t, "sameMiddlewareInstance")
		mwA := handler.TimeoutHandler(dt)
		mwB := handler.TimeoutHandler(3 * time.Second)
		if sameInstance {
			mwB = handler.TimeoutHandler(dt * 200)
		}
		gateA := make(chan struct{})
		var aDone sync.WaitGroup
		hA := mwA(http.HandlerFunc(func(w http.ResponseWriter, r *http.Request) {
			defer aDone.Done()
			w.Write([]byte("A-early;"))
			<-gateA // ignores its context
			w.Header().Set("X-Late-From-A", "1")
			if lateStatus != 0 {
				w.WriteHeader(lateStatus)
			}
			for i := 0; i < lateChunks; i++ {
				w.Write([]byte("LATE-FROM-A;"))
				runtime.Gosched()
			}
		}))
		var aRecs []*httptest.ResponseRecorder
		for i := 0; i < nA; i++ {
			aDone.Add(1)
			rr := httptest.NewRecorder()
			hA.ServeHTTP(rr, httptest.NewRequest(http.MethodGet, "/a", nil))
			if rr.Code != http.StatusServiceUnavailable || rr.Body.String() != "Request Timeout" {
				close(gateA)
				t.Fatalf("request A%d with a blocked handler got %d %q, want the timeout result", i, rr.Code, rr.Body.String())
			}
			aRecs = append(aRecs, rr)
		}
		// B requests run on this goroutine (as the next requests on a busy connection would);
		// a helper releases A's handlers once the first B is inside its handler
		bInside := make(chan struct{})
		gateB := make(chan struct{})
		var once sync.Once
		go func() {
			<-bInside
			close(gateA)
			aDone.Wait()
			close(gateB)
		}()
		for i := 0; i < nB; i++ {
			i := i
			hB := mwB(http.HandlerFunc(func(w http.ResponseWriter, r *http.Request) {
				w.Header().Set("X-B", fmt.Sprint(i))
				w.WriteHeader(201)
				w.Write([]byte("body-"))
				once.Do(func() { close(bInside) })
				<-gateB
				w.Write([]byte(fmt.Sprintf("of-B%d", i)))
			}))
			rr := httptest.NewRecorder()
			hB.ServeHTTP(rr, httptest.NewRequest(http.MethodGet, "/b", nil))
			want := fmt.Sprintf("body-of-B%d", i)
			if rr.Code != 201 || rr.Body.String() != want || rr.Header().Get("X-B") != fmt.Sprint(i) || rr.Header().Get("X-Late-From-A") != "" {
				t.Fatalf("LATE WRITE REACHED ANOTHER CLIENT: request B%d got %d %v %q, its handler produced 201 X-B=%d %q (A's handler wrote %d late chunks after its timeout; same middleware instance=%v)",
					i, rr.Code, rr.Header(), rr.Body.String(), i, want, lateChunks, sameInstance)
			}
		}
		for i, rr := range aRecs {
			if rr.Code != http.StatusServiceUnavailable || rr.Body.String() != "Request Timeout" || rr.Header().Get("X-Late-From-A") != "" {
				t.Fatalf("request A%d's answer changed after its timeout: %d %v %q", i, rr.Code, rr.Header(), rr.Body.String())
			}
		}
		st.NonTrivial(fmt.Sprintf("dt=%v nA=%d nB=%d late=%d/%d same=%v", dt, nA, nB, lateChunks, lateStatus, sameInstance))
	})
}
