//go:build verif

package fx_test

import (
	"context"
	"errors"
	"fmt"
	"strings"
	"sync"
	"testing"
	"time"

	"github.com/zeromicro/go-zero/core/fx"
	"github.com/zeromicro/go-zero/core/logx"
	"github.com/zeromicro/go-zero/internal/verifkit"
	"pgregory.net/rapid"
)

// fx.DoWithTimeout: returns fn's error, or the context error at the deadline (min of timeout and
// the parent given by WithContext) without waiting for fn; panic re-raised mentioning the value.
func TestVerifC04FxDoWithTimeout(t *testing.T) {
	logx.Disable()
	st := verifkit.New("fx-dowithtimeout")
	defer st.Flush()
	rapid.Check(t, func(t *rapid.T) {
		st.Eval()
		class := rapid.SampledFrom([]string{"large", "small", "small"}).Draw(t, "class")
		dt := time.Duration(rapid.IntRange(2000, 5000).Draw(t, "largeMs")) * time.Millisecond
		if class == "small" {
			dt = time.Duration(rapid.IntRange(3, 50).Draw(t, "smallMs")) * time.Millisecond
		}
		behaviour := rapid.SampledFrom([]string{"return", "returnErr", "panic", "waitGate", "sleep"}).Draw(t, "behaviour")
		if class == "large" && behaviour == "waitGate" {
			behaviour = "sleep"
		}
		parent := rapid.SampledFrom([]string{"none", "live", "cancelled", "earlierDeadline", "cancelDuring"}).Draw(t, "parent")
		if class == "large" && (parent == "earlierDeadline" || parent == "cancelDuring") {
			parent = "live"
		}
		var opts []fx.DoOption
		var cancel context.CancelFunc = func() {}
		withCause := rapid.Bool().Draw(t, "callerCause") // the parent may end with a cause of its own: the result is still ctx.Err()
		switch parent {
		case "live":
			c, cf := context.WithCancel(context.Background())
			cancel = cf
			opts = append(opts, fx.WithContext(c))
		case "cancelled":
			c, cf := context.WithCancel(context.Background())
			cf()
			opts = append(opts, fx.WithContext(c))
		case "earlierDeadline":
			c, cf := context.WithTimeout(context.Background(), dt/2)
			if withCause {
				c, cf = context.WithTimeoutCause(context.Background(), dt/2, errors.New("caller's own deadline cause"))
			}
			cancel = cf
			opts = append(opts, fx.WithContext(c))
		case "cancelDuring":
			c, cc := context.WithCancelCause(context.Background())
			cf := func() {
				if withCause {
					cc(errors.New("caller's own cancel cause"))
				} else {
					cc(nil)
				}
			}
			cancel = cf
			go func() { time.Sleep(dt / 3); cf() }()
			opts = append(opts, fx.WithContext(c))
		}
		defer cancel()
		gate := make(chan struct{})
		var once sync.Once
		openGate := func() { once.Do(func() { close(gate) }) }
		defer openGate()
		ferr := errors.New("fn error")
		var mu sync.Mutex
		finished := false
		fn := func() error {
			defer func() { mu.Lock(); finished = true; mu.Unlock() }()
			switch behaviour {
			case "returnErr":
				return ferr
			case "panic":
				panic("planned-fx-panic")
			case "waitGate":
				<-gate
			case "sleep":
				time.Sleep(300 * time.Microsecond)
			}
			return nil
		}
		var err error
		var pan any
		before := time.Now()
		returned := make(chan struct{})
		go func() {
			defer close(returned)
			defer func() { pan = recover() }()
			err = fx.DoWithTimeout(fn, dt, opts...)
		}()
		select {
		case <-returned:
		case <-time.After(dt + 15*time.Second):
			openGate()
			<-returned
			t.Fatalf("DID NOT RETURN AT THE DEADLINE: DoWithTimeout(%v) still waiting 15 s later for fn", dt)
		}
		elapsed := time.Since(before)
		mu.Lock()
		blocked := !finished
		mu.Unlock()
		openGate()
		ctxErr := errors.Is(err, context.DeadlineExceeded) || errors.Is(err, context.Canceled)
		if errors.Is(err, context.Canceled) && parent != "cancelled" && parent != "cancelDuring" {
			t.Fatalf("DoWithTimeout returned Canceled although nothing was cancelled (parent=%s)", parent)
		}
		switch {
		case pan != nil:
			if behaviour != "panic" || !strings.Contains(fmt.Sprint(pan), "planned-fx-panic") {
				t.Fatalf("DoWithTimeout panicked with %v (behaviour %s)", pan, behaviour)
			}
		case parent == "cancelled":
			// both "fn finished" and "context done" may be observed; fn's own result or the context error
			if !(ctxErr || (behaviour == "returnErr" && err == ferr) || (behaviour != "returnErr" && behaviour != "panic" && err == nil)) {
				t.Fatalf("parent already cancelled: returned %v (behaviour %s)", err, behaviour)
			}
		case behaviour == "panic":
			if class == "large" {
				if ctxErr && elapsed >= dt*9/10 {
					st.Note("inconclusive: machine stall of %v", elapsed)
					return
				}
				t.Fatalf("SWALLOWED PANIC: fn panicked, DoWithTimeout returned %v", err)
			}
			if !ctxErr {
				t.Fatalf("panic planned, none re-raised, error %v is not a context error", err)
			}
		case behaviour == "waitGate":
			if !ctxErr {
				t.Fatalf("fn blocked on a gate under timeout %v: returned %v, want the context error", dt, err)
			}
			if blocked {
				st.Class("returned-while-fn-blocked")
			}
		default:
			complete := (behaviour == "returnErr" && err == ferr) || (behaviour != "returnErr" && err == nil)
			if class == "large" && !complete {
				if ctxErr && elapsed >= dt*9/10 {
					st.Note("inconclusive: machine stall of %v", elapsed)
					return
				}
				t.Fatalf("large timeout %v, fn returned quickly, DoWithTimeout returned %v", dt, err)
			}
			if !complete && !ctxErr {
				t.Fatalf("MIXTURE: returned %v, neither fn's error nor a context error", err)
			}
		}
		if behaviour == "waitGate" || parent == "cancelDuring" || parent == "earlierDeadline" {
			st.NonTrivial(fmt.Sprintf("class=%s dt=%v beh=%s parent=%s", class, dt, behaviour, parent))
		}
	})
}
