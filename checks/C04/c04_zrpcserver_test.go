//go:build verif

package serverinterceptors_test

import (
	"context"
	"errors"
	"fmt"
	"runtime"
	"strings"
	"sync"
	"testing"
	"time"

	"github.com/zeromicro/go-zero/core/lang"
	"github.com/zeromicro/go-zero/core/logx"
	"github.com/zeromicro/go-zero/internal/verifkit"
	"github.com/zeromicro/go-zero/zrpc/internal/serverinterceptors"
	"google.golang.org/grpc"
	"google.golang.org/grpc/codes"
	"google.golang.org/grpc/status"
	"pgregory.net/rapid"
)

// zRPC server timeout interceptor: deadline only shrinks (per-method table over default), returns
// at the deadline without waiting for a handler that ignores the context, result is the handler's
// (resp, err) or (nil, DeadlineExceeded/Canceled status), panic re-raised mentioning the value.
func TestVerifC04ZrpcServer(t *testing.T) {
	logx.Disable()
	st := verifkit.New("zrpc-server-timeout")
	defer st.Flush()
	yield := verifkit.EnvInt("yield", 0) == 1
	rapid.Check(t, func(t *rapid.T) {
		st.Eval()
		if yield {
			lang.VerifYieldConfig(rapid.Uint64Range(1, 1<<62).Draw(t, "yieldSeed"), 200, 100, 300)
			defer lang.VerifYieldConfig(0, 0, 0, 0)
		}
		class := rapid.SampledFrom([]string{"large", "small", "small", "race"}).Draw(t, "class")
		mk := func(label string) time.Duration {
			switch class {
			case "large":
				return time.Duration(rapid.IntRange(2000, 5000).Draw(t, label)) * time.Millisecond
			case "small":
				return time.Duration(rapid.IntRange(5, 60).Draw(t, label)) * time.Millisecond
			}
			return time.Duration(rapid.IntRange(1, 4).Draw(t, label)) * time.Millisecond
		}
		def := mk("defaultMs")
		// per-method table with unique method names; the called method may or may not be listed
		nm := rapid.IntRange(0, 4).Draw(t, "tableSize")
		var table []serverinterceptors.MethodTimeoutConf
		methodTimeout := map[string]time.Duration{}
		for i := 0; i < nm; i++ {
			m := fmt.Sprintf("/svc/M%d", i)
			d := mk("methodMs")
			table = append(table, serverinterceptors.MethodTimeoutConf{FullMethod: m, Timeout: d})
			methodTimeout[m] = d
		}
		method := fmt.Sprintf("/svc/M%d", rapid.IntRange(0, 5).Draw(t, "method"))
		dt, listed := methodTimeout[method]
		if !listed {
			dt = def
		}
		behaviour := rapid.SampledFrom([]string{"return", "return", "returnErr", "panic", "waitCtx", "waitGate", "jitterReturn"}).Draw(t, "behaviour")
		if class != "small" && (behaviour == "waitCtx" || behaviour == "waitGate") {
			behaviour = "jitterReturn"
		}
		jn := rapid.IntRange(0, 60).Draw(t, "jitter")
		// the caller's context may also end with a CAUSE of its own (context.WithCancelCause /
		// WithDeadlineCause): ctx.Err() is still Canceled / DeadlineExceeded, context.Cause(ctx) is the
		// caller's error - the timeout result must not depend on it
		callerMode := rapid.SampledFrom([]string{"none", "later", "earlier", "cancelDuring", "earlierCause", "cancelDuringCause"}).Draw(t, "caller")
		if class != "small" && callerMode != "none" {
			callerMode = "later"
		}
		ctx := context.Background()
		var cancel context.CancelFunc = func() {}
		var callerDeadline time.Time
		switch callerMode {
		case "later":
			callerDeadline = time.Now().Add(dt + time.Hour)
			ctx, cancel = context.WithDeadline(ctx, callerDeadline)
		case "earlier":
			callerDeadline = time.Now().Add(dt / 2)
			ctx, cancel = context.WithDeadline(ctx, callerDeadline)
		case "cancelDuring":
			ctx, cancel = context.WithCancel(ctx)
			d := time.Duration(rapid.IntRange(0, int(dt/time.Millisecond)).Draw(t, "cancelAfterMs")) * time.Millisecond
			go func() { time.Sleep(d); cancel() }()
		case "earlierCause":
			callerDeadline = time.Now().Add(dt / 2)
			ctx, cancel = context.WithDeadlineCause(ctx, callerDeadline, errors.New("caller's own deadline cause"))
			st.Class("caller-context-with-cause")
		case "cancelDuringCause":
			var cc context.CancelCauseFunc
			ctx, cc = context.WithCancelCause(ctx)
			cancel = func() { cc(nil) }
			d := time.Duration(rapid.IntRange(0, int(dt/time.Millisecond)).Draw(t, "cancelAfterMs")) * time.Millisecond
			go func() { time.Sleep(d); cc(errors.New("caller's own cancel cause")) }()
			st.Class("caller-context-with-cause")
		}
		defer cancel()
		gate := make(chan struct{})
		var once sync.Once
		openGate := func() { once.Do(func() { close(gate) }) }
		defer openGate()
		herr := errors.New("handler error")
		resp := &struct{ id int }{jn}
		var mu sync.Mutex
		var hasDl, finished, started bool
		var dl, startedAt time.Time
		h := func(hctx context.Context, req any) (any, error) {
			mu.Lock()
			started = true
			startedAt = time.Now()
			dl, hasDl = hctx.Deadline()
			mu.Unlock()
			defer func() { mu.Lock(); finished = true; mu.Unlock() }()
			switch behaviour {
			case "returnErr":
				return nil, herr
			case "panic":
				panic("planned-zrpc-panic")
			case "waitCtx":
				<-hctx.Done()
				return resp, nil
			case "waitGate":
				<-gate
				return resp, nil
			case "jitterReturn":
				if jn%2 == 0 {
					time.Sleep(time.Duration(jn) * 100 * time.Microsecond)
				} else {
					for i := 0; i < jn; i++ {
						runtime.Gosched()
					}
				}
			}
			return resp, nil
		}
		ic := serverinterceptors.UnaryTimeoutInterceptor(def, table...)
		var got any
		var err error
		var pan any
		before := time.Now()
		returned := make(chan struct{})
		go func() {
			defer close(returned)
			defer func() { pan = recover() }()
			got, err = ic(ctx, "req", &grpc.UnaryServerInfo{FullMethod: method}, h)
		}()
		select {
		case <-returned:
		case <-time.After(dt + 15*time.Second):
			openGate()
			<-returned
			t.Fatalf("DID NOT RETURN AT THE DEADLINE: timeout %v, still waiting 15 s later for a handler that ignores the context (behaviour %s)", dt, behaviour)
		}
		elapsed := time.Since(before)
		mu.Lock()
		blocked := started && !finished
		s, hd, d, sa := started, hasDl, dl, startedAt
		mu.Unlock()
		openGate()
		if s {
			if !hd {
				t.Fatalf("handler context has no deadline (timeout %v)", dt)
			}
			if d.After(sa.Add(dt)) {
				t.Fatalf("DEADLINE EXTENDED: handler deadline is %v after its start; the timeout for %s is %v (default %v, listed=%v)", d.Sub(sa), method, dt, def, listed)
			}
			if !callerDeadline.IsZero() && d.After(callerDeadline) {
				t.Fatalf("DEADLINE EXTENDED beyond the caller's deadline")
			}
		}
		isTimeoutErr := err != nil && got == nil && (status.Code(err) == codes.DeadlineExceeded || status.Code(err) == codes.Canceled)
		if status.Code(err) == codes.Canceled && callerMode != "cancelDuring" && callerMode != "cancelDuringCause" {
			isTimeoutErr = false
		}
		switch {
		case pan != nil:
			if behaviour != "panic" || !strings.Contains(fmt.Sprint(pan), "planned-zrpc-panic") {
				t.Fatalf("interceptor panicked with %v (behaviour %s)", pan, behaviour)
			}
			st.Class("outcome:panic")
		case behaviour == "panic":
			if class == "large" {
				if isTimeoutErr && elapsed >= dt*9/10 {
					st.Note("inconclusive: machine stall of %v", elapsed)
					return
				}
				t.Fatalf("SWALLOWED PANIC: handler panicked, interceptor returned (%v, %v)", got, err)
			}
			if !isTimeoutErr {
				t.Fatalf("panic planned, none re-raised, result (%v, %v) is not the timeout result", got, err)
			}
		case behaviour == "waitCtx" || behaviour == "waitGate":
			complete := got == any(resp) && err == nil
			if !isTimeoutErr && !(behaviour == "waitCtx" && complete) {
				t.Fatalf("handler that waits (%s) under timeout %v: result (%v, %v) is neither the timeout result nor (for waitCtx) the handler's", behaviour, dt, got, err)
			}
			if behaviour == "waitGate" && blocked {
				st.Class("returned-while-handler-blocked")
			}
			st.Class("outcome:timeout")
		default:
			complete := (behaviour == "returnErr" && got == nil && err == herr) || (behaviour != "returnErr" && got == any(resp) && err == nil)
			if class == "large" && !complete {
				if isTimeoutErr && elapsed >= dt*9/10 {
					st.Note("inconclusive: machine stall of %v", elapsed)
					return
				}
				t.Fatalf("INCOMPLETE RESULT without timeout (dt=%v): got (%v, %v)", dt, got, err)
			}
			if !complete && !isTimeoutErr {
				t.Fatalf("MIXTURE: result (%v, %v) is neither the handler's nor a DeadlineExceeded/Canceled status (dt=%v caller=%s behaviour=%s)", got, err, dt, callerMode, behaviour)
			}
			if complete {
				st.Class("outcome:complete")
			} else {
				st.Class("outcome:timeout")
			}
		}
		if listed && nm >= 2 || class == "race" {
			st.NonTrivial(fmt.Sprintf("class=%s def=%v table=%v method=%s beh=%s caller=%s jn=%d", class, def, methodTimeout, method, behaviour, callerMode, jn))
		}
	})
}
