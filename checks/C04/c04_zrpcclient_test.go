//go:build verif

package clientinterceptors_test

import (
	"context"
	"errors"
	"fmt"
	"testing"
	"time"

	"github.com/zeromicro/go-zero/core/logx"
	"github.com/zeromicro/go-zero/internal/verifkit"
	"github.com/zeromicro/go-zero/zrpc/internal/clientinterceptors"
	"google.golang.org/grpc"
	"pgregory.net/rapid"
)

// zRPC client timeout interceptor: the invoker runs under a context whose deadline is no later
// than the caller's and now+timeout, where the timeout is the per-call option if given, else the
// default; a timeout <= 0 adds no deadline; the invoker's error comes back unchanged.
func TestVerifC04ZrpcClient(t *testing.T) {
	logx.Disable()
	st := verifkit.New("zrpc-client-timeout")
	defer st.Flush()
	rapid.Check(t, func(t *rapid.T) {
		st.Eval()
		durs := []int{-5, 0, 1, 20, 500, 3000, 60000}
		def := time.Duration(rapid.SampledFrom(durs).Draw(t, "defaultMs")) * time.Millisecond
		var opts []grpc.CallOption
		eff := def
		nopts := rapid.IntRange(0, 1).Draw(t, "callOptions")
		for i := 0; i < nopts; i++ {
			d := time.Duration(rapid.SampledFrom(durs).Draw(t, "callMs")) * time.Millisecond
			if i == 0 {
				eff = d
			}
			opts = append(opts, clientinterceptors.WithCallTimeout(d))
		}
		if rapid.Bool().Draw(t, "otherOption") {
			opts = append([]grpc.CallOption{grpc.WaitForReady(true)}, opts...)
		}
		// the caller's own deadline: none, or at a generated distance that falls before, between and after
		// the per-call and the default timeout
		callerMode := rapid.SampledFrom([]string{"none", "deadline", "deadline"}).Draw(t, "caller")
		ctx := context.Background()
		var callerDeadline time.Time
		var cancel context.CancelFunc = func() {}
		if callerMode == "deadline" {
			us := rapid.SampledFrom([]int{500, 10_000, 100_000, 400_000, 750_000, 2_000_000, 10_000_000, 120_000_000, 86_400_000_000}).Draw(t, "callerDeadlineUs")
			callerDeadline = time.Now().Add(time.Duration(us) * time.Microsecond)
			ctx, cancel = context.WithDeadline(ctx, callerDeadline)
			callerMode = fmt.Sprintf("deadline+%v", time.Duration(us)*time.Microsecond)
		}
		defer cancel()
		ierr := errors.New("invoker error")
		if rapid.Bool().Draw(t, "invokerOK") {
			ierr = nil
		}
		var hasDl bool
		var dl, at time.Time
		ran := 0
		err := clientinterceptors.TimeoutInterceptor(def)(ctx, "/m", nil, nil, new(grpc.ClientConn),
			func(ictx context.Context, method string, req, reply any, cc *grpc.ClientConn, o ...grpc.CallOption) error {
				ran++
				at = time.Now()
				dl, hasDl = ictx.Deadline()
				if len(o) != len(opts) {
					t.Fatalf("call options not passed through: %d of %d", len(o), len(opts))
				}
				return ierr
			}, opts...)
		if ran != 1 || err != ierr {
			t.Fatalf("invoker ran %d times; its error %v came back as %v", ran, ierr, err)
		}
		if eff <= 0 {
			if hasDl != (callerMode != "none") || (hasDl && !dl.Equal(callerDeadline)) {
				t.Fatalf("timeout %v (<= 0 means none) but invoker context deadline=%v (has=%v), caller deadline %v", eff, dl, hasDl, callerDeadline)
			}
		} else {
			if !hasDl {
				t.Fatalf("timeout %v: invoker context has no deadline", eff)
			}
			if dl.After(at.Add(eff)) {
				t.Fatalf("DEADLINE EXTENDED: invoker deadline %v after its start, effective timeout %v (default %v, options %d)", dl.Sub(at), eff, def, nopts)
			}
			if !callerDeadline.IsZero() && dl.After(callerDeadline) {
				t.Fatalf("DEADLINE EXTENDED beyond the caller's deadline")
			}
		}
		if nopts > 0 && eff != def {
			st.NonTrivial(fmt.Sprintf("def=%v eff=%v nopts=%d caller=%s", def, eff, nopts, callerMode))
		}
	})
}
