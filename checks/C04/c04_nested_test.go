//go:build verif

package handler_test

// Unit http-nested: the generated handler plan of c04_http_test.go runs under a CHAIN of two or
// three handler.TimeoutHandler levels (as the engine's per-route wrapper plus a server.Use / group
// wrapper / internal forward produce), optionally with a pass-through middleware between two
// levels that wraps the ResponseWriter (as logging / metrics middlewares do) or does not.  A level
// therefore receives the buffering writer of ANOTHER level as its writer and a context that
// already carries a deadline.  The C04 statement is applied to the chain as a whole (recorded at
// the outermost writer) and to every level (context deadline seen at every probe between two
// levels; response handed to a writer-wrapping middleware by the levels inside it).

import (
	"bytes"
	"context"
	"fmt"
	"net/http"
	"net/http/httptest"
	"runtime"
	"strings"
	"sync"
	"testing"
	"time"

	"github.com/zeromicro/go-zero/core/lang"
	"github.com/zeromicro/go-zero/core/logx"
	"github.com/zeromicro/go-zero/internal/verifkit"
	"github.com/zeromicro/go-zero/rest/handler"
	"pgregory.net/rapid"
)

type c04level struct {
	class string // large, small, race, none
	dt    time.Duration
}

func (l c04level) real() bool  { return l.dt > 0 }
func (l c04level) small() bool { return l.class == "small" || l.class == "race" }

// what sits between level i and level i+1
type c04gap struct {
	mode   string // none, probe (same writer passed on), wrap (writer wrapped)
	jitter int
	delay  time.Duration
}

// c04probe is the record of one pass-through middleware.
type c04probe struct {
	mu        sync.Mutex
	entered   bool
	exited    bool
	enteredAt time.Time
	hasDl     bool
	dl        time.Time
	// wrap mode only: what the levels inside handed to this middleware's writer
	wroteHeader bool
	code        int
	body        bytes.Buffer
	returned    bool // next.ServeHTTP returned normally
	retCode     int
	retBody     string
}

func (p *c04probe) respLocked() (int, string) {
	code := p.code
	if !p.wroteHeader {
		code = http.StatusOK
	}
	return code, p.body.String()
}

// the writer of a writer-wrapping pass-through middleware: records and forwards
type c04wrapWriter struct {
	w http.ResponseWriter
	p *c04probe
}

func (ww *c04wrapWriter) Header() http.Header { return ww.w.Header() }

func (ww *c04wrapWriter) WriteHeader(code int) {
	ww.p.mu.Lock()
	if !ww.p.wroteHeader {
		ww.p.wroteHeader, ww.p.code = true, code
	}
	ww.p.mu.Unlock()
	ww.w.WriteHeader(code)
}

func (ww *c04wrapWriter) Write(b []byte) (int, error) {
	ww.p.mu.Lock()
	if !ww.p.wroteHeader {
		ww.p.wroteHeader, ww.p.code = true, http.StatusOK
	}
	ww.p.body.Write(b)
	ww.p.mu.Unlock()
	return ww.w.Write(b)
}

func c04passThrough(g c04gap, p *c04probe, next http.Handler) http.Handler {
	return http.HandlerFunc(func(w http.ResponseWriter, r *http.Request) {
		p.mu.Lock()
		p.entered = true
		p.enteredAt = time.Now()
		p.dl, p.hasDl = r.Context().Deadline()
		p.mu.Unlock()
		defer func() {
			p.mu.Lock()
			p.exited = true
			p.mu.Unlock()
		}()
		for i := 0; i < g.jitter; i++ {
			runtime.Gosched()
		}
		if g.delay > 0 {
			time.Sleep(g.delay)
		}
		if g.mode == "wrap" {
			w = &c04wrapWriter{w: w, p: p}
		}
		next.ServeHTTP(w, r)
		p.mu.Lock()
		p.returned = true
		p.retCode, p.retBody = p.respLocked()
		p.mu.Unlock()
	})
}

func c04renderChain(levels []c04level, gaps []c04gap) string {
	var b strings.Builder
	for i, l := range levels {
		if i > 0 {
			g := gaps[i-1]
			switch g.mode {
			case "none":
				b.WriteString(" > ")
			default:
				fmt.Fprintf(&b, " >%s(j%d,%v)> ", g.mode, g.jitter, g.delay)
			}
		}
		fmt.Fprintf(&b, "T[%s %v]", l.class, l.dt)
	}
	return b.String()
}

func TestVerifC04HTTPNested(t *testing.T) {
	logx.Disable()
	st := verifkit.New("http-nested")
	defer st.Flush()
	yield := verifkit.EnvInt("yield", 0) == 1
	// number of cases in which a chain with a small level returned only when a 2-5 s level fired
	// (each one alone could be a machine stall; see below)
	lateReturns := 0
	rapid.Check(t, func(t *rapid.T) {
		st.Eval()
		if yield {
			lang.VerifYieldConfig(rapid.Uint64Range(1, 1<<62).Draw(t, "yieldSeed"),
				rapid.SampledFrom([]uint32{0, 100, 400}).Draw(t, "yieldGosched"), rapid.SampledFrom([]uint32{0, 50, 200}).Draw(t, "yieldSleep"), 300)
			defer lang.VerifYieldConfig(0, 0, 0, 0)
		}
		// ---- the chain: levels[0] is the outermost wrapper
		n := rapid.SampledFrom([]int{2, 2, 3}).Draw(t, "levels")
		levels := make([]c04level, n)
		for i := range levels {
			levels[i].class = rapid.SampledFrom([]string{"large", "large", "large", "small", "small", "small", "race", "none"}).Draw(t, fmt.Sprintf("class%d", i))
		}
		switch rapid.SampledFrom([]string{"free", "free", "free", "innerSmall", "innerSmall", "outerSmall", "bothSmall"}).Draw(t, "shape") {
		case "innerSmall":
			levels[0].class, levels[n-1].class = "large", "small"
		case "outerSmall":
			levels[0].class, levels[n-1].class = "small", "large"
		case "bothSmall":
			levels[0].class, levels[n-1].class = "small", "small"
		}
		for i := range levels {
			switch levels[i].class {
			case "large":
				levels[i].dt = time.Duration(rapid.IntRange(2000, 5000).Draw(t, fmt.Sprintf("dtMs%d", i))) * time.Millisecond
			case "small":
				levels[i].dt = time.Duration(rapid.IntRange(5, 60).Draw(t, fmt.Sprintf("dtMs%d", i))) * time.Millisecond
			case "race":
				levels[i].dt = time.Duration(rapid.IntRange(1, 4).Draw(t, fmt.Sprintf("dtMs%d", i))) * time.Millisecond
			case "none":
				levels[i].dt = rapid.SampledFrom([]time.Duration{0, -time.Millisecond, -time.Second}).Draw(t, fmt.Sprintf("dtNone%d", i))
			}
		}
		gaps := make([]c04gap, n-1)
		for i := range gaps {
			gaps[i].mode = rapid.SampledFrom([]string{"none", "none", "probe", "wrap", "wrap"}).Draw(t, fmt.Sprintf("gap%d", i))
			if gaps[i].mode != "none" {
				gaps[i].jitter = rapid.IntRange(0, 40).Draw(t, fmt.Sprintf("gapJitter%d", i))
				gaps[i].delay = rapid.SampledFrom([]time.Duration{0, 0, 0, 500 * time.Microsecond, 3 * time.Millisecond, 12 * time.Millisecond}).Draw(t, fmt.Sprintf("gapDelay%d", i))
			}
		}
		var realIdx []int
		anySmall, anyRace := false, false
		var minSmall, minLarge time.Duration
		for i, l := range levels {
			if !l.real() {
				continue
			}
			realIdx = append(realIdx, i)
			if l.small() {
				anySmall = true
				anyRace = anyRace || l.class == "race"
				if minSmall == 0 || l.dt < minSmall {
					minSmall = l.dt
				}
			} else if minLarge == 0 || l.dt < minLarge {
				minLarge = l.dt
			}
		}
		depth := len(realIdx)
		// ---- the work
		p := c04genPlan(t, anySmall)
		if anyRace {
			// a plan whose duration is comparable with the smallest timeout: either outcome is legal, nothing else
			p.steps = append([]c04step{{kind: "jitter", n: rapid.IntRange(0, 60).Draw(t, "raceJitter") * 3}}, p.steps...)
		}
		// ---- the caller
		callerMode := rapid.SampledFrom([]string{"none", "none", "laterDeadline", "earlierDeadline", "cancelDuring"}).Draw(t, "caller")
		if !anySmall && (callerMode == "earlierDeadline" || callerMode == "cancelDuring") {
			callerMode = "laterDeadline"
		}
		ctx := context.Background()
		var cancel context.CancelFunc = func() {}
		var callerDeadline time.Time
		switch callerMode {
		case "laterDeadline":
			callerDeadline = time.Now().Add(time.Hour)
			ctx, cancel = context.WithDeadline(ctx, callerDeadline)
		case "earlierDeadline":
			callerDeadline = time.Now().Add(minSmall / 2)
			ctx, cancel = context.WithDeadline(ctx, callerDeadline)
		case "cancelDuring":
			ctx, cancel = context.WithCancel(ctx)
		}
		defer cancel()
		chain := c04renderChain(levels, gaps)
		render := fmt.Sprintf("chain: %s caller=%s plan:%s", chain, callerMode, strings.ReplaceAll(p.String(), strings.Repeat("z", 5000), "z*5000"))

		obs := &c04obs{}
		gate := make(chan struct{})
		gateOpen := false
		openGate := func() {
			if !gateOpen {
				gateOpen = true
				close(gate)
			}
		}
		defer openGate()
		panicVal := fmt.Sprintf("planned-panic-%d", rapid.IntRange(0, 1000).Draw(t, "panicId"))
		probes := make([]*c04probe, n-1)
		h := c04handler(p, obs, gate, panicVal)
		for i := n - 1; i >= 0; i-- {
			h = handler.TimeoutHandler(levels[i].dt)(h)
			if i > 0 && gaps[i-1].mode != "none" {
				probes[i-1] = &c04probe{}
				h = c04passThrough(gaps[i-1], probes[i-1], h)
			}
		}
		rr := httptest.NewRecorder()
		req := httptest.NewRequest(http.MethodPost, "/c04", bytes.NewReader(nil)).WithContext(ctx)
		if callerMode == "cancelDuring" {
			d := time.Duration(rapid.IntRange(0, int(minSmall/time.Millisecond)).Draw(t, "cancelAfterMs")) * time.Millisecond
			go func() { time.Sleep(d); cancel() }()
		}
		before := time.Now()
		var pan any
		returned := make(chan struct{})
		go func() {
			defer close(returned)
			defer func() { pan = recover() }()
			h.ServeHTTP(rr, req)
		}()
		// ---- clause 2: the outermost wrapper returns although the work ignores its context
		select {
		case <-returned:
		case <-time.After(minSmall + 15*time.Second):
			openGate()
			<-returned
			if !anySmall {
				st.Note("inconclusive: a chain of large timeouts with a non-blocking plan needed more than 15 s; %s", render)
				return
			}
			t.Fatalf("DID NOT RETURN AT THE DEADLINE: smallest timeout in the chain %v, the outermost wrapper was still waiting 15 s after it while the handler ignored the context; %s", minSmall, render)
		}
		elapsed := time.Since(before)
		first := c04snapshot(rr)
		obs.mu.Lock()
		handlerWasBlocked := !obs.finished
		started := obs.started
		hasDl, dl, startedAt := obs.hasDeadline, obs.deadline, obs.startedAt
		obs.mu.Unlock()
		// Still clause 2, for the level with the small timeout: with the handler parked on the gate the
		// chain can only have returned because some level's deadline fired.  If that took as long as the
		// smallest LARGE timeout although a level with a 1-60 ms timeout (or an earlier caller deadline)
		// is in the chain, the small level waited for its work and a large level rescued it - or the
		// machine stalled for 2 s.  One such case is recorded as inconclusive; the third one in a run is
		// reported (three stalls of >= 1.8 s on <= 60 ms timers in one run are not a plausible schedule).
		if anySmall && minLarge > 0 && p.has("waitGate") && handlerWasBlocked && elapsed >= minLarge*9/10 {
			lateReturns++
			if lateReturns >= 3 {
				openGate()
				t.Fatalf("DID NOT RETURN AT THE DEADLINE (%d cases in this run): the smallest timeout in the chain is %v, but the chain returned only after %v, when a level with timeout %v fired, while the handler ignored the context; %s",
					lateReturns, minSmall, elapsed, minLarge, render)
			}
			st.Note("inconclusive: chain with smallest timeout %v returned only after %v (large level %v); %s", minSmall, elapsed, minLarge, render)
		}
		// ---- release the handler, let it finish writing and let every level inside return
		openGate()
		cancel()
		drainBy := time.Now().Add(20 * time.Second)
		for {
			obs.mu.Lock()
			fin := obs.finished || !obs.started
			obs.mu.Unlock()
			for _, pr := range probes {
				if pr != nil {
					pr.mu.Lock()
					if pr.entered && !pr.exited {
						fin = false
					}
					pr.mu.Unlock()
				}
			}
			if fin {
				break
			}
			if time.Now().After(drainBy) {
				st.Note("inconclusive: handler / inner levels did not finish within 20 s after gate and context were released; %s", render)
				return
			}
			time.Sleep(200 * time.Microsecond)
		}
		time.Sleep(500 * time.Microsecond)
		second := c04snapshot(rr)
		obs.mu.Lock()
		handlerFinished := obs.finished
		obs.mu.Unlock()

		// ---- class counters
		st.Class(fmt.Sprintf("depth:%d", depth))
		shape := ""
		if depth >= 2 {
			outer, inner := levels[realIdx[0]], levels[realIdx[depth-1]]
			switch {
			case inner.small() && !outer.small():
				shape = "inner-small/outer-large"
			case outer.small() && !inner.small():
				shape = "outer-small/inner-large"
			case outer.small() && inner.small():
				shape = "both-small"
			default:
				shape = "all-large"
			}
			st.Class("shape:" + shape)
		}
		wrapBetween := false
		for j, g := range gaps {
			if g.mode == "none" {
				continue
			}
			outside, inside := false, false
			for _, i := range realIdx {
				if i <= j {
					outside = true
				} else {
					inside = true
				}
			}
			if outside && inside {
				st.Class("middleware-between-levels:" + g.mode)
				wrapBetween = wrapBetween || g.mode == "wrap"
			}
		}

		// ---- clause 1: deadlines only shrink, at the handler and at every level
		tooLate := func(where string, d time.Time, at time.Time, upTo int) {
			for i := 0; i <= upTo && i < n; i++ {
				if levels[i].real() && d.After(at.Add(levels[i].dt)) {
					t.Fatalf("DEADLINE EXTENDED: the deadline seen %s is %v after the moment it was read, but level %d (a wrapper outside that point) has timeout %v; %s",
						where, d.Sub(at), i, levels[i].dt, render)
				}
			}
			if !callerDeadline.IsZero() && d.After(callerDeadline) {
				t.Fatalf("DEADLINE EXTENDED: the deadline seen %s (%v) is later than the caller's (%v); %s", where, d, callerDeadline, render)
			}
		}
		for j, pr := range probes {
			if pr == nil {
				continue
			}
			pr.mu.Lock()
			entered, at, phas, pdl := pr.entered, pr.enteredAt, pr.hasDl, pr.dl
			pr.mu.Unlock()
			if !entered {
				continue
			}
			realOutside := false
			for _, i := range realIdx {
				realOutside = realOutside || i <= j
			}
			where := fmt.Sprintf("between level %d and level %d", j, j+1)
			if !phas {
				if realOutside || !callerDeadline.IsZero() {
					t.Fatalf("NO DEADLINE %s although a timeout wrapper or a caller deadline is outside; %s", where, render)
				}
				continue
			}
			tooLate(where, pdl, at, j)
			if started && hasDl && dl.After(pdl) {
				t.Fatalf("DEADLINE EXTENDED: the handler's deadline %v is later than the deadline %v seen %s; %s", dl, pdl, where, render)
			}
			if started && !hasDl {
				t.Fatalf("DEADLINE LOST: a deadline was seen %s, none inside the handler; %s", where, render)
			}
		}
		if started {
			if !hasDl && (depth > 0 || !callerDeadline.IsZero()) {
				t.Fatalf("handler context has no deadline; %s", render)
			}
			if hasDl {
				tooLate("inside the handler", dl, startedAt, n-1)
			}
		}

		// ---- every level: what the levels inside a writer-wrapping middleware handed to it
		allowed := []int{http.StatusServiceUnavailable}
		if callerMode == "cancelDuring" {
			allowed = append(allowed, 499)
		}
		midAllowed := []int{http.StatusServiceUnavailable}
		if callerMode != "none" {
			midAllowed = append(midAllowed, 499)
		}
		wantCode, _, wantBody := p.complete()
		for j, pr := range probes {
			if pr == nil || gaps[j].mode != "wrap" {
				continue
			}
			realInside := false
			for _, i := range realIdx {
				realInside = realInside || i > j
			}
			pr.mu.Lock()
			ret, rc, rb := pr.returned, pr.retCode, pr.retBody
			nowCode, nowBody := pr.respLocked()
			pr.mu.Unlock()
			if !ret || !realInside {
				continue
			}
			where := fmt.Sprintf("the writer-wrapping middleware between level %d and level %d", j, j+1)
			isTimeout := false
			for _, c := range midAllowed {
				isTimeout = isTimeout || rc == c && rb == "Request Timeout"
			}
			if !(rc == wantCode && rb == wantBody) && !isTimeout {
				t.Fatalf("MIXTURE AT AN INNER LEVEL: %s received %d %q from the wrapped levels, which is neither the complete result (%d %q) nor the timeout result; %s",
					where, rc, trunc(rb), wantCode, trunc(wantBody), render)
			}
			if rc != nowCode || rb != nowBody {
				t.Fatalf("RESPONSE CHANGED AFTER AN INNER LEVEL RETURNED: %s had received %d %q when the wrapped levels returned, later %d %q; %s",
					where, rc, trunc(rb), nowCode, trunc(nowBody), render)
			}
		}

		// ---- clause 5: panic
		if pan != nil {
			if !p.has("panic") || pan != any(panicVal) {
				t.Fatalf("the chain panicked with %v; %s", pan, render)
			}
			if p.has("waitGate") {
				t.Fatalf("panic re-raised although the handler was parked before its panic step until the chain had returned; %s", render)
			}
			if depth > 0 && rr.Body.Len() != 0 {
				t.Fatalf("panic re-raised but %d bytes were written to the client; %s", rr.Body.Len(), render)
			}
			st.Class("outcome:panic")
			return
		}
		// ---- clauses 3 and 4: all-or-nothing, and nothing after the timeout reaches the client
		if first.code != second.code || first.body != second.body || fmt.Sprint(first.hdr) != fmt.Sprint(second.hdr) {
			t.Fatalf("RESPONSE CHANGED AFTER THE CHAIN RETURNED: first %d %q, later %d %q; %s", first.code, trunc(first.body), second.code, trunc(second.body), render)
		}
		complete, timedOut := c04isComplete(first, p), c04isTimeout(first, p, allowed)
		reachesEnd := !p.has("waitCtx") && !p.has("waitGate") && !p.has("panic")
		stalled := func() bool {
			// a 2-5 s timeout firing on a plan that never waits: machine stall, inconclusive
			if timedOut && !complete && minLarge > 0 && elapsed >= minLarge*9/10 {
				st.Note("inconclusive: %v timeout fired on a non-blocking plan after %v (machine stall)", minLarge, elapsed)
				return true
			}
			return false
		}
		switch {
		case depth == 0:
			// no wrapper at all: the handler ran on the caller's goroutine and writer
			if p.has("panic") {
				t.Fatalf("SWALLOWED PANIC without any wrapper?; %s", render)
			}
			if !complete {
				t.Fatalf("INCOMPLETE RESULT without any real timeout level: client saw %d %v %q, handler produced %d %q; %s", first.code, first.hdr, trunc(first.body), wantCode, trunc(wantBody), render)
			}
			st.Class("outcome:complete")
		case p.has("panic") && !anySmall:
			if stalled() {
				return
			}
			t.Fatalf("SWALLOWED PANIC: the handler panicked, the chain returned normally with %d %q; %s", first.code, trunc(first.body), render)
		case p.has("panic"):
			// the panic was not re-raised, so a deadline came first: only the timeout result is legal
			if !timedOut {
				t.Fatalf("panic planned, none re-raised, and the answer %d %q is not the timeout result; %s", first.code, trunc(first.body), render)
			}
			st.Class("outcome:timeout")
		case !anySmall:
			if !reachesEnd {
				break
			}
			if stalled() {
				return
			}
			if !complete {
				t.Fatalf("INCOMPLETE RESULT without timeout: client saw %d %v %q, handler produced %d %q; %s", first.code, first.hdr, trunc(first.body), wantCode, trunc(wantBody), render)
			}
			st.Class("outcome:complete")
		default:
			if !complete && !timedOut {
				t.Fatalf("MIXTURE: client saw %d %v %q, which is neither the complete result (%d %q) nor the timeout result (503/499 Request Timeout); %s",
					first.code, first.hdr, trunc(first.body), wantCode, trunc(wantBody), render)
			}
			if p.has("waitGate") && !timedOut {
				// the gate was opened only after the chain had returned, so the work cannot have completed
				t.Fatalf("the handler was still parked when the chain returned, yet the client saw %d %q instead of the timeout result; %s", first.code, trunc(first.body), render)
			}
			if timedOut {
				st.Class("outcome:timeout")
			} else {
				st.Class("outcome:complete")
			}
		}
		if p.has("waitGate") && handlerWasBlocked {
			st.Class("returned-while-handler-blocked")
		}
		if timedOut && !complete && handlerFinished && c04lateWrites(p) > 0 {
			st.Class("late-writes-after-timeout")
		}
		if shape == "inner-small/outer-large" && p.writes() >= 2 && (timedOut || anyRace) {
			if wrapBetween {
				st.Class("nontrivial-with-writer-wrapping-middleware")
			}
			st.NonTrivial(render)
		}
	})
}

// number of header/status/write steps after the first step that waits
func c04lateWrites(p c04plan) int {
	n, waited := 0, false
	for _, s := range p.steps {
		switch s.kind {
		case "waitCtx", "waitGate":
			waited = true
		case "header", "status", "write":
			if waited {
				n++
			}
		}
	}
	return n
}
