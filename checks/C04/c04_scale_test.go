//go:build verif

package handler_test

// Unit scale: LARGE responses under handler.TimeoutHandler.  Everything the other HTTP units
// generate is small (at most 8 writes of at most 5000 bytes, at most 4 headers).  This unit serves
// short histories of requests through the timeout middleware in which some requests have a large
// complete result: bodies of 64 KiB - 16 MiB written in one Write or in hundreds / thousands of
// chunks, 50 - 1200 response headers (some multi-valued, some with long values), and such results
// under a deadline that fires after most of the body was written (handler parked on a harness gate
// or on ctx.Done() after k chunks, then released to write the rest).  All sizes are drawn
// log-uniformly from wide ranges; none of them is tuned to a threshold of the implementation.
//
// The oracle is the all-or-nothing one of the http unit, applied to every request of the history:
// the client sees exactly the work's complete result (status, the headers of this request's work -
// all of them and none of another request's -, the whole body byte for byte) or exactly the
// timeout result; nothing the work writes after the timeout reaches this or any later client
// (every response is re-read after all released handlers finished and must be unchanged); the
// deadline seen by the handler only shrinks; the wrapper returns while the handler is parked; a
// panic is re-raised with the same value.  Large bodies are compared byte-exactly; messages show
// length, a sha256 prefix and the first differing offset only.

import (
	"bytes"
	"context"
	"crypto/sha256"
	"fmt"
	"math"
	"math/bits"
	"net/http"
	"net/http/httptest"
	"runtime"
	"sort"
	"strconv"
	"strings"
	"sync"
	"testing"
	"time"

	"github.com/zeromicro/go-zero/core/logx"
	"github.com/zeromicro/go-zero/internal/verifkit"
	"github.com/zeromicro/go-zero/rest/handler"
	"pgregory.net/rapid"
)

const (
	// the largest sizes c04genPlan (the small generator of the other HTTP units) can produce
	c04smallMaxBody   = 8 * 5000 // 8 steps, longest chunk 5000 bytes
	c04smallMaxWrites = 8
	c04smallMaxHdrs   = 4
	c04scaleFactor    = 100 // non-trivial: some dimension >= 100 x the small maximum

	c04scaleCType  = "application/x-c04-scale"
	c04scalePrefix = "X-S" // header namespace owned by this unit: X-S<request>-<n>
)

// one request of a history
type c04sreq struct {
	id          int
	big         bool
	class       string // large, small, race
	dt          time.Duration
	caller      string
	cancelAfter time.Duration
	code        int  // 0: no explicit WriteHeader
	ctype       bool // the work sets Content-Type: application/x-c04-scale
	hdrSeed     uint64
	hdrKeys     []string
	hdrVals     [][]string
	bodySeed    uint64
	body        []byte
	cutStyle    string
	cuts        []int  // Write i is body[cuts[i]:cuts[i+1]]
	park        string // "", gate, ctx
	parkAt      int    // parks before Write number parkAt (== number of writes: after the last one)
	jitter      int    // runtime.Gosched after every jitter-th Write (0: never)
	scratch     bool   // the handler writes from ONE scratch buffer that it overwrites after every Write (as a copy loop does)
	panics      bool
	panicVal    string
	release     string // now, overlap (released while the next request of the history is served)
}

func (q *c04sreq) nwrites() int { return len(q.cuts) - 1 }

func (q *c04sreq) String() string {
	park := "-"
	if q.park != "" {
		park = fmt.Sprintf("%s@%d", q.park, q.parkAt)
	}
	size := "small"
	if q.big {
		size = "BIG"
	}
	return fmt.Sprintf("#%d %s class=%s dt=%v caller=%s code=%d ctype=%v headers=%d(seed %x) body=%dB(seed %x) writes=%d(%s) park=%s jitter=%d scratch=%v panic=%v release=%s",
		q.id, size, q.class, q.dt, q.caller, q.code, q.ctype, len(q.hdrKeys), q.hdrSeed, len(q.body), q.bodySeed, q.nwrites(), q.cutStyle, park, q.jitter, q.scratch, q.panics, q.release)
}

// how many times the small maximum the largest dimension of the request is, and which
// dimensions reach the factor 100
func (q *c04sreq) scale() (factor int, dims string) {
	fb, fw, fh := len(q.body)/c04smallMaxBody, q.nwrites()/c04smallMaxWrites, len(q.hdrKeys)/c04smallMaxHdrs
	var d []string
	if fb >= c04scaleFactor {
		d = append(d, "body")
	}
	if fw >= c04scaleFactor {
		d = append(d, "writes")
	}
	if fh >= c04scaleFactor {
		d = append(d, "headers")
	}
	return max(fb, fw, fh), strings.Join(d, "+")
}

// splitmix64: bulk content (body bytes, cut positions, header values) is derived deterministically
// from a 64-bit seed drawn through rapid, so that a case replays identically without 10^7 draws.
type c04mix uint64

func (m *c04mix) next() uint64 {
	*m += 0x9e3779b97f4a7c15
	z := uint64(*m)
	z = (z ^ (z >> 30)) * 0xbf58476d1ce4e5b9
	z = (z ^ (z >> 27)) * 0x94d049bb133111eb
	return z ^ (z >> 31)
}

func c04fill(seed uint64, n int) []byte {
	m := c04mix(seed)
	b := make([]byte, n)
	i := 0
	for ; i+8 <= n; i += 8 {
		z := m.next()
		b[i], b[i+1], b[i+2], b[i+3] = byte(z), byte(z>>8), byte(z>>16), byte(z>>24)
		b[i+4], b[i+5], b[i+6], b[i+7] = byte(z>>32), byte(z>>40), byte(z>>48), byte(z>>56)
	}
	for z := m.next(); i < n; i++ {
		b[i] = byte(z)
		z >>= 8
	}
	return b
}

// log-uniform integer in [lo, hi].  rapid's float and wide integer generators prefer "simple" and
// small values (a Float64Range exponent put a third of all bodies into one octave), narrow integer
// ranges are drawn almost uniformly: the exponent is therefore composed of an octave (narrow range),
// an eighth of an octave (narrow range) and a position inside that eighth taken from a mixed seed.
func c04logUniform(t *rapid.T, lo, hi int, label string) int {
	span := math.Log2(float64(hi+1) / float64(lo))
	noct := int(math.Ceil(span))
	k := rapid.IntRange(0, noct-1).Draw(t, label+"Octave")
	e := rapid.IntRange(0, 7).Draw(t, label+"Eighth")
	m := c04mix(rapid.Uint64().Draw(t, label+"Fine"))
	frac := float64(m.next()>>11) / float64(1<<53)
	x := (float64(k*8+e) + frac) / float64(noct*8) * span
	n := int(float64(lo) * math.Exp2(x))
	return min(max(n, lo), hi)
}

func c04genScaleReq(t *rapid.T, id int, big bool, dts map[string]time.Duration, last bool) *c04sreq {
	lb := func(s string) string { return s + strconv.Itoa(id) }
	q := &c04sreq{id: id, big: big}
	q.class = rapid.SampledFrom([]string{"large", "small", "small", "race"}).Draw(t, lb("class"))
	q.dt = dts[q.class]
	q.caller = rapid.SampledFrom([]string{"none", "none", "laterDeadline", "earlierDeadline", "cancelDuring"}).Draw(t, lb("caller"))
	if q.class != "small" && (q.caller == "earlierDeadline" || q.caller == "cancelDuring") {
		q.caller = "laterDeadline"
	}
	if q.caller == "cancelDuring" {
		q.cancelAfter = time.Duration(rapid.IntRange(0, int(q.dt/time.Millisecond)).Draw(t, lb("cancelAfterMs"))) * time.Millisecond
	}
	// ---- sizes
	bodyLen, nhdr := 0, 0
	dims := "small"
	if big {
		dims = rapid.SampledFrom([]string{"body", "body", "headers", "both"}).Draw(t, lb("dims"))
	}
	if dims == "body" || dims == "both" {
		bodyLen = c04logUniform(t, 64<<10, 16<<20, lb("bodyLen"))
	} else {
		bodyLen = rapid.IntRange(0, 5000).Draw(t, lb("bodyLen"))
	}
	if dims == "headers" || dims == "both" {
		nhdr = c04logUniform(t, 50, 1200, lb("headers"))
	} else {
		nhdr = rapid.IntRange(0, c04smallMaxHdrs).Draw(t, lb("headers"))
	}
	// ---- headers: distinct keys in this request's namespace; every 7th key has 2-3 values, one
	// value in 16 is long
	q.hdrSeed = rapid.Uint64().Draw(t, lb("hdrSeed"))
	hm := c04mix(q.hdrSeed)
	for i := 0; i < nhdr; i++ {
		q.hdrKeys = append(q.hdrKeys, fmt.Sprintf("%s%d-%04d", c04scalePrefix, id, i))
		nv := 1
		if i%7 == 6 {
			nv = 2 + int(hm.next()%2)
		}
		var vals []string
		for j := 0; j < nv; j++ {
			z := hm.next()
			v := fmt.Sprintf("v%d.%d.%x", id, i, z)
			if z%16 == 0 {
				v += strings.Repeat("y", int(hm.next()%2048))
			}
			vals = append(vals, v)
		}
		q.hdrVals = append(q.hdrVals, vals)
	}
	q.ctype = rapid.Bool().Draw(t, lb("ctype"))
	q.code = rapid.SampledFrom(append([]int{0, 0}, c04codes...)).Draw(t, lb("code"))
	// ---- body and its division into writes
	q.bodySeed = rapid.Uint64().Draw(t, lb("bodySeed"))
	q.body = c04fill(q.bodySeed, bodyLen)
	nw := 0
	switch {
	case bodyLen == 0:
		nw = rapid.IntRange(0, 1).Draw(t, lb("writes"))
		q.cutStyle = "equal"
	case !big || dims == "headers":
		nw = rapid.IntRange(1, c04smallMaxWrites).Draw(t, lb("writes"))
		q.cutStyle = rapid.SampledFrom([]string{"equal", "random"}).Draw(t, lb("cutStyle"))
	default:
		switch rapid.SampledFrom([]string{"one", "few", "many", "many", "io"}).Draw(t, lb("writeShape")) {
		case "one":
			nw, q.cutStyle = 1, "equal"
		case "few":
			nw = rapid.IntRange(2, c04smallMaxWrites).Draw(t, lb("writes"))
			q.cutStyle = rapid.SampledFrom([]string{"equal", "random"}).Draw(t, lb("cutStyle"))
		case "many":
			nw = c04logUniform(t, 100, 4000, lb("writes"))
			q.cutStyle = rapid.SampledFrom([]string{"equal", "random"}).Draw(t, lb("cutStyle"))
		case "io":
			// a copy loop with a fixed buffer: equal chunks and a remainder
			sz := rapid.SampledFrom([]int{512, 4096, 32 << 10, 64 << 10, 1 << 20}).Draw(t, lb("ioChunk"))
			for bodyLen/sz > 8192 {
				sz *= 2
			}
			q.cutStyle = fmt.Sprintf("io%d", sz)
			q.cuts = []int{0}
			for off := 0; off < bodyLen; off += sz {
				q.cuts = append(q.cuts, min(off+sz, bodyLen))
			}
		}
	}
	if q.cuts == nil {
		q.cuts = []int{0}
		switch {
		case nw == 0:
		case q.cutStyle == "random":
			cm := c04mix(q.bodySeed ^ 0x5ca1e)
			for i := 0; i < nw-1; i++ {
				q.cuts = append(q.cuts, int(cm.next()%uint64(bodyLen+1)))
			}
			sort.Ints(q.cuts)
			q.cuts = append(q.cuts, bodyLen)
		default:
			sz := (bodyLen + nw - 1) / nw
			for i := 1; i < nw; i++ {
				q.cuts = append(q.cuts, min(i*sz, bodyLen))
			}
			q.cuts = append(q.cuts, bodyLen)
		}
	}
	// ---- behaviour
	n := q.nwrites()
	if q.class == "small" {
		q.park = rapid.SampledFrom([]string{"gate", "gate", "ctx", ""}).Draw(t, lb("park"))
		if q.park != "" {
			if rapid.IntRange(0, 2).Draw(t, lb("parkLate")) > 0 {
				q.parkAt = rapid.IntRange(n-n/4, n).Draw(t, lb("parkAt")) // after most of the body
			} else {
				q.parkAt = rapid.IntRange(0, n).Draw(t, lb("parkAt"))
			}
		}
	}
	q.jitter = rapid.SampledFrom([]int{0, 0, 1, 7, 64}).Draw(t, lb("jitter"))
	q.scratch = rapid.Bool().Draw(t, lb("scratch"))
	q.panics = rapid.IntRange(0, 9).Draw(t, lb("endsInPanic")) == 0
	q.panicVal = fmt.Sprintf("planned-panic-%d-%d", id, rapid.IntRange(0, 1000).Draw(t, lb("panicId")))
	q.release = "now"
	if !last {
		q.release = rapid.SampledFrom([]string{"now", "overlap"}).Draw(t, lb("release"))
	}
	return q
}

// one served request
type c04srun struct {
	q              *c04sreq
	obs            *c04obs
	gate           chan struct{}
	gateOpen       bool
	fin            chan struct{} // closed when the handler function has returned or panicked
	rr             *httptest.ResponseRecorder
	cancel         context.CancelFunc
	callerDeadline time.Time
	pan            any
	elapsed        time.Duration
	parkedAtReturn bool
	first          string // outcome judged when the wrapper returned: complete, timeout, panic
	firstOther     string // rendering of the headers outside this unit's namespace at that moment
	inconclusive   bool
}

func (r *c04srun) open() {
	if !r.gateOpen {
		r.gateOpen = true
		close(r.gate)
	}
}

func (r *c04srun) serve(w http.ResponseWriter, req *http.Request) {
	q, obs := r.q, r.obs
	ctx := req.Context()
	obs.mu.Lock()
	obs.started = true
	obs.startedAt = time.Now()
	obs.deadline, obs.hasDeadline = ctx.Deadline()
	obs.mu.Unlock()
	defer close(r.fin)
	defer func() {
		obs.mu.Lock()
		obs.finished = true
		obs.ctxErrAtEnd = ctx.Err()
		obs.mu.Unlock()
	}()
	for i, k := range q.hdrKeys {
		for j, v := range q.hdrVals[i] {
			if j == 0 {
				w.Header().Set(k, v)
			} else {
				w.Header().Add(k, v)
			}
		}
	}
	if q.ctype {
		w.Header().Set("Content-Type", c04scaleCType)
	}
	if q.code != 0 {
		w.WriteHeader(q.code)
	}
	n := q.nwrites()
	var scratch []byte
	if q.scratch {
		// io.Writer: "Write must not modify the slice data, even temporarily. Implementations must
		// not retain p" - so the caller may reuse its buffer as soon as Write has returned
		most := 0
		for i := 0; i < n; i++ {
			most = max(most, q.cuts[i+1]-q.cuts[i])
		}
		scratch = make([]byte, most)
	}
	for i := 0; i <= n; i++ {
		if q.park != "" && i == q.parkAt {
			if q.park == "gate" {
				<-r.gate
			} else {
				<-ctx.Done()
			}
		}
		if i == n {
			break
		}
		if q.scratch {
			m := copy(scratch, q.body[q.cuts[i]:q.cuts[i+1]])
			w.Write(scratch[:m])
			clear(scratch[:m])
		} else {
			w.Write(q.body[q.cuts[i]:q.cuts[i+1]])
		}
		if q.jitter > 0 && (i+1)%q.jitter == 0 {
			runtime.Gosched()
		}
	}
	if q.panics {
		panic(q.panicVal)
	}
}

func c04sbody(b []byte) string {
	s := sha256.Sum256(b)
	return fmt.Sprintf("%d bytes sha256:%x", len(b), s[:6])
}

func c04sdiff(got, want []byte) string {
	n := min(len(got), len(want))
	for i := 0; i < n; i++ {
		if got[i] != want[i] {
			return fmt.Sprintf("first difference at offset %d", i)
		}
	}
	if len(got) != len(want) {
		return fmt.Sprintf("equal up to offset %d, lengths differ", n)
	}
	return "equal"
}

// headers of the recorded response inside / outside this unit's namespace
func c04sheaders(h http.Header) (mine map[string][]string, other string) {
	mine = map[string][]string{}
	var rest []string
	for k, v := range h {
		if strings.HasPrefix(k, c04scalePrefix) {
			mine[k] = v
		} else {
			rest = append(rest, fmt.Sprintf("%s=%q", k, v))
		}
	}
	sort.Strings(rest)
	return mine, strings.Join(rest, " ")
}

// why the recorded response is not the complete result of q ("" if it is)
func c04snotComplete(rr *httptest.ResponseRecorder, q *c04sreq) string {
	code := q.code
	if code == 0 {
		code = http.StatusOK
	}
	if rr.Code != code {
		return fmt.Sprintf("status %d, the work's is %d", rr.Code, code)
	}
	if got := rr.Body.Bytes(); !bytes.Equal(got, q.body) {
		return fmt.Sprintf("body %s, the work's is %s (%s)", c04sbody(got), c04sbody(q.body), c04sdiff(got, q.body))
	}
	mine, _ := c04sheaders(rr.Header())
	for i, k := range q.hdrKeys {
		if fmt.Sprintf("%q", mine[k]) != fmt.Sprintf("%q", q.hdrVals[i]) {
			return fmt.Sprintf("header %s (%d of %d) is %s, the work set %s", k, i, len(q.hdrKeys), trunc(fmt.Sprintf("%q", mine[k])), trunc(fmt.Sprintf("%q", q.hdrVals[i])))
		}
	}
	if len(mine) != len(q.hdrKeys) {
		// all of the work's headers are there, so there are others: written by another request's work
		own := map[string]bool{}
		for _, k := range q.hdrKeys {
			own[k] = true
		}
		var extra []string
		for k := range mine {
			if !own[k] {
				extra = append(extra, k)
			}
		}
		sort.Strings(extra)
		return fmt.Sprintf("%d headers in the test namespace, the work set %d; not from this work e.g. %s", len(mine), len(q.hdrKeys), extra[0])
	}
	if q.ctype && rr.Header().Get("Content-Type") != c04scaleCType {
		return fmt.Sprintf("Content-Type %q, the work set %q", rr.Header().Get("Content-Type"), c04scaleCType)
	}
	return ""
}

// why the recorded response is not the timeout result ("" if it is)
func c04snotTimeout(rr *httptest.ResponseRecorder, allowed []int) string {
	ok := false
	for _, c := range allowed {
		ok = ok || rr.Code == c
	}
	if !ok {
		return fmt.Sprintf("status %d, not one of %v", rr.Code, allowed)
	}
	if got := rr.Body.Bytes(); string(got) != "Request Timeout" {
		return fmt.Sprintf("body %s %q", c04sbody(got), trunc(string(got[:min(len(got), 80)])))
	}
	mine, _ := c04sheaders(rr.Header())
	if len(mine) > 0 {
		keys := make([]string, 0, len(mine))
		for k := range mine {
			keys = append(keys, k)
		}
		sort.Strings(keys)
		return fmt.Sprintf("%d headers written by some request's work, e.g. %s", len(mine), keys[0])
	}
	if rr.Header().Get("Content-Type") == c04scaleCType {
		return "Content-Type of the work"
	}
	return ""
}

func TestVerifC04HTTPScale(t *testing.T) {
	logx.Disable()
	st := verifkit.New("scale")
	defer st.Flush()
	// one request in `every` is large (check.json: quick 3, thorough 2)
	every := max(verifkit.EnvInt("scale_every", 3), 1)
	// outcomes in the small and race classes depend on the schedule, so rapid may be unable to
	// reproduce a failure while shrinking ("flaky test"); the first failure of the run is therefore
	// printed in full before rapid starts to shrink
	var first sync.Once
	fail := func(t *rapid.T, format string, a ...any) {
		msg := fmt.Sprintf(format, a...)
		first.Do(func() { fmt.Printf("FIRST FAILURE OF THE RUN (before shrinking): %s\n", msg) })
		t.Fatalf("%s", msg)
	}
	rapid.Check(t, func(t *rapid.T) {
		st.Eval()
		dts := map[string]time.Duration{
			"large": time.Duration(rapid.IntRange(2000, 5000).Draw(t, "dtLargeMs")) * time.Millisecond,
			"small": time.Duration(rapid.IntRange(5, 60).Draw(t, "dtSmallMs")) * time.Millisecond,
			"race":  time.Duration(rapid.IntRange(1, 4).Draw(t, "dtRaceMs")) * time.Millisecond,
		}
		nreq := rapid.IntRange(1, 4).Draw(t, "requests")
		runs := make([]*c04srun, nreq)
		for i := range runs {
			big := rapid.IntRange(0, every-1).Draw(t, fmt.Sprintf("big%d", i)) == 0
			runs[i] = &c04srun{q: c04genScaleReq(t, i, big, dts, i == nreq-1), obs: &c04obs{},
				gate: make(chan struct{}), fin: make(chan struct{}), rr: httptest.NewRecorder(), cancel: func() {}}
		}
		var history strings.Builder
		for _, r := range runs {
			history.WriteString("\n  " + r.q.String())
		}
		// one middleware instance per timeout class, all requests of the history go through them
		dispatch := http.HandlerFunc(func(w http.ResponseWriter, req *http.Request) {
			i, _ := strconv.Atoi(strings.TrimPrefix(req.URL.Path, "/c04s/"))
			runs[i].serve(w, req)
		})
		mws := map[string]http.Handler{}
		for class, dt := range dts {
			mws[class] = handler.TimeoutHandler(dt)(dispatch)
		}
		served := 0
		releaseAll := func() {
			for _, r := range runs[:served] {
				r.open()
				r.cancel()
			}
		}
		defer func() {
			// never leave a handler of this case parked
			releaseAll()
		}()
		for i, r := range runs {
			q := r.q
			ctx := context.Background()
			switch q.caller {
			case "laterDeadline":
				r.callerDeadline = time.Now().Add(q.dt + time.Hour)
				ctx, r.cancel = context.WithDeadline(ctx, r.callerDeadline)
			case "earlierDeadline":
				r.callerDeadline = time.Now().Add(q.dt / 2)
				ctx, r.cancel = context.WithDeadline(ctx, r.callerDeadline)
			default:
				ctx, r.cancel = context.WithCancel(ctx)
			}
			req := httptest.NewRequest(http.MethodPost, fmt.Sprintf("/c04s/%d", i), bytes.NewReader(nil)).WithContext(ctx)
			if q.caller == "cancelDuring" {
				d, cancel := q.cancelAfter, r.cancel
				go func() { time.Sleep(d); cancel() }()
			}
			// handlers of earlier timed-out requests marked "overlap" are released now and keep
			// writing while this request is served
			for _, e := range runs[:i] {
				if e.q.release == "overlap" {
					e.open()
					e.cancel()
				}
			}
			served = i + 1
			before := time.Now()
			returned := make(chan struct{})
			go func() {
				defer close(returned)
				defer func() { r.pan = recover() }()
				mws[q.class].ServeHTTP(r.rr, req)
			}()
			select {
			case <-returned:
			case <-time.After(q.dt + 15*time.Second):
				releaseAll()
				<-returned
				fail(t, "DID NOT RETURN AT THE DEADLINE: timeout %v, the wrapper was still waiting 15 s after it; request %v\nhistory:%s", q.dt, q, history.String())
			}
			r.elapsed = time.Since(before)
			r.obs.mu.Lock()
			r.parkedAtReturn = !r.obs.finished
			r.obs.mu.Unlock()
			// ---- judged when the wrapper returned
			allowed := []int{http.StatusServiceUnavailable}
			if q.caller == "cancelDuring" {
				allowed = append(allowed, 499)
			}
			_, r.firstOther = c04sheaders(r.rr.Header())
			if r.pan != nil {
				if !q.panics || r.pan != any(q.panicVal) {
					fail(t, "wrapper panicked with %v; request %v\nhistory:%s", r.pan, q, history.String())
				}
				if r.rr.Body.Len() != 0 {
					fail(t, "panic re-raised but %d bytes were written to the client; request %v\nhistory:%s", r.rr.Body.Len(), q, history.String())
				}
				r.first = "panic"
			} else {
				notC, notT := c04snotComplete(r.rr, q), c04snotTimeout(r.rr, allowed)
				stall := q.class == "large" && notT == "" && r.elapsed >= q.dt*9/10
				switch {
				case notC != "" && notT != "":
					fail(t, "MIXTURE: the client of request #%d saw %d with %d headers and a body of %s, which is neither the work's complete result (%s) nor the timeout result (%s); request %v\nhistory:%s",
						i, r.rr.Code, len(r.rr.Header()), c04sbody(r.rr.Body.Bytes()), notC, notT, q, history.String())
				case q.panics && q.class == "large" && !stall:
					fail(t, "SWALLOWED PANIC: the handler panicked, the wrapper returned normally with %d and a body of %s; request %v\nhistory:%s", r.rr.Code, c04sbody(r.rr.Body.Bytes()), q, history.String())
				case q.panics && notT != "":
					fail(t, "panic planned, none re-raised, and the answer is not the timeout result (%s); request %v\nhistory:%s", notT, q, history.String())
				case q.class == "large" && notC != "" && !stall:
					fail(t, "INCOMPLETE RESULT without timeout (dt=%v, returned after %v): %s; request %v\nhistory:%s", q.dt, r.elapsed, notC, q, history.String())
				case q.park == "gate" && q.parkAt < q.nwrites() && notT != "":
					fail(t, "the handler is parked before write %d of %d and the answer is not the timeout result (%s); request %v\nhistory:%s", q.parkAt, q.nwrites(), notT, q, history.String())
				}
				if stall && (notC != "" || q.panics) {
					st.Note("inconclusive: %v timeout fired on a non-blocking plan after %v (machine stall)", q.dt, r.elapsed)
					r.inconclusive = true
				}
				r.first = "complete"
				if notC != "" {
					r.first = "timeout"
				}
			}
			if q.release == "now" {
				r.open()
				r.cancel()
				select {
				case <-r.fin:
				case <-time.After(30 * time.Second):
					st.Note("inconclusive: handler of a released request did not finish within 30 s")
					return
				}
			}
		}
		// ---- every handler is released and has finished; re-read every response
		releaseAll()
		for _, r := range runs {
			select {
			case <-r.fin:
			case <-time.After(30 * time.Second):
				st.Note("inconclusive: handler of a released request did not finish within 30 s")
				return
			}
		}
		time.Sleep(300 * time.Microsecond)
		for i, r := range runs {
			q := r.q
			allowed := []int{http.StatusServiceUnavailable}
			if q.caller == "cancelDuring" {
				allowed = append(allowed, 499)
			}
			// clause 1: the deadline only shrinks
			r.obs.mu.Lock()
			hasDl, dl, startedAt := r.obs.hasDeadline, r.obs.deadline, r.obs.startedAt
			r.obs.mu.Unlock()
			if !hasDl {
				fail(t, "handler context has no deadline although the timeout is %v; request %v", q.dt, q)
			}
			if dl.After(startedAt.Add(q.dt)) {
				fail(t, "DEADLINE EXTENDED: handler's deadline is %v after its start, timeout is %v; request %v", dl.Sub(startedAt), q.dt, q)
			}
			if !r.callerDeadline.IsZero() && dl.After(r.callerDeadline) {
				fail(t, "DEADLINE EXTENDED: handler's deadline %v is later than the caller's %v; request %v", dl, r.callerDeadline, q)
			}
			// clause 3: nothing written after the wrapper returned reached this client
			why := ""
			switch r.first {
			case "panic":
				if r.rr.Body.Len() != 0 {
					why = fmt.Sprintf("%d bytes after a re-raised panic", r.rr.Body.Len())
				}
			case "complete":
				why = c04snotComplete(r.rr, q)
			case "timeout":
				why = c04snotTimeout(r.rr, allowed)
			}
			if _, other := c04sheaders(r.rr.Header()); why == "" && other != r.firstOther {
				why = fmt.Sprintf("headers were [%s], now [%s]", trunc(r.firstOther), trunc(other))
			}
			if why != "" {
				fail(t, "RESPONSE CHANGED AFTER THE WRAPPER RETURNED: request #%d had the %s result, after all handlers of the history finished: %s; request %v\nhistory:%s", i, r.first, why, q, history.String())
			}
		}
		// ---- statistics
		for _, r := range runs {
			q := r.q
			st.Class("outcome:" + r.first)
			if !q.big {
				st.Class("req:small")
				continue
			}
			st.Class("req:BIG")
			st.Class("BIG:outcome:" + r.first)
			if len(q.body) >= 64<<10 {
				st.Class("BIG:body>=64KiB")
			}
			if len(q.body) >= 1<<20 {
				st.Class("BIG:body>=1MiB")
			}
			if len(q.body) >= 64<<10 {
				st.Class(fmt.Sprintf("BIG:body:2^%02d", bits.Len(uint(len(q.body)))-1))
			}
			if len(q.hdrKeys) >= 50 {
				st.Class(fmt.Sprintf("BIG:headers:2^%02d", bits.Len(uint(len(q.hdrKeys)))-1))
			}
			if q.nwrites() >= 100 {
				st.Class(fmt.Sprintf("BIG:writes:2^%02d", bits.Len(uint(q.nwrites()))-1))
			}
			if q.nwrites() == 1 && len(q.body) >= 64<<10 {
				st.Class("BIG:body-in-one-Write")
			}
			if q.nwrites() >= 100 {
				st.Class("BIG:writes>=100")
			}
			if len(q.hdrKeys) >= 50 {
				st.Class("BIG:headers>=50")
			}
			if q.park != "" {
				st.Class("BIG:parked-" + q.park)
				if q.parkAt*2 >= q.nwrites() && q.nwrites() >= 2 && r.first == "timeout" {
					st.Class("BIG:timeout-after-most-of-the-body")
				}
			}
			if q.park == "gate" && r.parkedAtReturn {
				st.Class("BIG:returned-while-handler-parked")
			}
			if q.class == "race" {
				st.Class("BIG:race:" + r.first)
			}
			if q.release == "overlap" && r.first == "timeout" {
				st.Class("BIG:late-writes-overlap-next-request")
			}
			if f, dims := q.scale(); f >= c04scaleFactor && !r.inconclusive {
				st.Class("BIG:>=100x:" + dims)
				st.NonTrivial(q.String() + " -> " + r.first)
			}
		}
	})
}
