//go:build verif

// C14 — SQL transactions end exactly once: commit iff the body succeeded.
//
// Subject: sqlx.SqlConn.Transact / TransactCtx (core/stores/sqlx/tx.go transactOnConn,
// sqlconn.go TransactCtx) on top of a real database/sql pool whose driver is the
// fault-injecting driver of internal/verifc14 (checks/C14/c14kit.go).  The oracle
// (verifc14.Check) is written from the property statement and reads only the driver log,
// the body's own record of how it ended, and the error Transact returned.
package sqlx_test

import (
	"context"
	"database/sql"
	"fmt"
	"strings"
	"testing"

	"github.com/zeromicro/go-zero/core/logx"
	"github.com/zeromicro/go-zero/core/stores/sqlx"
	kit "github.com/zeromicro/go-zero/internal/verifc14"
	"github.com/zeromicro/go-zero/internal/verifkit"
	"pgregory.net/rapid"
)

func nestSqlx(s sqlx.Session) kit.Subject { return sqlx.NewSqlConnFromSession(s) }

var connPaths = []string{"fromDB", "fromDB+acceptable", "named", "named+acceptable"}

// newConn builds a fresh SqlConn (own breaker, own pool, own DSN) on the fake database d.
func newConn(d *kit.FaultDB, path int) (conn sqlx.SqlConn, cleanup func()) {
	var opts []sqlx.SqlOption
	if path%2 == 1 {
		// every error acceptable to the breaker: must not change what Transact does
		opts = append(opts, sqlx.WithAcceptable(func(error) bool { return true }))
	}
	if path < 2 {
		db := sql.OpenDB(d.Connector())
		return sqlx.NewSqlConnFromDB(db, opts...), func() { db.Close() }
	}
	dsn := "dsn-" + d.Name // no slash: not a mysql DSN, so no metrics collector is registered
	unreg := kit.RegisterDSN(dsn, d)
	conn = sqlx.NewSqlConn(kit.DriverName, dsn, opts...)
	return conn, func() {
		d.Arm(false, false, false, false)
		if db, err := conn.RawDB(); err == nil {
			db.Close()
		}
		unreg()
	}
}

func classify(st *verifkit.Stats, p kit.Plan, o kit.Outcome, obs []string) {
	if p.Ctx {
		st.Class("api:TransactCtx")
	} else {
		st.Class("api:Transact")
	}
	switch {
	case o.BodyRuns == 0:
		st.Class("tx:not-begun")
	case o.BodyEnd == "nil" && o.Err == nil:
		st.Class("tx:committed")
	case o.BodyEnd == "nil":
		st.Class("tx:commit-failed")
	case o.BodyEnd == "err":
		st.Class("tx:rolled-back-after-error")
	default:
		st.Class("tx:rolled-back-after-panic")
	}
	if o.BodyRuns > 0 && o.BodyEnd != "nil" && p.RollbackFail {
		st.Class("tx:rollback-failed")
	}
	if p.CancelAfter >= 0 {
		st.Class("ctx-cancelled-variant")
	}
	for _, ob := range obs {
		st.Class("observed:" + ob)
	}
	if ok, fault := p.OKBeforeFirstFault(); fault && ok >= 1 {
		st.NonTrivial(p.String())
	}
}

func TestVerifC14Random(t *testing.T) {
	logx.Disable()
	st := verifkit.New("sqlx-random")
	defer st.Flush()
	maxStmts := verifkit.EnvInt("C14_MAXSTMTS", 8)
	rapid.Check(t, func(t *rapid.T) {
		st.Eval()
		d := kit.NewFaultDB("c14")
		path := rapid.IntRange(0, len(connPaths)-1).Draw(t, "connPath")
		if path >= 2 && rapid.IntRange(0, 2).Draw(t, "namedThin") != 0 {
			path -= 2 // the named path keeps one pool per DSN in a global manager: use it less often
		}
		st.Class("conn:" + connPaths[path])
		conn, cleanup := newConn(d, path)
		defer cleanup()
		ntx := rapid.SampledFrom([]int{1, 1, 1, 2, 3}).Draw(t, "transactions")
		var hist strings.Builder
		for i := 0; i < ntx; i++ {
			p := kit.GenPlan(t, maxStmts, i == 0)
			o := kit.Run(conn, nestSqlx, d, p)
			fmt.Fprintf(&hist, "tx %d on %s conn: %s\n", i, connPaths[path], kit.Render(p, o))
			viol, obs := kit.Check(d, p, o)
			if len(viol) > 0 {
				t.Fatalf("C14 violated:\n  - %s\nhistory:\n%s", strings.Join(viol, "\n  - "), hist.String())
			}
			st.Class("transactions")
			classify(st, p, o, obs)
		}
	})
}

// TestVerifC14Enumerate runs the complete fault space for bodies of <= C14_ENUM_STMTS
// statements over the first C14_ENUM_KINDS statement kinds (see verifc14.Enumerate), a fresh
// conn per plan.  Shards split the space by plan index.
func TestVerifC14Enumerate(t *testing.T) {
	logx.Disable()
	st := verifkit.New("sqlx-enumerate")
	defer st.Flush()
	nk := verifkit.EnvInt("C14_ENUM_KINDS", 2)
	maxStmts := verifkit.EnvInt("C14_ENUM_STMTS", 4)
	shard, shards := verifkit.EnvInt("SHARD", 0), verifkit.EnvInt("SHARDS", 1)
	kinds := []kit.Kind{kit.KExec, kit.KQueryRow, kit.KQueryRows, kit.KPrepExec}[:nk]
	ran, failures := 0, 0
	total := kit.Enumerate(kinds, maxStmts, func(idx int, p kit.Plan) {
		if idx%shards != shard || failures >= 5 {
			return
		}
		ran++
		paths := []int{0}
		if p.Begin == kit.BeginConnectFail {
			// "no connection" also has a second shape: the conn provider of a DSN-built conn fails
			paths = []int{0, 2}
		}
		for _, path := range paths {
			st.Eval()
			d := kit.NewFaultDB("c14e")
			conn, cleanup := newConn(d, path)
			o := kit.Run(conn, nestSqlx, d, p)
			cleanup()
			viol, obs := kit.Check(d, p, o)
			if len(viol) > 0 {
				failures++
				t.Errorf("C14 violated (enumerated plan #%d on %s conn):\n  - %s\n%s", idx, connPaths[path],
					strings.Join(viol, "\n  - "), kit.Render(p, o))
				return
			}
			classify(st, p, o, obs)
		}
	})
	if want := kit.EnumCount(nk, maxStmts); total != want {
		t.Fatalf("enumeration visited %d plans, closed form says %d", total, want)
	}
	if shard == 0 {
		st.ClassN("enumerated-space-size", total)
	}
	st.Note("exhaustive sub-space: all %d fault plans for bodies of <= %d statements over kinds %v "+
		"(API x begin/connect fault x commit fault x rollback fault x per-statement ok|failed-ignored|failed-returned x "+
		"ending nil|error|panic(error|string|nil)); this shard %d/%d ran %d", total, maxStmts, kinds, shard, shards, ran)
}

// ---------------------------------------------------------------------------- oracle self-test

// brokenTx is a stand-alone Transact written against database/sql directly, with a switch for
// classic mistakes.  Variant 0 follows the property statement; every other variant breaks one
// clause.  The self-test shows that harness+oracle accept variant 0 on the whole enumerated
// space and reject every other variant, independently of go-zero's own transactOnConn.
type brokenTx struct {
	db      *sql.DB
	variant int
}

var brokenNames = []string{"reference", "commit-on-body-error", "no-rollback-on-panic", "panic-swallowed-as-nil",
	"rollback-result-replaces-body-error", "body-run-after-failed-begin", "commit-failure-dropped",
	"rollback-failure-dropped", "panic-propagates", "rollback-and-commit-on-error", "body-on-raw-conn"}

func (b brokenTx) Transact(fn func(sqlx.Session) error) error {
	return b.TransactCtx(context.Background(), func(_ context.Context, s sqlx.Session) error { return fn(s) })
}

func (b brokenTx) TransactCtx(ctx context.Context, fn func(context.Context, sqlx.Session) error) (err error) {
	tx, err := b.db.Begin()
	if err != nil {
		if b.variant == 5 {
			fn(ctx, sqlx.NewSqlConnFromDB(b.db))
		}
		return err
	}
	var sess sqlx.Session = sqlx.NewSessionFromTx(tx)
	if b.variant == 10 {
		sess = sqlx.NewSqlConnFromDB(b.db)
	}
	if b.variant == 8 {
		if err = fn(ctx, sess); err != nil {
			tx.Rollback()
			return err
		}
		return tx.Commit()
	}
	defer func() {
		if p := recover(); p != nil {
			switch b.variant {
			case 2:
				err = fmt.Errorf("recover from %#v", p)
			case 3:
				tx.Rollback()
				err = nil
			default:
				if e := tx.Rollback(); e != nil {
					err = fmt.Errorf("recover from %#v, rollback failed: %w", p, e)
				} else {
					err = fmt.Errorf("recover from %#v", p)
				}
			}
		} else if err != nil {
			switch b.variant {
			case 1:
				tx.Commit()
			case 4:
				err = tx.Rollback()
			case 7:
				tx.Rollback()
			case 9:
				tx.Rollback()
				tx2, _ := b.db.Begin()
				tx2.Commit()
			default:
				if e := tx.Rollback(); e != nil {
					err = fmt.Errorf("transaction failed: %s, rollback failed: %w", err, e)
				}
			}
		} else {
			err = tx.Commit()
			if b.variant == 6 {
				err = nil
			}
		}
	}()
	return fn(ctx, sess)
}

func TestVerifC14OracleSelfTest(t *testing.T) {
	logx.Disable()
	st := verifkit.New("oracle-selftest")
	defer st.Flush()
	for v, name := range brokenNames {
		flagged, total := 0, 0
		first := ""
		kit.Enumerate([]kit.Kind{kit.KExec}, 3, func(idx int, p kit.Plan) {
			total++
			d := kit.NewFaultDB("c14s")
			db := sql.OpenDB(d.Connector())
			defer db.Close()
			o := kit.Run(brokenTx{db, v}, nestSqlx, d, p)
			if viol, _ := kit.Check(d, p, o); len(viol) > 0 {
				flagged++
				if first == "" {
					first = viol[0] + "\n" + kit.Render(p, o)
				}
			}
		})
		if v == 0 && flagged > 0 {
			t.Errorf("oracle rejects the reference implementation on %d/%d plans, e.g. %s", flagged, total, first)
		}
		if v > 0 && flagged == 0 {
			t.Errorf("oracle accepts the broken implementation %q on all %d plans", name, total)
		}
		st.Note("self-test %s: %d/%d enumerated plans flagged", name, flagged, total)
		st.Sample(fmt.Sprintf("self-test %s: %d/%d plans flagged; first: %s", name, flagged, total, first))
	}
}
