//go:build verif

// C14, unit `sqlc-scale`: the scale cases of verifc14.GenScale (one body of up to 5 000
// statements, or up to 1 000 short transactions on one conn) through sqlc.CachedConn.Transact
// / TransactCtx.  Same driver, interpreter and oracle as every other unit of the check.
package sqlc_test

import (
	"fmt"
	"math/bits"
	"testing"

	"github.com/zeromicro/go-zero/core/logx"
	"github.com/zeromicro/go-zero/core/stores/sqlx"
	kit "github.com/zeromicro/go-zero/internal/verifc14"
	"github.com/zeromicro/go-zero/internal/verifkit"
	"pgregory.net/rapid"
)

func TestVerifC14CachedScale(t *testing.T) {
	logx.Disable()
	st := verifkit.New("sqlc-scale")
	defer st.Flush()
	env := startCache(t)
	oneIn := verifkit.EnvInt("C14_SCALE_ONE_IN", 20)
	rapid.Check(t, func(t *rapid.T) {
		st.Eval()
		d := kit.NewFaultDB("c14cx")
		path := rapid.IntRange(0, len(cachedPaths)-1).Draw(t, "cachedPath")
		if path == 3 && rapid.IntRange(0, 2).Draw(t, "namedThin") != 0 {
			path = 0
		}
		cc, cleanup := newCached(env, d, path)
		defer cleanup()
		nest := func(s sqlx.Session) kit.Subject { return cc.WithSession(s) }
		sc := kit.GenScale(t, oneIn)
		// per-transaction classes as in classifyCached, without its small-unit non-trivial rule
		var served, rejected int
		var long *kit.ScaleTx
		if fail := kit.RunScale(cc, nest, d, sc, func(x kit.ScaleTx) {
			served++
			st.Class("transactions")
			pre := "tx:"
			if x.I == sc.Big {
				pre = "long-tx:"
				x.O.Log = nil
				long = &x
			}
			switch {
			case x.Rejected:
				rejected++
				st.Class(pre + "rejected-by-breaker")
			case x.O.BodyRuns == 0:
				st.Class(pre + "not-begun")
			case x.O.BodyEnd == "nil" && x.O.Err == nil:
				st.Class(pre + "committed")
			case x.O.BodyEnd == "nil":
				st.Class(pre + "commit-failed")
			case x.O.BodyEnd == "err":
				st.Class(pre + "rolled-back-after-error")
			default:
				st.Class(pre + "rolled-back-after-panic")
			}
			for _, ob := range x.Obs {
				st.Class("observed:" + ob)
			}
		}); fail != "" {
			t.Fatalf("CachedConn from %s: %s", cachedPaths[path], fail)
		}
		st.Class("conn:" + cachedPaths[path])
		st.Class("scale:" + sc.Mode)
		if sc.Large() {
			st.Class("scale:large-case")
		}
		if sc.Big >= 0 {
			st.Class(fmt.Sprintf("body-statements:2^%d..", bits.Len(uint(sc.Size))-1))
			if long != nil && long.O.BodyRuns == 1 && len(long.P.Stmts) >= kit.NonTrivialStmts {
				st.Class("nontrivial:body>=800-statements")
				st.NonTrivial(sc.Desc)
			}
		} else {
			st.Class(fmt.Sprintf("conn-transactions:2^%d..", bits.Len(uint(sc.Size))-1))
			if served-rejected >= kit.NonTrivialTxs {
				st.Class("nontrivial:conn>=300-transactions")
				st.NonTrivial(sc.Desc)
			}
		}
	})
}
