//go:build verif

// C14, unit `scale`: long transactions and long-lived conns through sqlx.SqlConn.
//
// Everything the other units generate is small (bodies of <= 8 statements, <= 3 transactions
// on a conn).  This unit drives the same driver, interpreter and oracle (internal/verifc14)
// with one body of up to 5 000 statements, or with one conn that serves up to 1 000 short
// transactions in a row, sizes drawn log-uniformly (verifc14.GenScale).  The oracle is the
// one of the small units, applied to every transaction of the case: exactly one Begin,
// exactly one of Commit/Rollback, Commit iff the body returned nil, nil returned iff that
// Commit succeeded, a panic never propagates and never leaves the transaction open.
package sqlx_test

import (
	"fmt"
	"math/bits"
	"testing"

	"github.com/zeromicro/go-zero/core/logx"
	kit "github.com/zeromicro/go-zero/internal/verifc14"
	"github.com/zeromicro/go-zero/internal/verifkit"
	"pgregory.net/rapid"
)

// scaleStats records the classes of one judged scale case.  Non-trivial (rule in check.json):
// the long body ran >= 800 statements (100x the largest body of the small generators), or
// the conn served >= 300 transactions (100x), and every transaction of the case passed the
// oracle.
func scaleStats(st *verifkit.Stats, sc kit.ScaleCase, txs []kit.ScaleTx) {
	st.Class("scale:" + sc.Mode)
	if sc.Large() {
		st.Class("scale:large-case")
	}
	if sc.Big >= 0 {
		st.Class(fmt.Sprintf("body-statements:2^%d..", bits.Len(uint(sc.Size))-1))
	} else {
		st.Class(fmt.Sprintf("conn-transactions:2^%d..", bits.Len(uint(sc.Size))-1))
	}
	rejected := 0
	for _, x := range txs {
		st.Class("transactions")
		pre := "tx:"
		if x.I == sc.Big {
			pre = "long-tx:"
		}
		switch {
		case x.Rejected:
			rejected++
			st.Class(pre + "rejected-by-breaker")
		case x.O.BodyRuns == 0:
			st.Class(pre + "not-begun")
		case x.O.BodyEnd == "nil" && x.O.Err == nil:
			st.Class(pre + "committed")
		case x.O.BodyEnd == "nil":
			st.Class(pre + "commit-failed")
		case x.O.BodyEnd == "err":
			st.Class(pre + "rolled-back-after-error")
		default:
			st.Class(pre + "rolled-back-after-panic")
		}
		if x.O.BodyRuns > 0 && x.O.BodyEnd != "nil" && x.P.RollbackFail {
			st.Class(pre + "rollback-failed")
		}
		if x.I == sc.Big && x.P.CancelAfter >= 0 {
			st.Class("long-tx:ctx-cancelled-inside")
		}
		for _, ob := range x.Obs {
			st.Class("observed:" + ob)
		}
	}
	if sc.Big >= 0 {
		if x := txs[sc.Big]; x.O.BodyRuns == 1 && len(x.P.Stmts) >= kit.NonTrivialStmts {
			st.Class("nontrivial:body>=800-statements")
			st.NonTrivial(sc.Desc)
		}
	} else if len(txs)-rejected >= kit.NonTrivialTxs {
		st.Class("nontrivial:conn>=300-transactions")
		st.NonTrivial(sc.Desc)
	}
}

func TestVerifC14Scale(t *testing.T) {
	logx.Disable()
	st := verifkit.New("scale")
	defer st.Flush()
	oneIn := verifkit.EnvInt("C14_SCALE_ONE_IN", 20)
	rapid.Check(t, func(t *rapid.T) {
		st.Eval()
		d := kit.NewFaultDB("c14x")
		path := rapid.IntRange(0, len(connPaths)-1).Draw(t, "connPath")
		if path >= 2 && rapid.IntRange(0, 2).Draw(t, "namedThin") != 0 {
			path -= 2 // as in TestVerifC14Random: the named path keeps one pool per DSN in a global manager
		}
		conn, cleanup := newConn(d, path)
		defer cleanup()
		sc := kit.GenScale(t, oneIn)
		txs := make([]kit.ScaleTx, 0, len(sc.Plans))
		if fail := kit.RunScale(conn, nestSqlx, d, sc, func(x kit.ScaleTx) {
			x.O.Log = nil // judged already; do not keep thousands of log lines per transaction
			txs = append(txs, x)
		}); fail != "" {
			t.Fatalf("%s conn: %s", connPaths[path], fail)
		}
		st.Class("conn:" + connPaths[path])
		scaleStats(st, sc, txs)
	})
}
