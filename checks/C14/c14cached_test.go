//go:build verif

// C14 through sqlc.CachedConn.Transact / TransactCtx (core/stores/sqlc/cachedsql.go): the
// same fault plans, driver and oracle as the sqlx binary (internal/verifc14), with the
// cached conn built on a miniredis-backed cache (node and cluster-conf constructors).
package sqlc_test

import (
	"database/sql"
	"fmt"
	"strings"
	"testing"

	"github.com/alicebob/miniredis/v2"
	"github.com/zeromicro/go-zero/core/logx"
	"github.com/zeromicro/go-zero/core/stores/cache"
	"github.com/zeromicro/go-zero/core/stores/redis"
	"github.com/zeromicro/go-zero/core/stores/sqlc"
	"github.com/zeromicro/go-zero/core/stores/sqlx"
	"github.com/zeromicro/go-zero/core/syncx"
	kit "github.com/zeromicro/go-zero/internal/verifc14"
	"github.com/zeromicro/go-zero/internal/verifkit"
	"pgregory.net/rapid"
)

var cachedPaths = []string{"NewNodeConn", "NewConn(CacheConf)", "NewConnWithCache", "NewNodeConn/named-dsn"}

type cacheEnv struct {
	addr string
	rds  *redis.Redis
	node cache.Cache // one shared node cache for the NewConnWithCache path (NewStat starts a goroutine)
}

func startCache(t *testing.T) cacheEnv {
	mr, err := miniredis.Run()
	if err != nil {
		t.Skipf("miniredis does not start: %v", err)
	}
	t.Cleanup(mr.Close)
	rds := redis.New(mr.Addr())
	return cacheEnv{addr: mr.Addr(), rds: rds,
		node: cache.NewNode(rds, syncx.NewSingleFlight(), cache.NewStat("c14"), sql.ErrNoRows)}
}

// newCached builds a fresh CachedConn on a fresh SqlConn (own breaker, pool, DSN) on d.
func newCached(env cacheEnv, d *kit.FaultDB, path int) (cc sqlc.CachedConn, cleanup func()) {
	var conn sqlx.SqlConn
	if path == 3 {
		dsn := "dsn-" + d.Name
		unreg := kit.RegisterDSN(dsn, d)
		conn = sqlx.NewSqlConn(kit.DriverName, dsn)
		cleanup = func() {
			d.Arm(false, false, false, false)
			if db, err := conn.RawDB(); err == nil {
				db.Close()
			}
			unreg()
		}
	} else {
		db := sql.OpenDB(d.Connector())
		conn = sqlx.NewSqlConnFromDB(db)
		cleanup = func() { db.Close() }
	}
	switch path {
	case 1:
		conf := cache.CacheConf{{RedisConf: redis.RedisConf{Host: env.addr, Type: redis.NodeType, NonBlock: true}, Weight: 100}}
		cc = sqlc.NewConn(conn, conf)
	case 2:
		cc = sqlc.NewConnWithCache(conn, env.node)
	default:
		cc = sqlc.NewNodeConn(conn, env.rds)
	}
	return cc, cleanup
}

func classifyCached(st *verifkit.Stats, p kit.Plan, o kit.Outcome, obs []string) {
	if p.Ctx {
		st.Class("api:TransactCtx")
	} else {
		st.Class("api:Transact")
	}
	switch {
	case o.BodyRuns == 0:
		st.Class("tx:not-begun")
	case o.BodyEnd == "nil" && o.Err == nil:
		st.Class("tx:committed")
	case o.BodyEnd == "nil":
		st.Class("tx:commit-failed")
	case o.BodyEnd == "err":
		st.Class("tx:rolled-back-after-error")
	default:
		st.Class("tx:rolled-back-after-panic")
	}
	for _, ob := range obs {
		st.Class("observed:" + ob)
	}
	if ok, fault := p.OKBeforeFirstFault(); fault && ok >= 1 {
		st.NonTrivial(p.String())
	}
}

func TestVerifC14CachedRandom(t *testing.T) {
	logx.Disable()
	st := verifkit.New("sqlc-random")
	defer st.Flush()
	env := startCache(t)
	rapid.Check(t, func(t *rapid.T) {
		st.Eval()
		d := kit.NewFaultDB("c14c")
		path := rapid.IntRange(0, len(cachedPaths)-1).Draw(t, "cachedPath")
		if path == 3 && rapid.IntRange(0, 2).Draw(t, "namedThin") != 0 {
			path = 0
		}
		st.Class("conn:" + cachedPaths[path])
		cc, cleanup := newCached(env, d, path)
		defer cleanup()
		nest := func(s sqlx.Session) kit.Subject { return cc.WithSession(s) }
		ntx := rapid.SampledFrom([]int{1, 1, 2, 3}).Draw(t, "transactions")
		var hist strings.Builder
		for i := 0; i < ntx; i++ {
			p := kit.GenPlan(t, 6, i == 0)
			o := kit.Run(cc, nest, d, p)
			fmt.Fprintf(&hist, "tx %d on CachedConn from %s: %s\n", i, cachedPaths[path], kit.Render(p, o))
			viol, obs := kit.Check(d, p, o)
			if len(viol) > 0 {
				t.Fatalf("C14 violated through sqlc.CachedConn:\n  - %s\nhistory:\n%s", strings.Join(viol, "\n  - "), hist.String())
			}
			st.Class("transactions")
			classifyCached(st, p, o, obs)
		}
	})
}

// TestVerifC14CachedEnumerate: the complete fault space (verifc14.Enumerate) through
// CachedConn, a fresh CachedConn per plan.
func TestVerifC14CachedEnumerate(t *testing.T) {
	logx.Disable()
	st := verifkit.New("sqlc-enumerate")
	defer st.Flush()
	env := startCache(t)
	nk := verifkit.EnvInt("C14_ENUM_KINDS", 1)
	maxStmts := verifkit.EnvInt("C14_ENUM_STMTS", 4)
	shard, shards := verifkit.EnvInt("SHARD", 0), verifkit.EnvInt("SHARDS", 1)
	kinds := []kit.Kind{kit.KExec, kit.KQueryRow, kit.KQueryRows, kit.KPrepExec}[:nk]
	ran, failures := 0, 0
	total := kit.Enumerate(kinds, maxStmts, func(idx int, p kit.Plan) {
		if idx%shards != shard || failures >= 5 {
			return
		}
		ran++
		paths := []int{(idx / 12) % 3} // the 12 plans sharing a body go through the same constructor
		if p.Begin == kit.BeginConnectFail {
			paths = append(paths, 3)
		}
		for _, path := range paths {
			st.Eval()
			d := kit.NewFaultDB("c14ce")
			cc, cleanup := newCached(env, d, path)
			nest := func(s sqlx.Session) kit.Subject { return cc.WithSession(s) }
			o := kit.Run(cc, nest, d, p)
			cleanup()
			viol, obs := kit.Check(d, p, o)
			if len(viol) > 0 {
				failures++
				t.Errorf("C14 violated through sqlc.CachedConn (enumerated plan #%d, %s):\n  - %s\n%s", idx, cachedPaths[path],
					strings.Join(viol, "\n  - "), kit.Render(p, o))
				return
			}
			classifyCached(st, p, o, obs)
		}
	})
	if want := kit.EnumCount(nk, maxStmts); total != want {
		t.Fatalf("enumeration visited %d plans, closed form says %d", total, want)
	}
	if shard == 0 {
		st.ClassN("enumerated-space-size", total)
	}
	st.Note("exhaustive sub-space through CachedConn: all %d fault plans for bodies of <= %d statements over kinds %v; this shard %d/%d ran %d",
		total, maxStmts, kinds, shard, shards, ran)
}
