//go:build verif

// Package verifc14 is the shared part of check C14 (SQL transactions end exactly once).
// It is injected by -overlay as github.com/zeromicro/go-zero/internal/verifc14 and used by
// the external test packages sqlx_test and sqlc_test.  It contains
//
//   - a fault-injecting database/sql/driver that logs Connect/Begin/Exec/Query/Prepare/
//     Commit/Rollback and fails exactly where the plan says (never with driver.ErrBadConn,
//     which database/sql retries by contract),
//   - the fault plan (one transaction body plus fault points), its rapid generator and the
//     complete enumeration of the fault space for bodies of at most N statements,
//   - the interpreter that runs a plan as the body of Transact/TransactCtx,
//   - the oracle, written from the property statement, over the driver log.
package verifc14

import (
	"context"
	"database/sql"
	"database/sql/driver"
	"errors"
	"fmt"
	"io"
	"strings"
	"sync"
	"sync/atomic"

	"github.com/zeromicro/go-zero/core/stores/sqlx"
	"pgregory.net/rapid"
)

// ---------------------------------------------------------------------------- driver

// DriverName is the name under which the fault-injecting driver is registered.
const DriverName = "verifc14"

// InjErr is an injected driver error; comparable, so errors.Is works through wrapping.
type InjErr struct{ Token string }

func (e InjErr) Error() string { return "injected:" + e.Token }

// FaultDB is one fake database: the fault switches for the next transaction and the log.
type FaultDB struct {
	Name string

	mu           sync.Mutex
	log          []string
	failConnect  bool
	failBegin    bool
	failCommit   bool
	failRollback bool
	flavour      ErrFlavour
}

// ErrFlavour is the identity of the error a failing Begin/Commit/Rollback reports: a fresh
// harness error (the default), or one of the well-known values that filters and "acceptable
// error" lists tend to know about, bare or wrapped.  A failure stays a failure whatever its
// error value is.
type ErrFlavour int

const (
	FlavInjected ErrFlavour = iota
	FlavTxDone
	FlavNoRows
	FlavConnDone
	FlavCanceled
	FlavDeadline
	FlavEOF
	FlavWrappedInjected
	FlavWrappedTxDone
	flavCount
)

var flavNames = [...]string{"injected", "sql.ErrTxDone", "sql.ErrNoRows", "sql.ErrConnDone", "context.Canceled",
	"context.DeadlineExceeded", "io.EOF", "wrapped(injected)", "wrapped(sql.ErrTxDone)"}

func (f ErrFlavour) String() string { return flavNames[f] }

// SetFlavour chooses the error identity for the faults of the next transaction.
func (d *FaultDB) SetFlavour(f ErrFlavour) {
	d.mu.Lock()
	d.flavour = f
	d.mu.Unlock()
}

func (d *FaultDB) flavoured(site string) error {
	switch d.flavour {
	case FlavTxDone:
		return sql.ErrTxDone
	case FlavNoRows:
		return sql.ErrNoRows
	case FlavConnDone:
		return sql.ErrConnDone
	case FlavCanceled:
		return context.Canceled
	case FlavDeadline:
		return context.DeadlineExceeded
	case FlavEOF:
		return io.EOF
	case FlavWrappedInjected:
		return wrapErr{"driver: ", InjErr{d.Name + ":" + site}}
	case FlavWrappedTxDone:
		return wrapErr{"driver " + site + ": ", sql.ErrTxDone}
	}
	return InjErr{d.Name + ":" + site}
}

// wrapErr is a comparable wrapper (so that the same fault yields equal values on every call).
type wrapErr struct {
	prefix string
	inner  error
}

func (w wrapErr) Error() string { return w.prefix + w.inner.Error() }
func (w wrapErr) Unwrap() error { return w.inner }

var dbSeq atomic.Int64

// NewFaultDB returns a fresh fake database with a process-unique name.
func NewFaultDB(prefix string) *FaultDB {
	return &FaultDB{Name: fmt.Sprintf("%s-%d", prefix, dbSeq.Add(1))}
}

// Arm sets the fault switches for the next transaction.
func (d *FaultDB) Arm(connect, begin, commit, rollback bool) {
	d.mu.Lock()
	d.failConnect, d.failBegin, d.failCommit, d.failRollback = connect, begin, commit, rollback
	d.mu.Unlock()
}

func (d *FaultDB) ErrConnect() error  { return InjErr{d.Name + ":connect"} }
func (d *FaultDB) ErrBegin() error    { return d.flavoured("begin") }
func (d *FaultDB) ErrCommit() error   { return d.flavoured("commit") }
func (d *FaultDB) ErrRollback() error { return d.flavoured("rollback") }
func (d *FaultDB) ErrStmt(q string) error {
	return InjErr{d.Name + ":stmt:" + q}
}

// Mark appends a harness marker (body-enter / body-exit) to the same log as the driver events.
func (d *FaultDB) Mark(ev string) {
	d.mu.Lock()
	d.log = append(d.log, ev)
	d.mu.Unlock()
}

// Cut returns the log accumulated so far and empties it.
func (d *FaultDB) Cut() []string {
	d.mu.Lock()
	l := d.log
	d.log = nil
	d.mu.Unlock()
	return l
}

// Connector returns a driver.Connector for sql.OpenDB.
func (d *FaultDB) Connector() driver.Connector { return fconnector{d} }

type fdriver struct{}

var registry sync.Map // dsn -> *FaultDB

func init() { sql.Register(DriverName, fdriver{}) }

// RegisterDSN makes sql.Open(DriverName, dsn) reach d; the returned func removes the entry.
func RegisterDSN(dsn string, d *FaultDB) func() {
	registry.Store(dsn, d)
	return func() { registry.Delete(dsn) }
}

func (fdriver) Open(dsn string) (driver.Conn, error) {
	v, ok := registry.Load(dsn)
	if !ok {
		return nil, errors.New("verifc14: unknown dsn " + dsn)
	}
	return fconnector{v.(*FaultDB)}.Connect(context.Background())
}

type fconnector struct{ d *FaultDB }

func (c fconnector) Driver() driver.Driver { return fdriver{} }

func (c fconnector) Connect(context.Context) (driver.Conn, error) {
	c.d.mu.Lock()
	defer c.d.mu.Unlock()
	if c.d.failConnect {
		c.d.log = append(c.d.log, "connect!err")
		return nil, c.d.ErrConnect()
	}
	c.d.log = append(c.d.log, "connect")
	return &fconn{d: c.d}, nil
}

type fconn struct {
	d    *FaultDB
	inTx bool
}

func (c *fconn) tag() string {
	if c.inTx {
		return "[tx]"
	}
	return "[notx]"
}

// stmt logs a statement-level driver call and returns the injected error if q asks for one.
func (c *fconn) stmt(op, q string, failMark string) error {
	c.d.mu.Lock()
	defer c.d.mu.Unlock()
	if strings.Contains(q, failMark) {
		c.d.log = append(c.d.log, op+c.tag()+" "+q+" !err")
		return c.d.ErrStmt(q)
	}
	c.d.log = append(c.d.log, op+c.tag()+" "+q)
	return nil
}

func (c *fconn) Prepare(q string) (driver.Stmt, error) {
	if err := c.stmt("prepare", q, "!pfail"); err != nil {
		return nil, err
	}
	return &fstmt{c: c, q: q}, nil
}

func (c *fconn) Close() error { return nil }

func (c *fconn) Begin() (driver.Tx, error) {
	return c.BeginTx(context.Background(), driver.TxOptions{})
}

func (c *fconn) BeginTx(context.Context, driver.TxOptions) (driver.Tx, error) {
	c.d.mu.Lock()
	defer c.d.mu.Unlock()
	if c.d.failBegin {
		c.d.log = append(c.d.log, "begin!err")
		return nil, c.d.ErrBegin()
	}
	c.d.log = append(c.d.log, "begin")
	c.inTx = true
	return &ftx{c}, nil
}

func (c *fconn) ExecContext(_ context.Context, q string, _ []driver.NamedValue) (driver.Result, error) {
	if err := c.stmt("exec", q, "!fail"); err != nil {
		return nil, err
	}
	return driver.RowsAffected(1), nil
}

func (c *fconn) QueryContext(_ context.Context, q string, _ []driver.NamedValue) (driver.Rows, error) {
	if err := c.stmt("query", q, "!fail"); err != nil {
		return nil, err
	}
	return newRows(q), nil
}

type ftx struct{ c *fconn }

func (t *ftx) Commit() error {
	d := t.c.d
	d.mu.Lock()
	defer d.mu.Unlock()
	t.c.inTx = false
	if d.failCommit {
		d.log = append(d.log, "commit!err")
		return d.ErrCommit()
	}
	d.log = append(d.log, "commit")
	return nil
}

func (t *ftx) Rollback() error {
	d := t.c.d
	d.mu.Lock()
	defer d.mu.Unlock()
	t.c.inTx = false
	if d.failRollback {
		d.log = append(d.log, "rollback!err")
		return d.ErrRollback()
	}
	d.log = append(d.log, "rollback")
	return nil
}

type fstmt struct {
	c *fconn
	q string
}

func (s *fstmt) Close() error  { return nil }
func (s *fstmt) NumInput() int { return -1 }

func (s *fstmt) Exec([]driver.Value) (driver.Result, error) {
	if err := s.c.stmt("stmtexec", s.q, "!fail"); err != nil {
		return nil, err
	}
	return driver.RowsAffected(1), nil
}

func (s *fstmt) Query([]driver.Value) (driver.Rows, error) {
	if err := s.c.stmt("stmtquery", s.q, "!fail"); err != nil {
		return nil, err
	}
	return newRows(s.q), nil
}

type frows struct{ n, i int }

func newRows(q string) *frows {
	n := 2
	if strings.Contains(q, "#rows=0") {
		n = 0
	}
	return &frows{n: n}
}

func (r *frows) Columns() []string { return []string{"v"} }
func (r *frows) Close() error      { return nil }
func (r *frows) Next(dest []driver.Value) error {
	if r.i >= r.n {
		return io.EOF
	}
	r.i++
	dest[0] = int64(r.i)
	return nil
}

// ---------------------------------------------------------------------------- plan

// Kind is the session method one body statement uses.
type Kind int

const (
	KExec Kind = iota
	KQueryRow
	KQueryRows
	KPrepExec // Prepare + stmt.Exec + stmt.Close
	// kinds below are used by the random generator only
	KExecCtx
	KQueryRowCtx
	KQueryRowsCtx
	KQueryRowPartial
	KQueryRowsPartialCtx
	KPrepQueryRowCtx // PrepareCtx + stmt.QueryRowCtx + Close
	KExecArg         // Exec with one bound argument
	KNoRows          // QueryRow on an empty result: sqlx.ErrNotFound without any driver fault
	KNested          // Transact on a conn built from the session: must be refused
	kindCount
)

var kindNames = [...]string{"exec", "queryRow", "queryRows", "prepExec", "execCtx", "queryRowCtx",
	"queryRowsCtx", "queryRowPartial", "queryRowsPartialCtx", "prepQueryRowCtx", "execArg", "noRows", "nested"}

func (k Kind) String() string { return kindNames[k] }

func (k Kind) alwaysFails() bool { return k == KNoRows || k == KNested }

func (k Kind) usesCtx() bool {
	switch k {
	case KExecCtx, KQueryRowCtx, KQueryRowsCtx, KQueryRowsPartialCtx, KPrepQueryRowCtx:
		return true
	}
	return false
}

// Fail says what happens at a statement.
type Fail int

const (
	FailNone      Fail = iota // statement succeeds
	FailIgnore                // statement fails, body ignores the error and goes on
	FailPropagate             // statement fails, body returns that error
)

var failNames = [...]string{"ok", "fail-ignored", "fail-returned"}

// Stmt is one statement of the body.
type Stmt struct {
	Kind      Kind
	Fail      Fail
	AtPrepare bool // for the prepared kinds: the Prepare call fails instead of the execution
}

// End says how the body ends when no statement error is returned earlier.
type End int

const (
	EndNil         End = iota // return nil
	EndErr                    // return a fresh error
	EndPanicErr               // panic(error)
	EndPanicString            // panic(string)
	EndPanicNil               // panic(nil)  (a *runtime.PanicNilError since go 1.21)
	// ends below are used by the random generator only
	EndErrWrapped  // return fmt.Errorf("...%w", fresh)
	EndErrNoRows   // return sql.ErrNoRows      (acceptable to the conn's breaker)
	EndErrTxDone   // return sql.ErrTxDone      (acceptable to the conn's breaker)
	EndErrCanceled // return context.Canceled   (acceptable to the conn's breaker)
	EndPanicInt    // panic(int)
	EndPanicTypedNil
	EndPanicStruct
	endCount
)

var endNames = [...]string{"return-nil", "return-err", "panic(error)", "panic(string)", "panic(nil)",
	"return-wrapped-err", "return-sql.ErrNoRows", "return-sql.ErrTxDone", "return-context.Canceled",
	"panic(int)", "panic(typed-nil-error)", "panic(struct)"}

func (e End) String() string { return endNames[e] }
func (e End) isPanic() bool {
	switch e {
	case EndPanicErr, EndPanicString, EndPanicNil, EndPanicInt, EndPanicTypedNil, EndPanicStruct:
		return true
	}
	return false
}

// Begin says whether the transaction can begin.
type Begin int

const (
	BeginOK          Begin = iota
	BeginFails             // driver BeginTx returns an error
	BeginConnectFail       // no connection can be opened
)

var beginNames = [...]string{"ok", "begin-fails", "connect-fails"}

// Plan is one transaction: API, body, fault points.
type Plan struct {
	Ctx          bool // TransactCtx instead of Transact
	Begin        Begin
	Stmts        []Stmt
	End          End
	CommitFail   bool
	RollbackFail bool
	// Flavour: identity of the error reported by a failing begin/commit/rollback
	Flavour ErrFlavour
	// CancelAfter >= 0 (TransactCtx only): the body cancels the context after that many
	// statements (0: the context is cancelled before TransactCtx is called).
	CancelAfter int
}

func (p Plan) String() string {
	var b strings.Builder
	if p.Ctx {
		b.WriteString("TransactCtx")
	} else {
		b.WriteString("Transact")
	}
	fmt.Fprintf(&b, " begin=%s body=[", beginNames[p.Begin])
	for i, s := range p.Stmts {
		if i > 0 {
			b.WriteByte(' ')
		}
		fmt.Fprintf(&b, "%s:%s", s.Kind, failNames[s.Fail])
		if s.AtPrepare {
			b.WriteString("@prepare")
		}
	}
	fmt.Fprintf(&b, "] end=%s commit=%s rollback=%s", p.End, okfail(p.CommitFail), okfail(p.RollbackFail))
	if p.Flavour != FlavInjected {
		fmt.Fprintf(&b, " fault-error=%s", p.Flavour)
	}
	if p.CancelAfter >= 0 {
		fmt.Fprintf(&b, " cancel-ctx-after=%d", p.CancelAfter)
	}
	return b.String()
}

func okfail(f bool) string {
	if f {
		return "fails"
	}
	return "ok"
}

// OKBeforeFirstFault returns the number of statements that execute successfully before the
// first fault of the plan, and whether the plan has a fault that is reached at all.
func (p Plan) OKBeforeFirstFault() (int, bool) {
	if p.Begin != BeginOK || p.CancelAfter == 0 {
		return 0, true
	}
	ok := 0
	for _, s := range p.Stmts {
		if s.Fail != FailNone {
			return ok, true
		}
		ok++
	}
	if p.End != EndNil {
		return ok, true
	}
	if p.CommitFail {
		return ok, true
	}
	return ok, false
}

// reachesEnd reports whether the body reaches its End (no statement error is returned before).
func (p Plan) reachesEnd() bool {
	for _, s := range p.Stmts {
		if s.Fail == FailPropagate {
			return false
		}
	}
	return true
}

// Normalize makes a drawn plan self-consistent (statement kinds that cannot succeed, the
// context-cancel variant, truncation after a returned statement error).
func (p Plan) Normalize() Plan {
	if !p.Ctx {
		p.CancelAfter = -1
	}
	if p.CancelAfter > len(p.Stmts) {
		p.CancelAfter = -1
	}
	out := make([]Stmt, 0, len(p.Stmts))
	for i, s := range p.Stmts {
		if s.Kind != KPrepExec && s.Kind != KPrepQueryRowCtx || s.Fail == FailNone {
			s.AtPrepare = false
		}
		if p.CancelAfter >= 0 && i >= p.CancelAfter {
			// after the cancel every statement goes through the cancelled context and so
			// fails inside database/sql without reaching the driver
			if !s.Kind.usesCtx() {
				s.Kind = KExecCtx
			}
			s.AtPrepare = false
			if s.Fail == FailNone {
				s.Fail = FailIgnore
			}
		}
		if s.Kind.alwaysFails() && s.Fail == FailNone {
			s.Fail = FailIgnore
		}
		out = append(out, s)
		if s.Fail == FailPropagate {
			break
		}
	}
	p.Stmts = out
	// (until seed C14j the variant was kept one-directional here: a body that reached its end after the
	// cancel never reported success.  The transaction is begun without the context (db.Begin), so the
	// statement applies unchanged: a body that returns nil - whatever happened to the caller's context
	// meanwhile - is followed by exactly one Commit, and nil is returned iff that Commit succeeded.)
	return p
}

// GenPlan draws one plan.
func GenPlan(t *rapid.T, maxStmts int, first bool) Plan {
	var p Plan
	p.Ctx = rapid.Bool().Draw(t, "ctxAPI")
	p.Begin = BeginOK
	// in every draw below 0 is the fault-free choice, so that shrinking removes faults
	if rapid.IntRange(0, 9).Draw(t, "beginFault") == 9 {
		p.Begin = BeginFails
		if first && rapid.Bool().Draw(t, "connectFault") {
			p.Begin = BeginConnectFail
		}
	}
	n := rapid.IntRange(0, maxStmts).Draw(t, "nStmts")
	// fault density: most statements succeed so that faults land late in the body
	for i := 0; i < n; i++ {
		var s Stmt
		s.Kind = Kind(rapid.IntRange(0, int(kindCount)-1).Draw(t, "kind"))
		switch rapid.IntRange(0, 9).Draw(t, "stmtFault") {
		case 8:
			s.Fail = FailIgnore
		case 9:
			s.Fail = FailPropagate
		}
		s.AtPrepare = rapid.Bool().Draw(t, "atPrepare")
		p.Stmts = append(p.Stmts, s)
	}
	switch rapid.IntRange(0, 3).Draw(t, "endClass") {
	case 0, 1:
		p.End = EndNil
	case 2:
		p.End = rapid.SampledFrom([]End{EndErr, EndErrWrapped, EndErrNoRows, EndErrTxDone, EndErrCanceled}).Draw(t, "endErr")
	default:
		p.End = rapid.SampledFrom([]End{EndPanicErr, EndPanicString, EndPanicNil, EndPanicInt, EndPanicTypedNil, EndPanicStruct}).Draw(t, "endPanic")
	}
	p.CommitFail = rapid.IntRange(0, 3).Draw(t, "commitFault") == 3
	p.RollbackFail = rapid.IntRange(0, 3).Draw(t, "rollbackFault") == 3
	if (p.CommitFail || p.RollbackFail || p.Begin == BeginFails) && rapid.Bool().Draw(t, "flavoured") {
		p.Flavour = ErrFlavour(rapid.IntRange(1, int(flavCount)-1).Draw(t, "faultError"))
	}
	p.CancelAfter = -1
	if p.Ctx && rapid.IntRange(0, 11).Draw(t, "cancelVariant") == 11 {
		p.CancelAfter = rapid.IntRange(0, n).Draw(t, "cancelAfter")
	}
	return p.Normalize()
}

// EnumEnds are the body endings of the enumerated fault space.
var EnumEnds = []End{EndNil, EndErr, EndPanicErr, EndPanicString, EndPanicNil}

// Enumerate visits every plan of the fault space for bodies of at most maxStmts statements
// over the given statement kinds:
//
//	API in {Transact, TransactCtx}
//	x ( begin ok x commit in {ok, fails} x rollback in {ok, fails}  |  begin fails  |  connect fails )
//	x body: k executed statements, each (kind, ok | fails-and-ignored), followed by one of
//	     return nil | return error | panic(error) | panic(string) | panic(nil)
//	   | one more statement (kind) whose error the body returns        (needs k < maxStmts)
//
// A body of n statements that stops after k < n of them is the same run as the k-statement
// body with that ending, so this is every fault position in every body of <= maxStmts
// statements.  idx numbers the plans from 0; the order is fixed.
func Enumerate(kinds []Kind, maxStmts int, visit func(idx int, p Plan)) int {
	idx := 0
	type pre struct {
		begin            Begin
		commit, rollback bool
	}
	pres := []pre{{BeginOK, false, false}, {BeginOK, true, false}, {BeginOK, false, true},
		{BeginOK, true, true}, {BeginFails, false, false}, {BeginConnectFail, false, false}}
	var rec func(prefix []Stmt)
	emit := func(stmts []Stmt, end End) {
		for _, api := range []bool{false, true} {
			for _, pr := range pres {
				p := Plan{Ctx: api, Begin: pr.begin, Stmts: append([]Stmt(nil), stmts...), End: end,
					CommitFail: pr.commit, RollbackFail: pr.rollback, CancelAfter: -1}
				visit(idx, p)
				idx++
			}
		}
	}
	rec = func(prefix []Stmt) {
		for _, e := range EnumEnds {
			emit(prefix, e)
		}
		if len(prefix) >= maxStmts {
			return
		}
		for _, k := range kinds {
			emit(append(prefix[:len(prefix):len(prefix)], Stmt{Kind: k, Fail: FailPropagate}), EndNil)
		}
		for _, k := range kinds {
			for _, f := range []Fail{FailNone, FailIgnore} {
				rec(append(prefix[:len(prefix):len(prefix)], Stmt{Kind: k, Fail: f}))
			}
		}
	}
	rec(nil)
	return idx
}

// EnumCount is the size of the enumerated space (closed form, used to cross-check Enumerate).
func EnumCount(nKinds, maxStmts int) int {
	total, pow := 0, 1
	for k := 0; k <= maxStmts; k++ {
		per := len(EnumEnds)
		if k < maxStmts {
			per += nKinds
		}
		total += pow * per
		pow *= 2 * nKinds
	}
	return total * 6 * 2
}

// ---------------------------------------------------------------------------- interpreter

// Subject is what is under test: sqlx.SqlConn and sqlc.CachedConn both satisfy it.
type Subject interface {
	Transact(fn func(sqlx.Session) error) error
	TransactCtx(ctx context.Context, fn func(context.Context, sqlx.Session) error) error
}

// NestFn builds, from the session a body received, the subject on which a nested
// Transact is attempted (sqlx.NewSqlConnFromSession / CachedConn.WithSession).
type NestFn func(s sqlx.Session) Subject

// Outcome is everything observed about one Transact call.
type Outcome struct {
	Err        error // returned by Transact/TransactCtx
	Escaped    bool  // a panic propagated out of Transact/TransactCtx
	EscapedVal any
	BodyRuns   int
	BodyEnd    string // "" (not run), "nil", "err", "panic"
	BodyErr    error  // what the body returned
	PanicToken string // a token contained in the panic value ("" if the value has none)
	InnerRuns  int    // runs of the body of a nested Transact (must stay 0)
	Log        []string
	Harness    []string // statement results that contradict the plan
}

type typedNilErr struct{}

func (*typedNilErr) Error() string { return "typed-nil" }

type panicStruct struct {
	Token string
	N     int
}

// Run arms the faults of p on d, runs p as the body of sub.Transact/TransactCtx and returns
// what was observed.  d's log must be empty (Cut) before the call.
func Run(sub Subject, nest NestFn, d *FaultDB, p Plan) (out Outcome) {
	d.Arm(p.Begin == BeginConnectFail, p.Begin == BeginFails, p.CommitFail, p.RollbackFail)
	d.SetFlavour(p.Flavour)
	ctx, cancel := context.WithCancel(context.Background())
	defer cancel()
	if p.CancelAfter == 0 {
		cancel()
	}
	body := func(bctx context.Context, s sqlx.Session) error {
		d.Mark("body-enter")
		defer d.Mark("body-exit")
		out.BodyRuns++
		out.BodyEnd = "panic" // until proven otherwise
		for i, sp := range p.Stmts {
			err := doStmt(bctx, s, nest, i, sp, &out)
			if (err != nil) != (sp.Fail != FailNone) {
				out.Harness = append(out.Harness, fmt.Sprintf("statement %d (%s): plan says %s, got error %v",
					i, sp.Kind, failNames[sp.Fail], err))
			}
			if err != nil && sp.Fail == FailPropagate {
				out.BodyEnd, out.BodyErr = "err", err
				return err
			}
			if p.CancelAfter == i+1 {
				cancel()
			}
		}
		tok := d.Name + ":body-end"
		switch p.End {
		case EndNil:
			out.BodyEnd = "nil"
			return nil
		case EndErr:
			out.BodyEnd, out.BodyErr = "err", errors.New(tok)
		case EndErrWrapped:
			out.BodyEnd, out.BodyErr = "err", fmt.Errorf("wrapped: %w", errors.New(tok))
		case EndErrNoRows:
			out.BodyEnd, out.BodyErr = "err", sql.ErrNoRows
		case EndErrTxDone:
			out.BodyEnd, out.BodyErr = "err", sql.ErrTxDone
		case EndErrCanceled:
			out.BodyEnd, out.BodyErr = "err", context.Canceled
		case EndPanicErr:
			out.PanicToken = tok
			panic(errors.New(tok))
		case EndPanicString:
			out.PanicToken = tok
			panic(tok)
		case EndPanicNil:
			panic(nil)
		case EndPanicInt:
			out.PanicToken = "424242"
			panic(424242)
		case EndPanicTypedNil:
			panic(error((*typedNilErr)(nil)))
		case EndPanicStruct:
			out.PanicToken = tok
			panic(panicStruct{Token: tok, N: 7})
		}
		return out.BodyErr
	}
	func() {
		defer func() {
			if v := recover(); v != nil {
				out.Escaped, out.EscapedVal = true, v
			}
		}()
		if p.Ctx {
			out.Err = sub.TransactCtx(ctx, body)
		} else {
			out.Err = sub.Transact(func(s sqlx.Session) error { return body(context.Background(), s) })
		}
	}()
	out.Log = d.Cut()
	return out
}

// doStmt issues statement i of the body on the session and returns its error.
func doStmt(ctx context.Context, s sqlx.Session, nest NestFn, i int, sp Stmt, out *Outcome) (err error) {
	q := fmt.Sprintf("S%d", i)
	if sp.Fail != FailNone && !sp.Kind.alwaysFails() {
		if sp.AtPrepare {
			q += " !pfail"
		} else {
			q += " !fail"
		}
	}
	var one int64
	var many []int64
	switch sp.Kind {
	case KExec:
		_, err = s.Exec(q)
	case KExecCtx:
		_, err = s.ExecCtx(ctx, q)
	case KExecArg:
		_, err = s.Exec(q+" ?", 7)
	case KQueryRow:
		err = s.QueryRow(&one, q)
	case KQueryRowCtx:
		err = s.QueryRowCtx(ctx, &one, q)
	case KQueryRowPartial:
		err = s.QueryRowPartial(&one, q)
	case KQueryRows:
		err = s.QueryRows(&many, q)
	case KQueryRowsCtx:
		err = s.QueryRowsCtx(ctx, &many, q)
	case KQueryRowsPartialCtx:
		err = s.QueryRowsPartialCtx(ctx, &many, q)
	case KNoRows:
		err = s.QueryRow(&one, q+" #rows=0")
		if err != nil && !errors.Is(err, sqlx.ErrNotFound) {
			out.Harness = append(out.Harness, fmt.Sprintf("statement %d: empty result gave %v, want ErrNotFound", i, err))
		}
	case KPrepExec:
		var st sqlx.StmtSession
		st, err = s.Prepare(q)
		if err == nil {
			_, err = st.Exec()
			st.Close()
		}
	case KPrepQueryRowCtx:
		var st sqlx.StmtSession
		st, err = s.PrepareCtx(ctx, q)
		if err == nil {
			err = st.QueryRowCtx(ctx, &one)
			st.Close()
		}
	case KNested:
		sub := nest(s)
		if i%2 == 0 {
			err = sub.Transact(func(sqlx.Session) error { out.InnerRuns++; return nil })
		} else {
			err = sub.TransactCtx(ctx, func(context.Context, sqlx.Session) error { out.InnerRuns++; return nil })
		}
	}
	return err
}

// ---------------------------------------------------------------------------- oracle

func mentions(err, target error) bool {
	if err == nil || target == nil {
		return false
	}
	return errors.Is(err, target) || strings.Contains(err.Error(), target.Error())
}

func isStmtEvent(ev string) bool {
	for _, p := range []string{"exec[", "query[", "prepare[", "stmtexec[", "stmtquery["} {
		if strings.HasPrefix(ev, p) {
			return true
		}
	}
	return false
}

// Check is the oracle.  It returns the clauses of the property statement that the observed
// run violates (empty: the property held), plus observations that are counted but not
// asserted.  Everything is derived from the statement:
//
//	"Transact/TransactCtx begins one transaction and ends it exactly once: it commits if and
//	only if the body returned nil, and rolls back if the body returned an error or panicked
//	(the panic is reported as an error, not swallowed as success); the body is not run if
//	the transaction cannot begin.  The returned error is nil only when the commit succeeded,
//	and commit or rollback failures are reported to the caller."
func Check(d *FaultDB, p Plan, o Outcome) (violations []string, obs []string) {
	bad := func(f string, a ...any) { violations = append(violations, fmt.Sprintf(f, a...)) }
	var begins, begun, commits, commitOK, rollbacks, rollbackOK int
	posBegin, posEnter, posExit, posEnd := -1, -1, -1, -1
	firstStmt, lastStmt, stmts, stmtsOutsideTx := -1, -1, 0, 0
	for i, ev := range o.Log {
		switch {
		case ev == "begin":
			begins++
			begun++
			posBegin = i
		case ev == "begin!err":
			begins++
		case ev == "commit", ev == "commit!err":
			commits++
			posEnd = i
			if ev == "commit" {
				commitOK++
			}
		case ev == "rollback", ev == "rollback!err":
			rollbacks++
			posEnd = i
			if ev == "rollback" {
				rollbackOK++
			}
		case ev == "body-enter":
			if posEnter < 0 {
				posEnter = i
			}
		case ev == "body-exit":
			posExit = i
		case isStmtEvent(ev):
			stmts++
			if firstStmt < 0 {
				firstStmt = i
			}
			lastStmt = i
			if strings.Contains(ev, "[notx]") {
				stmtsOutsideTx++
			}
		}
	}
	if o.Escaped {
		bad("a panic propagated out of Transact (%#v): \"the panic is reported as an error\"", o.EscapedVal)
	}
	if begins > 1 {
		bad("%d Begin calls reached the driver: \"begins one transaction\"", begins)
	}
	if o.BodyRuns > 1 {
		bad("the body ran %d times", o.BodyRuns)
	}
	if o.InnerRuns > 0 {
		bad("the body of a nested Transact ran: \"begins one transaction\"")
	}
	if p.Begin == BeginOK && p.CancelAfter != 0 && begun == 0 {
		bad("no transaction was begun although nothing prevents it: \"begins one transaction\"")
	}
	if begun == 0 {
		if o.BodyRuns > 0 {
			bad("the body ran although no transaction began: \"the body is not run if the transaction cannot begin\"")
		}
		if commits+rollbacks > 0 {
			bad("commit/rollback (%d/%d) reached the driver without a begun transaction", commits, rollbacks)
		}
		if o.Err == nil && !o.Escaped {
			bad("nil returned although no transaction began: \"the returned error is nil only when the commit succeeded\"")
		}
		if p.Begin == BeginFails && p.CancelAfter != 0 && o.Err != nil && !mentions(o.Err, d.ErrBegin()) {
			obs = append(obs, "begin-error-not-mentioned")
		}
		return
	}
	// a transaction began
	if o.BodyRuns != 1 {
		bad("a transaction began but the body ran %d times", o.BodyRuns)
	}
	if commits+rollbacks != 1 {
		bad("the begun transaction was ended %d times (commit %d, rollback %d): \"ends it exactly once\"",
			commits+rollbacks, commits, rollbacks)
	}
	if posEnter >= 0 && posEnter < posBegin {
		bad("the body started before Begin")
	}
	if posEnd >= 0 && posExit >= 0 && posEnd < posExit {
		bad("commit/rollback reached the driver before the body finished")
	}
	if firstStmt >= 0 && (firstStmt < posBegin || (posEnd >= 0 && lastStmt > posEnd)) {
		bad("a body statement reached the driver outside begin..commit/rollback")
	}
	if stmtsOutsideTx > 0 {
		bad("%d body statement(s) ran on a connection without the open transaction", stmtsOutsideTx)
	}
	switch o.BodyEnd {
	case "nil":
		if commits != 1 || rollbacks != 0 {
			bad("body returned nil but commit=%d rollback=%d: \"commits if and only if the body returned nil\"", commits, rollbacks)
		}
	case "err":
		if commits != 0 {
			bad("body returned an error (%v) but Commit was called: \"commits if and only if the body returned nil\"", o.BodyErr)
		}
		if rollbacks != 1 {
			bad("body returned an error (%v) but rollback=%d: \"rolls back if the body returned an error\"", o.BodyErr, rollbacks)
		}
	case "panic":
		if commits != 0 {
			bad("body panicked but Commit was called: \"commits if and only if the body returned nil\"")
		}
		if rollbacks != 1 {
			bad("body panicked but rollback=%d: \"rolls back if the body ... panicked\"", rollbacks)
		}
	}
	if !o.Escaped {
		if o.Err == nil && commitOK != 1 {
			what := "\"the returned error is nil only when the commit succeeded\""
			if o.BodyEnd == "panic" {
				what = "\"the panic is reported as an error, not swallowed as success\""
			}
			bad("nil returned but no successful commit (body ended with %s, commit attempts %d): %s", o.BodyEnd, commits, what)
		}
		if o.Err != nil && commitOK == 1 && commits == 1 && rollbacks == 0 {
			bad("error %q returned although the body returned nil and the commit succeeded", o.Err)
		}
		if commits > commitOK && !mentions(o.Err, d.ErrCommit()) {
			bad("commit failed with %q but the caller got %v: \"commit or rollback failures are reported to the caller\"", d.ErrCommit(), o.Err)
		}
		if rollbacks > rollbackOK && !mentions(o.Err, d.ErrRollback()) {
			bad("rollback failed with %q but the caller got %v: \"commit or rollback failures are reported to the caller\"", d.ErrRollback(), o.Err)
		}
		if o.BodyEnd == "err" && o.Err != nil {
			if rollbacks == 1 && rollbackOK == 1 {
				if !mentions(o.Err, o.BodyErr) {
					bad("body returned %q and the rollback succeeded, but the caller got the unrelated error %q", o.BodyErr, o.Err)
				}
			} else if rollbacks > rollbackOK && !mentions(o.Err, o.BodyErr) {
				obs = append(obs, "double-fault-body-error-not-mentioned")
			}
		}
		if o.BodyEnd == "panic" && o.Err != nil && o.PanicToken != "" && !strings.Contains(o.Err.Error(), o.PanicToken) {
			obs = append(obs, "panic-value-not-mentioned")
		}
	}
	if stmts != countDriverCalls(p, o) {
		o.Harness = append(o.Harness, fmt.Sprintf("driver saw %d statement calls, body made %d", stmts, countDriverCalls(p, o)))
	}
	for _, h := range o.Harness {
		bad("unexpected statement behaviour inside the transaction: %s", h)
	}
	return
}

// countDriverCalls is the number of statement-level driver calls the executed part of the
// body must have produced (prepared kinds make two calls unless the Prepare fails).
func countDriverCalls(p Plan, o Outcome) int {
	n := 0
	for i, s := range p.Stmts {
		if p.CancelAfter >= 0 && i >= p.CancelAfter {
			break
		}
		switch s.Kind {
		case KNested:
		case KPrepExec, KPrepQueryRowCtx:
			if s.Fail != FailNone && s.AtPrepare {
				n++
			} else {
				n += 2
			}
		default:
			n++
		}
		if s.Fail == FailPropagate {
			break
		}
	}
	if o.BodyRuns == 0 {
		return 0
	}
	return n
}

// Render is the text used in failure messages.
func Render(p Plan, o Outcome) string {
	return fmt.Sprintf("plan: %s\n  body: runs=%d end=%q err=%v\n  returned: %v (escaped panic: %v)\n  driver log: %s",
		p, o.BodyRuns, o.BodyEnd, o.BodyErr, o.Err, o.Escaped, strings.Join(o.Log, " | "))
}
