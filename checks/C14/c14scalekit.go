//go:build verif

// Scale mode of check C14 (units `scale` and `sqlc-scale`): the same driver, interpreter and
// oracle as c14kit.go, driven with cases that are two to three orders of magnitude larger
// than what GenPlan produces: one body of up to 5 000 statements, or one conn that serves up
// to 1 000 short transactions in a row.  A large case is described by a handful of draws (a
// pattern of statements that is tiled, a palette of short transactions that is tiled, a few
// fault positions), so that rapid still shrinks it quickly; sizes are drawn log-uniformly and
// are not tuned to any threshold.
package verifc14

import (
	"errors"
	"fmt"
	"math"
	"strings"

	"github.com/zeromicro/go-zero/core/breaker"
	"pgregory.net/rapid"
)

const (
	// the largest sizes the small generators produce (sqlx-random: bodies of <= 8
	// statements, <= 3 transactions on one conn)
	SmallMaxStmts = 8
	SmallMaxTxs   = 3
	// the large classes
	LargeBodyMin, LargeBodyMax = 1000, 5000
	LargeConnMin, LargeConnMax = 200, 1000
	// non-trivial: at least 100x the largest small size
	NonTrivialStmts = 100 * SmallMaxStmts
	NonTrivialTxs   = 100 * SmallMaxTxs
)

// ScaleCase is one conn and the transactions it serves, in order.
type ScaleCase struct {
	Mode  string // "body-large" | "body-medium" | "conn-long" | "conn-medium"
	Plans []Plan
	Big   int    // index of the long body in Plans; -1 in the conn modes
	Size  int    // statements of the long body (after Normalize) / number of transactions
	Desc  string // compact canonical text of the case
}

// Large reports whether the case belongs to one of the two large classes.
func (sc ScaleCase) Large() bool { return sc.Mode == "body-large" || sc.Mode == "conn-long" }

// logUniform draws an integer from [lo, hi] whose logarithm is uniform.
func logUniform(t *rapid.T, lo, hi int, label string) int {
	x := rapid.Float64Range(math.Log(float64(lo)), math.Log(float64(hi)+1)).Draw(t, label)
	n := int(math.Exp(x))
	if n < lo {
		n = lo
	}
	if n > hi {
		n = hi
	}
	return n
}

// drawPos draws a position in [0, n): either uniform, or at a log-uniform distance from the
// end ("a fault after most of them").
func drawPos(t *rapid.T, n int, label string) int {
	if n <= 1 {
		return 0
	}
	if rapid.Bool().Draw(t, label+"Late") {
		return n - logUniform(t, 1, n, label+"FromEnd")
	}
	return rapid.IntRange(0, n-1).Draw(t, label)
}

// GenScale draws one scale case.  One case in oneIn is large (a body of 1 000 - 5 000
// statements or a conn serving 200 - 1 000 transactions); the others are of medium size
// (bodies of 9 - 999 statements, 4 - 199 transactions), i.e. everything between the small
// generators and the large classes.
func GenScale(t *rapid.T, oneIn int) ScaleCase {
	if oneIn < 1 {
		oneIn = 1
	}
	// the highest value is the large one, so that shrinking moves towards the smaller class
	large := rapid.IntRange(0, oneIn-1).Draw(t, "scaleClass") == oneIn-1
	if rapid.Bool().Draw(t, "scaleAxisConn") {
		if large {
			return genConnSeries(t, "conn-long", LargeConnMin, LargeConnMax)
		}
		return genConnSeries(t, "conn-medium", SmallMaxTxs+1, LargeConnMin-1)
	}
	if large {
		return genLongBody(t, "body-large", LargeBodyMin, LargeBodyMax)
	}
	return genLongBody(t, "body-medium", SmallMaxStmts+1, LargeBodyMin-1)
}

// genLongBody: 0-2 small transactions, the long one, 0-2 small transactions, all on one conn
// (what a long transaction leaves behind is seen by the ones after it).
func genLongBody(t *rapid.T, mode string, lo, hi int) ScaleCase {
	sc := ScaleCase{Mode: mode}
	var desc strings.Builder
	before := rapid.IntRange(0, 2).Draw(t, "txBefore")
	for i := 0; i < before; i++ {
		sc.Plans = append(sc.Plans, GenPlan(t, 4, i == 0))
	}
	n := logUniform(t, lo, hi, "bodyStmts")
	big, bigDesc := genBigPlan(t, n)
	sc.Big = len(sc.Plans)
	sc.Plans = append(sc.Plans, big)
	sc.Size = len(big.Stmts)
	after := rapid.IntRange(0, 2).Draw(t, "txAfter")
	for i := 0; i < after; i++ {
		sc.Plans = append(sc.Plans, GenPlan(t, 4, false))
	}
	fmt.Fprintf(&desc, "%s: ", mode)
	for i, p := range sc.Plans {
		if i > 0 {
			desc.WriteString(" ; ")
		}
		if i == sc.Big {
			desc.WriteString(bigDesc)
		} else {
			fmt.Fprintf(&desc, "tx%d{%s}", i, p)
		}
	}
	sc.Desc = desc.String()
	return sc
}

// genBigPlan draws a body of n statements: a pattern of 1-16 statement kinds (all 13 kinds
// of the kit) tiled to length n, up to 6 statements whose failure the body ignores, possibly
// one statement whose failure the body returns, any of the 12 endings (a panic in two cases of
// five), commit/rollback faults, and the context-cancel variant.
func genBigPlan(t *rapid.T, n int) (Plan, string) {
	var p Plan
	p.Ctx = rapid.Bool().Draw(t, "ctxAPI")
	p.Begin = BeginOK
	pat := rapid.SliceOfN(rapid.IntRange(0, int(kindCount)-1), 1, 16).Draw(t, "kindPattern")
	p.Stmts = make([]Stmt, n)
	for i := range p.Stmts {
		p.Stmts[i].Kind = Kind(pat[i%len(pat)])
	}
	var ign []int
	for i, k := 0, rapid.IntRange(0, 6).Draw(t, "ignoredFaults"); i < k; i++ {
		pos := drawPos(t, n, "ignoredAt")
		p.Stmts[pos].Fail = FailIgnore
		p.Stmts[pos].AtPrepare = rapid.Bool().Draw(t, "atPrepare")
		ign = append(ign, pos)
	}
	ret := -1
	if rapid.IntRange(0, 3).Draw(t, "returnedFault") == 3 {
		ret = drawPos(t, n, "returnedAt")
		p.Stmts[ret].Fail = FailPropagate
		p.Stmts[ret].AtPrepare = rapid.Bool().Draw(t, "atPrepare")
	}
	switch rapid.IntRange(0, 4).Draw(t, "endClass") {
	case 0, 1:
		p.End = EndNil
	case 2:
		p.End = rapid.SampledFrom([]End{EndErr, EndErrWrapped, EndErrNoRows, EndErrTxDone, EndErrCanceled}).Draw(t, "endErr")
	default:
		p.End = rapid.SampledFrom([]End{EndPanicErr, EndPanicString, EndPanicNil, EndPanicInt, EndPanicTypedNil, EndPanicStruct}).Draw(t, "endPanic")
	}
	p.CommitFail = rapid.IntRange(0, 3).Draw(t, "commitFault") == 3
	p.RollbackFail = rapid.IntRange(0, 3).Draw(t, "rollbackFault") == 3
	if (p.CommitFail || p.RollbackFail) && rapid.Bool().Draw(t, "flavoured") {
		p.Flavour = ErrFlavour(rapid.IntRange(1, int(flavCount)-1).Draw(t, "faultError"))
	}
	p.CancelAfter = -1
	if p.Ctx && rapid.IntRange(0, 11).Draw(t, "cancelVariant") == 11 {
		p.CancelAfter = 1 + drawPos(t, n, "cancelAfter")
	}
	p = p.Normalize()

	var b strings.Builder
	if p.Ctx {
		b.WriteString("TransactCtx")
	} else {
		b.WriteString("Transact")
	}
	fmt.Fprintf(&b, " body=%d statements (drawn %d), pattern [", len(p.Stmts), n)
	for i, k := range pat {
		if i > 0 {
			b.WriteByte(' ')
		}
		b.WriteString(Kind(k).String())
	}
	fmt.Fprintf(&b, "] tiled, fail-ignored at %v", ign)
	if ret >= 0 {
		fmt.Fprintf(&b, ", fail-returned at %d", ret)
	}
	fmt.Fprintf(&b, ", end=%s commit=%s rollback=%s", p.End, okfail(p.CommitFail), okfail(p.RollbackFail))
	if p.Flavour != FlavInjected {
		fmt.Fprintf(&b, " fault-error=%s", p.Flavour)
	}
	if p.CancelAfter >= 0 {
		fmt.Fprintf(&b, " cancel-ctx-after=%d", p.CancelAfter)
	}
	return p, "long{" + b.String() + "}"
}

// clean strips every fault from a drawn plan: the transaction commits.
func clean(p Plan) Plan {
	p.Begin = BeginOK
	for i := range p.Stmts {
		p.Stmts[i].Fail = FailNone
		p.Stmts[i].AtPrepare = false
	}
	p.End = EndNil
	p.CommitFail, p.RollbackFail = false, false
	p.Flavour = FlavInjected
	p.CancelAfter = -1
	return p.Normalize()
}

// genConnSeries: n short transactions on one conn.  A palette of 1-5 short plans (four out of
// five of them fault-free, so that most of the series commits and the conn's breaker stays
// closed) is tiled in a drawn order; 0-8 positions get a plan of their own drawn by GenPlan;
// the last transaction is, in one case of three, one more drawn plan whose body panics ("a
// panic never leaves the transaction open", after a long healthy run).
func genConnSeries(t *rapid.T, mode string, lo, hi int) ScaleCase {
	sc := ScaleCase{Mode: mode, Big: -1}
	n := logUniform(t, lo, hi, "connTxs")
	sc.Size = n
	k := rapid.IntRange(1, 5).Draw(t, "palette")
	palette := make([]Plan, k)
	for i := range palette {
		p := GenPlan(t, 3, false)
		if rapid.IntRange(0, 4).Draw(t, "paletteFaulty") != 4 {
			p = clean(p)
		}
		palette[i] = p
	}
	order := rapid.SliceOfN(rapid.IntRange(0, k-1), 1, 12).Draw(t, "paletteOrder")
	sc.Plans = make([]Plan, n)
	for i := range sc.Plans {
		sc.Plans[i] = palette[order[i%len(order)]]
	}
	var b strings.Builder
	fmt.Fprintf(&b, "%s: %d transactions; palette", mode, n)
	for i, p := range palette {
		fmt.Fprintf(&b, " P%d{%s}", i, p)
	}
	fmt.Fprintf(&b, "; order %v tiled", order)
	nf := rapid.SampledFrom([]int{0, 1, 1, 2, 3, 5, 8}).Draw(t, "seriesFaults")
	for i := 0; i < nf; i++ {
		pos := drawPos(t, n, "faultTx")
		sc.Plans[pos] = GenPlan(t, 4, pos == 0)
		fmt.Fprintf(&b, "; tx%d{%s}", pos, sc.Plans[pos])
	}
	if rapid.IntRange(0, 2).Draw(t, "panicLast") == 2 {
		p := clean(GenPlan(t, 4, false))
		p.End = rapid.SampledFrom([]End{EndPanicErr, EndPanicString, EndPanicNil, EndPanicInt, EndPanicTypedNil, EndPanicStruct}).Draw(t, "endPanic")
		p.RollbackFail = rapid.IntRange(0, 3).Draw(t, "rollbackFault") == 3
		sc.Plans[n-1] = p
		fmt.Fprintf(&b, "; last tx%d{%s}", n-1, p)
	}
	sc.Desc = b.String()
	return sc
}

// ScaleTx is one judged transaction of a scale case.
type ScaleTx struct {
	I        int
	P        Plan
	O        Outcome
	Obs      []string
	Rejected bool // the conn's circuit breaker refused the call: the transaction could not begin
}

// RunScale runs the transactions of sc in order on sub and judges each one with Check (the
// oracle of the small units, unchanged).  It returns "" or the text of the first violation.
//
// One addition, needed because a conn that serves hundreds of transactions may open its
// circuit breaker (the breaker's decision depends on its rolling time window and on its own
// random draw, so it is tolerated at any point rather than predicted): a call that returns
// breaker.ErrServiceUnavailable without a Begin having reached the driver is judged as "the
// transaction cannot begin" - the body must not have run, nothing may have been committed or
// rolled back and the error is non-nil - which is what the statement asks for that case.
func RunScale(sub Subject, nest NestFn, d *FaultDB, sc ScaleCase, each func(ScaleTx)) string {
	var recent []string
	for i, p := range sc.Plans {
		o := Run(sub, nest, d, p)
		judged := p
		rejected := false
		if o.Err != nil && errors.Is(o.Err, breaker.ErrServiceUnavailable) && !logHas(o.Log, "begin") && !logHas(o.Log, "begin!err") {
			rejected = true
			if p.Begin == BeginOK {
				judged.Begin = BeginFails
			}
		}
		viol, obs := Check(d, judged, o)
		if rejected {
			obs = nil // "begin-error-not-mentioned" is about an injected begin error; there is none
		}
		line := fmt.Sprintf("tx %d: %s", i, RenderCompact(p, o))
		if len(viol) > 0 {
			return fmt.Sprintf("C14 violated at transaction %d of %d on one conn:\n  - %s\ncase: %s\nlast transactions:\n%s%s",
				i, len(sc.Plans), strings.Join(viol, "\n  - "), clip(sc.Desc, 6000), strings.Join(recent, ""), line)
		}
		if len(recent) == 4 {
			recent = recent[1:]
		}
		recent = append(recent, line+"\n")
		if each != nil {
			each(ScaleTx{I: i, P: p, O: o, Obs: obs, Rejected: rejected})
		}
	}
	return ""
}

func logHas(log []string, ev string) bool {
	for _, e := range log {
		if e == ev {
			return true
		}
	}
	return false
}

func clip(s string, n int) string {
	if len(s) > n {
		return s[:n] + "…"
	}
	return s
}

// RenderCompact is Render with the middle of a long body and of a long driver log elided.
func RenderCompact(p Plan, o Outcome) string {
	if len(p.Stmts) <= 16 && len(o.Log) <= 48 {
		return Render(p, o)
	}
	q := p
	head, tail := p.Stmts, []Stmt(nil)
	if len(head) > 16 {
		head, tail = p.Stmts[:8], p.Stmts[len(p.Stmts)-8:]
	}
	q.Stmts = head
	ps := q.String()
	if tail != nil {
		q.Stmts = tail
		ts := q.String()
		lb, rb := strings.Index(ts, "body=["), strings.Index(ts, "] end=")
		if i := strings.Index(ps, "] end="); i >= 0 && lb >= 0 && rb >= lb {
			ps = ps[:i] + fmt.Sprintf(" …(%d statements in all)… ", len(p.Stmts)) + ts[lb+len("body=["):rb] + ps[i:]
		}
	}
	log := o.Log
	ls := strings.Join(log, " | ")
	if len(log) > 48 {
		ls = strings.Join(log[:20], " | ") + fmt.Sprintf(" | …(%d events in all)… | ", len(log)) + strings.Join(log[len(log)-24:], " | ")
	}
	return fmt.Sprintf("plan: %s\n  body: runs=%d end=%q err=%v\n  returned: %v (escaped panic: %v)\n  driver log: %s",
		ps, o.BodyRuns, o.BodyEnd, o.BodyErr, o.Err, o.Escaped, ls)
}
