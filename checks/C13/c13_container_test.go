//go:build verif

package discov

// C13 unit (a): the subscriber's container driven directly through the
// internal.UpdateListener contract, i.e. exactly the calls the registry layer makes:
//
//	watch PUT    -> OnAdd{key, value}          (new key, same value again, or a new value)
//	watch DELETE -> OnDelete{key, ""}          (etcd delete events carry no value)
//	reload       -> OnAdd for every key that is new or whose value changed (any order),
//	                then OnDelete{key, old value} for every key that vanished or whose
//	                value changed (any order)
//
// Oracle: regModel (c13_model_test.go), checked after every event, plus the listener
// clause "every listener is notified after each change".

import (
	"fmt"
	"sort"
	"strings"
	"sync/atomic"
	"testing"
	"time"

	"github.com/zeromicro/go-zero/core/discov/internal"
	"github.com/zeromicro/go-zero/core/logx"
	"github.com/zeromicro/go-zero/internal/verifkit"
	"pgregory.net/rapid"
)

var (
	c13Keys = []string{"k0", "k1", "k2", "k3", "k4", "k5"}
	c13Vals = []string{"v0", "v1", "v2", "v3"}
)

type c13Listener struct {
	calls    int
	lastView []string
}

// viewChecker couples one observed view (a container or a Subscriber) with its model
// and its listeners, and checks the statement's clauses around one event.
type viewChecker struct {
	m            *regModel
	listeners    []*c13Listener
	values       func() []string
	undetermined int        // events after which the model left a value's membership open
	rd           *readerSet // background readers (concurrent units), nil otherwise
	wild         bool       // the event in flight hands over more than one change
	// patience > 0 (pipeline units): the view is fed by watch goroutines and the harness' barrier
	// after a reload is heuristic, so a view that does not match yet is re-read until it does or
	// the patience is used up; only a mismatch that persists is a complaint (counted when it helped)
	patience time.Duration
}

var c13LateViews atomic.Int64

// attachReaders starts background readers of this view (see c13_readers_test.go).
func (vc *viewChecker) attachReaders(plans []readerPlan) {
	must, may := vc.m.bounds()
	vc.rd = startReaders(vc.values, must, may, plans)
}

func (vc *viewChecker) haltReaders() {
	if vc.rd != nil {
		vc.rd.halt()
	}
}

// newListener returns the callback to register with the code under test.
func (vc *viewChecker) newListener() func() {
	l := &c13Listener{}
	vc.listeners = append(vc.listeners, l)
	return func() {
		l.calls++
		l.lastView = append([]string(nil), vc.values()...)
	}
}

type viewBefore struct {
	must       map[string]bool
	determined bool
	calls      []int
}

func (vc *viewChecker) before() viewBefore {
	must, may := vc.m.bounds()
	b := viewBefore{must: must, determined: len(must) == len(may), calls: make([]int, len(vc.listeners))}
	for i, l := range vc.listeners {
		b.calls[i] = l.calls
	}
	if vc.rd != nil {
		vc.rd.begin()
	}
	return b
}

// after checks the view and the listener clause once the event has been applied to both
// the code under test and the model.  It returns "" or a complaint.
func (vc *viewChecker) after(b viewBefore) string {
	msg := vc.afterSequential(b)
	if vc.rd != nil {
		must, may := vc.m.bounds()
		if m2 := vc.rd.end(must, may, vc.wild); msg == "" {
			msg = m2
		}
	}
	vc.wild = false
	return msg
}

func (vc *viewChecker) afterSequential(b viewBefore) string {
	got := vc.values()
	if msg := vc.m.verdict(got); msg != "" {
		for deadline := time.Now().Add(vc.patience); msg != "" && time.Now().Before(deadline); {
			time.Sleep(5 * time.Millisecond)
			got = vc.values()
			if msg = vc.m.verdict(got); msg == "" {
				c13LateViews.Add(1)
			}
		}
		if msg != "" {
			return fmt.Sprintf("%s: Values()=%v, registry %s", msg, sortedCopy(got), vc.m)
		}
	}
	// a second read must serve the same (cached) view
	if again := vc.values(); !sameSet(setOf(again), setOf(got)) || len(again) != len(got) {
		return fmt.Sprintf("two consecutive Values() differ: %v then %v", sortedCopy(got), sortedCopy(again))
	}
	if vc.m.ambiguous() {
		vc.undetermined++
	}
	vc.m.settle(setOf(got))
	mustAfter, mayAfter := vc.m.bounds()
	changed := b.determined && len(mustAfter) == len(mayAfter) && !sameSet(b.must, mustAfter)
	if changed {
		for i, l := range vc.listeners[:len(b.calls)] {
			if l.calls == b.calls[i] {
				return fmt.Sprintf("listener %d was not notified although the view changed from %v to %v",
					i, setList(b.must), setList(mustAfter))
			}
			if msg := vc.m.verdict(l.lastView); msg != "" {
				return fmt.Sprintf("listener %d: its last notification came before the change was visible (%s): it saw %v, registry %s",
					i, msg, sortedCopy(l.lastView), vc.m)
			}
		}
	}
	return ""
}

// containerHarness couples one container with the model.
type containerHarness struct {
	c *container
	viewChecker
	log     strings.Builder
	inPlace int // value changes of a live key (by put or by reload)
	reloads int
}

func newContainerHarness(excl bool, nListeners int) *containerHarness {
	h := &containerHarness{c: newContainer(excl)}
	h.viewChecker = viewChecker{m: newRegModel(excl), values: h.c.getValues}
	fmt.Fprintf(&h.log, "excl=%v listeners=%d:", excl, nListeners)
	for i := 0; i < nListeners; i++ {
		h.addListener()
	}
	return h
}

func (h *containerHarness) addListener() {
	h.c.addListener(h.newListener())
}

// event runs one registry event (apply performs the calls on the container and the
// model) and then checks the view and the listener clause.  It returns "" or a complaint.
func (h *containerHarness) event(apply func()) string {
	b := h.before()
	apply()
	return h.after(b)
}

func (h *containerHarness) put(k, v string) string {
	if old, ok := h.m.reg[k]; ok && old != v {
		h.inPlace++
	}
	fmt.Fprintf(&h.log, " put(%s=%s)", k, v)
	return h.event(func() {
		h.c.OnAdd(internal.KV{Key: k, Val: v})
		h.m.register(k, v)
	})
}

func (h *containerHarness) del(k string) string {
	fmt.Fprintf(&h.log, " del(%s)", k)
	return h.event(func() {
		h.c.OnDelete(internal.KV{Key: k})
		h.m.unregister(k)
	})
}

// reload delivers the difference between the current registrations and snap the way
// the registry does: adds in the order addOrder, then removes in the order delOrder
// (both are orders over the sorted key lists).
func (h *containerHarness) reload(snap map[string]string, addPerm, delPerm []int) string {
	var adds, removes []internal.KV
	for _, k := range sortedKeys(snap) {
		if old, ok := h.m.reg[k]; !ok || old != snap[k] {
			adds = append(adds, internal.KV{Key: k, Val: snap[k]})
			if ok {
				h.inPlace++
			}
		}
	}
	for _, k := range sortedKeys(h.m.reg) {
		if v, ok := snap[k]; !ok || v != h.m.reg[k] {
			removes = append(removes, internal.KV{Key: k, Val: h.m.reg[k]})
		}
	}
	adds = permuteKVs(adds, addPerm)
	removes = permuteKVs(removes, delPerm)
	h.reloads++
	h.wild = len(adds)+len(removes) > 1
	fmt.Fprintf(&h.log, " reload(add%v del%v)", adds, removes)
	return h.event(func() {
		for _, kv := range adds {
			h.c.OnAdd(kv)
		}
		for _, kv := range removes {
			h.c.OnDelete(kv)
		}
		applyReloadToModel(h.m, snap)
	})
}

// applyReloadToModel: the registry now holds exactly snap.  Keys that are new or
// changed count as registered at this instant (simultaneously).
func applyReloadToModel(m *regModel, snap map[string]string) {
	byVal := map[string][]string{}
	for _, k := range sortedKeys(snap) {
		if old, ok := m.reg[k]; !ok || old != snap[k] {
			byVal[snap[k]] = append(byVal[snap[k]], k)
		}
	}
	for k := range m.reg {
		if _, ok := snap[k]; !ok {
			m.unregister(k)
		}
	}
	for v, ks := range byVal {
		m.registerSet(ks, v)
	}
}

func sortedKeys(m map[string]string) []string {
	ks := make([]string, 0, len(m))
	for k := range m {
		ks = append(ks, k)
	}
	sort.Strings(ks)
	return ks
}

func permuteKVs(kvs []internal.KV, perm []int) []internal.KV {
	if len(perm) != len(kvs) {
		return kvs
	}
	out := make([]internal.KV, len(kvs))
	for i, p := range perm {
		out[i] = kvs[p]
	}
	return out
}

// drawSnapshot draws the registry content found by a reload: every current key is kept,
// dropped or changed, and absent keys may appear.
func drawSnapshot(t *rapid.T, cur map[string]string, keys, vals []string) map[string]string {
	snap := map[string]string{}
	for _, k := range keys {
		old, ok := cur[k]
		// 0,1: unchanged  2: absent  3: (new) value
		switch rapid.IntRange(0, 3).Draw(t, "fate-"+k) {
		case 0, 1:
			if ok {
				snap[k] = old
			}
		case 2:
		case 3:
			snap[k] = rapid.SampledFrom(vals).Draw(t, "val-"+k)
		}
	}
	return snap
}

func drawPerm(t *rapid.T, n int, label string) []int {
	idx := make([]int, n)
	for i := range idx {
		idx[i] = i
	}
	if n < 2 {
		return idx
	}
	return rapid.Permutation(idx).Draw(t, label)
}

func TestVerifC13Container(t *testing.T) {
	logx.Disable()
	st := verifkit.New("container")
	defer st.Flush()
	rapid.Check(t, containerProperty(st, false))
}

// TestVerifC13ContainerConcurrent: the same histories while 1-4 goroutines poll
// getValues() (see c13_readers_test.go).
func TestVerifC13ContainerConcurrent(t *testing.T) {
	logx.Disable()
	st := verifkit.New("container-concurrent")
	defer st.Flush()
	rapid.Check(t, containerProperty(st, true))
}

func containerProperty(st *verifkit.Stats, concurrent bool) func(*rapid.T) {
	return func(t *rapid.T) {
		st.Eval()
		excl := rapid.Bool().Draw(t, "exclusive")
		h := newContainerHarness(excl, rapid.IntRange(0, 3).Draw(t, "listeners"))
		if got := h.c.getValues(); len(got) != 0 {
			t.Fatalf("fresh container has values %v", got)
		}
		if concurrent {
			h.attachReaders(drawReaderPlans(t, 4))
			defer h.haltReaders()
		}
		fail := func(msg string) {
			if msg != "" {
				t.Fatalf("%s\nhistory: %s", msg, h.log.String())
			}
		}
		t.Repeat(map[string]func(*rapid.T){
			"put": func(t *rapid.T) {
				fail(h.put(rapid.SampledFrom(c13Keys).Draw(t, "k"), rapid.SampledFrom(c13Vals).Draw(t, "v")))
			},
			"update": func(t *rapid.T) { // a live key gets another value
				live := sortedKeys(h.m.reg)
				if len(live) == 0 {
					t.Skip("no live key")
				}
				k := rapid.SampledFrom(live).Draw(t, "k")
				var others []string
				for _, v := range c13Vals {
					if v != h.m.reg[k] {
						others = append(others, v)
					}
				}
				fail(h.put(k, rapid.SampledFrom(others).Draw(t, "v")))
			},
			"del": func(t *rapid.T) {
				fail(h.del(rapid.SampledFrom(c13Keys).Draw(t, "k")))
			},
			"reload": func(t *rapid.T) {
				snap := drawSnapshot(t, h.m.reg, c13Keys, c13Vals)
				fail(h.reload(snap, nil, nil))
			},
			"reloadShuffled": func(t *rapid.T) {
				snap := drawSnapshot(t, h.m.reg, c13Keys, c13Vals)
				nAdd, nDel := 0, 0
				for k, v := range snap {
					if old, ok := h.m.reg[k]; !ok || old != v {
						nAdd++
					}
				}
				for k, v := range h.m.reg {
					if nv, ok := snap[k]; !ok || nv != v {
						nDel++
					}
				}
				fail(h.reload(snap, drawPerm(t, nAdd, "addOrder"), drawPerm(t, nDel, "delOrder")))
			},
			"listen": func(t *rapid.T) {
				if len(h.listeners) >= 4 {
					t.Skip("enough listeners")
				}
				h.addListener()
				fmt.Fprintf(&h.log, " listen")
			},
		})
		if excl {
			st.Class("exclusive")
		} else {
			st.Class("shared")
		}
		if h.undetermined > 0 {
			st.Class("exclusive-undetermined-after-reload")
		}
		if h.reloads > 0 {
			st.Class("with-reload")
		}
		if h.rd != nil {
			h.haltReaders()
			if msg := h.rd.judge(); msg != "" {
				t.Fatalf("%s\nhistory: %s", msg, h.log.String())
			}
			st.ClassN("reader-samples-judged", h.rd.judged)
		}
		if h.inPlace > 0 {
			st.Class("with-value-change")
			st.NonTrivial(h.log.String())
		}
	}
}

// ------------------------------------------------------------------ regressions (D4)

// A key is updated in place to a new value (watch PUT on a live key): the old value
// must leave the view, and deleting the key afterwards must empty it.
func TestVerifC13RegressD4UpdateInPlace(t *testing.T) {
	logx.Disable()
	for _, excl := range []bool{false, true} {
		h := newContainerHarness(excl, 1)
		for _, msg := range []string{h.put("k0", "v0"), h.put("k0", "v1"), h.del("k0")} {
			if msg != "" {
				t.Fatalf("%s\nhistory: %s", msg, h.log.String())
			}
		}
	}
}

// A reload finds that a key changed its value: the registry announces the new pair
// first and the old pair as removed afterwards; the new value must stay.
func TestVerifC13RegressD4ReloadChangesValue(t *testing.T) {
	logx.Disable()
	for _, excl := range []bool{false, true} {
		h := newContainerHarness(excl, 1)
		for _, msg := range []string{h.put("k0", "v0"), h.reload(map[string]string{"k0": "v1"}, nil, nil)} {
			if msg != "" {
				t.Fatalf("%s\nhistory: %s", msg, h.log.String())
			}
		}
	}
}

// Exclusive subscriber: a key moves to a value whose previous owner is then displaced;
// the moved key's new value must not be lost together with the stale association.
func TestVerifC13RegressD4ExclusiveMove(t *testing.T) {
	logx.Disable()
	h := newContainerHarness(true, 1)
	for _, msg := range []string{h.put("k0", "v0"), h.put("k0", "v1"), h.put("k1", "v0")} {
		if msg != "" {
			t.Fatalf("%s\nhistory: %s", msg, h.log.String())
		}
	}
}

// The exclusive rule at the container: registering a key again with the value it already
// has makes it the most recent registrant of that value.
func TestVerifC13RegressExclusiveReputContainer(t *testing.T) {
	logx.Disable()
	h := newContainerHarness(true, 1)
	for _, msg := range []string{h.put("k0", "v0"), h.put("k1", "v0"), h.put("k0", "v0"), h.del("k1")} {
		if msg != "" {
			t.Fatalf("%s\nhistory: %s", msg, h.log.String())
		}
	}
	if got := h.c.getValues(); len(got) != 1 || got[0] != "v0" {
		t.Fatalf("Values()=%v, want [v0]\nhistory: %s", got, h.log.String())
	}
}
