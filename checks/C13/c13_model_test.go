//go:build verif

package discov

// Reference model of the registry shared by the C13 units of this package
// (container unit and pipeline unit).  Written from the property statement:
//
//   - a subscriber's Values() is exactly the set of values of the keys currently
//     registered under the watched prefix;
//   - for an exclusive subscriber only the most recently registered key of each value
//     counts: a value is in the view iff the key most recently registered with it is
//     still registered with it.
//
// A reload hands the subscriber a *set* of new registrations with no order between
// them.  When two of them carry the same value, "most recently registered" is not
// defined by the statement, so the model keeps every such key as a candidate and the
// oracle accepts either outcome for that value until an observation settles it.

import (
	"fmt"
	"sort"
	"strings"
)

type regModel struct {
	excl bool
	reg  map[string]string          // key -> value, the live registrations seen by the subscriber
	last map[string]map[string]bool // exclusive: value -> candidate keys "most recently registered with it"
	show func(key string) string    // optional: how keys are printed
}

func (m *regModel) keyName(k string) string {
	if m.show != nil {
		return m.show(k)
	}
	return k
}

func newRegModel(excl bool) *regModel {
	return &regModel{excl: excl, reg: map[string]string{}, last: map[string]map[string]bool{}}
}

// register: key k is (re-)registered with value v.
func (m *regModel) register(k, v string) {
	m.reg[k] = v
	m.last[v] = map[string]bool{k: true}
}

// registerSet: keys ks are registered with v at the same instant (one reload).
func (m *regModel) registerSet(ks []string, v string) {
	c := map[string]bool{}
	for _, k := range ks {
		m.reg[k] = v
		c[k] = true
	}
	m.last[v] = c
}

func (m *regModel) unregister(k string) { delete(m.reg, k) }

// bounds returns the values that must be in the view and those that may be.
func (m *regModel) bounds() (must, may map[string]bool) {
	must, may = map[string]bool{}, map[string]bool{}
	if !m.excl {
		for _, v := range m.reg {
			must[v] = true
			may[v] = true
		}
		return
	}
	for v, cands := range m.last {
		n := 0
		for k := range cands {
			if cur, ok := m.reg[k]; ok && cur == v {
				n++
			}
		}
		if n > 0 {
			may[v] = true
			if n == len(cands) {
				must[v] = true
			}
		}
	}
	return
}

// ambiguous reports whether some value's membership is currently undetermined.
func (m *regModel) ambiguous() bool {
	must, may := m.bounds()
	return len(must) != len(may)
}

// settle narrows the candidates with what was observed (only for undetermined values).
func (m *regModel) settle(observed map[string]bool) {
	if !m.excl {
		return
	}
	must, may := m.bounds()
	for v := range may {
		if must[v] {
			continue
		}
		keep := map[string]bool{}
		for k := range m.last[v] {
			cur, ok := m.reg[k]
			live := ok && cur == v
			if live == observed[v] {
				keep[k] = true
			}
		}
		m.last[v] = keep
	}
}

// verdict compares an observed view (as a multiset given by a slice) with the model.
// It returns "" when the view is acceptable.
func (m *regModel) verdict(got []string) string {
	must, may := m.bounds()
	seen := map[string]bool{}
	for _, v := range got {
		if seen[v] {
			return fmt.Sprintf("value %q listed twice", v)
		}
		seen[v] = true
		if !may[v] {
			return fmt.Sprintf("value %q is in the view but no counted key is registered with it", v)
		}
	}
	for v := range must {
		if !seen[v] {
			return fmt.Sprintf("value %q is registered but missing from the view", v)
		}
	}
	return ""
}

func (m *regModel) String() string {
	ks := make([]string, 0, len(m.reg))
	for k := range m.reg {
		ks = append(ks, k)
	}
	sort.Strings(ks)
	var b strings.Builder
	b.WriteString("{")
	for i, k := range ks {
		if i > 0 {
			b.WriteString(" ")
		}
		fmt.Fprintf(&b, "%s=%s", m.keyName(k), m.reg[k])
	}
	b.WriteString("}")
	if m.excl {
		vs := make([]string, 0, len(m.last))
		for v := range m.last {
			vs = append(vs, v)
		}
		sort.Strings(vs)
		b.WriteString(" last{")
		for i, v := range vs {
			if i > 0 {
				b.WriteString(" ")
			}
			var names []string
			for _, k := range setList(m.last[v]) {
				names = append(names, m.keyName(k))
			}
			fmt.Fprintf(&b, "%s<-%s", v, strings.Join(names, "|"))
		}
		b.WriteString("}")
	}
	return b.String()
}

func setList(s map[string]bool) []string {
	out := make([]string, 0, len(s))
	for k := range s {
		out = append(out, k)
	}
	sort.Strings(out)
	return out
}

func setOf(xs []string) map[string]bool {
	s := map[string]bool{}
	for _, x := range xs {
		s[x] = true
	}
	return s
}

func sameSet(a, b map[string]bool) bool {
	if len(a) != len(b) {
		return false
	}
	for k := range a {
		if !b[k] {
			return false
		}
	}
	return true
}

func sortedCopy(xs []string) []string {
	out := append([]string(nil), xs...)
	sort.Strings(out)
	return out
}
