//go:build verif

package internal

// Accessor for the C13 check: runs the reload that cluster.watchConnState starts when
// the etcd connection comes back (the fake client's connection never changes state, so
// the check triggers it here).  Synchronous part only: the watchers load and watch again
// on their own goroutines, exactly as after a real reconnect.
func VerifReload(endpoints []string) bool {
	c, ok := GetRegistry().getCluster(append([]string(nil), endpoints...))
	if !ok {
		return false
	}
	cli, err := c.getClient()
	if err != nil {
		return false
	}
	c.reload(cli)
	return true
}

// VerifWatcherCount returns the number of watch keys the cluster of endpoints holds.
func VerifWatcherCount(endpoints []string) int {
	c, ok := GetRegistry().getCluster(append([]string(nil), endpoints...))
	if !ok {
		return -1
	}
	c.lock.RLock()
	defer c.lock.RUnlock()
	return len(c.watchers)
}
