//go:build verif

package discov

// Fake etcd for the C13 check (installed through the exported internal.NewClient
// variable; see DESIGN §4 C13).  One VerifEtcd per test case stands for one etcd
// cluster: a revisioned key-value store, an event log, leases, and the watch streams
// the code under test opened.  The test (harness goroutine) decides when events are
// delivered:
//
//   - Put/Delete/Revoke change the store and append to the log, nothing is delivered;
//   - Sync delivers to every open watch the events it has not seen, then an empty
//     response as a barrier: the watch loop of core/discov/internal handles one response
//     at a time over an unbuffered channel, so when the barrier has been taken every
//     earlier response has been handled completely;
//   - Compact answers open watches with a compaction cancel (the code must reload with
//     Get and watch again); Break ends a stream without compaction (the code watches
//     again from its old revision and the log since then is replayed); Reconnect runs
//     the reload the connection-state watcher starts after a reconnect.
//
// Range and revision options are honoured as etcd does (prefix ranges, WithRev), so that
// a wrong prefix or revision in the code under test is visible.  This file holds no
// oracle; it only plays etcd.

import (
	"context"
	"errors"
	"fmt"
	"reflect"
	"sort"
	"strings"
	"sync"
	"sync/atomic"
	"time"

	"github.com/zeromicro/go-zero/core/discov/internal"
	"go.etcd.io/etcd/api/v3/etcdserverpb"
	"go.etcd.io/etcd/api/v3/mvccpb"
	clientv3 "go.etcd.io/etcd/client/v3"
	"google.golang.org/grpc"
	"google.golang.org/grpc/credentials/insecure"
)

// VerifWatchdog bounds every wait for the code under test (expiry = inconclusive).
var VerifWatchdog = 20 * time.Second

// ErrVerifWatchdog is returned when the code under test did not react in time.
var ErrVerifWatchdog = errors.New("c13 fake etcd: watchdog expired")

var (
	verifEtcdLock  sync.Mutex
	verifEtcds     = map[string]*VerifEtcd{}
	verifInstalled bool
	verifConn      *grpc.ClientConn
)

// VerifEvent is one entry of the fake's event log.
type VerifEvent struct {
	Rev    int64
	Delete bool
	Key    string
	Val    string
}

func (e VerifEvent) String() string {
	if e.Delete {
		return fmt.Sprintf("del(%s)@%d", e.Key, e.Rev)
	}
	return fmt.Sprintf("put(%s=%s)@%d", e.Key, e.Val, e.Rev)
}

type verifEntry struct {
	val     string
	lease   int64
	created int64
	mod     int64
	version int64
}

type verifWatch struct {
	id       int
	rangeID  string
	lo, hi   string
	startRev int64 // first revision wanted
	sentRev  int64 // everything up to here has been delivered
	ctx      context.Context
	ch       chan clientv3.WatchResponse
	ended    bool // a cancel response was delivered or the channel was closed
}

// VerifEtcd is one fake etcd cluster.
type VerifEtcd struct {
	endpoints []string
	ctx       context.Context

	mu         sync.Mutex
	cond       *sync.Cond
	data       map[string]*verifEntry
	rev        int64
	compactRev int64
	log        []VerifEvent
	watches    []*verifWatch
	watchCount map[string]int // range id -> number of Watch calls
	gets       int
	nextLease  int64
	revokes    int
	puts       int
	// planned dial failures: the next failDials NewClient calls for these endpoints fail
	failDials   int64
	failedDials int64
}

// VerifFailDials makes the next n attempts to connect to this cluster fail (0 = none).
func (e *VerifEtcd) VerifFailDials(n int) { atomic.StoreInt64(&e.failDials, int64(n)) }

// VerifFailedDials is the number of connection attempts that failed as planned so far.
func (e *VerifEtcd) VerifFailedDials() int { return int(atomic.LoadInt64(&e.failedDials)) }

// VerifNewEtcd creates the fake cluster that NewClient will return for endpoints.
func VerifNewEtcd(endpoints []string) *VerifEtcd {
	e := &VerifEtcd{
		endpoints:  append([]string(nil), endpoints...),
		ctx:        context.Background(),
		data:       map[string]*verifEntry{},
		rev:        1,
		watchCount: map[string]int{},
		nextLease:  7000,
	}
	e.cond = sync.NewCond(&e.mu)
	verifEtcdLock.Lock()
	defer verifEtcdLock.Unlock()
	if !verifInstalled {
		verifInstalled = true
		conn, err := grpc.NewClient("passthrough:///c13-fake-etcd",
			grpc.WithTransportCredentials(insecure.NewCredentials()))
		if err != nil {
			panic(err)
		}
		// never connected: stays idle, so the connection-state watcher just blocks
		verifConn = conn
		internal.NewClient = func(eps []string) (internal.EtcdClient, error) {
			verifEtcdLock.Lock()
			defer verifEtcdLock.Unlock()
			if f, ok := verifEtcds[verifClusterKey(eps)]; ok {
				if atomic.LoadInt64(&f.failDials) > 0 {
					atomic.AddInt64(&f.failDials, -1)
					atomic.AddInt64(&f.failedDials, 1)
					return nil, fmt.Errorf("c13 fake etcd: %v unreachable (planned dial failure)", eps)
				}
				return &verifClient{e: f}, nil
			}
			return nil, fmt.Errorf("c13 fake etcd: no cluster for %v", eps)
		}
	}
	verifEtcds[verifClusterKey(endpoints)] = e
	return e
}

// VerifForget drops the fake from the lookup table (the registry keeps its client).
func (e *VerifEtcd) VerifForget() {
	verifEtcdLock.Lock()
	delete(verifEtcds, verifClusterKey(e.endpoints))
	verifEtcdLock.Unlock()
}

func verifClusterKey(eps []string) string {
	c := append([]string(nil), eps...)
	sort.Strings(c)
	return strings.Join(c, ",")
}

// VerifRangeID names the etcd range a subscriber of key has to watch.
func VerifRangeID(key string, exact bool) string {
	if exact {
		return key + "\x00"
	}
	lo := key + "/"
	return lo + "\x00" + clientv3.GetPrefixRangeEnd(lo)
}

func inRange(k, lo, hi string) bool {
	if hi == "" {
		return k == lo
	}
	if hi == "\x00" {
		return k >= lo
	}
	return k >= lo && k < hi
}

// ------------------------------------------------------------------ store side

// Endpoints returns a fresh copy of the endpoints.
func (e *VerifEtcd) Endpoints() []string { return append([]string(nil), e.endpoints...) }

// Put registers key with val (as any etcd client would).
func (e *VerifEtcd) Put(key, val string) {
	e.mu.Lock()
	e.putLocked(key, val, 0)
	e.mu.Unlock()
}

func (e *VerifEtcd) putLocked(key, val string, lease int64) {
	e.rev++
	ent, ok := e.data[key]
	if !ok {
		ent = &verifEntry{created: e.rev}
		e.data[key] = ent
	}
	ent.val, ent.lease, ent.mod = val, lease, e.rev
	ent.version++
	e.log = append(e.log, VerifEvent{Rev: e.rev, Key: key, Val: val})
	e.puts++
	e.cond.Broadcast()
}

// Delete removes key; it reports whether the key existed (no event otherwise).
func (e *VerifEtcd) Delete(key string) bool {
	e.mu.Lock()
	defer e.mu.Unlock()
	if _, ok := e.data[key]; !ok {
		return false
	}
	e.rev++
	delete(e.data, key)
	e.log = append(e.log, VerifEvent{Rev: e.rev, Delete: true, Key: key})
	return true
}

// Data returns a copy of the store.
func (e *VerifEtcd) Data() map[string]string {
	e.mu.Lock()
	defer e.mu.Unlock()
	out := make(map[string]string, len(e.data))
	for k, v := range e.data {
		out[k] = v.val
	}
	return out
}

// InRange returns the part of the store inside the range.
func (e *VerifEtcd) InRange(rangeID string) map[string]string {
	lo, hi, _ := strings.Cut(rangeID, "\x00")
	out := map[string]string{}
	for k, v := range e.Data() {
		if inRange(k, lo, hi) {
			out[k] = v
		}
	}
	return out
}

// Counters returns (Get calls, Put calls, Revoke calls) seen so far.
func (e *VerifEtcd) Counters() (gets, puts, revokes int) {
	e.mu.Lock()
	defer e.mu.Unlock()
	return e.gets, e.puts, e.revokes
}

// Rev returns the store's current revision.
func (e *VerifEtcd) Rev() int64 {
	e.mu.Lock()
	defer e.mu.Unlock()
	return e.rev
}

// WatchCount returns how many streams have been opened on the range so far.
func (e *VerifEtcd) WatchCount(rangeID string) int {
	e.mu.Lock()
	defer e.mu.Unlock()
	return e.watchCount[rangeID]
}

// WaitWatchCount waits until at least n streams have been opened on the range.
func (e *VerifEtcd) WaitWatchCount(rangeID string, n int) error {
	return e.waitFor(func() bool { return e.watchCount[rangeID] >= n })
}

// WaitRevokes waits until n leases have been revoked.
func (e *VerifEtcd) WaitRevokes(n int) error {
	return e.waitFor(func() bool { return e.revokes >= n })
}

// waitFor waits (watchdog-bounded) until pred holds; pred runs under e.mu.
func (e *VerifEtcd) waitFor(pred func() bool) error {
	deadline := time.Now().Add(VerifWatchdog)
	stop := make(chan struct{})
	defer close(stop)
	go func() { // wake the waiter at the deadline
		select {
		case <-time.After(VerifWatchdog + 50*time.Millisecond):
			e.mu.Lock()
			e.cond.Broadcast()
			e.mu.Unlock()
		case <-stop:
		}
	}()
	e.mu.Lock()
	defer e.mu.Unlock()
	for !pred() {
		if time.Now().After(deadline) {
			return ErrVerifWatchdog
		}
		e.cond.Wait()
	}
	return nil
}

// ------------------------------------------------------------------ watch side

// OpenWatches lists the range ids of the streams the code under test holds open.
func (e *VerifEtcd) OpenWatches() []string {
	e.mu.Lock()
	defer e.mu.Unlock()
	var out []string
	for _, w := range e.openLocked() {
		out = append(out, w.rangeID)
	}
	return out
}

func (e *VerifEtcd) openLocked() []*verifWatch {
	var out []*verifWatch
	kept := e.watches[:0]
	for _, w := range e.watches {
		if w.ended || w.ctx.Err() != nil {
			continue
		}
		kept = append(kept, w)
		out = append(out, w)
	}
	e.watches = kept
	return out
}

func (e *VerifEtcd) pendingLocked(w *verifWatch) []VerifEvent {
	var out []VerifEvent
	for _, ev := range e.log {
		if ev.Rev > w.sentRev && inRange(ev.Key, w.lo, w.hi) {
			out = append(out, ev)
		}
	}
	return out
}

// send hands one response to the watch loop; false when the stream's context ended.
func (e *VerifEtcd) send(w *verifWatch, resp clientv3.WatchResponse) (bool, error) {
	t := time.NewTimer(VerifWatchdog)
	defer t.Stop()
	select {
	case w.ch <- resp:
		return true, nil
	case <-w.ctx.Done():
		return false, nil
	case <-t.C:
		return false, ErrVerifWatchdog
	}
}

func toWatchResponse(evs []VerifEvent) clientv3.WatchResponse {
	var resp clientv3.WatchResponse
	for _, ev := range evs {
		if ev.Delete {
			resp.Events = append(resp.Events, &clientv3.Event{Type: clientv3.EventTypeDelete,
				Kv: &mvccpb.KeyValue{Key: []byte(ev.Key), ModRevision: ev.Rev}})
		} else {
			resp.Events = append(resp.Events, &clientv3.Event{Type: clientv3.EventTypePut,
				Kv: &mvccpb.KeyValue{Key: []byte(ev.Key), Value: []byte(ev.Val), ModRevision: ev.Rev, Version: 1}})
		}
	}
	if n := len(evs); n > 0 {
		resp.Header.Revision = evs[n-1].Rev
	}
	return resp
}

// Sync delivers every undelivered event to every open stream (at most chunk events per
// response; chunk <= 0 means all in one response), followed by a barrier.  It returns
// the events delivered, per range id, in delivery order.
func (e *VerifEtcd) Sync(chunk int) (map[string][]VerifEvent, error) {
	e.mu.Lock()
	open := e.openLocked()
	pend := make([][]VerifEvent, len(open))
	head := e.rev
	for i, w := range open {
		pend[i] = e.pendingLocked(w)
	}
	e.mu.Unlock()
	out := map[string][]VerifEvent{}
	for i, w := range open {
		evs := pend[i]
		alive := true
		for len(evs) > 0 && alive {
			n := len(evs)
			if chunk > 0 && n > chunk {
				n = chunk
			}
			ok, err := e.send(w, toWatchResponse(evs[:n]))
			if err != nil {
				return out, err
			}
			alive = ok
			evs = evs[n:]
		}
		if alive {
			ok, err := e.send(w, clientv3.WatchResponse{}) // barrier
			if err != nil {
				return out, err
			}
			alive = ok
		}
		if alive {
			out[w.rangeID] = pend[i]
			e.mu.Lock()
			w.sentRev = head
			e.mu.Unlock()
		}
	}
	return out, nil
}

// Barrier is Sync for streams that have nothing pending (used after handing events
// out by other means).
func (e *VerifEtcd) Barrier() error {
	_, err := e.Sync(0)
	return err
}

// endStream delivers a final response to w (compacted or a plain cancel), or closes the
// channel, and waits until the code under test has opened a new stream on the range.
func (e *VerifEtcd) endStream(w *verifWatch, compacted, closeChan bool) error {
	e.mu.Lock()
	before := e.watchCount[w.rangeID]
	crev := e.compactRev
	w.ended = true
	e.mu.Unlock()
	if closeChan && !compacted {
		close(w.ch)
	} else {
		resp := clientv3.WatchResponse{Canceled: true}
		if compacted {
			resp.CompactRevision = crev
		}
		ok, err := e.send(w, resp)
		if err != nil {
			return err
		}
		if !ok {
			return nil // the subscriber went away meanwhile
		}
	}
	return e.waitFor(func() bool { return e.watchCount[w.rangeID] > before })
}

// settleNewStreams answers streams that ask for compacted revisions the way etcd does
// (compaction cancel), until every open stream starts at a revision still in the log.
// It returns the range ids that had to reload.
func (e *VerifEtcd) settleNewStreams() ([]string, error) {
	var reloaded []string
	for round := 0; round < 8; round++ {
		e.mu.Lock()
		var doomed []*verifWatch
		for _, w := range e.openLocked() {
			if w.sentRev+1 < e.compactRev { // the next revision it needs is gone
				doomed = append(doomed, w)
			}
		}
		e.mu.Unlock()
		if len(doomed) == 0 {
			return reloaded, nil
		}
		for _, w := range doomed {
			if err := e.endStream(w, true, false); err != nil {
				return reloaded, err
			}
			reloaded = append(reloaded, w.rangeID)
		}
	}
	return reloaded, fmt.Errorf("c13 fake etcd: streams keep asking for compacted revisions")
}

// Compact compacts the log at the current revision.  Streams with undelivered events
// lose them and are cancelled with a compaction error; when all is set the streams that
// are up to date are cancelled too (etcd would leave them alone; a client must cope with
// either).  Returns the range ids whose subscribers had to reload.
func (e *VerifEtcd) Compact(all bool) ([]string, error) {
	e.mu.Lock()
	e.compactRev = e.rev
	var hit []*verifWatch
	for _, w := range e.openLocked() {
		if all || len(e.pendingLocked(w)) > 0 {
			hit = append(hit, w)
		}
	}
	e.mu.Unlock()
	var reloaded []string
	for _, w := range hit {
		if err := e.endStream(w, true, false); err != nil {
			return reloaded, err
		}
		reloaded = append(reloaded, w.rangeID)
	}
	more, err := e.settleNewStreams()
	return append(reloaded, more...), err
}

// Break ends every open stream without compaction (a cancel response, or the channel is
// closed).  The code under test watches again from the revision of its last load; the
// log from there on is replayed by the next Sync.  If that revision has been compacted
// meanwhile the new stream is answered with a compaction error.  Returns the range ids
// that ended up reloading.
func (e *VerifEtcd) Break(closeChan bool) ([]string, error) {
	e.mu.Lock()
	open := append([]*verifWatch(nil), e.openLocked()...)
	e.mu.Unlock()
	for _, w := range open {
		if err := e.endStream(w, false, closeChan); err != nil {
			return nil, err
		}
	}
	return e.settleNewStreams()
}

// Quiesce ends the open stream of the range without compaction and waits for the new
// one, which leaves the watch goroutine parked on a fresh channel (see Reconnect for why
// that matters).  Used before the last subscriber of a range is closed.
func (e *VerifEtcd) Quiesce(rangeID string) error {
	e.mu.Lock()
	var hit []*verifWatch
	for _, w := range e.openLocked() {
		if w.rangeID == rangeID {
			hit = append(hit, w)
		}
	}
	e.mu.Unlock()
	for _, w := range hit {
		if err := e.endStream(w, false, false); err != nil {
			return err
		}
	}
	return nil
}

// Reconnect plays a lost and re-established etcd connection: every open stream ends
// (cancel response; the code opens new streams at once), then the reload runs that the
// connection-state watcher starts after a reconnect: every watcher of the cluster cancels
// its stream, loads and watches again.  Returns the range ids that reloaded.
//
// The streams are ended first on purpose: a watch goroutine that has just been handed a
// response still needs the cluster lock to handle it (even the empty barrier), while
// cluster.reload holds that lock and waits for the watch goroutines to leave.  A freshly
// opened stream that has not been sent anything is the one state in which the goroutine
// is known to be parked on the channel.  (A reload racing with a response in flight is a
// schedule, not a history; C13 quantifies over histories.)
func (e *VerifEtcd) Reconnect() ([]string, error) {
	e.mu.Lock()
	open := append([]*verifWatch(nil), e.openLocked()...)
	e.mu.Unlock()
	for _, w := range open {
		if err := e.endStream(w, false, false); err != nil {
			return nil, err
		}
	}
	e.mu.Lock()
	var ranges []string
	before := map[string]int{}
	for _, w := range e.openLocked() {
		ranges = append(ranges, w.rangeID)
		before[w.rangeID] = e.watchCount[w.rangeID]
	}
	e.mu.Unlock()
	if !internal.VerifReload(e.Endpoints()) {
		return nil, fmt.Errorf("c13 fake etcd: no cluster registered for %v", e.endpoints)
	}
	err := e.waitFor(func() bool {
		for _, r := range ranges {
			if e.watchCount[r] <= before[r] {
				return false
			}
		}
		return true
	})
	if err != nil {
		return ranges, err
	}
	more, err := e.settleNewStreams()
	return append(ranges, more...), err
}

// reloadOnly runs the reconnect reload without ending the streams first (demonstration
// of the reload/watch lock-up only; see TestVerifC13ObserveReloadDeadlock).
func (e *VerifEtcd) reloadOnly() { internal.VerifReload(e.Endpoints()) }

// ------------------------------------------------------------------ client side

type verifClient struct{ e *VerifEtcd }

func (c *verifClient) ActiveConnection() *grpc.ClientConn { return verifConn }
func (c *verifClient) Close() error                       { return nil }
func (c *verifClient) Ctx() context.Context               { return c.e.ctx }

func (c *verifClient) Get(_ context.Context, key string, opts ...clientv3.OpOption) (*clientv3.GetResponse, error) {
	op := clientv3.OpGet(key, opts...)
	lo, hi := string(op.KeyBytes()), string(op.RangeBytes())
	e := c.e
	e.mu.Lock()
	defer e.mu.Unlock()
	e.gets++
	resp := &clientv3.GetResponse{Header: &etcdserverpb.ResponseHeader{Revision: e.rev}}
	keys := make([]string, 0, len(e.data))
	for k := range e.data {
		if inRange(k, lo, hi) {
			keys = append(keys, k)
		}
	}
	sort.Strings(keys)
	for _, k := range keys {
		ent := e.data[k]
		resp.Kvs = append(resp.Kvs, &mvccpb.KeyValue{Key: []byte(k), Value: []byte(ent.val),
			CreateRevision: ent.created, ModRevision: ent.mod, Version: ent.version, Lease: ent.lease})
	}
	resp.Count = int64(len(resp.Kvs))
	return resp, nil
}

func (c *verifClient) Watch(ctx context.Context, key string, opts ...clientv3.OpOption) clientv3.WatchChan {
	op := clientv3.OpGet(key, opts...)
	lo, hi := string(op.KeyBytes()), string(op.RangeBytes())
	e := c.e
	e.mu.Lock()
	defer e.mu.Unlock()
	w := &verifWatch{lo: lo, hi: hi, rangeID: lo + "\x00" + hi, ctx: ctx,
		ch: make(chan clientv3.WatchResponse), startRev: op.Rev()}
	if w.startRev == 0 {
		w.startRev = e.rev + 1
	}
	w.sentRev = w.startRev - 1
	e.watchCount[w.rangeID]++
	w.id = len(e.watches)
	e.watches = append(e.watches, w)
	e.cond.Broadcast()
	return w.ch
}

func (c *verifClient) Grant(_ context.Context, ttl int64) (*clientv3.LeaseGrantResponse, error) {
	e := c.e
	e.mu.Lock()
	defer e.mu.Unlock()
	e.nextLease++
	return &clientv3.LeaseGrantResponse{ID: clientv3.LeaseID(e.nextLease), TTL: ttl}, nil
}

func (c *verifClient) KeepAlive(_ context.Context, _ clientv3.LeaseID) (<-chan *clientv3.LeaseKeepAliveResponse, error) {
	return make(chan *clientv3.LeaseKeepAliveResponse), nil // the lease never expires
}

func (c *verifClient) Put(_ context.Context, key, val string, opts ...clientv3.OpOption) (*clientv3.PutResponse, error) {
	op := clientv3.OpPut(key, val, opts...)
	lease := reflect.ValueOf(op).FieldByName("leaseID").Int()
	e := c.e
	e.mu.Lock()
	defer e.mu.Unlock()
	e.putLocked(key, val, lease)
	return &clientv3.PutResponse{Header: &etcdserverpb.ResponseHeader{Revision: e.rev}}, nil
}

func (c *verifClient) Revoke(_ context.Context, id clientv3.LeaseID) (*clientv3.LeaseRevokeResponse, error) {
	e := c.e
	e.mu.Lock()
	defer e.mu.Unlock()
	var keys []string
	for k, ent := range e.data {
		if ent.lease == int64(id) {
			keys = append(keys, k)
		}
	}
	sort.Strings(keys)
	if len(keys) > 0 {
		e.rev++
		for _, k := range keys {
			delete(e.data, k)
			e.log = append(e.log, VerifEvent{Rev: e.rev, Delete: true, Key: k})
		}
	}
	e.revokes++
	e.cond.Broadcast()
	return &clientv3.LeaseRevokeResponse{Header: &etcdserverpb.ResponseHeader{Revision: e.rev}}, nil
}
