//go:build verif

package discov

// C13 unit pipeline-close: several subscribers that share ONE watcher (same endpoints and
// the same key in one process, so the registry keeps them as listeners of one watch) while
// subscribers are closed during the history:
//
//	close(i)                 Subscriber.Close() from the harness between two events
//	arm(i.l closes j)        listener l of subscriber i closes subscriber j on its NEXT
//	                         notification, i.e. Close()/Unmonitor runs re-entrantly while the
//	                         registry is handing an event to the listeners of that watcher
//	                         (j == i: closes itself; j registered before / after i)
//	closeConcurrently(i)     Close() from another goroutine while a batch of events is fed
//	subscribe                a new subscriber joins the running watcher
//
// on top of the event actions of the pipeline unit (put-new, put-same, update to another
// value, delete, delete-unknown, delivery in responses of 1/2/all events, reload after a
// compaction / stream break / reconnect with a changed snapshot).
//
// Oracle (from the statement, nothing more): after every event + barrier every subscriber
// that has NOT been closed shows exactly the registered values (regModel, exclusive rule
// included) and each of its listeners was notified if its view changed; after a delivery
// of everything pending a non-exclusive open subscriber shows exactly what etcd holds.  A
// subscriber closed during the dispatch of event e counts as closed from e on; nothing is
// asserted about a closed subscriber, except that Close() returns and that later events
// are still handled (a Close() that does not come back within the watchdog although
// nothing else can stall is a violation; any other watchdog expiry is inconclusive).
//
// The harness never closes the last open subscriber of the watcher (that would end the
// watch; the pipeline unit covers it): the number of open subscribers that no pending arm
// is aimed at stays >= 1.

import (
	"errors"
	"fmt"
	"os"
	"strings"
	"sync"
	"sync/atomic"
	"testing"
	"time"

	"github.com/zeromicro/go-zero/core/logx"
	"github.com/zeromicro/go-zero/internal/verifkit"
	"pgregory.net/rapid"
)

const (
	c13CloseWatchdog = 10 * time.Second // Close() must be back by then ...
	c13CloseGrace    = 5 * time.Second  // ... if it comes back in the grace period the machine was slow (inconclusive)
)

var (
	errC13CloseStuck = errors.New("Subscriber.Close() did not return")
	errC13CloseSlow  = errors.New("Subscriber.Close() returned only after the watchdog (slow machine)")
)

type closeArm struct {
	armer, target *closeSub
	kind          string // close-from-own-listener / close-sibling-before / close-sibling-after
	entered       atomic.Bool
	returned      atomic.Bool
}

type closeSub struct {
	*pipeSub
	closed atomic.Bool // Close() has been started (harness, a listener, or the concurrent closer)
	mu     sync.Mutex
	arms   map[int]*closeArm // listener index -> what it does on its next notification
}

type closeHarness struct {
	*pipeHarness
	exact   bool
	rangeID string
	inSyms  []string    // keys inside the watched range
	outSyms []string    // keys outside of it
	cs      []*closeSub // open subscribers, in the order they registered with the watcher

	mu      sync.Mutex
	fired   []*closeArm // arms that fired during the step in flight
	gate    chan struct{}
	gateAt  int64
	noted   int64
	gateOff bool

	stuck     bool   // a wait expired: the cluster may be locked up, cleanup must not touch it
	complaint string // an observation made while applying the event that contradicts the statement
	inReload  bool

	nOwn, nBefore, nAfter, nConc, nHarness, nJoin int
	nReloadFire                                   int
	survivors2                                    bool
	special                                       int // re-entrant or concurrent closes completed in earlier steps
	changesAfter                                  int // view changes (as told to the watcher) after such a close
	delivered                                     int
}

func newCloseHarness(exact bool) *closeHarness {
	p := newPipeHarness()
	h := &closeHarness{pipeHarness: p, exact: exact, rangeID: VerifRangeID(p.base, exact)}
	for _, s := range p.syms {
		if lo, hi, _ := strings.Cut(h.rangeID, "\x00"); inRange(p.names[s], lo, hi) {
			h.inSyms = append(h.inSyms, s)
		} else {
			h.outSyms = append(h.outSyms, s)
		}
	}
	return h
}

// ------------------------------------------------------------------ listeners, arms, gate

func (h *closeHarness) listener(s *closeSub, idx int) func() {
	inner := s.newListener()
	return func() {
		inner()
		h.notified()
		s.mu.Lock()
		a := s.arms[idx]
		delete(s.arms, idx)
		s.mu.Unlock()
		if a != nil {
			h.fire(a)
		}
	}
}

// fire runs on the goroutine that is dispatching an event to the watcher's listeners.
func (h *closeHarness) fire(a *closeArm) {
	if !a.target.closed.CompareAndSwap(false, true) {
		return // closed meanwhile by somebody else: nothing left to do
	}
	h.mu.Lock()
	h.fired = append(h.fired, a)
	h.mu.Unlock()
	a.entered.Store(true)
	a.target.sub.Close()
	a.returned.Store(true)
}

func (h *closeHarness) notified() {
	h.mu.Lock()
	h.noted++
	if h.gate != nil && !h.gateOff && h.noted >= h.gateAt {
		h.gateOff = true
		close(h.gate)
	}
	h.mu.Unlock()
}

// openGate: the returned channel is closed at the at-th notification from now on (at once
// when at == 0), or by releaseGate.
func (h *closeHarness) openGate(at int) chan struct{} {
	h.mu.Lock()
	defer h.mu.Unlock()
	h.gate, h.gateOff, h.noted, h.gateAt = make(chan struct{}), false, 0, int64(at)
	if at == 0 {
		h.gateOff = true
		close(h.gate)
	}
	return h.gate
}

func (h *closeHarness) releaseGate() {
	h.mu.Lock()
	if h.gate != nil && !h.gateOff {
		h.gateOff = true
		close(h.gate)
	}
	h.gate = nil
	h.mu.Unlock()
}

func (h *closeHarness) takeFired() []*closeArm {
	h.mu.Lock()
	defer h.mu.Unlock()
	f := h.fired
	h.fired = nil
	return f
}

// useCloseWatchdog shortens the fake's watchdog to the 10 s of this unit (its tests run in a
// process of their own).  Written at most once, before the first case starts a goroutine.
func useCloseWatchdog() {
	if VerifWatchdog != c13CloseWatchdog {
		VerifWatchdog = c13CloseWatchdog
	}
}

// waitClosed waits for a Close() running on another goroutine.
func waitClosed(done <-chan struct{}) error {
	t := time.NewTimer(c13CloseWatchdog)
	defer t.Stop()
	select {
	case <-done:
		return nil
	case <-t.C:
	}
	g := time.NewTimer(c13CloseGrace)
	defer g.Stop()
	select {
	case <-done:
		return errC13CloseSlow
	case <-g.C:
		return errC13CloseStuck
	}
}

// doomed: open subscribers some pending arm is aimed at.
func (h *closeHarness) doomed() map[*closeSub]bool {
	out := map[*closeSub]bool{}
	for _, s := range h.cs {
		s.mu.Lock()
		for _, a := range s.arms {
			out[a.target] = true
		}
		s.mu.Unlock()
	}
	return out
}

// mayClose: closing (or aiming at) subscriber j leaves an open subscriber nobody aims at.
func (h *closeHarness) mayClose(j int) bool {
	d := h.doomed()
	if d[h.cs[j]] {
		return false
	}
	return len(h.cs)-len(d) >= 2
}

// reap drops the subscribers that have been closed from the books, and the arms that can
// no longer fire or no longer have a target.
func (h *closeHarness) reap() {
	kept := h.cs[:0]
	for _, s := range h.cs {
		if !s.closed.Load() {
			kept = append(kept, s)
			continue
		}
		// whatever its listeners were armed with is void from now on (the statement does not
		// say whether a closed subscriber's listeners stay quiet, so the harness does not rely on it)
		s.mu.Lock()
		s.arms = map[int]*closeArm{}
		s.mu.Unlock()
	}
	h.cs = kept
	h.subs = h.subs[:0]
	for _, s := range h.cs {
		h.subs = append(h.subs, s.pipeSub)
		s.mu.Lock()
		for i, a := range s.arms {
			if a.target.closed.Load() {
				delete(s.arms, i)
			}
		}
		s.mu.Unlock()
	}
}

func valueSet(m map[string]string) map[string]bool {
	out := map[string]bool{}
	for _, v := range m {
		out[v] = true
	}
	return out
}

// ------------------------------------------------------------------ one step

// cstep runs one event and then checks every subscriber that is still open.  The returned
// string is an oracle complaint ("" = fine), the error a harness problem.
func (h *closeHarness) cstep(what string, apply func() error) (string, error) {
	fmt.Fprintf(&h.log, " %s", what)
	if c13Debug {
		fmt.Fprintf(os.Stderr, "c13 case %s: %s\n", h.base, what)
	}
	subs := append([]*closeSub(nil), h.cs...)
	known := map[*closeSub]bool{}
	befores := make([]viewBefore, len(subs))
	for i, s := range subs {
		befores[i] = s.before()
		known[s] = true
	}
	toldBefore := valueSet(h.told[h.rangeID])
	specialBefore := h.special
	h.inReload = false

	err := apply()
	h.releaseGate()
	fired := h.takeFired()
	for _, a := range fired {
		if err == nil || !a.entered.Load() {
			continue
		}
		// the delivery was stopped by the watchdog while a listener is inside Close(): give it
		// the grace period (a Close() that comes back now was slow, not stuck)
		for deadline := time.Now().Add(c13CloseGrace); !a.returned.Load() && time.Now().Before(deadline); {
			time.Sleep(50 * time.Millisecond)
		}
		if !a.returned.Load() {
			h.stuck = true
			return fmt.Sprintf("%s closed %s from its listener while the registry was handing it an event: Close() has not returned after %v and the event is not handled to the end (%v)",
				a.armer.name, a.target.name, VerifWatchdog+c13CloseGrace, err), nil
		}
	}
	if err != nil {
		h.stuck = true
		return "", err
	}
	if h.complaint != "" {
		h.stuck = true
		return h.complaint, nil
	}
	for _, a := range fired {
		switch a.kind {
		case "close-from-own-listener":
			h.nOwn++
		case "close-sibling-before":
			h.nBefore++
		case "close-sibling-after":
			h.nAfter++
		}
		if h.inReload {
			h.nReloadFire++
		}
		fmt.Fprintf(&h.log, "[fired: %s closed %s]", a.armer.name, a.target.name)
		h.special++
	}
	h.reap()
	if h.special > specialBefore && len(h.cs) >= 2 {
		h.survivors2 = true
	}
	for i, s := range subs {
		if s.closed.Load() {
			continue // closed from this event on: the statement says nothing about it
		}
		if msg := s.after(befores[i]); msg != "" {
			return fmt.Sprintf("subscriber %s: %s", s.name, msg), nil
		}
	}
	for _, s := range h.cs {
		if !known[s] {
			if msg := s.after(s.before()); msg != "" {
				return fmt.Sprintf("new subscriber %s: %s", s.name, msg), nil
			}
		}
	}
	if specialBefore > 0 && !sameSet(toldBefore, valueSet(h.told[h.rangeID])) {
		h.changesAfter++
	}
	return h.probe(), nil
}

// ------------------------------------------------------------------ events

func (h *closeHarness) opPut(sym, v string) (string, error) {
	return h.cstep(fmt.Sprintf("put(%s=%s)", sym, v), func() error { h.etcd.Put(h.names[sym], v); return nil })
}

func (h *closeHarness) opDel(sym string) (string, error) {
	return h.cstep(fmt.Sprintf("del(%s)", sym), func() error { h.etcd.Delete(h.names[sym]); return nil })
}

func (h *closeHarness) applySync(chunk int) error {
	got, err := h.etcd.Sync(chunk)
	if err != nil {
		return err
	}
	if _, ok := got[h.rangeID]; !ok && len(h.cs) > 0 {
		// Sync hands events to every stream that is open; the watcher has open subscribers,
		// so it must hold one
		h.complaint = fmt.Sprintf("%d subscriber(s) are open but their watcher holds no open watch stream (open streams: %d): they cannot learn of any further change",
			len(h.cs), len(h.etcd.OpenWatches()))
		return nil
	}
	for _, r := range sortedRangeIDs(got) {
		h.delivered += len(got[r])
		h.deliver(r, got[r])
	}
	return nil
}

func (h *closeHarness) opSync(chunk int) (string, error) {
	msg, err := h.cstep(fmt.Sprintf("sync(%d)", chunk), func() error { return h.applySync(chunk) })
	if msg == "" && err == nil {
		msg = h.converged()
	}
	return msg, err
}

func (h *closeHarness) opCompact(all bool) (string, error) {
	return h.cstep(fmt.Sprintf("compact(all=%v)", all), func() error {
		h.inReload = true
		rs, err := h.etcd.Compact(all)
		h.reloaded(rs)
		return err
	})
}

func (h *closeHarness) opBreak(closeChan bool) (string, error) {
	return h.cstep(fmt.Sprintf("break(close=%v)", closeChan), func() error {
		h.inReload = true
		rs, err := h.etcd.Break(closeChan)
		h.reloaded(rs)
		return err
	})
}

func (h *closeHarness) opReconnect() (string, error) {
	return h.cstep("reconnect", func() error {
		h.inReload = true
		rs, err := h.etcd.Reconnect()
		h.reloaded(rs)
		return err
	})
}

func (h *closeHarness) opSubscribe(excl bool, nListeners int) (string, error) {
	return h.cstep(fmt.Sprintf("subscribe(excl=%v,listeners=%d)", excl, nListeners), func() error {
		r := h.rangeID
		shared := len(h.cs) > 0
		var opts []SubOption
		if h.exact {
			opts = append(opts, WithExactMatch())
		}
		if excl {
			opts = append(opts, Exclusive())
		}
		before := h.etcd.WatchCount(r)
		sub, err := NewSubscriber(h.etcd.Endpoints(), h.base, opts...)
		if err != nil {
			return fmt.Errorf("NewSubscriber: %w", err)
		}
		h.nsub++
		ps := &pipeSub{name: fmt.Sprintf("s%d(excl=%v)", h.nsub, excl), sub: sub, rangeID: r}
		ps.viewChecker = viewChecker{m: newRegModel(excl), values: sub.Values, patience: 2 * time.Second}
		ps.m.show = h.sym
		if shared {
			// joins the running watcher: it is told what the watcher has been told so far
			applyReloadToModel(ps.m, h.told[r])
			if h.etcd.WatchCount(r) != before {
				return fmt.Errorf("a subscriber joining a watcher with %d open subscriber(s) opened another watch stream", len(h.cs))
			}
		} else {
			snap := h.etcd.InRange(r)
			h.told[r] = snap
			h.applied[r] = h.etcd.Rev()
			applyReloadToModel(ps.m, snap)
			if err := h.etcd.WaitWatchCount(r, before+1); err != nil {
				return err
			}
		}
		s := &closeSub{pipeSub: ps, arms: map[int]*closeArm{}}
		for i := 0; i < nListeners; i++ {
			sub.AddListener(h.listener(s, i))
		}
		h.cs = append(h.cs, s)
		h.subs = append(h.subs, ps)
		return nil
	})
}

func (h *closeHarness) opListen(i int) (string, error) {
	s := h.cs[i]
	return h.cstep("listen("+s.name+")", func() error {
		s.sub.AddListener(h.listener(s, len(s.listeners)))
		return nil
	})
}

// opClose: Close() between two events (the watch goroutine is parked on its channel).
func (h *closeHarness) opClose(i int) (string, error) {
	s := h.cs[i]
	msg, err := h.cstep("close("+s.name+")", func() error {
		s.closed.Store(true)
		done := make(chan struct{})
		go func() { s.sub.Close(); close(done) }()
		if err := waitClosed(done); err != nil {
			return err
		}
		h.nHarness++
		return nil
	})
	if errors.Is(err, errC13CloseStuck) {
		return fmt.Sprintf("Close() of %s between two events (nothing in flight) has not returned after %v",
			s.name, c13CloseWatchdog+c13CloseGrace), nil
	}
	return msg, err
}

// opArm: listener l of subscriber i closes subscriber j on its next notification.
func (h *closeHarness) opArm(i, l, j int) (string, error) {
	s, target := h.cs[i], h.cs[j]
	kind := "close-from-own-listener"
	if j < i {
		kind = "close-sibling-before"
	} else if j > i {
		kind = "close-sibling-after"
	}
	return h.cstep(fmt.Sprintf("arm(%s.l%d closes %s: %s)", s.name, l, target.name, kind), func() error {
		s.mu.Lock()
		s.arms[l] = &closeArm{armer: s, target: target, kind: kind}
		s.mu.Unlock()
		return nil
	})
}

type batchEv struct {
	sym, val string
	del      bool
}

func (b batchEv) String() string {
	if b.del {
		return "del(" + b.sym + ")"
	}
	return "put(" + b.sym + "=" + b.val + ")"
}

// opCloseConcurrently: the batch is registered, then delivered (responses of chunk events)
// while another goroutine closes subscriber i; that goroutine is let go at the gateAt-th
// listener notification of the delivery (0: before it starts; never reached: after it).
// No timing is assumed: the subscriber counts as closed from the start of the step, the
// others are judged after the barrier.
func (h *closeHarness) opCloseConcurrently(i int, batch []batchEv, gateAt, chunk int) (string, error) {
	s := h.cs[i]
	var entered, returned atomic.Bool
	msg, err := h.cstep(fmt.Sprintf("closeConcurrently(%s, batch=%v, let go at notification %d, chunk=%d)", s.name, batch, gateAt, chunk), func() error {
		for _, ev := range batch {
			if ev.del {
				h.etcd.Delete(h.names[ev.sym])
			} else {
				h.etcd.Put(h.names[ev.sym], ev.val)
			}
		}
		s.closed.Store(true)
		gate := h.openGate(gateAt)
		done := make(chan struct{})
		go func() {
			<-gate
			entered.Store(true)
			s.sub.Close()
			returned.Store(true)
			close(done)
		}()
		err := h.applySync(chunk)
		h.releaseGate()
		if err != nil {
			return err
		}
		if err := waitClosed(done); err != nil {
			return err
		}
		h.nConc++
		h.special++
		return nil
	})
	if errors.Is(err, ErrVerifWatchdog) && entered.Load() { // the delivery stalled while Close() was running: grace as above
		for deadline := time.Now().Add(c13CloseGrace); !returned.Load() && time.Now().Before(deadline); {
			time.Sleep(50 * time.Millisecond)
		}
	}
	if err != nil && entered.Load() && !returned.Load() && (errors.Is(err, errC13CloseStuck) || errors.Is(err, ErrVerifWatchdog)) {
		return fmt.Sprintf("Close() of %s from another goroutine during the delivery of %v has not returned (%v)", s.name, batch, err), nil
	}
	return msg, err
}

func (h *closeHarness) cleanup() {
	if !h.stuck {
		h.reap()
		for len(h.subs) > 0 {
			if h.closeSub(0) != nil {
				break
			}
		}
	}
	h.etcd.VerifForget()
}

// ------------------------------------------------------------------ the property

func TestVerifC13PipelineClose(t *testing.T) {
	logx.Disable()
	useCloseWatchdog()
	st := verifkit.New("pipeline-close")
	defer st.Flush()
	rapid.Check(t, pipelineCloseProperty(st))
	st.ClassN("views-that-matched-only-after-a-re-read", int(c13LateViews.Load()))
}

// closeVerdict turns the outcome of a step into the test's reaction.
func closeVerdict(st *verifkit.Stats, h *closeHarness, fatalf func(string, ...any), skip func(string)) func(string, error) {
	return func(msg string, err error) {
		if msg != "" {
			fatalf("%s\nhistory: %s", msg, h.log.String())
		}
		if errors.Is(err, ErrVerifWatchdog) || errors.Is(err, errC13CloseSlow) || errors.Is(err, errC13CloseStuck) {
			st.Class("inconclusive-watchdog")
			st.Note("watchdog expired (%v); case abandoned (inconclusive): %s", err, h.log.String())
			skip("watchdog")
			return
		}
		if err != nil {
			fatalf("harness: %v\nhistory: %s", err, h.log.String())
		}
	}
}

func (h *closeHarness) classes(st *verifkit.Stats) {
	flag := func(name string, n int) {
		if n > 0 {
			st.Class(name)
		}
	}
	flag("close-from-own-listener", h.nOwn)
	flag("close-sibling-before", h.nBefore)
	flag("close-sibling-after", h.nAfter)
	flag("close-concurrent", h.nConc)
	flag("close-from-harness", h.nHarness)
	flag("close-from-listener-during-reload", h.nReloadFire)
	flag("subscribe-mid-history", h.nJoin)
	flag("with-reload", h.reloads)
	flag("with-replayed-events", h.replays)
	flag("with-value-change", h.inPlace)
	if h.survivors2 {
		st.Class("survivors>=2")
	}
	if h.exact {
		st.Class("exact-match-watcher")
	}
	undetermined := 0
	for _, s := range h.cs {
		undetermined += s.undetermined
	}
	flag("exclusive-undetermined-after-reload", undetermined)
	if h.special > 0 && h.changesAfter > 0 {
		st.NonTrivial(h.log.String())
	}
}

func pipelineCloseProperty(st *verifkit.Stats) func(*rapid.T) {
	return func(t *rapid.T) {
		st.Eval()
		h := newCloseHarness(rapid.IntRange(0, 4).Draw(t, "exact") == 0)
		defer h.cleanup()
		do := closeVerdict(st, h, t.Fatalf, func(s string) { t.Skip(s) })

		drawKey := func(t *rapid.T) string {
			if rapid.IntRange(0, 6).Draw(t, "outside") == 0 {
				return rapid.SampledFrom(h.outSyms).Draw(t, "k")
			}
			return rapid.SampledFrom(h.inSyms).Draw(t, "k")
		}
		drawVal := func(t *rapid.T) string { return rapid.SampledFrom(c13Vals).Draw(t, "v") }
		live := func() []string { // registered keys of the range, as symbols
			var out []string
			for _, k := range sortedKeys(h.etcd.InRange(h.rangeID)) {
				out = append(out, h.sym(k))
			}
			return out
		}

		for i, n := 0, rapid.IntRange(0, 3).Draw(t, "initial"); i < n; i++ {
			k, v := drawKey(t), drawVal(t)
			h.etcd.Put(h.names[k], v)
			fmt.Fprintf(&h.log, " init(%s=%s)", k, v)
		}
		subscribe := func(t *rapid.T) {
			do(h.opSubscribe(rapid.Bool().Draw(t, "exclusive"), rapid.IntRange(1, 2).Draw(t, "listeners")))
		}
		for i, n := 0, rapid.IntRange(2, 5).Draw(t, "subscribers"); i < n; i++ {
			subscribe(t)
		}

		put := func(t *rapid.T) { do(h.opPut(drawKey(t), drawVal(t))) }
		update := func(t *rapid.T) {
			ks := live()
			if len(ks) == 0 {
				t.Skip("nothing registered")
			}
			k := rapid.SampledFrom(ks).Draw(t, "k")
			cur := h.etcd.Data()[h.names[k]]
			var others []string
			for _, v := range c13Vals {
				if v != cur {
					others = append(others, v)
				}
			}
			do(h.opPut(k, rapid.SampledFrom(others).Draw(t, "v")))
		}
		reput := func(t *rapid.T) {
			ks := live()
			if len(ks) == 0 {
				t.Skip("nothing registered")
			}
			k := rapid.SampledFrom(ks).Draw(t, "k")
			do(h.opPut(k, h.etcd.Data()[h.names[k]]))
		}
		delLive := func(t *rapid.T) {
			ks := live()
			if len(ks) == 0 {
				t.Skip("nothing registered")
			}
			do(h.opDel(rapid.SampledFrom(ks).Draw(t, "k")))
		}
		feed := func(t *rapid.T) { do(h.opSync(rapid.IntRange(0, 2).Draw(t, "chunk"))) }
		// drawArm picks armer i, one of its listeners without an arm, and a target j that may
		// still be closed
		arm := func(t *rapid.T) bool {
			if len(h.cs) < 2 {
				return false
			}
			i := rapid.IntRange(0, len(h.cs)-1).Draw(t, "i")
			j := i
			switch rapid.IntRange(0, 2).Draw(t, "whom") { // itself, or a sibling
			case 0:
			default:
				j = rapid.IntRange(0, len(h.cs)-1).Draw(t, "j")
			}
			s := h.cs[i]
			l := rapid.IntRange(0, len(s.listeners)-1).Draw(t, "l")
			s.mu.Lock()
			_, taken := s.arms[l]
			s.mu.Unlock()
			if taken || !h.mayClose(j) {
				return false
			}
			do(h.opArm(i, l, j))
			return true
		}
		t.Repeat(map[string]func(*rapid.T){
			"put":     put,
			"update":  update,
			"update2": update,
			"reput":   reput,
			"delLive": delLive,
			"del":     func(t *rapid.T) { do(h.opDel(drawKey(t))) },
			"sync":    feed,
			"sync2":   feed,
			"sync3":   feed,
			"compact": func(t *rapid.T) { do(h.opCompact(rapid.Bool().Draw(t, "all"))) },
			"break":   func(t *rapid.T) { do(h.opBreak(rapid.Bool().Draw(t, "close"))) },
			"reconnect": func(t *rapid.T) {
				do(h.opReconnect())
			},
			"subscribe": func(t *rapid.T) {
				if len(h.cs) >= 5 {
					t.Skip("enough subscribers")
				}
				subscribe(t)
				h.nJoin++
			},
			"listen": func(t *rapid.T) {
				if len(h.cs) == 0 {
					t.Skip("no open subscriber")
				}
				i := rapid.IntRange(0, len(h.cs)-1).Draw(t, "i")
				if len(h.cs[i].listeners) >= 3 {
					t.Skip("enough listeners")
				}
				do(h.opListen(i))
			},
			"close": func(t *rapid.T) {
				if len(h.cs) == 0 {
					t.Skip("no open subscriber")
				}
				i := rapid.IntRange(0, len(h.cs)-1).Draw(t, "i")
				if !h.mayClose(i) {
					t.Skip("would leave nobody")
				}
				do(h.opClose(i))
			},
			"arm": func(t *rapid.T) {
				if !arm(t) {
					t.Skip("no arm possible")
				}
			},
			// the arm, an event inside the range and its delivery in one action
			"armAndFeed": func(t *rapid.T) {
				if !arm(t) {
					t.Skip("no arm possible")
				}
				if ks := live(); len(ks) > 0 && rapid.Bool().Draw(t, "delete") {
					do(h.opDel(rapid.SampledFrom(ks).Draw(t, "k")))
				} else {
					do(h.opPut(rapid.SampledFrom(h.inSyms).Draw(t, "k"), drawVal(t)))
				}
				if rapid.IntRange(0, 3).Draw(t, "how") == 0 {
					do(h.opCompact(false)) // the event reaches the listeners through a reload
				} else {
					feed(t)
				}
			},
			"closeConcurrently": func(t *rapid.T) {
				if len(h.cs) == 0 {
					t.Skip("no open subscriber")
				}
				i := rapid.IntRange(0, len(h.cs)-1).Draw(t, "i")
				if !h.mayClose(i) {
					t.Skip("would leave nobody")
				}
				var batch []batchEv
				for k, n := 0, rapid.IntRange(2, 4).Draw(t, "batch"); k < n; k++ {
					ev := batchEv{sym: rapid.SampledFrom(h.inSyms).Draw(t, "k")}
					if rapid.IntRange(0, 2).Draw(t, "del") == 0 {
						ev.del = true
					} else {
						ev.val = drawVal(t)
					}
					batch = append(batch, ev)
				}
				do(h.opCloseConcurrently(i, batch, rapid.IntRange(0, 6).Draw(t, "letGoAt"), rapid.IntRange(0, 2).Draw(t, "chunk")))
			},
		})
		// final convergence: deliver whatever is pending and compare with etcd itself
		do(h.opSync(0))
		h.classes(st)
	}
}

// ------------------------------------------------------------------ forced histories

type closeStep func(h *closeHarness) (string, error)

func runCloseScript(t *testing.T, st *verifkit.Stats, exact bool, steps ...closeStep) {
	t.Helper()
	logx.Disable()
	useCloseWatchdog()
	st.Eval()
	h := newCloseHarness(exact)
	defer h.cleanup()
	skipped := false
	do := closeVerdict(st, h, t.Fatalf, func(string) { skipped = true })
	for _, s := range steps {
		do(s(h))
		if skipped {
			t.Skipf("watchdog expired (inconclusive): %s", h.log.String())
		}
	}
	do(h.opSync(0))
	h.classes(st)
}

// Three subscribers on one watcher; the one in the middle closes itself / the one before it /
// the one after it from its listener while the registry hands out a PUT, a DELETE, or the
// changes of a reload; the others must have seen that event and must see the next ones.
func TestVerifC13PipelineCloseScripted(t *testing.T) {
	st := verifkit.New("pipeline-close")
	defer st.Flush()
	key := func(h *closeHarness) string { return h.inSyms[0] }
	for _, exact := range []bool{false, true} {
		for _, excl := range []bool{false, true} {
			for _, target := range []int{1, 0, 2} {
				for _, via := range []string{"put", "delete", "reload"} {
					exact, excl, target, via := exact, excl, target, via
					t.Run(fmt.Sprintf("exact=%v/excl=%v/target=%d/%s", exact, excl, target, via), func(t *testing.T) {
						steps := []closeStep{
							func(h *closeHarness) (string, error) { return h.opPut(key(h), "v0") },
							func(h *closeHarness) (string, error) { return h.opSubscribe(excl, 1) },
							func(h *closeHarness) (string, error) { return h.opSubscribe(excl, 2) },
							func(h *closeHarness) (string, error) { return h.opSubscribe(!excl, 1) },
							func(h *closeHarness) (string, error) { return h.opSubscribe(excl, 1) },
							func(h *closeHarness) (string, error) { return h.opArm(1, 0, target) },
						}
						switch via {
						case "put":
							steps = append(steps,
								func(h *closeHarness) (string, error) { return h.opPut(key(h), "v1") },
								func(h *closeHarness) (string, error) { return h.opSync(1) })
						case "delete":
							steps = append(steps,
								func(h *closeHarness) (string, error) { return h.opDel(key(h)) },
								func(h *closeHarness) (string, error) { return h.opSync(1) })
						case "reload":
							steps = append(steps,
								func(h *closeHarness) (string, error) { return h.opPut(key(h), "v1") },
								func(h *closeHarness) (string, error) { return h.opCompact(false) })
						}
						steps = append(steps,
							func(h *closeHarness) (string, error) {
								if h.special != 1 || len(h.cs) != 3 {
									return "", fmt.Errorf("script: the armed listener did not fire (closes=%d, open=%d)", h.special, len(h.cs))
								}
								return "", nil
							},
							func(h *closeHarness) (string, error) { return h.opPut(key(h), "v2") },
							func(h *closeHarness) (string, error) { return h.opSync(0) },
							func(h *closeHarness) (string, error) { return h.opDel(key(h)) },
							func(h *closeHarness) (string, error) { return h.opSync(0) },
						)
						runCloseScript(t, st, exact, steps...)
					})
				}
			}
		}
	}
}
