//go:build verif

package discov

// Concurrent readers for the C13 container and pipeline units.
//
// The statement must hold while other goroutines read Values() — that is what a resolver
// or balancer does — so the same generated histories are applied with 1-4 background
// goroutines polling the view in a tight loop (generated Gosched/spin jitter).  The
// oracle stays the sequential one:
//
//	(a) the view read inside a listener callback fired for an event, and
//	(b) the view read at the barrier after each event
//
// must agree with the model after that event (viewChecker.after).  The background
// readers' own samples only have to be views the model allows before or after the event
// in flight (any of the epochs the read overlapped); a step that hands the subscriber
// more than one change (reload, several watch events) has intermediate views and is
// "wild": samples overlapping it are not judged.
//
// Epochs: seq is even (2i) while view i is stable and odd (2i+1) while the event leading
// to view i+1 is in flight.  A reader notes seq before and after its read; the harness
// judges the sample later, when the views of all epochs it overlapped are known.

import (
	"fmt"
	"runtime"
	"sync"
	"sync/atomic"

	"pgregory.net/rapid"
)

type viewEntry struct{ must, may map[string]bool }

func (e viewEntry) accepts(view []string) bool {
	seen := map[string]bool{}
	for _, v := range view {
		if seen[v] || !e.may[v] {
			return false
		}
		seen[v] = true
	}
	for v := range e.must {
		if !seen[v] {
			return false
		}
	}
	return true
}

type viewSample struct {
	s0, s1 int64
	view   []string
}

type readerPlan struct {
	goschedEvery int // 0 = never
	spin         int // empty-loop iterations between reads
}

type readerSet struct {
	values  func() []string
	seq     atomic.Int64
	stop    atomic.Bool
	wg      sync.WaitGroup
	mu      sync.Mutex
	samples []viewSample
	dropped int
	// harness goroutine only
	entries []viewEntry
	wild    map[int]bool // wild[i]: the step from view i to view i+1 had intermediate views
	judged  int
}

func drawReaderPlans(t *rapid.T, max int) []readerPlan {
	n := rapid.IntRange(1, max).Draw(t, "readers")
	plans := make([]readerPlan, n)
	for i := range plans {
		plans[i] = readerPlan{
			goschedEvery: rapid.SampledFrom([]int{0, 1, 3, 16}).Draw(t, "goschedEvery"),
			spin:         rapid.SampledFrom([]int{0, 0, 20, 200}).Draw(t, "spin"),
		}
	}
	return plans
}

func startReaders(values func() []string, must, may map[string]bool, plans []readerPlan) *readerSet {
	rs := &readerSet{values: values, wild: map[int]bool{}}
	rs.entries = append(rs.entries, viewEntry{must, may})
	for _, p := range plans {
		p := p
		rs.wg.Add(1)
		go rs.run(p)
	}
	return rs
}

var readerSink int

func (rs *readerSet) run(p readerPlan) {
	defer rs.wg.Done()
	var lastPtr *string
	var lastLen int
	var lastLo, lastHi int64 = -1, -1
	for n := 1; !rs.stop.Load(); n++ {
		s0 := rs.seq.Load()
		v := rs.values()
		s1 := rs.seq.Load()
		var ptr *string
		if len(v) > 0 {
			ptr = &v[0]
		}
		lo, hi := s0/2, (s1+1)/2
		if ptr != lastPtr || len(v) != lastLen || lo != lastLo || hi != lastHi {
			lastPtr, lastLen, lastLo, lastHi = ptr, len(v), lo, hi
			rs.mu.Lock()
			if len(rs.samples) < 1<<14 {
				rs.samples = append(rs.samples, viewSample{s0, s1, v})
			} else {
				rs.dropped++
			}
			rs.mu.Unlock()
		}
		if p.goschedEvery > 0 && n%p.goschedEvery == 0 {
			runtime.Gosched()
		}
		x := 0
		for i := 0; i < p.spin; i++ {
			x += i
		}
		if x < 0 {
			readerSink = x
		}
	}
}

// begin: an event is about to be applied.
func (rs *readerSet) begin() { rs.seq.Add(1) }

// end: the event has been applied and the model advanced; judges the samples so far.
func (rs *readerSet) end(must, may map[string]bool, wild bool) string {
	if wild {
		rs.wild[len(rs.entries)-1] = true
	}
	rs.entries = append(rs.entries, viewEntry{must, may})
	rs.seq.Add(1)
	return rs.judge()
}

func (rs *readerSet) judge() string {
	rs.mu.Lock()
	samples := rs.samples
	rs.samples = nil
	rs.mu.Unlock()
	for _, s := range samples {
		lo, hi := int(s.s0/2), int((s.s1+1)/2)
		if hi >= len(rs.entries) {
			hi = len(rs.entries) - 1
		}
		ok := false
		for i := lo; i <= hi && !ok; i++ {
			ok = rs.entries[i].accepts(s.view) || (i < hi && rs.wild[i])
		}
		rs.judged++
		if !ok {
			return fmt.Sprintf("a concurrent reader got Values()=%v while the registrations allowed only %s (views %d..%d)",
				sortedCopy(s.view), rs.describe(lo, hi), lo, hi)
		}
	}
	return ""
}

func (rs *readerSet) describe(lo, hi int) string {
	out := ""
	for i := lo; i <= hi; i++ {
		if i > lo {
			out += " then "
		}
		out += fmt.Sprint(setList(rs.entries[i].must))
		if len(rs.entries[i].may) != len(rs.entries[i].must) {
			out += fmt.Sprintf("(+maybe %v)", setList(rs.entries[i].may))
		}
	}
	return out
}

func (rs *readerSet) halt() {
	rs.stop.Store(true)
	rs.wg.Wait()
}
