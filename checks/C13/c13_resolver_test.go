//go:build verif

package internal

// C13 unit (c): the gRPC resolver built by discovBuilder on top of a discov.Subscriber,
// driven through the fake etcd of core/discov (c13_fake.go) with a recording
// resolver.ClientConn.
//
// Clause checked: "the gRPC resolver publishes those addresses (all of them when there
// are at most 32)": after every registry event the addresses of the last UpdateState
// are, as a set, the values of the keys registered under the target's key as far as etcd
// has told the watcher; when there are more than 32 of them, 32 distinct ones out of them
// (subset shuffles, so the oracle is a set relation, not an expected list).

import (
	"errors"
	"fmt"
	"net/url"
	"sort"
	"strings"
	"sync"
	"sync/atomic"
	"testing"

	"github.com/zeromicro/go-zero/core/discov"
	"github.com/zeromicro/go-zero/core/logx"
	"github.com/zeromicro/go-zero/internal/verifkit"
	"google.golang.org/grpc/resolver"
	"google.golang.org/grpc/serviceconfig"
	"pgregory.net/rapid"
)

const (
	c13NKeys = 48 // more than 32, so that more than 32 distinct addresses can be registered
	c13NVals = 48
	// the bound of the statement ("all of them when there are at most 32"); deliberately
	// not the package's subsetSize constant
	c13Limit = 32
)

var c13ResolverCase int64

type c13ClientConn struct {
	mu     sync.Mutex
	states []resolver.State
	errs   int
}

func (c *c13ClientConn) UpdateState(s resolver.State) error {
	c.mu.Lock()
	c.states = append(c.states, s)
	c.mu.Unlock()
	return nil
}
func (c *c13ClientConn) ReportError(error) {
	c.mu.Lock()
	c.errs++
	c.mu.Unlock()
}
func (c *c13ClientConn) NewAddress([]resolver.Address) {}
func (c *c13ClientConn) ParseServiceConfig(string) *serviceconfig.ParseResult {
	return nil
}

func (c *c13ClientConn) last() (addrs []string, updates int) {
	c.mu.Lock()
	defer c.mu.Unlock()
	if len(c.states) == 0 {
		return nil, 0
	}
	for _, a := range c.states[len(c.states)-1].Addresses {
		addrs = append(addrs, a.Addr)
	}
	return addrs, len(c.states)
}

type resolverHarness struct {
	etcd    *discov.VerifEtcd
	base    string
	rangeID string
	cc      *c13ClientConn
	res     resolver.Resolver
	told    map[string]string // what etcd has handed to the watcher
	applied int64
	log     strings.Builder
	inPlace int
	reloads int
	over32  int // checks made while more than 32 distinct addresses were registered
	at32    int // ... while exactly 32 were
}

func c13Key(base string, i int) string { return fmt.Sprintf("%s/k%02d", base, i) }
func c13Addr(i int) string             { return fmt.Sprintf("10.0.%d.%d:8080", i/10, i%10) }

func newResolverHarness(initial map[int]int) (*resolverHarness, error) {
	n := atomic.AddInt64(&c13ResolverCase, 1)
	h := &resolverHarness{base: fmt.Sprintf("c13rsv%d", n), cc: &c13ClientConn{}}
	eps := []string{fmt.Sprintf("c13r-%d-b:2379", n), fmt.Sprintf("c13r-%d-a:2379", n)}
	h.etcd = discov.VerifNewEtcd(eps)
	h.rangeID = discov.VerifRangeID(h.base, false)
	var ks []int
	for k := range initial {
		ks = append(ks, k)
	}
	sort.Ints(ks)
	for _, k := range ks {
		h.etcd.Put(c13Key(h.base, k), c13Addr(initial[k]))
		fmt.Fprintf(&h.log, " init(k%02d=a%02d)", k, initial[k])
	}
	// keys that must not show up: outside the prefix of the target's key
	h.etcd.Put(h.base, "10.9.9.1:1")
	h.etcd.Put(h.base+"x/k00", "10.9.9.2:1")
	u, err := url.Parse(fmt.Sprintf("%s://%s/%s", DiscovScheme, strings.Join(eps, EndpointSep), h.base))
	if err != nil {
		return nil, err
	}
	var b discovBuilder
	h.res, err = b.Build(resolver.Target{URL: *u}, h.cc, resolver.BuildOptions{})
	if err != nil {
		return nil, fmt.Errorf("Build: %w", err)
	}
	h.told = h.etcd.InRange(h.rangeID)
	h.applied = h.etcd.Rev()
	fmt.Fprintf(&h.log, " build")
	if err := h.etcd.WaitWatchCount(h.rangeID, 1); err != nil {
		return h, err
	}
	return h, nil
}

// check compares the last published state with what etcd has told the watcher.
func (h *resolverHarness) check() string {
	want := map[string]bool{}
	for _, v := range h.told {
		want[v] = true
	}
	got, updates := h.cc.last()
	if updates == 0 {
		return "the resolver never called UpdateState"
	}
	seen := map[string]bool{}
	for _, a := range got {
		if seen[a] {
			return fmt.Sprintf("address %s published twice: %v", a, got)
		}
		seen[a] = true
		if !want[a] {
			return fmt.Sprintf("address %s is published but not registered; published %v, registered %v", a, sorted(got), keysOf(want))
		}
	}
	// a subscriber joining the resolver's watcher now must see the same registrations
	probe, err := discov.NewSubscriber(h.etcd.Endpoints(), h.base)
	if err != nil {
		return fmt.Sprintf("probe subscriber: %v", err)
	}
	pv := probe.Values()
	probe.Close()
	if !sameKeys(pv, want) {
		return fmt.Sprintf("a subscriber joining now sees %v, registered %v", sorted(pv), keysOf(want))
	}
	switch {
	case len(want) <= c13Limit:
		if len(want) == c13Limit {
			h.at32++
		}
		if len(got) != len(want) {
			return fmt.Sprintf("%d addresses registered (at most %d, so all must be published) but %d published; published %v, registered %v",
				len(want), c13Limit, len(got), sorted(got), keysOf(want))
		}
	default:
		h.over32++
		if len(got) != c13Limit {
			return fmt.Sprintf("%d addresses registered but %d published instead of %d", len(want), len(got), c13Limit)
		}
	}
	return ""
}

func (h *resolverHarness) deliver(evs []discov.VerifEvent) {
	for _, ev := range evs {
		if ev.Delete {
			delete(h.told, ev.Key)
			continue
		}
		if old, ok := h.told[ev.Key]; ok && old != ev.Val {
			h.inPlace++
		}
		h.told[ev.Key] = ev.Val
	}
}

func (h *resolverHarness) reloaded(rs []string) {
	for _, r := range rs {
		if r != h.rangeID {
			continue
		}
		snap := h.etcd.InRange(r)
		for k, v := range snap {
			if old, ok := h.told[k]; ok && old != v {
				h.inPlace++
			}
		}
		h.told = snap
		h.reloads++
	}
}

func (h *resolverHarness) sync(chunk int) error {
	fmt.Fprintf(&h.log, " sync(%d)", chunk)
	got, err := h.etcd.Sync(chunk)
	h.deliver(got[h.rangeID])
	return err
}

func sorted(xs []string) []string {
	out := append([]string(nil), xs...)
	sort.Strings(out)
	return out
}

func sameKeys(xs []string, want map[string]bool) bool {
	got := map[string]bool{}
	for _, x := range xs {
		got[x] = true
	}
	if len(got) != len(want) {
		return false
	}
	for x := range want {
		if !got[x] {
			return false
		}
	}
	return true
}

func keysOf(m map[string]bool) []string {
	out := make([]string, 0, len(m))
	for k := range m {
		out = append(out, k)
	}
	sort.Strings(out)
	return out
}

func TestVerifC13Resolver(t *testing.T) {
	logx.Disable()
	st := verifkit.New("resolver")
	defer st.Flush()
	rapid.Check(t, func(t *rapid.T) {
		st.Eval()
		// initial registrations: nothing, a few, or a block large enough to pass 32
		initial := map[int]int{}
		switch rapid.IntRange(0, 3).Draw(t, "initialKind") {
		case 1:
			for i, n := 0, rapid.IntRange(1, 5).Draw(t, "n"); i < n; i++ {
				initial[rapid.IntRange(0, c13NKeys-1).Draw(t, "k")] = rapid.IntRange(0, c13NVals-1).Draw(t, "a")
			}
		case 2, 3:
			n := rapid.IntRange(28, 40).Draw(t, "n")
			off := rapid.IntRange(0, c13NVals-1).Draw(t, "off")
			for i := 0; i < n; i++ {
				initial[i] = (i + off) % c13NVals
			}
		}
		h, err := newResolverHarness(initial)
		if h != nil {
			defer func() {
				if h.res != nil {
					h.res.Close()
				}
				h.etcd.VerifForget()
			}()
		}
		guard := func(err error) {
			if errors.Is(err, discov.ErrVerifWatchdog) {
				st.Class("inconclusive-watchdog")
				st.Note("watchdog expired; case abandoned (inconclusive): %s", h.log.String())
				t.Skip("watchdog")
			}
			if err != nil {
				t.Fatalf("harness: %v\nhistory: %s", err, h.log.String())
			}
		}
		guard(err)
		verify := func() {
			if msg := h.check(); msg != "" {
				t.Fatalf("%s\nhistory: %s", msg, h.log.String())
			}
		}
		verify()
		live := func() []string {
			data := h.etcd.InRange(h.rangeID)
			ks := make([]string, 0, len(data))
			for k := range data {
				ks = append(ks, k)
			}
			sort.Strings(ks)
			return ks
		}
		syncNow := func(t *rapid.T) {
			guard(h.sync(rapid.IntRange(0, 2).Draw(t, "chunk")))
			verify()
		}
		t.Repeat(map[string]func(*rapid.T){
			"put": func(t *rapid.T) {
				k, a := rapid.IntRange(0, c13NKeys-1).Draw(t, "k"), rapid.IntRange(0, c13NVals-1).Draw(t, "a")
				h.etcd.Put(c13Key(h.base, k), c13Addr(a))
				fmt.Fprintf(&h.log, " put(k%02d=a%02d)", k, a)
				verify()
			},
			"update": func(t *rapid.T) { // a registered key gets another address
				ks := live()
				if len(ks) == 0 {
					t.Skip("nothing registered")
				}
				k := rapid.SampledFrom(ks).Draw(t, "k")
				a := rapid.IntRange(0, c13NVals-1).Draw(t, "a")
				h.etcd.Put(k, c13Addr(a))
				fmt.Fprintf(&h.log, " put(%s=a%02d)", strings.TrimPrefix(k, h.base+"/"), a)
				verify()
			},
			"del": func(t *rapid.T) {
				ks := live()
				if len(ks) == 0 {
					t.Skip("nothing registered")
				}
				k := rapid.SampledFrom(ks).Draw(t, "k")
				h.etcd.Delete(k)
				fmt.Fprintf(&h.log, " del(%s)", strings.TrimPrefix(k, h.base+"/"))
				verify()
			},
			"bulkPut": func(t *rapid.T) { // a block of keys with pairwise distinct addresses
				from := rapid.IntRange(0, c13NKeys-1).Draw(t, "from")
				n := rapid.IntRange(2, 20).Draw(t, "n")
				off := rapid.IntRange(0, c13NVals-1).Draw(t, "off")
				for i := 0; i < n && from+i < c13NKeys; i++ {
					h.etcd.Put(c13Key(h.base, from+i), c13Addr((from+i+off)%c13NVals))
				}
				fmt.Fprintf(&h.log, " bulkPut(k%02d..+%d,off=%d)", from, n, off)
				verify()
			},
			"bulkDel": func(t *rapid.T) {
				from := rapid.IntRange(0, c13NKeys-1).Draw(t, "from")
				n := rapid.IntRange(2, 12).Draw(t, "n")
				for i := 0; i < n && from+i < c13NKeys; i++ {
					h.etcd.Delete(c13Key(h.base, from+i))
				}
				fmt.Fprintf(&h.log, " bulkDel(k%02d..+%d)", from, n)
				verify()
			},
			"sync":  syncNow,
			"sync2": syncNow,
			"compact": func(t *rapid.T) {
				all := rapid.Bool().Draw(t, "all")
				fmt.Fprintf(&h.log, " compact(all=%v)", all)
				rs, err := h.etcd.Compact(all)
				h.reloaded(rs)
				guard(err)
				verify()
			},
			"break": func(t *rapid.T) {
				closeChan := rapid.Bool().Draw(t, "close")
				fmt.Fprintf(&h.log, " break(close=%v)", closeChan)
				rs, err := h.etcd.Break(closeChan)
				h.reloaded(rs)
				guard(err)
				verify()
			},
			"reconnect": func(t *rapid.T) {
				fmt.Fprintf(&h.log, " reconnect")
				rs, err := h.etcd.Reconnect()
				h.reloaded(rs)
				guard(err)
				verify()
			},
		})
		guard(h.sync(0))
		verify()
		// everything delivered: the published set must be etcd's own content of the range
		h.told = h.etcd.InRange(h.rangeID)
		verify()
		if h.reloads > 0 {
			st.Class("with-reload")
		}
		if h.over32 > 0 {
			st.Class("more-than-32-addresses")
		}
		if h.at32 > 0 {
			st.Class("exactly-32-addresses")
		}
		if h.inPlace > 0 {
			st.Class("with-value-change")
			st.NonTrivial(h.log.String())
		}
	})
}

// ------------------------------------------------------------------ regression (D4 as seen by gRPC)

// An instance re-registers its key with a new address: the balancer must no longer be
// given the old address.
func TestVerifC13RegressD4ResolverKeepsStaleAddress(t *testing.T) {
	logx.Disable()
	h, err := newResolverHarness(map[int]int{0: 0})
	if errors.Is(err, discov.ErrVerifWatchdog) {
		t.Skip("watchdog expired (inconclusive)")
	}
	if err != nil {
		t.Fatal(err)
	}
	defer h.etcd.VerifForget()
	defer h.res.Close()
	h.etcd.Put(c13Key(h.base, 0), c13Addr(1))
	fmt.Fprintf(&h.log, " put(k00=a01)")
	if err := h.sync(0); err != nil {
		t.Skipf("inconclusive: %v", err)
	}
	if msg := h.check(); msg != "" {
		t.Fatalf("%s\nhistory: %s", msg, h.log.String())
	}
}
