//go:build verif

package discov

// C13 unit (b): the whole discovery pipeline — Publisher / Subscriber / registry /
// watch loop / container — against the fake etcd of c13_fake.go.
//
// The history is a sequence of registry events on one fake cluster: keys put, updated to
// another value, deleted (directly or through Publisher.KeepAlive / Stop), delivery of
// the pending watch events (in responses of 1, 2 or all events), compaction (streams
// that lost events are cancelled with ErrCompacted and reload), stream breaks (the watch
// restarts from the revision of its last load, so the log since then is replayed), the
// reload after a reconnect, and subscribers (prefix or exact match, exclusive or not)
// coming and going, several of them sharing one watcher.
//
// Oracle: per subscriber a regModel that is advanced only by what etcd has handed to that
// subscriber's watcher (delivered events in revision order, reload snapshots); after
// every event Values() must agree with it and the listener clause must hold.

import (
	"errors"
	"fmt"
	"os"
	"sort"
	"strings"
	"sync/atomic"
	"testing"
	"time"

	"github.com/zeromicro/go-zero/core/logx"
	"github.com/zeromicro/go-zero/internal/verifkit"
	"pgregory.net/rapid"
)

var (
	c13CaseNo int64
	c13Debug  = os.Getenv("VERIF_C13_DEBUG") != "" // print every event as it starts (to see where a run hangs)
)

type pipeSub struct {
	name    string
	sub     *Subscriber
	rangeID string
	viewChecker
}

type pipeHarness struct {
	etcd  *VerifEtcd
	base  string            // the subscribed key of this case (unique)
	names map[string]string // symbolic key name -> real key
	syms  []string
	subs  []*pipeSub   // open subscribers
	pubs  []*Publisher // running publishers
	// per range: what etcd has handed to the watcher so far, and up to which revision
	told    map[string]map[string]string
	applied map[string]int64
	log     strings.Builder
	nsub    int
	inPlace int
	reloads int
	replays int
	revoked int
	// bookkeeping for the class "re-registration hands a value back to an older key"
	// (per range and value, in delivery order): the key that was told last with the value,
	// the key it took the value from, and whether it took it by a same-value re-put
	owner      map[string]map[string]string
	displaced  map[string]map[string]string
	byReput    map[string]map[string]bool
	reputShape int // deletes of the displaced key while an exclusive subscriber listens
	// concurrent unit: draws the jitter plans of the readers attached to a new subscriber
	// (nil = no background readers)
	readerPlans func() []readerPlan
	judged      int
	// lifecycle: number of failing connection attempts planned for the next subscription (only the
	// first subscription of a cluster dials), and how many NewSubscriber calls failed that way
	dialFails  int
	dialFailed int
}

func newPipeHarness() *pipeHarness {
	n := atomic.AddInt64(&c13CaseNo, 1)
	h := &pipeHarness{
		base:      fmt.Sprintf("c13svc%d", n),
		names:     map[string]string{},
		told:      map[string]map[string]string{},
		owner:     map[string]map[string]string{},
		displaced: map[string]map[string]string{},
		byReput:   map[string]map[string]bool{},
		applied:   map[string]int64{},
	}
	// deliberately unsorted: the registry sorts endpoints to build the cluster key
	h.etcd = VerifNewEtcd([]string{fmt.Sprintf("c13-%d-b:2379", n), fmt.Sprintf("c13-%d-a:2379", n)})
	add := func(sym, real string) {
		h.names[sym] = real
		h.syms = append(h.syms, sym)
	}
	for _, k := range c13Keys {
		add("B/"+k, h.base+"/"+k)
	}
	add("B", h.base)                  // the exact key: outside the prefix range
	add("Bx/k0", h.base+"x/k0")       // shares the text of the prefix, not the delimiter
	add("B/k0/sub", h.base+"/k0/sub") // nested under the prefix
	add("other/k0", fmt.Sprintf("c13other%d/k0", n))
	return h
}

func (h *pipeHarness) sym(real string) string {
	for s, r := range h.names {
		if r == real {
			return s
		}
	}
	return strings.Replace(real, h.base, "B", 1)
}

func (h *pipeHarness) symKVs(m map[string]string) string {
	var parts []string
	for k, v := range m {
		parts = append(parts, h.sym(k)+"="+v)
	}
	sort.Strings(parts)
	return "{" + strings.Join(parts, " ") + "}"
}

func (h *pipeHarness) subsOn(rangeID string) []*pipeSub {
	var out []*pipeSub
	for _, s := range h.subs {
		if s.rangeID == rangeID {
			out = append(out, s)
		}
	}
	return out
}

// step runs one event and checks every open subscriber afterwards.  The returned string
// is an oracle complaint ("" = fine), the error a harness problem (watchdog = inconclusive).
func (h *pipeHarness) step(what string, apply func() error) (string, error) {
	fmt.Fprintf(&h.log, " %s", what)
	if c13Debug {
		fmt.Fprintf(os.Stderr, "c13 case %s: %s\n", h.base, what)
	}
	subs := append([]*pipeSub(nil), h.subs...)
	befores := make([]viewBefore, len(subs))
	for i, s := range subs {
		befores[i] = s.before()
	}
	if err := apply(); err != nil {
		return "", err
	}
	for i, s := range subs {
		if msg := s.after(befores[i]); msg != "" {
			return fmt.Sprintf("subscriber %s: %s", s.name, msg), nil
		}
	}
	// a subscriber opened by this very event
	first := len(subs)
	if first > len(h.subs) {
		first = len(h.subs)
	}
	for _, s := range h.subs[first:] {
		if msg := s.after(s.before()); msg != "" {
			return fmt.Sprintf("new subscriber %s: %s", s.name, msg), nil
		}
	}
	return h.probe(), nil
}

// probe: a subscriber that joins now (and leaves again) must see the registrations as
// told to the watcher it joins.  One probe per range that has an open subscriber, so the
// probe never opens or ends a watch.
func (h *pipeHarness) probe() string {
	seen := map[string]bool{}
	for _, s := range h.subs {
		if seen[s.rangeID] {
			continue
		}
		seen[s.rangeID] = true
		var opts []SubOption
		exact := s.rangeID == VerifRangeID(h.base, true)
		if exact {
			opts = append(opts, WithExactMatch())
		}
		p, err := NewSubscriber(h.etcd.Endpoints(), h.base, opts...)
		if err != nil {
			return fmt.Sprintf("probe subscriber: %v", err)
		}
		got := setOf(p.Values())
		p.Close()
		want := map[string]bool{}
		for _, v := range h.told[s.rangeID] {
			want[v] = true
		}
		if !sameSet(got, want) {
			return fmt.Sprintf("a subscriber joining now (exact=%v) sees Values()=%v, registered %s", exact, setList(got), h.symKVs(h.told[s.rangeID]))
		}
	}
	return ""
}

// deliver advances the models of range r by the events etcd handed out.
//
// Events replayed after a stream break are applied like any others.  A subscriber cannot
// tell a replayed registration from a new one, so for the exclusive clause ("the most
// recently registered key of each value") the order that counts is the order in which
// the subscriber is told.  For a subscriber that has seen the log before, replaying it
// changes nothing in the model (each key ends with its last event, each value with its
// last registrant); for one that joined the watcher later it is genuinely new knowledge.
func (h *pipeHarness) deliver(r string, evs []VerifEvent) {
	if len(evs) > 1 {
		for _, s := range h.subsOn(r) {
			s.wild = true // several changes in one step: intermediate views exist
		}
	}
	for _, ev := range evs {
		if ev.Rev <= h.applied[r] {
			h.replays++
		}
		told := h.told[r]
		h.trackOwnership(r, ev)
		if ev.Delete {
			delete(told, ev.Key)
		} else {
			if old, ok := told[ev.Key]; ok && old != ev.Val {
				h.inPlace++
			}
			told[ev.Key] = ev.Val
		}
		for _, s := range h.subsOn(r) {
			if ev.Delete {
				s.m.unregister(ev.Key)
			} else {
				s.m.register(ev.Key, ev.Val)
			}
		}
	}
	if n := len(evs); n > 0 && evs[n-1].Rev > h.applied[r] {
		h.applied[r] = evs[n-1].Rev
	}
}

// trackOwnership only feeds the histogram (it is no oracle): it recognises the history
// "k1=A, k2=A, k1=A again with no delete in between, delete k2" as told to range r while
// an exclusive subscriber listens there.  Called before ev is applied to h.told[r].
func (h *pipeHarness) trackOwnership(r string, ev VerifEvent) {
	if h.owner[r] == nil {
		h.owner[r], h.displaced[r], h.byReput[r] = map[string]string{}, map[string]string{}, map[string]bool{}
	}
	told := h.told[r]
	if ev.Delete {
		v, ok := told[ev.Key]
		if !ok {
			return
		}
		k := h.owner[r][v]
		if h.byReput[r][v] && h.displaced[r][v] == ev.Key && k != ev.Key && told[k] == v {
			for _, s := range h.subsOn(r) {
				if s.m.excl {
					h.reputShape++
					break
				}
			}
		}
		return
	}
	v := ev.Val
	prev := h.owner[r][v]
	if prev != ev.Key {
		same := told[ev.Key] == v
		h.byReput[r][v] = same && prev != "" && told[prev] == v
		h.displaced[r][v] = prev
	}
	h.owner[r][v] = ev.Key
}

// reloaded: the watchers of the ranges rs have loaded their range anew.
func (h *pipeHarness) reloaded(rs []string) {
	for _, r := range rs {
		if _, ok := h.told[r]; !ok {
			continue
		}
		snap := h.etcd.InRange(r)
		for k, v := range snap {
			if old, ok := h.told[r][k]; ok && old != v {
				h.inPlace++
			}
		}
		h.told[r] = snap
		h.applied[r] = h.etcd.Rev()
		h.reloads++
		delete(h.owner, r) // a reload registers its keys at once: no order to track

		for _, s := range h.subsOn(r) {
			s.wild = true // a reload hands its changes over one by one
			applyReloadToModel(s.m, snap)
		}
	}
}

func (h *pipeHarness) opPut(sym, v string) (string, error) {
	return h.step(fmt.Sprintf("put(%s=%s)", sym, v), func() error { h.etcd.Put(h.names[sym], v); return nil })
}

func (h *pipeHarness) opDel(sym string) (string, error) {
	return h.step(fmt.Sprintf("del(%s)", sym), func() error { h.etcd.Delete(h.names[sym]); return nil })
}

func (h *pipeHarness) opSync(chunk int) (string, error) {
	return h.step(fmt.Sprintf("sync(%d)", chunk), func() error {
		got, err := h.etcd.Sync(chunk)
		for _, r := range sortedRangeIDs(got) {
			h.deliver(r, got[r])
		}
		return err
	})
}

func (h *pipeHarness) opCompact(all bool) (string, error) {
	return h.step(fmt.Sprintf("compact(all=%v)", all), func() error {
		rs, err := h.etcd.Compact(all)
		h.reloaded(rs)
		return err
	})
}

func (h *pipeHarness) opBreak(closeChan bool) (string, error) {
	return h.step(fmt.Sprintf("break(close=%v)", closeChan), func() error {
		rs, err := h.etcd.Break(closeChan)
		h.reloaded(rs)
		return err
	})
}

func (h *pipeHarness) opReconnect() (string, error) {
	return h.step("reconnect", func() error {
		rs, err := h.etcd.Reconnect()
		h.reloaded(rs)
		return err
	})
}

func (h *pipeHarness) opSubscribe(exact, excl bool, nListeners int) (string, error) {
	return h.step(fmt.Sprintf("subscribe(exact=%v,excl=%v,listeners=%d)", exact, excl, nListeners), func() error {
		key := h.base
		r := VerifRangeID(key, exact)
		shared := len(h.subsOn(r)) > 0
		var opts []SubOption
		if exact {
			opts = append(opts, WithExactMatch())
		}
		if excl {
			opts = append(opts, Exclusive())
		}
		before := h.etcd.WatchCount(r)
		// etcd unreachable at first: NewSubscriber fails, the caller tries again until it is back
		h.etcd.VerifFailDials(h.dialFails)
		failedBefore := h.etcd.VerifFailedDials()
		var sub *Subscriber
		var err error
		for attempt := 0; ; attempt++ {
			sub, err = NewSubscriber(h.etcd.Endpoints(), key, opts...)
			if err == nil || h.etcd.VerifFailedDials()-failedBefore <= attempt || attempt > 5 {
				break
			}
			h.dialFailed++
		}
		h.etcd.VerifFailDials(0)
		h.dialFails = 0
		if err != nil {
			return fmt.Errorf("NewSubscriber: %w", err)
		}
		h.nsub++
		s := &pipeSub{name: fmt.Sprintf("s%d(exact=%v,excl=%v)", h.nsub, exact, excl), sub: sub, rangeID: r}
		s.viewChecker = viewChecker{m: newRegModel(excl), values: sub.Values, patience: 2 * time.Second}
		s.m.show = h.sym
		if shared {
			// joins a running watcher: it is told what the watcher has been told so far
			applyReloadToModel(s.m, h.told[r])
		} else {
			snap := h.etcd.InRange(r)
			h.told[r] = snap
			h.applied[r] = h.etcd.Rev()
			applyReloadToModel(s.m, snap)
			if err := h.etcd.WaitWatchCount(r, before+1); err != nil {
				return err
			}
		}
		for i := 0; i < nListeners; i++ {
			sub.AddListener(s.newListener())
		}
		if h.readerPlans != nil {
			s.attachReaders(h.readerPlans())
		}
		h.subs = append(h.subs, s)
		return nil
	})
}

// closeSub closes subscriber i.  When it is the last one on its range the stream is
// first renewed (Quiesce): closing cancels the watch, and a watch goroutine that is still
// busy with the barrier of the last Sync would otherwise be in flight when a later
// reconnect reload takes the cluster lock and waits for it (a schedule, not a history).
func (h *pipeHarness) closeSub(i int) error {
	s := h.subs[i]
	if len(h.subsOn(s.rangeID)) == 1 {
		if err := h.etcd.Quiesce(s.rangeID); err != nil {
			return err
		}
	}
	s.sub.Close()
	s.haltReaders()
	if s.rd != nil {
		h.judged += s.rd.judged
	}
	h.subs = append(h.subs[:i], h.subs[i+1:]...)
	if len(h.subsOn(s.rangeID)) == 0 {
		delete(h.told, s.rangeID)
		delete(h.applied, s.rangeID)
	}
	return nil
}

func (h *pipeHarness) opClose(i int) (string, error) {
	return h.step("close("+h.subs[i].name+")", func() error { return h.closeSub(i) })
}

func (h *pipeHarness) opListen(i int) (string, error) {
	s := h.subs[i]
	return h.step("listen("+s.name+")", func() error { s.sub.AddListener(s.newListener()); return nil })
}

// opPublish starts a Publisher on the subscribed key (id 0: the etcd key is named after
// the lease; otherwise <key>/<id>, so a second publisher with the same id updates the key
// in place).
func (h *pipeHarness) opPublish(id int64, v string) (string, error) {
	return h.step(fmt.Sprintf("publish(id=%d,%s)", id, v), func() error {
		var opts []PubOption
		if id > 0 {
			opts = append(opts, WithId(id))
		}
		_, putsBefore, _ := h.etcd.Counters()
		p := NewPublisher(h.etcd.Endpoints(), h.base, v, opts...)
		if err := p.KeepAlive(); err != nil {
			return fmt.Errorf("KeepAlive: %w", err)
		}
		if _, puts, _ := h.etcd.Counters(); puts != putsBefore+1 {
			return fmt.Errorf("KeepAlive returned but etcd saw %d puts", puts-putsBefore)
		}
		h.pubs = append(h.pubs, p)
		return nil
	})
}

func (h *pipeHarness) opUnpublish(i int) (string, error) {
	return h.step(fmt.Sprintf("unpublish(%d)", i), func() error {
		h.pubs[i].Stop()
		h.pubs = append(h.pubs[:i], h.pubs[i+1:]...)
		h.revoked++
		return h.etcd.WaitRevokes(h.revoked)
	})
}

// converged: everything is delivered, so a non-exclusive subscriber must show exactly
// the values etcd holds in its range.
func (h *pipeHarness) converged() string {
	for _, s := range h.subs {
		if s.m.excl {
			continue
		}
		want := map[string]bool{}
		for _, v := range h.etcd.InRange(s.rangeID) {
			want[v] = true
		}
		if got := setOf(s.values()); !sameSet(got, want) {
			return fmt.Sprintf("subscriber %s: after everything was delivered Values()=%v but etcd holds %s",
				s.name, setList(got), h.symKVs(h.etcd.InRange(s.rangeID)))
		}
	}
	return ""
}

func (h *pipeHarness) cleanup() {
	for len(h.subs) > 0 {
		if h.closeSub(0) != nil {
			break
		}
	}
	for _, s := range h.subs {
		s.haltReaders()
	}
	for _, p := range h.pubs {
		p.Stop()
	}
	h.etcd.VerifForget()
}

func TestVerifC13Pipeline(t *testing.T) {
	logx.Disable()
	st := verifkit.New("pipeline")
	defer st.Flush()
	rapid.Check(t, pipelineProperty(st, false))
	st.ClassN("views-that-matched-only-after-a-re-read", int(c13LateViews.Load()))
}

// TestVerifC13PipelineConcurrent: the same histories while every subscriber's Values() is
// polled by background goroutines (1-2 per subscriber; see c13_readers_test.go).
func TestVerifC13PipelineConcurrent(t *testing.T) {
	logx.Disable()
	st := verifkit.New("pipeline-concurrent")
	defer st.Flush()
	rapid.Check(t, pipelineProperty(st, true))
	st.ClassN("views-that-matched-only-after-a-re-read", int(c13LateViews.Load()))
}

func pipelineProperty(st *verifkit.Stats, concurrent bool) func(*rapid.T) {
	return func(t *rapid.T) {
		st.Eval()
		h := newPipeHarness()
		defer h.cleanup()
		if concurrent {
			h.readerPlans = func() []readerPlan { return drawReaderPlans(t, 2) }
		}
		do := func(msg string, err error) {
			if errors.Is(err, ErrVerifWatchdog) {
				st.Class("inconclusive-watchdog")
				st.Note("watchdog expired; case abandoned (inconclusive): %s", h.log.String())
				t.Skip("watchdog")
			}
			if err != nil {
				t.Fatalf("harness: %v\nhistory: %s", err, h.log.String())
			}
			if msg != "" {
				t.Fatalf("%s\nhistory: %s", msg, h.log.String())
			}
		}
		// registrations that exist before anybody subscribes
		for i, n := 0, rapid.IntRange(0, 3).Draw(t, "initial"); i < n; i++ {
			k := rapid.SampledFrom(h.syms).Draw(t, "k")
			v := rapid.SampledFrom(c13Vals).Draw(t, "v")
			h.etcd.Put(h.names[k], v)
			fmt.Fprintf(&h.log, " init(%s=%s)", k, v)
		}
		subscribe := func(t *rapid.T) {
			exact := rapid.IntRange(0, 4).Draw(t, "exact") == 0
			excl := rapid.Bool().Draw(t, "exclusive")
			if h.nsub == 0 && rapid.IntRange(0, 3).Draw(t, "dialFails") == 0 {
				h.dialFails = rapid.IntRange(1, 2).Draw(t, "dialFailsN")
			}
			do(h.opSubscribe(exact, excl, rapid.IntRange(0, 2).Draw(t, "listeners")))
			if h.dialFailed > 0 {
				st.Class("lifecycle:subscribed-after-failed-connection-attempts")
			}
		}
		subscribe(t)
		put := func(t *rapid.T) {
			do(h.opPut(rapid.SampledFrom(h.syms).Draw(t, "k"), rapid.SampledFrom(c13Vals).Draw(t, "v")))
		}
		update := func(t *rapid.T) { // a registered key gets another value
			data := h.etcd.Data()
			var live []string
			for _, k := range sortedKeys(data) {
				if strings.HasPrefix(k, h.base) {
					live = append(live, k)
				}
			}
			if len(live) == 0 {
				t.Skip("nothing registered")
			}
			k := rapid.SampledFrom(live).Draw(t, "k")
			var others []string
			for _, v := range c13Vals {
				if v != data[k] {
					others = append(others, v)
				}
			}
			sym := h.sym(k)
			if _, ok := h.names[sym]; !ok {
				h.names[sym] = k // a publisher's key
			}
			do(h.opPut(sym, rapid.SampledFrom(others).Draw(t, "v")))
		}
		// liveUnderPrefix: the registered keys of the prefix range; when preferShared is
		// drawn true and some value is carried by two or more keys, only those keys.
		liveUnderPrefix := func(t *rapid.T) []string {
			data := h.etcd.InRange(VerifRangeID(h.base, false))
			count := map[string]int{}
			for _, v := range data {
				count[v]++
			}
			var all, shared []string
			for _, k := range sortedKeys(data) {
				all = append(all, k)
				if count[data[k]] > 1 {
					shared = append(shared, k)
				}
			}
			if len(shared) > 0 && rapid.IntRange(0, 3).Draw(t, "preferShared") > 0 {
				return shared
			}
			return all
		}
		symOf := func(k string) string {
			sym := h.sym(k)
			if _, ok := h.names[sym]; !ok {
				h.names[sym] = k // a publisher's key
			}
			return sym
		}
		// a registered key is registered again with the value it has (a fixed-id publisher
		// coming back on a new lease): for an exclusive subscriber this is a registration
		reput := func(t *rapid.T) {
			ks := liveUnderPrefix(t)
			if len(ks) == 0 {
				t.Skip("nothing registered")
			}
			k := rapid.SampledFrom(ks).Draw(t, "k")
			do(h.opPut(symOf(k), h.etcd.Data()[k]))
		}
		delLive := func(t *rapid.T) {
			ks := liveUnderPrefix(t)
			if len(ks) == 0 {
				t.Skip("nothing registered")
			}
			do(h.opDel(symOf(rapid.SampledFrom(ks).Draw(t, "k"))))
		}
		sync := func(t *rapid.T) { do(h.opSync(rapid.IntRange(0, 2).Draw(t, "chunk"))) }
		// handBack plays the whole shape in one action: two keys carry one value, the older
		// one registers again with it, the newer one leaves (deliveries in between drawn).
		handBack := func(t *rapid.T) {
			i := rapid.IntRange(0, len(c13Keys)-1).Draw(t, "older")
			j := rapid.IntRange(0, len(c13Keys)-2).Draw(t, "newer")
			if j >= i {
				j++
			}
			older, newer := "B/"+c13Keys[i], "B/"+c13Keys[j]
			v := rapid.SampledFrom(c13Vals).Draw(t, "v")
			do(h.opPut(older, v))
			do(h.opPut(newer, v))
			if rapid.Bool().Draw(t, "syncAfterBoth") {
				do(h.opSync(rapid.IntRange(0, 2).Draw(t, "chunk")))
			}
			do(h.opPut(older, v))
			if rapid.Bool().Draw(t, "syncAfterReput") {
				do(h.opSync(rapid.IntRange(0, 2).Draw(t, "chunk")))
			}
			do(h.opDel(newer))
			do(h.opSync(rapid.IntRange(0, 2).Draw(t, "chunk")))
		}
		t.Repeat(map[string]func(*rapid.T){
			"put":      put,
			"update":   update,
			"update2":  update,
			"reput":    reput,
			"reput2":   reput,
			"delLive":  delLive,
			"handBack": handBack,
			"del": func(t *rapid.T) {
				do(h.opDel(rapid.SampledFrom(h.syms).Draw(t, "k")))
			},
			"sync":  sync,
			"sync2": sync,
			"sync3": sync,
			"compact": func(t *rapid.T) {
				do(h.opCompact(rapid.Bool().Draw(t, "all")))
			},
			"break": func(t *rapid.T) {
				do(h.opBreak(rapid.Bool().Draw(t, "close")))
			},
			"reconnect": func(t *rapid.T) {
				do(h.opReconnect())
			},
			"subscribe": func(t *rapid.T) {
				if len(h.subs) >= 4 {
					t.Skip("enough subscribers")
				}
				subscribe(t)
			},
			"close": func(t *rapid.T) {
				if len(h.subs) == 0 {
					t.Skip("no subscriber")
				}
				do(h.opClose(rapid.IntRange(0, len(h.subs)-1).Draw(t, "i")))
			},
			"listen": func(t *rapid.T) {
				if len(h.subs) == 0 {
					t.Skip("no subscriber")
				}
				i := rapid.IntRange(0, len(h.subs)-1).Draw(t, "i")
				if len(h.subs[i].listeners) >= 3 {
					t.Skip("enough listeners")
				}
				do(h.opListen(i))
			},
			"publish": func(t *rapid.T) {
				if len(h.pubs) >= 3 {
					t.Skip("enough publishers")
				}
				id := int64(rapid.IntRange(0, 2).Draw(t, "id"))
				do(h.opPublish(id, rapid.SampledFrom(c13Vals).Draw(t, "v")))
			},
			"unpublish": func(t *rapid.T) {
				if len(h.pubs) == 0 {
					t.Skip("no publisher")
				}
				do(h.opUnpublish(rapid.IntRange(0, len(h.pubs)-1).Draw(t, "i")))
			},
		})
		// final convergence: deliver whatever is pending and compare with etcd itself
		do(h.opSync(0))
		if msg := h.converged(); msg != "" {
			t.Fatalf("%s\nhistory: %s", msg, h.log.String())
		}
		undetermined := 0
		for _, s := range h.subs {
			undetermined += s.undetermined
		}
		if undetermined > 0 {
			st.Class("exclusive-undetermined-after-reload")
		}
		if h.reloads > 0 {
			st.Class("with-reload")
		}
		if h.replays > 0 {
			st.Class("with-replayed-events")
		}
		if h.revoked > 0 {
			st.Class("with-publisher-stop")
		}
		if h.nsub > 1 {
			st.Class("several-subscribers")
		}
		if h.reputShape > 0 {
			st.Class("excl-reput-older-key-then-delete-newer")
		}
		if concurrent {
			for _, s := range h.subs {
				s.haltReaders()
				if msg := s.rd.judge(); msg != "" {
					t.Fatalf("subscriber %s: %s\nhistory: %s", s.name, msg, h.log.String())
				}
				h.judged += s.rd.judged
			}
			st.ClassN("reader-samples-judged", h.judged)
		}
		if h.inPlace > 0 {
			st.Class("with-value-change")
			st.NonTrivial(h.log.String())
		}
	}
}

func sortedRangeIDs(m map[string][]VerifEvent) []string {
	out := make([]string, 0, len(m))
	for r := range m {
		out = append(out, r)
	}
	sort.Strings(out)
	return out
}

// ------------------------------------------------------------------ regressions (D4, whole pipeline)

type c13Step func(h *pipeHarness) (string, error)

func runPipelineScript(t *testing.T, steps ...c13Step) {
	t.Helper()
	logx.Disable()
	h := newPipeHarness()
	defer h.cleanup()
	for _, s := range steps {
		msg, err := s(h)
		if errors.Is(err, ErrVerifWatchdog) {
			t.Skipf("watchdog expired (inconclusive): %s", h.log.String())
		}
		if err != nil {
			t.Fatalf("harness: %v\nhistory: %s", err, h.log.String())
		}
		if msg != "" {
			t.Fatalf("%s\nhistory: %s", msg, h.log.String())
		}
	}
	if msg := h.converged(); msg != "" {
		t.Fatalf("%s\nhistory: %s", msg, h.log.String())
	}
}

// A service instance re-registers under its fixed id with a new address (Publisher
// WithId): the watch delivers a PUT on a live key.  The old address must leave Values().
func TestVerifC13RegressD4PipelineRepublish(t *testing.T) {
	runPipelineScript(t,
		func(h *pipeHarness) (string, error) { return h.opSubscribe(false, false, 1) },
		func(h *pipeHarness) (string, error) { return h.opPublish(1, "v0") },
		func(h *pipeHarness) (string, error) { return h.opSync(0) },
		func(h *pipeHarness) (string, error) { return h.opPublish(1, "v1") },
		func(h *pipeHarness) (string, error) { return h.opSync(0) },
	)
}

// The value of a key changes while the watch is behind a compaction: the reload diff
// announces the new pair first and the old pair as removed afterwards.
func TestVerifC13RegressD4PipelineReloadChangesValue(t *testing.T) {
	runPipelineScript(t,
		func(h *pipeHarness) (string, error) { return h.opPut("B/k0", "v0") },
		func(h *pipeHarness) (string, error) { return h.opSubscribe(false, false, 1) },
		func(h *pipeHarness) (string, error) { return h.opPut("B/k0", "v1") },
		func(h *pipeHarness) (string, error) { return h.opCompact(false) },
	)
}

// Same through the reload that follows a reconnect.
func TestVerifC13RegressD4PipelineReconnectChangesValue(t *testing.T) {
	runPipelineScript(t,
		func(h *pipeHarness) (string, error) { return h.opPut("B/k0", "v0") },
		func(h *pipeHarness) (string, error) { return h.opSubscribe(false, true, 0) },
		func(h *pipeHarness) (string, error) { return h.opPut("B/k0", "v1") },
		func(h *pipeHarness) (string, error) { return h.opReconnect() },
	)
}

// Exclusive subscriber, two keys carry one value, the older key registers again with the
// same value (no delete in between), then the newer key goes away: the value must stay,
// its most recently registered key is still registered ("re-registration counts as
// registering").  Shared subscriber as control.  (Seed C13c: a registry that drops
// "redundant" PUT events.)
func TestVerifC13RegressExclusiveReRegistrationCounts(t *testing.T) {
	for _, excl := range []bool{true, false} {
		excl := excl
		runPipelineScript(t,
			func(h *pipeHarness) (string, error) { return h.opSubscribe(false, excl, 1) },
			func(h *pipeHarness) (string, error) { return h.opPut("B/k0", "v0") },
			func(h *pipeHarness) (string, error) { return h.opPut("B/k1", "v0") },
			func(h *pipeHarness) (string, error) { return h.opSync(1) },
			func(h *pipeHarness) (string, error) { return h.opPut("B/k0", "v0") },
			func(h *pipeHarness) (string, error) { return h.opSync(1) },
			func(h *pipeHarness) (string, error) { return h.opDel("B/k1") },
			func(h *pipeHarness) (string, error) { return h.opSync(1) },
			func(h *pipeHarness) (string, error) {
				if got := h.subs[0].values(); len(got) != 1 || got[0] != "v0" {
					return fmt.Sprintf("Values()=%v, want [v0]: B/k0 is registered with v0 and is its most recent registrant", got), nil
				}
				return "", nil
			},
		)
	}
}

// The same through a fixed-id Publisher coming back (KeepAlive again under the same id).
func TestVerifC13RegressExclusiveRepublishSameValue(t *testing.T) {
	runPipelineScript(t,
		func(h *pipeHarness) (string, error) { return h.opSubscribe(false, true, 1) },
		func(h *pipeHarness) (string, error) { return h.opPublish(1, "v0") },
		func(h *pipeHarness) (string, error) { return h.opPublish(2, "v0") },
		func(h *pipeHarness) (string, error) { return h.opSync(0) },
		func(h *pipeHarness) (string, error) { return h.opPublish(1, "v0") },
		func(h *pipeHarness) (string, error) { return h.opSync(0) },
		func(h *pipeHarness) (string, error) { return h.opUnpublish(1) }, // the id-2 publisher leaves
		func(h *pipeHarness) (string, error) { return h.opSync(0) },
		func(h *pipeHarness) (string, error) {
			if got := h.subs[0].values(); len(got) != 1 || got[0] != "v0" {
				return fmt.Sprintf("Values()=%v, want [v0]", got), nil
			}
			return "", nil
		},
	)
}

// ------------------------------------------------------------------ observation (not part of any unit)

// TestVerifC13ObserveReloadDeadlock demonstrates a schedule-dependent defect met while
// building this check; C13 quantifies over histories, not schedules, so no unit runs it
// (set VERIF_C13_DEMO=reload-deadlock and -test.run it by name).
//
// cluster.reload (started by the connection-state watcher after a reconnect) takes the
// cluster lock and, holding it, waits for the watch goroutines to leave.  A watch
// goroutine that has just received a response needs that lock in handleWatchEvents (once
// per response and once per event), so if the reload begins while a response is being
// handled both wait for each other forever: the subscribers of that cluster never see
// another change.  The listener gate below only makes the interleaving deterministic.
func TestVerifC13ObserveReloadDeadlock(t *testing.T) {
	if os.Getenv("VERIF_C13_DEMO") != "reload-deadlock" {
		t.Skip("demonstration only")
	}
	logx.Disable()
	h := newPipeHarness()
	if msg, err := h.opSubscribe(false, false, 0); msg != "" || err != nil {
		t.Fatal(msg, err)
	}
	entered, gate := make(chan struct{}), make(chan struct{})
	first := true
	h.subs[0].sub.AddListener(func() {
		if first {
			first = false
			close(entered)
			<-gate
		}
	})
	h.etcd.Put(h.names["B/k0"], "v0")
	h.etcd.Put(h.names["B/k1"], "v1")
	go h.etcd.Sync(0) // one response carrying both events
	<-entered         // the watch goroutine is between the two events, in the listener
	done := make(chan struct{})
	go func() {
		h.etcd.reloadOnly()
		close(done)
	}()
	time.Sleep(300 * time.Millisecond) // let reload take the cluster lock
	close(gate)
	select {
	case <-done:
		t.Log("reload returned: no deadlock on this tree")
	case <-time.After(5 * time.Second):
		t.Fatalf("cluster.reload and the watch goroutine wait for each other (reload holds the cluster lock and " +
			"waits for the watchers; handleWatchEvents needs the lock for the second event)")
	}
}
