//go:build verif

package discov

// C13 unit (b): the whole discovery pipeline — Publisher / Subscriber / registry /
// watch loop / container — against the fake etcd of c13_fake.go.
//
// The history is a sequence of registry events on one fake cluster: keys put, updated to
// another value, deleted (directly or through Publisher.KeepAlive / Stop), delivery of
// the pending watch events (in responses of 1, 2 or all events), compaction (streams
// that lost events are cancelled with ErrCompacted and reload), stream breaks (the watch
// restarts from the revision of its last load, so the log since then is replayed), the
// reload after a reconnect, and subscribers (prefix or exact match, exclusive or not)
// coming and going, several of them sharing one watcher.
//
// Oracle: per subscriber a regModel that is advanced only by what etcd has handed to that
// subscriber's watcher (delivered events in revision order, reload snapshots); after
// every event Values() must agree with it and the listener clause must hold.

import (
	"errors"
	"fmt"
	"sort"
	"strings"
	"sync/atomic"
	"testing"

	"github.com/zeromicro/go-zero/core/logx"
	"github.com/zeromicro/go-zero/internal/verifkit"
	"pgregory.net/rapid"
)

var c13CaseNo int64

type pipeSub struct {
	name    string
	sub     *Subscriber
	rangeID string
	viewChecker
}

type pipePub struct {
	pub *Publisher
	key string
}

type pipeHarness struct {
	etcd  *VerifEtcd
	base  string            // the subscribed key of this case (unique)
	names map[string]string // symbolic key name -> real key
	syms  []string
	subs  []*pipeSub // open subscribers
	pubs  []*pipePub // running publishers
	// per range: what etcd has handed to the watcher so far, and up to which revision
	told    map[string]map[string]string
	applied map[string]int64
	log     strings.Builder
	nsub    int
	inPlace int
	reloads int
	replays int
	revoked int
}

func newPipeHarness() *pipeHarness {
	n := atomic.AddInt64(&c13CaseNo, 1)
	h := &pipeHarness{
		base:    fmt.Sprintf("c13svc%d", n),
		names:   map[string]string{},
		told:    map[string]map[string]string{},
		applied: map[string]int64{},
	}
	// deliberately unsorted: the registry sorts endpoints to build the cluster key
	h.etcd = VerifNewEtcd([]string{fmt.Sprintf("c13-%d-b:2379", n), fmt.Sprintf("c13-%d-a:2379", n)})
	add := func(sym, real string) {
		h.names[sym] = real
		h.syms = append(h.syms, sym)
	}
	for _, k := range c13Keys {
		add("B/"+k, h.base+"/"+k)
	}
	add("B", h.base)                      // the exact key: outside the prefix range
	add("Bx/k0", h.base+"x/k0")           // shares the text of the prefix, not the delimiter
	add("B/k0/sub", h.base+"/k0/sub")     // nested under the prefix
	add("other/k0", fmt.Sprintf("c13other%d/k0", n))
	return h
}

func (h *pipeHarness) sym(real string) string {
	for s, r := range h.names {
		if r == real {
			return s
		}
	}
	return strings.Replace(real, h.base, "B", 1)
}

func (h *pipeHarness) symKVs(m map[string]string) string {
	var parts []string
	for k, v := range m {
		parts = append(parts, h.sym(k)+"="+v)
	}
	sort.Strings(parts)
	return "{" + strings.Join(parts, " ") + "}"
}

func (h *pipeHarness) subsOn(rangeID string) []*pipeSub {
	var out []*pipeSub
	for _, s := range h.subs {
		if s.rangeID == rangeID {
			out = append(out, s)
		}
	}
	return out
}

// step runs one event and checks every open subscriber afterwards.
func (h *pipeHarness) step(apply func() error) (string, error) {
	befores := make([]viewBefore, len(h.subs))
	subs := append([]*pipeSub(nil), h.subs...)
	for i, s := range subs {
		befores[i] = s.before()
	}
	if err := apply(); err != nil {
		return "", err
	}
	for i, s := range subs {
		if msg := s.after(befores[i]); msg != "" {
			return fmt.Sprintf("subscriber %s: %s", s.name, msg), nil
		}
	}
	// subscribers opened by this very event
	first := len(subs)
	if first > len(h.subs) {
		first = len(h.subs)
	}
	for _, s := range h.subs[first:] {
		if msg := s.m.verdict(s.values()); msg != "" {
			return fmt.Sprintf("new subscriber %s: %s: Values()=%v, registry %s", s.name, msg, sortedCopy(s.values()), s.m), nil
		}
		s.m.settle(setOf(s.values()))
	}
	return "", nil
}

// deliver advances the models of range r by the events etcd handed out.
func (h *pipeHarness) deliver(r string, evs []VerifEvent) {
	for _, ev := range evs {
		if ev.Rev <= h.applied[r] {
			h.replays++
			continue // a replayed event: the subscriber has been told already
		}
		told := h.told[r]
		if ev.Delete {
			delete(told, ev.Key)
		} else {
			if old, ok := told[ev.Key]; ok && old != ev.Val {
				h.inPlace++
			}
			told[ev.Key] = ev.Val
		}
		for _, s := range h.subsOn(r) {
			if ev.Delete {
				s.m.unregister(ev.Key)
			} else {
				s.m.register(ev.Key, ev.Val)
			}
		}
	}
	if n := len(evs); n > 0 && evs[n-1].Rev > h.applied[r] {
		h.applied[r] = evs[n-1].Rev
	}
}

// reloaded: the watcher of range r has loaded the range anew.
func (h *pipeHarness) reloaded(r string) {
	snap := h.etcd.InRange(r)
	for k, v := range snap {
		if old, ok := h.told[r][k]; ok && old != v {
			h.inPlace++
		}
	}
	h.told[r] = snap
	h.applied[r] = h.etcd.Rev()
	h.reloads++
	for _, s := range h.subsOn(r) {
		applyReloadToModel(s.m, snap)
	}
}

func (h *pipeHarness) subscribe(exact, excl bool, nListeners int) error {
	key := h.base
	r := VerifRangeID(key, exact)
	shared := len(h.subsOn(r)) > 0
	var opts []SubOption
	if exact {
		opts = append(opts, WithExactMatch())
	}
	if excl {
		opts = append(opts, Exclusive())
	}
	before := h.etcd.WatchCount(r)
	sub, err := NewSubscriber(h.etcd.Endpoints(), key, opts...)
	if err != nil {
		return fmt.Errorf("NewSubscriber: %w", err)
	}
	h.nsub++
	s := &pipeSub{name: fmt.Sprintf("s%d(exact=%v,excl=%v)", h.nsub, exact, excl), sub: sub, rangeID: r}
	s.viewChecker = viewChecker{m: newRegModel(excl), values: sub.Values}
	if shared {
		// joins a running watcher: it is told what the watcher has been told so far
		applyReloadToModel(s.m, h.told[r])
	} else {
		snap := h.etcd.InRange(r)
		h.told[r] = snap
		h.applied[r] = h.etcd.Rev()
		applyReloadToModel(s.m, snap)
		if err := h.etcd.WaitWatchCount(r, before+1); err != nil {
			return err
		}
	}
	for i := 0; i < nListeners; i++ {
		sub.AddListener(s.newListener())
	}
	h.subs = append(h.subs, s)
	return nil
}

func (h *pipeHarness) closeSub(i int) {
	s := h.subs[i]
	s.sub.Close()
	h.subs = append(h.subs[:i], h.subs[i+1:]...)
	if len(h.subsOn(s.rangeID)) == 0 {
		delete(h.told, s.rangeID)
		delete(h.applied, s.rangeID)
	}
}

func (h *pipeHarness) cleanup() {
	for len(h.subs) > 0 {
		h.closeSub(0)
	}
	for _, p := range h.pubs {
		p.pub.Stop()
	}
	h.etcd.VerifForget()
}

func TestVerifC13Pipeline(t *testing.T) {
	logx.Disable()
	st := verifkit.New("pipeline")
	defer st.Flush()
	rapid.Check(t, func(t *rapid.T) {
		st.Eval()
		h := newPipeHarness()
		defer h.cleanup()
		inconclusive := false
		run := func(what string, apply func() error) {
			fmt.Fprintf(&h.log, " %s", what)
			msg, err := h.step(apply)
			if errors.Is(err, ErrVerifWatchdog) {
				inconclusive = true
				st.Note("watchdog expired during %q; case abandoned (inconclusive)", what)
				t.Skip("watchdog")
			}
			if err != nil {
				t.Fatalf("harness: %v\nhistory: %s", err, h.log.String())
			}
			if msg != "" {
				t.Fatalf("%s\nhistory: %s", msg, h.log.String())
			}
		}
		// registrations that exist before anybody subscribes
		for i, n := 0, rapid.IntRange(0, 3).Draw(t, "initial"); i < n; i++ {
			k := rapid.SampledFrom(h.syms).Draw(t, "k")
			v := rapid.SampledFrom(c13Vals).Draw(t, "v")
			h.etcd.Put(h.names[k], v)
			fmt.Fprintf(&h.log, " init(%s=%s)", k, v)
		}
		subscribe := func(t *rapid.T) {
			exact := rapid.IntRange(0, 4).Draw(t, "exact") == 0
			excl := rapid.Bool().Draw(t, "exclusive")
			nl := rapid.IntRange(0, 2).Draw(t, "listeners")
			run(fmt.Sprintf("subscribe(exact=%v,excl=%v,listeners=%d)", exact, excl, nl), func() error {
				return h.subscribe(exact, excl, nl)
			})
		}
		subscribe(t)
		reloadedAll := func(rs []string) {
			for _, r := range rs {
				h.reloaded(r) // a range that reloaded twice is simply reloaded twice
			}
		}
		t.Repeat(map[string]func(*rapid.T){
			"put": func(t *rapid.T) {
				k := rapid.SampledFrom(h.syms).Draw(t, "k")
				v := rapid.SampledFrom(c13Vals).Draw(t, "v")
				run(fmt.Sprintf("put(%s=%s)", k, v), func() error { h.etcd.Put(h.names[k], v); return nil })
			},
			"update": func(t *rapid.T) {
				data := h.etcd.Data()
				live := sortedKeys(data)
				if len(live) == 0 {
					t.Skip("nothing registered")
				}
				k := rapid.SampledFrom(live).Draw(t, "k")
				var others []string
				for _, v := range c13Vals {
					if v != data[k] {
						others = append(others, v)
					}
				}
				v := rapid.SampledFrom(others).Draw(t, "v")
				run(fmt.Sprintf("put(%s=%s)", h.sym(k), v), func() error { h.etcd.Put(k, v); return nil })
			},
			"del": func(t *rapid.T) {
				k := rapid.SampledFrom(h.syms).Draw(t, "k")
				run(fmt.Sprintf("del(%s)", k), func() error { h.etcd.Delete(h.names[k]); return nil })
			},
			"sync": func(t *rapid.T) {
				chunk := rapid.IntRange(0, 2).Draw(t, "chunk")
				run(fmt.Sprintf("sync(%d)", chunk), func() error {
					got, err := h.etcd.Sync(chunk)
					for _, r := range sortedRangeIDs(got) {
						h.deliver(r, got[r])
					}
					return err
				})
			},
			"compact": func(t *rapid.T) {
				all := rapid.Bool().Draw(t, "all")
				run(fmt.Sprintf("compact(all=%v)", all), func() error {
					rs, err := h.etcd.Compact(all)
					reloadedAll(rs)
					return err
				})
			},
			"break": func(t *rapid.T) {
				closeChan := rapid.Bool().Draw(t, "close")
				run(fmt.Sprintf("break(close=%v)", closeChan), func() error {
					rs, err := h.etcd.Break(closeChan)
					reloadedAll(rs)
					return err
				})
			},
			"reconnect": func(t *rapid.T) {
				run("reconnect", func() error {
					rs, err := h.etcd.Reconnect()
					reloadedAll(rs)
					return err
				})
			},
			"subscribe": func(t *rapid.T) {
				if len(h.subs) >= 4 {
					t.Skip("enough subscribers")
				}
				subscribe(t)
			},
			"close": func(t *rapid.T) {
				if len(h.subs) == 0 {
					t.Skip("no subscriber")
				}
				i := rapid.IntRange(0, len(h.subs)-1).Draw(t, "i")
				run("close("+h.subs[i].name+")", func() error { h.closeSub(i); return nil })
			},
			"listen": func(t *rapid.T) {
				if len(h.subs) == 0 {
					t.Skip("no subscriber")
				}
				s := h.subs[rapid.IntRange(0, len(h.subs)-1).Draw(t, "i")]
				if len(s.listeners) >= 3 {
					t.Skip("enough listeners")
				}
				run("listen("+s.name+")", func() error { s.sub.AddListener(s.newListener()); return nil })
			},
			"publish": func(t *rapid.T) {
				if len(h.pubs) >= 3 {
					t.Skip("enough publishers")
				}
				id := int64(rapid.IntRange(0, 2).Draw(t, "id")) // 0: key named after the lease
				v := rapid.SampledFrom(c13Vals).Draw(t, "v")
				run(fmt.Sprintf("publish(id=%d,%s)", id, v), func() error {
					var opts []PubOption
					if id > 0 {
						opts = append(opts, WithId(id))
					}
					_, putsBefore, _ := h.etcd.Counters()
					p := NewPublisher(h.etcd.Endpoints(), h.base, v, opts...)
					if err := p.KeepAlive(); err != nil {
						return fmt.Errorf("KeepAlive: %w", err)
					}
					if _, puts, _ := h.etcd.Counters(); puts != putsBefore+1 {
						return fmt.Errorf("KeepAlive returned but etcd saw %d puts", puts-putsBefore)
					}
					h.pubs = append(h.pubs, &pipePub{pub: p})
					return nil
				})
			},
			"unpublish": func(t *rapid.T) {
				if len(h.pubs) == 0 {
					t.Skip("no publisher")
				}
				i := rapid.IntRange(0, len(h.pubs)-1).Draw(t, "i")
				run(fmt.Sprintf("unpublish(%d)", i), func() error {
					h.pubs[i].pub.Stop()
					h.pubs = append(h.pubs[:i], h.pubs[i+1:]...)
					h.revoked++
					return h.etcd.WaitRevokes(h.revoked)
				})
			},
		})
		// final convergence: deliver whatever is pending and compare with etcd itself
		run("sync(0)", func() error {
			got, err := h.etcd.Sync(0)
			for _, r := range sortedRangeIDs(got) {
				h.deliver(r, got[r])
			}
			return err
		})
		for _, s := range h.subs {
			if !s.m.excl {
				want := map[string]bool{}
				for _, v := range h.etcd.InRange(s.rangeID) {
					want[v] = true
				}
				if got := setOf(s.values()); !sameSet(got, want) {
					t.Fatalf("subscriber %s: after everything was delivered Values()=%v but etcd holds %s\nhistory: %s",
						s.name, setList(got), h.symKVs(h.etcd.InRange(s.rangeID)), h.log.String())
				}
			}
		}
		if inconclusive {
			return
		}
		if h.reloads > 0 {
			st.Class("with-reload")
		}
		if h.replays > 0 {
			st.Class("with-replayed-events")
		}
		if h.revoked > 0 {
			st.Class("with-publisher-stop")
		}
		if h.nsub > 1 {
			st.Class("several-subscribers")
		}
		if h.inPlace > 0 {
			st.Class("with-value-change")
			st.NonTrivial(h.log.String())
		}
	})
}

func sortedRangeIDs(m map[string][]VerifEvent) []string {
	out := make([]string, 0, len(m))
	for r := range m {
		out = append(out, r)
	}
	sort.Strings(out)
	return out
}
