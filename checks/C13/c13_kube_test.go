//go:build verif

package kube

// C13 unit (d): the Kubernetes endpoints handler.
//
// Clause: "The Kubernetes endpoints handler likewise always publishes exactly the current
// endpoint addresses."
//
// Domain: the events an informer delivers for the one Endpoints object the resolver
// watches (kubebuilder selects it by name): the object appears (OnAdd), changes
// (OnUpdate with a new resourceVersion), is resynced (OnUpdate with the same
// resourceVersion and therefore the same content), disappears (OnDelete with the last
// known state), appears again; optionally preceded by the Update(obj) call the builder
// makes with the object it fetched itself, which the informer then lists again.  Objects
// have several subsets and repeated IPs.  Things that are not *v1.Endpoints are thrown in
// and must be ignored.
//
// Oracle: after every event the list handed to the update callback most recently (none
// yet = empty) is, as a set, the address set of the object as it currently exists.
//
// Not asserted by default (see check.json "assumptions"): an informer list that is newer
// than the builder's own Get (VERIF_C13_KUBE_LIST_NEWER=1) and deletes delivered as
// cache.DeletedFinalStateUnknown tombstones (VERIF_C13_KUBE_TOMBSTONE=1).

import (
	"fmt"
	"os"
	"sort"
	"strings"
	"testing"

	"github.com/zeromicro/go-zero/core/logx"
	"github.com/zeromicro/go-zero/internal/verifkit"
	v1 "k8s.io/api/core/v1"
	metav1 "k8s.io/apimachinery/pkg/apis/meta/v1"
	"k8s.io/client-go/tools/cache"
	"pgregory.net/rapid"
)

var c13IPs = []string{"10.0.0.1", "10.0.0.2", "10.0.0.3", "10.0.0.4", "10.0.0.5", "10.0.0.6", "10.0.0.7", "10.0.0.8"}

type kubeHarness struct {
	h         *EventHandler
	published [][]string
	present   bool
	cur       *v1.Endpoints
	rv        int
	log       strings.Builder
	multi     bool // some object had more than one subset or a repeated IP
	changes   int  // events that changed the address set
}

func newKubeHarness() *kubeHarness {
	k := &kubeHarness{}
	k.h = NewEventHandler(func(addrs []string) {
		k.published = append(k.published, append([]string(nil), addrs...))
	})
	return k
}

func ipSet(e *v1.Endpoints) map[string]bool {
	s := map[string]bool{}
	if e == nil {
		return s
	}
	for _, sub := range e.Subsets {
		for _, a := range sub.Addresses {
			s[a.IP] = true
		}
	}
	return s
}

func setString(s map[string]bool) string {
	out := make([]string, 0, len(s))
	for k := range s {
		out = append(out, strings.TrimPrefix(k, "10.0.0."))
	}
	sort.Strings(out)
	return "{" + strings.Join(out, ",") + "}"
}

func render(e *v1.Endpoints) string {
	var subs []string
	for _, sub := range e.Subsets {
		var ips []string
		for _, a := range sub.Addresses {
			ips = append(ips, strings.TrimPrefix(a.IP, "10.0.0."))
		}
		subs = append(subs, "["+strings.Join(ips, ",")+"]")
	}
	return fmt.Sprintf("rv%s%s", e.ResourceVersion, strings.Join(subs, ""))
}

func (k *kubeHarness) newObject(t *rapid.T, label string) *v1.Endpoints {
	k.rv++
	e := &v1.Endpoints{ObjectMeta: metav1.ObjectMeta{Name: "svc", Namespace: "ns", ResourceVersion: fmt.Sprint(k.rv)}}
	seen := map[string]bool{}
	for i, n := 0, rapid.IntRange(0, 3).Draw(t, label+"-subsets"); i < n; i++ {
		var sub v1.EndpointSubset
		for j, m := 0, rapid.IntRange(0, 4).Draw(t, label+"-addrs"); j < m; j++ {
			ip := rapid.SampledFrom(c13IPs).Draw(t, label+"-ip")
			if seen[ip] {
				k.multi = true
			}
			seen[ip] = true
			sub.Addresses = append(sub.Addresses, v1.EndpointAddress{IP: ip})
		}
		sub.Ports = []v1.EndpointPort{{Port: 8080}}
		e.Subsets = append(e.Subsets, sub)
	}
	if len(e.Subsets) > 1 {
		k.multi = true
	}
	return e
}

// check: the last published list is the current address set.
func (k *kubeHarness) check() string {
	want := map[string]bool{}
	if k.present {
		want = ipSet(k.cur)
	}
	got := map[string]bool{}
	if n := len(k.published); n > 0 {
		for _, ip := range k.published[n-1] {
			got[ip] = true
		}
	}
	if len(got) != len(want) {
		return fmt.Sprintf("published %s, current endpoint addresses %s", setString(got), setString(want))
	}
	for ip := range want {
		if !got[ip] {
			return fmt.Sprintf("published %s, current endpoint addresses %s", setString(got), setString(want))
		}
	}
	return ""
}

func (k *kubeHarness) event(what string, want map[string]bool, apply func()) string {
	before := map[string]bool{}
	if k.present {
		before = ipSet(k.cur)
	}
	fmt.Fprintf(&k.log, " %s", what)
	apply()
	if setString(before) != setString(want) {
		k.changes++
	}
	return k.check()
}

func TestVerifC13Kube(t *testing.T) {
	logx.Disable()
	st := verifkit.New("kube")
	defer st.Flush()
	listNewer := os.Getenv("VERIF_C13_KUBE_LIST_NEWER") != ""
	tombstones := os.Getenv("VERIF_C13_KUBE_TOMBSTONE") != ""
	rapid.Check(t, func(t *rapid.T) {
		st.Eval()
		k := newKubeHarness()
		fail := func(msg string) {
			if msg != "" {
				t.Fatalf("%s\nhistory:%s", msg, k.log.String())
			}
		}
		// the builder's own Get + Update, then the informer lists the object
		if rapid.Bool().Draw(t, "builderGet") {
			e := k.newObject(t, "get")
			fail(k.event("Update("+render(e)+")", ipSet(e), func() {
				k.h.Update(e)
				k.present, k.cur = true, e
			}))
			listed := e
			if listNewer && rapid.Bool().Draw(t, "listNewer") {
				listed = k.newObject(t, "list")
			}
			fail(k.event("OnAdd("+render(listed)+")", ipSet(listed), func() {
				k.h.OnAdd(listed, true)
				k.cur = listed
			}))
		}
		t.Repeat(map[string]func(*rapid.T){
			"add": func(t *rapid.T) {
				if k.present {
					t.Skip("object exists")
				}
				e := k.newObject(t, "add")
				fail(k.event("OnAdd("+render(e)+")", ipSet(e), func() {
					k.h.OnAdd(e, rapid.Bool().Draw(t, "initialList"))
					k.present, k.cur = true, e
				}))
			},
			"update": func(t *rapid.T) {
				if !k.present {
					t.Skip("no object")
				}
				e := k.newObject(t, "upd")
				old := k.cur
				fail(k.event("OnUpdate("+render(old)+"->"+render(e)+")", ipSet(e), func() {
					k.h.OnUpdate(old, e)
					k.cur = e
				}))
			},
			"resync": func(t *rapid.T) { // same resourceVersion, same content
				if !k.present {
					t.Skip("no object")
				}
				same := k.cur.DeepCopy()
				fail(k.event("OnUpdate(resync "+render(same)+")", ipSet(same), func() {
					k.h.OnUpdate(k.cur, same)
					k.cur = same
				}))
			},
			"delete": func(t *rapid.T) {
				if !k.present {
					t.Skip("no object")
				}
				old := k.cur
				if tombstones && rapid.Bool().Draw(t, "tombstone") {
					fail(k.event("OnDelete(tombstone "+render(old)+")", map[string]bool{}, func() {
						k.h.OnDelete(cache.DeletedFinalStateUnknown{Key: "ns/svc", Obj: old})
						k.present = false
					}))
					return
				}
				fail(k.event("OnDelete("+render(old)+")", map[string]bool{}, func() {
					k.h.OnDelete(old)
					k.present = false
				}))
			},
			"junk": func(t *rapid.T) { // not an Endpoints object: must be ignored
				which := rapid.IntRange(0, 3).Draw(t, "which")
				want := map[string]bool{}
				if k.present {
					want = ipSet(k.cur)
				}
				fail(k.event(fmt.Sprintf("junk(%d)", which), want, func() {
					switch which {
					case 0:
						k.h.OnAdd("junk", false)
					case 1:
						k.h.OnDelete(&v1.Pod{})
					case 2:
						k.h.OnUpdate("junk", &v1.Endpoints{ObjectMeta: metav1.ObjectMeta{ResourceVersion: "x"}})
					default:
						k.h.OnUpdate(&v1.Endpoints{ObjectMeta: metav1.ObjectMeta{ResourceVersion: "y"}}, 42)
					}
				}))
			},
		})
		if k.multi {
			st.Class("multi-subset-or-repeated-ip")
		}
		if k.changes > 0 {
			st.Class("address-set-changed")
		}
		if k.changes >= 2 && k.multi {
			st.NonTrivial(k.log.String())
		}
	})
}
