//go:build verif

package collection_test

import (
	"errors"
	"fmt"
	"sort"
	"strings"
	"testing"
	"time"

	"github.com/zeromicro/go-zero/core/collection"
	"github.com/zeromicro/go-zero/core/logx"
	"github.com/zeromicro/go-zero/core/timex"
	"github.com/zeromicro/go-zero/internal/verifkit"
	"pgregory.net/rapid"
)

const vbase = 400 * 24 * time.Hour

func sortedKeys(m map[string]bool) []string {
	out := make([]string, 0, len(m))
	for k := range m {
		out = append(out, k)
	}
	sort.Strings(out)
	return out
}

// ---------------------------------------------------------------- RollingWindow

type rwAdd struct {
	idx int64
	v   int64
}

func TestVerifC16RollingWindow(t *testing.T) {
	logx.Disable()
	st := verifkit.New("rollingwindow")
	defer st.Flush()
	defer timex.VerifUnfreeze()
	rapid.Check(t, func(t *rapid.T) {
		st.Eval()
		size := rapid.IntRange(1, 8).Draw(t, "size")
		interval := time.Duration(rapid.SampledFrom([]int{50, 7, 250}).Draw(t, "intervalMs")) * time.Millisecond
		ignore := rapid.Bool().Draw(t, "ignoreCurrent")
		// creation instant at an arbitrary phase of the interval grid
		phase := time.Duration(rapid.Int64Range(0, int64(interval)-1).Draw(t, "phase"))
		timex.VerifFreeze(vbase + phase)
		var opts []collection.RollingWindowOption[int64, *collection.Bucket[int64]]
		if ignore {
			opts = append(opts, collection.IgnoreCurrentBucket[int64, *collection.Bucket[int64]]())
		}
		w := collection.NewRollingWindow[int64, *collection.Bucket[int64]](func() *collection.Bucket[int64] {
			return new(collection.Bucket[int64])
		}, size, interval, opts...)
		var now time.Duration // since creation
		var adds []rwAdd
		var logb strings.Builder
		fmt.Fprintf(&logb, "size=%d iv=%v ign=%v:", size, interval, ignore)
		boundary, reducedAfterBoundary := false, false
		lastAddIdx := int64(0) // bucket of the latest Add (the window only moves on Add); 0 = creation
		cls := map[string]bool{}
		check := func() {
			cur := int64(now / interval)
			// classes of this Reduce (histogram only)
			{
				span := cur - lastAddIdx
				curData, otherData, stale := false, false, false
				for _, a := range adds {
					if a.idx == cur {
						curData = true
					} else if a.idx > cur-int64(size) {
						otherData = true
					}
					if a.idx > lastAddIdx-int64(size) && a.idx <= cur-int64(size) {
						stale = true // expired by now, but no Add has reset its bucket yet
					}
				}
				switch {
				case span == 0:
					cls["reduce: no bucket passed since the latest add"] = true
					if ignore && curData {
						cls["reduce: ignoreCurrent and the current bucket holds data"] = true
						if otherData && cur >= int64(size) {
							cls["reduce: ignoreCurrent, current bucket holds data, ring already wrapped, older buckets hold data"] = true
						}
					}
				case span < int64(size):
					cls["reduce: 0 < buckets passed since the latest add < size"] = true
					if stale {
						cls["reduce: expired data not yet reset must be skipped"] = true
						if ignore {
							cls["reduce: ignoreCurrent and expired data not yet reset"] = true
						}
						if otherData {
							cls["reduce: expired unreset data next to live data"] = true
						}
					}
				default:
					cls["reduce: >= size buckets passed since the latest add"] = true
					if stale {
						cls["reduce: whole window expired but not reset"] = true
					}
				}
			}
			// expected per-bucket (sum,count) for bucket indices in the visible range
			type sc struct{ sum, cnt int64 }
			exp := map[int64]*sc{}
			for _, a := range adds {
				if a.idx <= cur-int64(size) || a.idx > cur {
					continue
				}
				if ignore && a.idx == cur {
					continue
				}
				e := exp[a.idx]
				if e == nil {
					e = &sc{}
					exp[a.idx] = e
				}
				e.sum += a.v
				e.cnt++
			}
			var want []string
			for _, e := range exp {
				want = append(want, fmt.Sprintf("%d/%d", e.sum, e.cnt))
			}
			sort.Strings(want)
			var got []string
			visited := 0
			w.Reduce(func(b *collection.Bucket[int64]) {
				visited++
				if b.Count != 0 || b.Sum != 0 {
					got = append(got, fmt.Sprintf("%d/%d", b.Sum, b.Count))
				}
			})
			sort.Strings(got)
			if strings.Join(got, ",") != strings.Join(want, ",") {
				t.Fatalf("Reduce at t=%v (bucket %d): got buckets %v, want %v; history %s", now, cur, got, want, logb.String())
			}
			if visited > size {
				t.Fatalf("Reduce visited %d buckets > size %d", visited, size)
			}
		}
		t.Repeat(map[string]func(*rapid.T){
			"add": func(t *rapid.T) {
				v := rapid.Int64Range(1, 1000).Draw(t, "v")
				w.Add(v)
				adds = append(adds, rwAdd{int64(now / interval), v})
				lastAddIdx = int64(now / interval)
				fmt.Fprintf(&logb, " add(%d)", v)
			},
			"advance": func(t *rapid.T) {
				k := rapid.SampledFrom([]int{0, 1, 1, 2, size - 1, size, size + 1, 3 * size}).Draw(t, "k")
				mode := rapid.IntRange(0, 3).Draw(t, "mode")
				var d time.Duration
				switch mode {
				case 0: // land exactly on a boundary k buckets ahead
					d = time.Duration(k)*interval - now%interval
					if d < 0 {
						d = 0
					}
					if k > 0 {
						boundary = true
					}
				case 1: // one nanosecond before that boundary
					d = time.Duration(k)*interval - now%interval - 1
					if d < 0 {
						d = 0
					}
				case 2: // one nanosecond after
					d = time.Duration(k)*interval - now%interval + 1
				default:
					d = time.Duration(rapid.Int64Range(0, int64(interval)*int64(size+2)).Draw(t, "d"))
				}
				now += d
				timex.VerifAdvance(d)
				fmt.Fprintf(&logb, " adv(%v)", d)
			},
			"reduce": func(t *rapid.T) {
				check()
				fmt.Fprintf(&logb, " reduce")
				if boundary {
					reducedAfterBoundary = true
				}
			},
			"": func(t *rapid.T) { check() },
		})
		if len(adds) > 0 {
			st.Class("with-adds")
		}
		for _, k := range sortedKeys(cls) {
			st.Class("cases with " + k)
		}
		if boundary && reducedAfterBoundary && len(adds) > 1 {
			st.NonTrivial(logb.String())
		}
	})
}

// ---------------------------------------------------------------- Cache (LRU + loader)

func TestVerifC16Cache(t *testing.T) {
	logx.Disable()
	st := verifkit.New("cache")
	defer st.Flush()
	rapid.Check(t, func(t *rapid.T) {
		st.Eval()
		limit := rapid.IntRange(0, 5).Draw(t, "limit") // 0 = unlimited
		var opts []collection.CacheOption
		if limit > 0 {
			opts = append(opts, collection.WithLimit(limit))
		}
		c, err := collection.NewCache(time.Hour, opts...)
		if err != nil {
			t.Fatal(err)
		}
		model := map[string]int{}
		var recency []string // front = most recent
		touch := func(k string) {
			for i, x := range recency {
				if x == k {
					recency = append(recency[:i], recency[i+1:]...)
					break
				}
			}
			recency = append([]string{k}, recency...)
		}
		drop := func(k string) {
			for i, x := range recency {
				if x == k {
					recency = append(recency[:i], recency[i+1:]...)
					break
				}
			}
			delete(model, k)
		}
		evictions := 0
		mset := func(k string, v int) {
			model[k] = v
			touch(k)
			if limit > 0 && len(recency) > limit {
				victim := recency[len(recency)-1]
				drop(victim)
				evictions++
			}
		}
		keyGen := rapid.SampledFrom([]string{"a", "b", "c", "d", "e", "f", "g", "h"})
		var logb strings.Builder
		fmt.Fprintf(&logb, "limit=%d:", limit)
		next := 0
		t.Repeat(map[string]func(*rapid.T){
			"set": func(t *rapid.T) {
				k := keyGen.Draw(t, "k")
				next++
				if rapid.Bool().Draw(t, "withExpire") {
					c.SetWithExpire(k, next, time.Hour+time.Duration(next)*time.Second)
				} else {
					c.Set(k, next)
				}
				mset(k, next)
				fmt.Fprintf(&logb, " set(%s)", k)
			},
			"get": func(t *rapid.T) {
				k := keyGen.Draw(t, "k")
				v, ok := c.Get(k)
				mv, mok := model[k]
				if ok != mok || (ok && v.(int) != mv) {
					t.Fatalf("Get(%s) = %v,%v want %v,%v; %s", k, v, ok, mv, mok, logb.String())
				}
				if mok {
					touch(k)
				}
				fmt.Fprintf(&logb, " get(%s)", k)
			},
			"del": func(t *rapid.T) {
				k := keyGen.Draw(t, "k")
				c.Del(k)
				drop(k)
				fmt.Fprintf(&logb, " del(%s)", k)
			},
			"take": func(t *rapid.T) {
				k := keyGen.Draw(t, "k")
				fail := rapid.Bool().Draw(t, "loaderFails")
				next++
				val := next
				calls := 0
				lerr := errors.New("loader failed")
				v, err := c.Take(k, func() (any, error) {
					calls++
					if fail {
						return nil, lerr
					}
					return val, nil
				})
				mv, mok := model[k]
				if mok {
					if calls != 0 || err != nil || v.(int) != mv {
						t.Fatalf("Take(%s) on hit: v=%v err=%v loaderCalls=%d want %v; %s", k, v, err, calls, mv, logb.String())
					}
					touch(k)
				} else {
					if calls != 1 {
						t.Fatalf("Take(%s) on miss: loader called %d times; %s", k, calls, logb.String())
					}
					if fail {
						if err != lerr || v != nil {
							t.Fatalf("Take(%s) loader error: got %v,%v; %s", k, v, err, logb.String())
						}
					} else {
						if err != nil || v.(int) != val {
							t.Fatalf("Take(%s) miss: got %v,%v want %d; %s", k, v, err, val, logb.String())
						}
						mset(k, val)
					}
				}
				fmt.Fprintf(&logb, " take(%s,fail=%v)", k, fail)
			},
			"": func(t *rapid.T) {
				// full sweep without touching recency: compare presence of all keys via a
				// non-touching path is impossible through the API, so sweep only at the end.
			},
		})
		// final sweep: every key, in least-recent-first order so that touching does not matter
		for _, k := range []string{"a", "b", "c", "d", "e", "f", "g", "h"} {
			v, ok := c.Get(k)
			mv, mok := model[k]
			if ok != mok || (ok && v.(int) != mv) {
				t.Fatalf("final Get(%s) = %v,%v want %v,%v; %s", k, v, ok, mv, mok, logb.String())
			}
		}
		if limit > 0 && len(model) > limit {
			t.Fatalf("model bug")
		}
		if evictions > 0 {
			st.Class("evicted")
			st.NonTrivial(logb.String())
		}
	})
}

// ---------------------------------------------------------------- SafeMap

func safeMapMachine(t *rapid.T, st *verifkit.Stats, bulk bool) {
	st.Eval()
	m := collection.NewSafeMap()
	model := map[int]int{}
	deletions := 0
	nextKey := 0
	var logb strings.Builder
	// classification of the history by the internal generation state (histogram only; the
	// oracle is the Go map `model`)
	cls := map[string]bool{}
	maxDel, copyThr := collection.VerifSafeMapThresholds()
	mSet := func(k, v int) {
		dO, _, lO, lN := collection.VerifSafeMapState(m)
		m.Set(k, v)
		_, _, lO2, lN2 := collection.VerifSafeMapState(m)
		switch {
		case dO > maxDel:
			cls["set goes to the new generation"] = true
			if lO2 < lO {
				cls["set moves a key from the old to the new generation"] = true
			}
		case dO == maxDel:
			cls["set with deletionOld == maxDeletion exactly"] = true
		}
		if dO <= maxDel && lN2 < lN {
			cls["set moves a key from the new to the old generation"] = true
		}
	}
	mDel := func(k int) {
		dO, dN, lO, lN := collection.VerifSafeMapState(m)
		m.Del(k)
		dO2, dN2, lO2, lN2 := collection.VerifSafeMapState(m)
		if dO2 == dO && dN2 == dN && lO2 == lO && lN2 == lN {
			return // key absent, nothing moved
		}
		inNew := dO2 != dO+1 && lO2 != lO-1 && (dN2 == dN+1 || dN2 == 0)
		if inNew && dN2 == dN+1 {
			cls["del of a key in the new generation"] = true
		}
		if lN > 0 && lN2 == 0 && dN2 == 0 && lO2 >= lO {
			// the new generation became the old one (first branch) or was folded into it (second)
			if dO >= maxDel-1 && lO <= copyThr {
				cls["generation switch with a non-empty new generation"] = true
			}
			if dN >= maxDel-1 {
				cls["new generation folded back into the old one (deletionNew reached maxDeletion)"] = true
			}
		}
		if dO2 < dO {
			cls["generation switch (deletionOld reset)"] = true
			if dO2 > 0 {
				cls["generation switch carrying over deletions of the new generation"] = true
			}
		}
	}
	probe := func() {
		_, _, lO, lN := collection.VerifSafeMapState(m)
		if lO > 0 && lN > 0 {
			cls["sweep with both generations non-empty"] = true
		}
	}
	sweep := func(full bool) {
		probe()
		if m.Size() != len(model) {
			t.Fatalf("Size=%d model=%d; %s", m.Size(), len(model), logb.String())
		}
		if !full {
			return
		}
		seen := map[int]int{}
		m.Range(func(k, v any) bool {
			if _, dup := seen[k.(int)]; dup {
				t.Fatalf("Range visited key %v twice; %s", k, logb.String())
			}
			seen[k.(int)] = v.(int)
			return true
		})
		if len(seen) != len(model) {
			t.Fatalf("Range saw %d keys, model has %d; %s", len(seen), len(model), logb.String())
		}
		for k, v := range model {
			if sv, ok := seen[k]; !ok || sv != v {
				t.Fatalf("Range: key %d -> %v,%v want %d; %s", k, sv, ok, v, logb.String())
			}
			if gv, ok := m.Get(k); !ok || gv.(int) != v {
				t.Fatalf("Get(%d) = %v,%v want %d; %s", k, gv, ok, v, logb.String())
			}
		}
	}
	keyGen := rapid.Custom(func(t *rapid.T) int {
		if nextKey == 0 || rapid.IntRange(0, 9).Draw(t, "fresh") == 0 {
			return nextKey + rapid.IntRange(0, 3).Draw(t, "off")
		}
		// existing-ish key, biased to both ends of the key space
		switch rapid.IntRange(0, 2).Draw(t, "where") {
		case 0:
			return rapid.IntRange(0, min(nextKey, 20)).Draw(t, "lowKey")
		case 1:
			return rapid.IntRange(max(0, nextKey-20), nextKey).Draw(t, "highKey")
		}
		return rapid.IntRange(0, nextKey).Draw(t, "anyKey")
	})
	val := 0
	actions := map[string]func(*rapid.T){
		"set": func(t *rapid.T) {
			k := keyGen.Draw(t, "k")
			val++
			mSet(k, val)
			model[k] = val
			if k >= nextKey {
				nextKey = k + 1
			}
			fmt.Fprintf(&logb, " set(%d)", k)
		},
		"del": func(t *rapid.T) {
			k := keyGen.Draw(t, "k")
			if _, ok := model[k]; ok {
				deletions++
			}
			mDel(k)
			delete(model, k)
			fmt.Fprintf(&logb, " del(%d)", k)
		},
		"get": func(t *rapid.T) {
			k := keyGen.Draw(t, "k")
			v, ok := m.Get(k)
			mv, mok := model[k]
			if ok != mok || (ok && v.(int) != mv) {
				t.Fatalf("Get(%d) = %v,%v want %v,%v; %s", k, v, ok, mv, mok, logb.String())
			}
		},
		"": func(t *rapid.T) { sweep(!bulk || len(model) < 200) },
	}
	if bulk {
		actions["setMany"] = func(t *rapid.T) {
			n := rapid.SampledFrom([]int{500, 999, 1000, 1500, 5000}).Draw(t, "n")
			for i := 0; i < n; i++ {
				val++
				mSet(nextKey, val)
				model[nextKey] = val
				nextKey++
			}
			fmt.Fprintf(&logb, " setMany(%d)", n)
		}
		// re-set existing keys in bulk: once deletionOld has passed maxDeletion every such Set
		// moves a key from the old to the new generation (and can take the old generation
		// below copyThreshold without a Del, so that the next Del switches generations with a
		// large new generation).  The single-key `set` action hits a surviving key too rarely
		// (measured: 1 of 60 quick cases).
		actions["resetMany"] = func(t *rapid.T) {
			n := rapid.SampledFrom([]int{1, 10, 500, 999, 1000, 1001, 2000}).Draw(t, "n")
			keys := make([]int, 0, len(model))
			for k := range model {
				keys = append(keys, k)
			}
			sort.Ints(keys)
			if rapid.Bool().Draw(t, "fromTop") {
				sort.Sort(sort.Reverse(sort.IntSlice(keys)))
			}
			if len(keys) > n {
				keys = keys[:n]
			}
			for _, k := range keys {
				val++
				mSet(k, val)
				model[k] = val
			}
			fmt.Fprintf(&logb, " resetMany(%d)", n)
		}
		actions["delMany"] = func(t *rapid.T) {
			n := rapid.SampledFrom([]int{3000, 9999, 10000, 10001, 12000}).Draw(t, "n")
			keep := rapid.SampledFrom([]int{0, 1, 999, 1000, 1001}).Draw(t, "keep")
			// delete existing keys in ascending order, keeping `keep` of them
			keys := make([]int, 0, len(model))
			for k := range model {
				keys = append(keys, k)
			}
			sort.Ints(keys)
			if rapid.Bool().Draw(t, "fromTop") {
				sort.Sort(sort.Reverse(sort.IntSlice(keys)))
			}
			done := 0
			for _, k := range keys {
				if done >= n || len(model) <= keep {
					break
				}
				mDel(k)
				delete(model, k)
				deletions++
				done++
			}
			// top up with set+del of fresh keys so the deletion counters move even when few keys exist
			for ; done < n; done++ {
				val++
				mSet(nextKey, val)
				mDel(nextKey)
				nextKey++
				deletions++
			}
			fmt.Fprintf(&logb, " delMany(%d,keep=%d)", n, keep)
		}
	}
	t.Repeat(actions)
	sweep(true)
	for _, k := range sortedKeys(cls) {
		st.Class("cases with " + k)
	}
	if bulk {
		if deletions >= 10000 {
			st.Class("migration-reached")
			st.NonTrivial(logb.String())
		}
	} else if deletions > 0 && len(model) > 0 {
		st.NonTrivial(logb.String())
	}
}

func TestVerifC16SafeMapSmall(t *testing.T) {
	st := verifkit.New("safemap-small")
	defer st.Flush()
	rapid.Check(t, func(t *rapid.T) { safeMapMachine(t, st, false) })
}

func TestVerifC16SafeMapBulk(t *testing.T) {
	st := verifkit.New("safemap-bulk")
	defer st.Flush()
	rapid.Check(t, func(t *rapid.T) { safeMapMachine(t, st, true) })
}

// ---------------------------------------------------------------- Queue

func TestVerifC16Queue(t *testing.T) {
	st := verifkit.New("queue")
	defer st.Flush()
	rapid.Check(t, func(t *rapid.T) {
		st.Eval()
		size := rapid.IntRange(1, 4).Draw(t, "size")
		q := collection.NewQueue(size)
		var model []int
		n := 0
		takes := 0
		grewWrapped := false
		capNow := size
		head, growHeadNonZero, growHeadZero := 0, 0, 0 // position of the oldest element in a ring of capNow (histogram only)
		var logb strings.Builder
		fmt.Fprintf(&logb, "size=%d:", size)
		t.Repeat(map[string]func(*rapid.T){
			"put": func(t *rapid.T) {
				n++
				if len(model) == capNow {
					if head != 0 {
						growHeadNonZero++
					} else {
						growHeadZero++
					}
					capNow += size
					head = 0
					if takes > 0 {
						grewWrapped = true
					}
				}
				q.Put(n)
				model = append(model, n)
				logb.WriteString(" put")
			},
			"take": func(t *rapid.T) {
				v, ok := q.Take()
				if len(model) == 0 {
					if ok {
						t.Fatalf("Take on empty returned %v; %s", v, logb.String())
					}
				} else {
					if !ok || v.(int) != model[0] {
						t.Fatalf("Take = %v,%v want %d; %s", v, ok, model[0], logb.String())
					}
					model = model[1:]
					takes++
					head = (head + 1) % capNow
				}
				logb.WriteString(" take")
			},
			"": func(t *rapid.T) {
				if q.Empty() != (len(model) == 0) {
					t.Fatalf("Empty=%v model len %d; %s", q.Empty(), len(model), logb.String())
				}
			},
		})
		for len(model) > 0 {
			v, ok := q.Take()
			if !ok || v.(int) != model[0] {
				t.Fatalf("drain Take = %v,%v want %d; %s", v, ok, model[0], logb.String())
			}
			model = model[1:]
		}
		if _, ok := q.Take(); ok {
			t.Fatalf("queue not empty after drain; %s", logb.String())
		}
		if grewWrapped {
			st.NonTrivial(logb.String())
		}
		if growHeadZero > 0 {
			st.Class("cases with growth while the oldest element is at position 0")
		}
		if growHeadNonZero > 0 {
			st.Class("cases with growth while the oldest element is not at position 0")
		}
		if growHeadNonZero > 1 {
			st.Class("cases with >= 2 growths while the oldest element is not at position 0")
		}
	})
}

// ---------------------------------------------------------------- Ring

func TestVerifC16Ring(t *testing.T) {
	st := verifkit.New("ring")
	defer st.Flush()
	rapid.Check(t, func(t *rapid.T) {
		st.Eval()
		n := rapid.IntRange(1, 5).Draw(t, "n")
		r := collection.NewRing(n)
		var model []int
		adds := 0
		rcls := map[string]bool{}
		check := func() {
			switch {
			case adds < n:
				rcls["take: not yet full"] = true
			case adds == n:
				rcls["take: exactly full"] = true
			case adds < 2*n:
				rcls["take: overwritten, before the first index fold"] = true
			case adds%n == 0:
				rcls["take: right after an index fold"] = true
			default:
				rcls["take: after a fold, mid revolution"] = true
			}
			got := r.Take()
			want := model
			if len(want) > n {
				want = want[len(want)-n:]
			}
			if len(got) != len(want) {
				t.Fatalf("n=%d after %d adds: Take=%v want %v", n, adds, got, want)
			}
			for i := range got {
				if got[i].(int) != want[i] {
					t.Fatalf("n=%d after %d adds: Take=%v want %v", n, adds, got, want)
				}
			}
		}
		t.Repeat(map[string]func(*rapid.T){
			"add": func(t *rapid.T) {
				k := rapid.IntRange(1, 2*n+1).Draw(t, "k")
				for i := 0; i < k; i++ {
					adds++
					r.Add(adds)
					model = append(model, adds)
				}
			},
			"": func(t *rapid.T) { check() },
		})
		if adds > 2*n {
			st.NonTrivial(fmt.Sprintf("n=%d adds=%d", n, adds))
		}
		for _, k := range sortedKeys(rcls) {
			st.Class("cases with " + k)
		}
	})
}

// ---------------------------------------------------------------- Set

func TestVerifC16Set(t *testing.T) {
	logx.Disable()
	st := verifkit.New("set")
	defer st.Flush()
	rapid.Check(t, func(t *rapid.T) {
		st.Eval()
		kind := rapid.SampledFrom([]string{"int", "int64", "uint", "uint64", "string", "mixed"}).Draw(t, "kind")
		var s *collection.Set
		if kind == "mixed" {
			s = collection.NewUnmanagedSet()
		} else {
			s = collection.NewSet()
		}
		model := map[any]bool{}
		mk := func(t *rapid.T) any {
			n := rapid.IntRange(0, 6).Draw(t, "elem")
			k := kind
			if kind == "mixed" {
				k = rapid.SampledFrom([]string{"int", "int64", "uint", "uint64", "string"}).Draw(t, "ekind")
			}
			switch k {
			case "int":
				return n
			case "int64":
				return int64(n)
			case "uint":
				return uint(n)
			case "uint64":
				return uint64(n)
			}
			return fmt.Sprint("s", n)
		}
		var logb strings.Builder
		logb.WriteString(kind + ":")
		removed := false
		t.Repeat(map[string]func(*rapid.T){
			"add": func(t *rapid.T) {
				e := mk(t)
				switch v := e.(type) {
				case int:
					if rapid.Bool().Draw(t, "typed") {
						s.AddInt(v)
					} else {
						s.Add(v)
					}
				case int64:
					s.AddInt64(v)
				case uint:
					s.AddUint(v)
				case uint64:
					s.AddUint64(v)
				case string:
					s.AddStr(v)
				}
				model[e] = true
				fmt.Fprintf(&logb, " add(%T %v)", e, e)
			},
			"remove": func(t *rapid.T) {
				e := mk(t)
				s.Remove(e)
				if model[e] {
					removed = true
				}
				delete(model, e)
				fmt.Fprintf(&logb, " rm(%T %v)", e, e)
			},
			"contains": func(t *rapid.T) {
				e := mk(t)
				if s.Contains(e) != model[e] {
					t.Fatalf("Contains(%T %v)=%v want %v; %s", e, e, s.Contains(e), model[e], logb.String())
				}
			},
			"": func(t *rapid.T) {
				if s.Count() != len(model) {
					t.Fatalf("Count=%d want %d; %s", s.Count(), len(model), logb.String())
				}
				keys := s.Keys()
				if len(keys) != len(model) {
					t.Fatalf("Keys=%v want %d keys; %s", keys, len(model), logb.String())
				}
				for _, k := range keys {
					if !model[k] {
						t.Fatalf("Keys has %T %v not in model; %s", k, k, logb.String())
					}
				}
				nInt, nI64, nU, nU64, nStr := 0, 0, 0, 0, 0
				for k := range model {
					switch k.(type) {
					case int:
						nInt++
					case int64:
						nI64++
					case uint:
						nU++
					case uint64:
						nU64++
					case string:
						nStr++
					}
				}
				if len(s.KeysInt()) != nInt || len(s.KeysInt64()) != nI64 || len(s.KeysUint()) != nU ||
					len(s.KeysUint64()) != nU64 || len(s.KeysStr()) != nStr {
					t.Fatalf("typed Keys* counts wrong; %s", logb.String())
				}
				for _, k := range s.KeysInt() {
					if !model[k] {
						t.Fatalf("KeysInt has %v; %s", k, logb.String())
					}
				}
				for _, k := range s.KeysStr() {
					if !model[k] {
						t.Fatalf("KeysStr has %v; %s", k, logb.String())
					}
				}
			},
		})
		if removed && len(model) > 0 {
			st.NonTrivial(logb.String())
		}
	})
}

// ---------------------------------------------------------------- Cache expiry (real timing wheel, 1 s ticks)

// An entry set with expiry e is still returned until floor(0.95·e/1 s)−1 s after it was set (1 s
// wheel granularity, see below) and is gone (Get misses, Take
// calls the loader) after 1.05·e plus two wheel ticks; re-setting a key restarts its expiry;
// a deleted key's timer does not remove a later entry early.  Real time: the "present" clause is
// only asserted when the measured elapsed time is safely inside the window, the "gone" clause is
// polled for 6 s beyond the bound before it is reported.
func TestVerifC16CacheExpiry(t *testing.T) {
	logx.Disable()
	st := verifkit.New("cache-expiry")
	defer st.Flush()
	rapid.Check(t, func(t *rapid.T) {
		st.Eval()
		limit := rapid.SampledFrom([]int{0, 0, 4}).Draw(t, "limit")
		var opts []collection.CacheOption
		if limit > 0 {
			opts = append(opts, collection.WithLimit(limit))
		}
		base := time.Duration(rapid.IntRange(2, 3).Draw(t, "cacheExpireS")) * time.Second
		c, err := collection.NewCache(base, opts...)
		if err != nil {
			t.Fatal(err)
		}
		type ent struct {
			key        string
			expire     time.Duration
			setAt      time.Time
			reset      bool // set again after 1 s (expiry restarts)
			delThenSet bool
		}
		n := rapid.IntRange(1, 4).Draw(t, "keys")
		var ents []*ent
		for i := 0; i < n; i++ {
			e := &ent{key: fmt.Sprintf("k%d", i)}
			e.expire = base
			if rapid.Bool().Draw(t, "ownExpire") {
				e.expire = time.Duration(rapid.IntRange(2, 4).Draw(t, "expireS")) * time.Second
			}
			e.reset = rapid.IntRange(0, 2).Draw(t, "reset") == 0
			e.delThenSet = !e.reset && rapid.IntRange(0, 3).Draw(t, "delThenSet") == 0
			ents = append(ents, e)
		}
		set := func(e *ent, v int) {
			if e.expire == base {
				c.Set(e.key, v)
			} else {
				c.SetWithExpire(e.key, v, e.expire)
			}
			e.setAt = time.Now()
		}
		for i, e := range ents {
			set(e, i)
		}
		time.Sleep(time.Second)
		for i, e := range ents {
			if e.reset {
				set(e, 100+i)
			} else if e.delThenSet {
				c.Del(e.key)
				set(e, 200+i)
			}
		}
		// "present" probes at a few instants
		var maxGone time.Time
		for _, e := range ents {
			if g := e.setAt.Add(time.Duration(float64(e.expire)*1.05) + 2*time.Second); g.After(maxGone) {
				maxGone = g
			}
		}
		for time.Now().Before(maxGone) {
			for i, e := range ents {
				el := time.Since(e.setAt)
				v, ok := c.Get(e.key)
				el2 := time.Since(e.setAt)
				// The wheel rounds the jittered delay (> 0.95·expire) down to whole 1 s ticks and
				// fires at that many ticks after the set; the first of them can follow the set at
				// once (a re-set issued just before a tick is taken), so the key is only certain
				// to be there for floor(0.95·expire/1 s) − 1 seconds (DESIGN §4 C16: "present
				// while fewer than ⌊0.95·e/1 s⌋−1 ticks elapsed").  The former bound
				// 0.95·expire − 1.1 s was stronger than that (false alarm at VERIF_SEED=5: expire
				// 2 s, re-set just before the first tick, gone 150 ms later); 100 ms margin.
				safe := (time.Duration(float64(e.expire)*0.95)/time.Second-1)*time.Second - 100*time.Millisecond
				if el2 < safe {
					want := i
					if e.reset {
						want = 100 + i
					} else if e.delThenSet {
						want = 200 + i
					}
					if !ok || v.(int) != want {
						t.Fatalf("key %s (expire %v, reset=%v delThenSet=%v) missing or stale %v after only %v (Get=%v,%v)", e.key, e.expire, e.reset, e.delThenSet, want, el, v, ok)
					}
					st.Class("present-asserted")
				}
			}
			time.Sleep(150 * time.Millisecond)
		}
		// "gone": poll up to 6 s beyond the bound
		deadline := time.Now().Add(6 * time.Second)
		for {
			left := ""
			for _, e := range ents {
				if _, ok := c.Get(e.key); ok {
					left = e.key
				}
			}
			if left == "" {
				break
			}
			if time.Now().After(deadline) {
				t.Fatalf("key %s still present %v after it was set although its expiry is at most 1.05 x its expire + 2 ticks", left, time.Since(ents[0].setAt))
			}
			time.Sleep(100 * time.Millisecond)
		}
		calls := 0
		if v, err := c.Take(ents[0].key, func() (any, error) { calls++; return -1, nil }); err != nil || calls != 1 || v.(int) != -1 {
			t.Fatalf("Take after expiry: v=%v err=%v loader calls=%d", v, err, calls)
		}
		st.NonTrivial(fmt.Sprintf("base=%v n=%d reset/del=%v", base, n, func() (s string) {
			for _, e := range ents {
				s += fmt.Sprintf("%v/%v/%v ", e.expire, e.reset, e.delThenSet)
			}
			return
		}()))
	})
}
