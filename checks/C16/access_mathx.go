//go:build verif

package mathx

// VerifSeed re-seeds the generator behind AroundDuration / AroundInt (C16 unit cache-clock:
// the cache's +-5% expiry jitter becomes reproducible; the distribution is unchanged).
func (u Unstable) VerifSeed(seed int64) {
	u.lock.Lock()
	u.r.Seed(seed)
	u.lock.Unlock()
}
