//go:build verif

package collection_test

import (
	"errors"
	"fmt"
	"strings"
	"testing"
	"time"

	"github.com/zeromicro/go-zero/core/collection"
	"github.com/zeromicro/go-zero/core/logx"
	"github.com/zeromicro/go-zero/internal/verifkit"
	"pgregory.net/rapid"
)

// Several Cache objects in one process, used with the same key strings.  Every cache is judged
// against its own map + recency model (the model of TestVerifC16Cache); operations are drawn on
// either cache, and a Take's loader may itself operate on ANOTHER cache (same key or not) — the
// usual shape of a two-level cache.  "Returns the latest value set … Take calls the loader only on
// a miss" is a statement about one cache object: what another object holds, loads or evicts is
// irrelevant to it.  A call that does not return within 10 s is a verdict (nothing here blocks).

type pairCache struct {
	name      string
	c         *collection.Cache
	limit     int
	model     map[string]int
	recency   []string // front = most recent
	evictions int
}

func (p *pairCache) touch(k string) {
	for i, x := range p.recency {
		if x == k {
			p.recency = append(p.recency[:i], p.recency[i+1:]...)
			break
		}
	}
	p.recency = append([]string{k}, p.recency...)
}

func (p *pairCache) drop(k string) {
	for i, x := range p.recency {
		if x == k {
			p.recency = append(p.recency[:i], p.recency[i+1:]...)
			break
		}
	}
	delete(p.model, k)
}

func (p *pairCache) mset(k string, v int) {
	p.model[k] = v
	p.touch(k)
	if p.limit > 0 && len(p.recency) > p.limit {
		p.drop(p.recency[len(p.recency)-1])
		p.evictions++
	}
}

func TestVerifC16CachePair(t *testing.T) {
	logx.Disable()
	st := verifkit.New("cache-pair")
	defer st.Flush()
	rapid.Check(t, func(t *rapid.T) {
		st.Eval()
		n := rapid.SampledFrom([]int{2, 2, 3}).Draw(t, "caches")
		var cs []*pairCache
		var logb strings.Builder
		for i := 0; i < n; i++ {
			limit := rapid.IntRange(0, 4).Draw(t, "limit")
			var opts []collection.CacheOption
			if limit > 0 {
				opts = append(opts, collection.WithLimit(limit))
			}
			if rapid.Bool().Draw(t, "named") {
				opts = append(opts, collection.WithName(rapid.SampledFrom([]string{"x", "y"}).Draw(t, "name")))
			}
			c, err := collection.NewCache(time.Hour, opts...)
			if err != nil {
				t.Fatal(err)
			}
			cs = append(cs, &pairCache{name: string(rune('A' + i)), c: c, limit: limit, model: map[string]int{}})
			fmt.Fprintf(&logb, "%c(limit=%d) ", 'A'+i, limit)
		}
		keyGen := rapid.SampledFrom([]string{"a", "b", "c", "d", "e"})
		next := 0
		nested := 0
		// guarded runs f under the watchdog
		guarded := func(what string, f func()) {
			done := make(chan struct{})
			go func() { defer close(done); f() }()
			select {
			case <-done:
			case <-time.After(10 * time.Second):
				t.Fatalf("C16 violated: %s did not return within 10 s (nothing in this single-goroutine history can block); history: %s", what, logb.String())
			}
		}
		var failure string
		fail := func(format string, a ...any) {
			if failure == "" {
				failure = fmt.Sprintf(format, a...)
			}
		}
		// plain operations, usable at top level and inside a loader
		var doGet, doSet, doDel func(p *pairCache, k string)
		doGet = func(p *pairCache, k string) {
			v, ok := p.c.Get(k)
			mv, mok := p.model[k]
			if ok != mok || (ok && v.(int) != mv) {
				fail("%s.Get(%s) = %v,%v want %v,%v", p.name, k, v, ok, mv, mok)
			}
			if mok {
				p.touch(k)
			}
			fmt.Fprintf(&logb, " %s.get(%s)", p.name, k)
		}
		doSet = func(p *pairCache, k string) {
			next++
			p.c.Set(k, next)
			p.mset(k, next)
			fmt.Fprintf(&logb, " %s.set(%s)", p.name, k)
		}
		doDel = func(p *pairCache, k string) {
			p.c.Del(k)
			p.drop(k)
			fmt.Fprintf(&logb, " %s.del(%s)", p.name, k)
		}
		var doTake func(t *rapid.T, p *pairCache, k string, depth int)
		doTake = func(t *rapid.T, p *pairCache, k string, depth int) {
			lfail := rapid.IntRange(0, 3).Draw(t, "loaderFails") == 0
			// what the loader does on another cache while this cache's load of k is in progress
			inner := "none"
			var other *pairCache
			var ik string
			if depth == 0 && rapid.IntRange(0, 1).Draw(t, "nested") == 0 {
				for {
					other = cs[rapid.IntRange(0, len(cs)-1).Draw(t, "other")]
					if other != p {
						break
					}
				}
				inner = rapid.SampledFrom([]string{"take", "take", "get", "set", "del"}).Draw(t, "innerOp")
				ik = k
				if rapid.IntRange(0, 3).Draw(t, "otherKey") == 0 {
					ik = keyGen.Draw(t, "ik")
				}
			}
			next++
			val := next
			calls := 0
			lerr := errors.New("loader failed")
			fmt.Fprintf(&logb, " %s.take(%s,fail=%v){", p.name, k, lfail)
			_, mokBefore := p.model[k]
			mvBefore := p.model[k]
			v, err := p.c.Take(k, func() (any, error) {
				calls++
				switch inner {
				case "take":
					nested++
					doTake(t, other, ik, depth+1)
				case "get":
					doGet(other, ik)
				case "set":
					doSet(other, ik)
				case "del":
					doDel(other, ik)
				}
				if lfail {
					return nil, lerr
				}
				return val, nil
			})
			logb.WriteString(" }")
			if mokBefore {
				if calls != 0 || err != nil || v.(int) != mvBefore {
					fail("%s.Take(%s) on a hit: v=%v err=%v loaderCalls=%d want %v without calling the loader", p.name, k, v, err, calls, mvBefore)
				}
				p.touch(k)
				return
			}
			if calls != 1 {
				fail("%s.Take(%s) on a miss: its loader was called %d times (want once)", p.name, k, calls)
				return
			}
			if lfail {
				if err != lerr || v != nil {
					fail("%s.Take(%s) with a failing loader: got %v,%v", p.name, k, v, err)
				}
				return
			}
			if err != nil || v == nil || v.(int) != val {
				fail("%s.Take(%s) on a miss: got %v,%v, its loader returned %d", p.name, k, v, err, val)
				return
			}
			p.mset(k, val)
		}
		t.Repeat(map[string]func(*rapid.T){
			"set": func(t *rapid.T) {
				p := cs[rapid.IntRange(0, len(cs)-1).Draw(t, "cache")]
				guarded("Set", func() { doSet(p, keyGen.Draw(t, "k")) })
			},
			"get": func(t *rapid.T) {
				p := cs[rapid.IntRange(0, len(cs)-1).Draw(t, "cache")]
				k := keyGen.Draw(t, "k")
				guarded("Get", func() { doGet(p, k) })
			},
			"del": func(t *rapid.T) {
				p := cs[rapid.IntRange(0, len(cs)-1).Draw(t, "cache")]
				k := keyGen.Draw(t, "k")
				guarded("Del", func() { doDel(p, k) })
			},
			"take": func(t *rapid.T) {
				p := cs[rapid.IntRange(0, len(cs)-1).Draw(t, "cache")]
				k := keyGen.Draw(t, "k")
				// the draws happen inside doTake on this goroutine's behalf: rapid.T is not used concurrently
				// (the watchdog goroutine only waits)
				guarded("Take (possibly with a loader that uses another cache)", func() { doTake(t, p, k, 0) })
			},
			"": func(t *rapid.T) {
				if failure != "" {
					t.Fatalf("C16 violated (each Cache object on its own: returns the latest value set, Take calls the loader only on a miss): %s; history: %s", failure, logb.String())
				}
			},
		})
		for _, p := range cs {
			for _, k := range []string{"a", "b", "c", "d", "e"} {
				v, ok := p.c.Get(k)
				mv, mok := p.model[k]
				if ok != mok || (ok && v.(int) != mv) {
					t.Fatalf("C16 violated: final %s.Get(%s) = %v,%v want %v,%v; history: %s", p.name, k, v, ok, mv, mok, logb.String())
				}
			}
		}
		if nested > 0 {
			st.Class("take-inside-the-loader-of-another-cache")
			st.NonTrivial(logb.String())
		}
	})
}
