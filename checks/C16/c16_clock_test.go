//go:build verif

package collection_test

// C16, unit cache-clock: the in-memory Cache on a clock the harness drives.
//
// "The in-memory Cache returns the latest value set for a key unless it was deleted, has
// expired, or was evicted" — over histories that interleave Set / SetWithExpire / Del / Get /
// Take / LRU eviction with the passage of time.  The cache's timing wheel (300 slots of 1 s)
// is driven by a timex.FakeTicker, so time is the number of Tick() calls.
//
// Oracle (written from the statement, not from the wheel).  A key set with expire d at real
// time t0 is, by the statement and the documented +-5% jitter, certainly not expired before
// t0+0.95d and certainly expired after t0+1.05d.  The wheel quantises time to 1 s ticks: if
// T ticks had happened when the key was set, tick T+k happens at a real time in
// (t0+k-1, t0+k] and everything observed after tick T+k and before tick T+k+1 is observed at
// a real time in (t0+k-1, t0+k+1).  Hence, with k = ticks elapsed since the latest set,
//
//	k+1 <= 0.95d  <=>  k <  lo := floor(0.95 d / 1 s)      the key MUST be returned (latest value)
//	k-1 >= 1.05d  <=>  k >= hi := ceil(1.05 d / 1 s) + 1   the key MUST be gone
//	lo <= k < hi                                           either; gone stays gone
//
// (The code is inside these bounds: the delay handed to the wheel is e in (0.95d, 1.05d], the
// wheel rounds it down to whole ticks, minimum 1, and fires at k = max(1, floor(e/1 s)), i.e.
// lo <= k <= hi-1; a MoveTimer with e < 1 s fires at once, k = 0, possible only when lo = 0.)
// A later Set / SetWithExpire / loading Take restarts k and d — expiry is that of the LATEST
// set.  Del => gone; LRU eviction exactly as in unit `cache`; Take calls the loader iff the
// key is gone, caches a loaded value with the cache's default expire and does not cache a
// loader error.  A value that is returned is always the latest one set.
//
// Because every key is probed after every step (in least-recently-used-first order, which
// leaves the recency order unchanged), the model is certain about presence between ticks and
// the LRU model stays deterministic in spite of the jitter.
//
// Synchronisation is schedule-free: after every operation the harness waits until the ticker
// channel is empty (the wheel loop took the tick), does a no-op RemoveTimer round trip through
// the loop (accepted only after the previous handler returned, so every `go` statement of it
// has executed) and waits until runtime.NumGoroutine() is back to the count measured with the
// cache idle (every expiry callback has ended).  The wall clock is only a watchdog; its expiry
// abandons the case as inconclusive.

import (
	"errors"
	"fmt"
	"os"
	"runtime"
	"sort"
	"strings"
	"testing"
	"time"

	"github.com/zeromicro/go-zero/core/collection"
	"github.com/zeromicro/go-zero/core/logx"
	"github.com/zeromicro/go-zero/core/timex"
	"github.com/zeromicro/go-zero/internal/verifkit"
	"pgregory.net/rapid"
)

const (
	c16cBudget  = 5 * time.Second  // watchdog of one wait; expiry = inconclusive
	c16cConfirm = 10 * time.Second // a key that must be gone is reported only if it stays for this long with no callback running
	c16cSlots   = 300              // the cache's wheel: one revolution = 300 ticks (only used to classify cases)
)

var c16cKeys = []string{"k0", "k1", "k2", "k3"}

type c16cViolation struct{ msg string }

func (v *c16cViolation) Error() string { return v.msg }

type c16cStall struct{ msg string }

func (s *c16cStall) Error() string { return "inconclusive: " + s.msg }

// c16cBounds returns lo and hi (in ticks) for an expire of d, see the derivation above.
func c16cBounds(d time.Duration) (lo, hi int) {
	lo = int((d * 95 / 100) / time.Second)
	hi = int((d*105/100+time.Second-1)/time.Second) + 1
	return
}

type c16cEnt struct {
	val   int
	setAt int // tick count when the latest set of the key was issued
	d     time.Duration
	lo    int
	hi    int
	// earlierThan > 0: this set moved the expiry of a pending key to an earlier time; the
	// superseded expiry cannot happen before absolute tick earlierThan
	earlierThan int
	after       string // how the previous generation of the key ended: "", del, evict, expiry
}

// a superseded expiry: had the timer of an earlier generation of the key been left alive, it
// would certainly have fired by absolute tick hi
type c16cGhost struct {
	kind string
	hi   int
}

type c16cGrave struct {
	how string // del | evict | expiry
	hi  int    // setAt+hi of the generation that ended
}

type c16cRun struct {
	c      *collection.Cache
	tk     timex.FakeTicker
	base   time.Duration
	limit  int
	idle   int // runtime.NumGoroutine() with this cache idle
	now    int
	next   int
	model  map[string]*c16cEnt
	rec    []string // front = most recently used
	grave  map[string]*c16cGrave
	ghosts map[string][]c16cGhost
	ops    strings.Builder // the operations (fingerprinted)
	obs    strings.Builder // operations and what was observed (failure messages)
	cls    map[string]int

	nontrivial bool
	evictions  int
	expiries   int
	lastTick   int // size of the latest tick batch
	expiredNow int // expiries observed since the latest tick batch
	stopped    bool
	probeAll   bool // probe every key after every step (always when there is no limit)
}

// ---------------------------------------------------------------- goroutine bookkeeping

var (
	c16cBase      int  // goroutines of the test process with no cache of this unit alive
	c16cLeaked    int  // stat goroutines of the caches created so far (NewCache never ends them)
	c16cConfirmed bool // a must-be-gone violation has already been confirmed with the full wait
)

func c16cPause(i int) {
	if i < 64 {
		runtime.Gosched()
	} else {
		time.Sleep(20 * time.Microsecond)
	}
}

func c16cWaitGoroutines(want int, budget time.Duration) error {
	var deadline time.Time
	for i := 0; runtime.NumGoroutine() > want; i++ {
		c16cPause(i)
		if i&255 == 255 {
			if deadline.IsZero() {
				deadline = time.Now().Add(budget)
			} else if time.Now().After(deadline) {
				return &c16cStall{fmt.Sprintf("goroutine count %d did not return to %d", runtime.NumGoroutine(), want)}
			}
		}
	}
	return nil
}

func c16cCalibrate() {
	last, same := -1, 0
	for i := 0; i < 2000 && same < 10; i++ {
		g := runtime.NumGoroutine()
		if g == last {
			same++
		} else {
			last, same = g, 0
		}
		time.Sleep(time.Millisecond)
	}
	c16cBase, c16cLeaked = last, 0
}

// ---------------------------------------------------------------- harness

func c16cNew(base time.Duration, limit int, seed int64) (*c16cRun, error) {
	want := c16cBase + c16cLeaked
	if err := c16cWaitGoroutines(want, c16cBudget); err != nil {
		// something outside this unit's control is still running: adopt the new baseline
		c16cBase = runtime.NumGoroutine() - c16cLeaked
		want = c16cBase + c16cLeaked
	}
	var opts []collection.CacheOption
	if limit > 0 {
		opts = append(opts, collection.WithLimit(limit))
	}
	opts = append(opts, collection.WithName("verif-c16-clock"))
	tk := timex.NewFakeTicker()
	c, err := collection.VerifNewCacheWithTicker(base, tk, opts...)
	if err != nil {
		return nil, &c16cViolation{fmt.Sprintf("NewCache(%v, limit %d): %v", base, limit, err)}
	}
	c16cLeaked++ // the stat loop
	collection.VerifCacheSeedJitter(c, seed)
	r := &c16cRun{c: c, tk: tk, base: base, limit: limit, idle: want + 2,
		model: map[string]*c16cEnt{}, grave: map[string]*c16cGrave{}, ghosts: map[string][]c16cGhost{}, cls: map[string]int{}}
	// stat loop + loop of the fake-ticker wheel; the loop of the wheel NewCache started ends
	if err := c16cWaitGoroutines(r.idle, c16cBudget); err != nil {
		r.close()
		return nil, err
	}
	fmt.Fprintf(&r.ops, "default=%v limit=%d:", base, limit)
	fmt.Fprintf(&r.obs, "default=%v limit=%d jitterSeed=%d:", base, limit, seed)
	return r, nil
}

func (r *c16cRun) close() error {
	if r.stopped {
		return nil
	}
	r.stopped = true
	collection.VerifCacheStop(r.c)
	if err := c16cWaitGoroutines(c16cBase+c16cLeaked, c16cBudget); err != nil {
		return err
	}
	collection.VerifCacheRelease(r.c)
	return nil
}

func (r *c16cRun) logf(format string, a ...any) {
	s := fmt.Sprintf(format, a...)
	r.ops.WriteString(s)
	r.obs.WriteString(s)
}

func (r *c16cRun) violation(format string, a ...any) error {
	return &c16cViolation{fmt.Sprintf(format, a...) + fmt.Sprintf("; at tick %d; history (with observed expiries): %s", r.now, r.obs.String())}
}

// quiesce returns when the wheel loop has handled everything issued so far and every
// goroutine it spawned has ended.
func (r *c16cRun) quiesce() error {
	var deadline time.Time
	for i := 0; len(r.tk.Chan()) != 0; i++ {
		c16cPause(i)
		if i&255 == 255 {
			if deadline.IsZero() {
				deadline = time.Now().Add(c16cBudget)
			} else if time.Now().After(deadline) {
				return &c16cStall{"tick not consumed by the wheel loop"}
			}
		}
	}
	if err := collection.VerifCacheWheelSync(r.c); err != nil {
		return r.violation("the cache's wheel stopped by itself: %v", err)
	}
	if err := c16cWaitGoroutines(r.idle, c16cBudget); err != nil {
		return err
	}
	// what the callbacks sent to the loop has been handled as well
	if err := collection.VerifCacheWheelSync(r.c); err != nil {
		return r.violation("the cache's wheel stopped by itself: %v", err)
	}
	return nil
}

func (r *c16cRun) touch(k string) {
	r.unlist(k)
	r.rec = append([]string{k}, r.rec...)
}

func (r *c16cRun) unlist(k string) {
	for i, x := range r.rec {
		if x == k {
			r.rec = append(r.rec[:i:i], r.rec[i+1:]...)
			return
		}
	}
}

// end removes the current generation of k from the model.
func (r *c16cRun) end(k, how string) {
	e := r.model[k]
	if e == nil {
		return
	}
	r.grave[k] = &c16cGrave{how: how, hi: e.setAt + e.hi}
	delete(r.model, k)
	r.unlist(k)
}

func (r *c16cRun) mset(k string, v int, d time.Duration) {
	e := &c16cEnt{val: v, setAt: r.now, d: d}
	e.lo, e.hi = c16cBounds(d)
	if prev := r.model[k]; prev != nil {
		// refresh of a pending key: the expiry of the earlier set is superseded
		r.cls["set of a pending key"]++
		r.ghosts[k] = append(r.ghosts[k], c16cGhost{"refresh-pending", prev.setAt + prev.hi})
		if r.now+e.hi <= prev.setAt+prev.lo {
			e.earlierThan = prev.setAt + prev.lo
			r.cls["set of a pending key: expiry moved earlier"]++
		} else if r.now+e.lo >= prev.setAt+prev.hi {
			r.cls["set of a pending key: expiry moved later"]++
		}
		e.after = prev.after
	} else if g := r.grave[k]; g != nil {
		e.after = g.how
		r.cls["set after "+g.how]++
		if g.how != "expiry" && g.hi > r.now {
			r.ghosts[k] = append(r.ghosts[k], c16cGhost{"refresh-after-" + g.how, g.hi})
		}
		delete(r.grave, k)
	}
	if e.lo > c16cSlots {
		r.cls["set with delay > one revolution"]++
	}
	r.model[k] = e
	r.touch(k)
	if r.limit > 0 && len(r.rec) > r.limit {
		victim := r.rec[len(r.rec)-1]
		r.end(victim, "evict")
		r.evictions++
		fmt.Fprintf(&r.obs, "[evicts %s]", victim)
	}
}

// judge compares one observation of key k (Get result, or Take hit/miss) with the model and
// settles the model on it.  It reports whether the key is present.
func (r *c16cRun) judge(what, k string, v any, ok bool) (bool, error) {
	e := r.model[k]
	if e == nil {
		if ok {
			why := "never set"
			if g := r.grave[k]; g != nil {
				why = "gone by " + g.how
			}
			return false, r.violation("%s(%s) returned %v although the key is %s", what, k, v, why)
		}
		return false, nil
	}
	el := r.now - e.setAt
	if ok {
		if iv, isInt := v.(int); !isInt || iv != e.val {
			return false, r.violation("%s(%s) returned %v, the latest value set is %d (set %d ticks ago, expire %v)", what, k, v, e.val, el, e.d)
		}
	}
	switch {
	case el < e.lo:
		if !ok {
			return false, r.violation("%s(%s) misses the key only %d ticks after it was set to %d with expire %v (must be present for fewer than %d ticks elapsed); previous generation ended by %q",
				what, k, el, e.val, e.d, e.lo, e.after)
		}
		// superseded expiries whose time has certainly passed while this one is certainly pending
		keep := r.ghosts[k][:0]
		for _, g := range r.ghosts[k] {
			if g.hi <= r.now {
				r.cls[g.kind+", superseded due time passed, key verified present"]++
				r.nontrivial = true
			} else {
				keep = append(keep, g)
			}
		}
		r.ghosts[k] = keep
	case el >= e.hi:
		if ok {
			if err := r.confirmStuck(k); err != nil {
				if _, stall := err.(*c16cStall); stall {
					return false, err
				}
				return false, r.violation("%s(%s) still returns %v %d ticks after it was set with expire %v (must be gone from %d ticks elapsed on); previous generation ended by %q",
					what, k, v, el, e.d, e.hi, e.after)
			}
			ok = false
		}
	}
	if ok {
		return true, nil
	}
	// gone: within (or, after a late callback, beyond) the window
	r.expiries++
	r.expiredNow++
	fmt.Fprintf(&r.obs, "[%s expired@+%d]", k, el)
	r.cls["expiry observed"]++
	if e.lo > c16cSlots {
		r.cls["expiry observed, delay > one revolution"]++
	} else if e.hi > c16cSlots-20 {
		r.cls["expiry observed, delay about one revolution"]++
	}
	if e.earlierThan > 0 && r.now < e.earlierThan {
		r.cls["refresh-pending to an earlier time, key verified gone before the superseded due time"]++
		r.nontrivial = true
	}
	if e.after != "" {
		r.cls["expiry observed of a key set again after "+e.after]++
	}
	r.end(k, "expiry")
	return false, nil
}

// confirmStuck: key k is present although it must be gone.  With the cache quiescent no
// callback is left that could remove it, but the verdict is only given after the key stayed
// for c16cConfirm (shorter once one such violation has been confirmed in this process, so
// that shrinking stays fast).  nil = the key went away (late callback; noted by the caller).
func (r *c16cRun) confirmStuck(k string) error {
	wait := c16cConfirm
	if c16cConfirmed {
		wait = 20 * time.Millisecond
	}
	deadline := time.Now().Add(wait)
	for time.Now().Before(deadline) {
		if _, ok := r.c.Get(k); !ok {
			r.cls["late expiry callback (inconclusive wait)"]++
			return nil
		}
		time.Sleep(time.Millisecond)
	}
	c16cConfirmed = true
	return errors.New("stuck")
}

// sweep probes keys with Get and settles the model on what it sees.  The keys the model holds
// to be gone come first (a miss has no side effect), then present keys from the least to the
// most recently used — each present key is moved to the front in turn, so probing all of them
// leaves the recency order as it was.  With r.probeAll every key is probed after every step.
// Otherwise only the keys whose presence the model cannot know (at or beyond their window,
// and at the last certainly-present tick) are probed: a Get heals recency bookkeeping that an
// expiry left inconsistent, so half of the LRU cases run without the full sweep.
func (r *c16cRun) sweep() error {
	var order []string
	for _, k := range c16cKeys {
		if r.model[k] == nil {
			order = append(order, k)
		}
	}
	for i := len(r.rec) - 1; i >= 0; i-- {
		k := r.rec[i]
		if e := r.model[k]; r.probeAll || r.now-e.setAt >= e.lo-1 {
			order = append(order, k)
		}
	}
	present := 0
	for _, k := range order {
		v, ok := r.c.Get(k)
		p, err := r.judge("Get", k, v, ok)
		if err != nil {
			return err
		}
		if p {
			present++
			r.touch(k)
		}
	}
	if r.limit > 0 && present > r.limit {
		return r.violation("%d keys present, limit is %d", present, r.limit)
	}
	if r.limit > 0 && len(r.model) > r.limit {
		return r.violation("model bug: %d keys, limit %d", len(r.model), r.limit)
	}
	if r.lastTick == 1 && r.expiredNow >= 2 {
		r.cls["several keys expired in the same tick"]++
	}
	r.expiredNow = 0
	return nil
}

func (r *c16cRun) settle() error {
	if err := r.quiesce(); err != nil {
		return err
	}
	return r.sweep()
}

func (r *c16cRun) opSet(k string, d time.Duration) error {
	r.next++
	if d == 0 {
		r.c.Set(k, r.next)
		d = r.base
		r.logf(" set(%s)", k)
	} else {
		r.c.SetWithExpire(k, r.next, d)
		r.logf(" set(%s,%v)", k, d)
	}
	r.lastTick = 0
	r.mset(k, r.next, d)
	return r.settle()
}

func (r *c16cRun) opDel(k string) error {
	r.c.Del(k)
	r.logf(" del(%s)", k)
	if r.model[k] != nil {
		r.cls["del of a pending key"]++
	}
	r.lastTick = 0
	r.end(k, "del")
	return r.settle()
}

func (r *c16cRun) opGet(k string) error {
	v, ok := r.c.Get(k)
	r.logf(" get(%s)", k)
	r.lastTick = 0
	p, err := r.judge("Get", k, v, ok)
	if err != nil {
		return err
	}
	if p {
		r.touch(k)
	}
	return r.settle()
}

func (r *c16cRun) opTake(k string, fail bool) error {
	r.next++
	val := r.next
	calls := 0
	lerr := errors.New("loader failed")
	v, err := r.c.Take(k, func() (any, error) {
		calls++
		if fail {
			return nil, lerr
		}
		return val, nil
	})
	r.logf(" take(%s,fail=%v)", k, fail)
	r.lastTick = 0
	switch {
	case calls == 0:
		// a hit: the value must be the latest set and the key not certainly gone
		if err != nil {
			return r.violation("Take(%s) without calling the loader returned error %v", k, err)
		}
		p, jerr := r.judge("Take", k, v, true)
		if jerr != nil {
			return jerr
		}
		if p {
			r.touch(k)
		} else {
			r.cls["take hit on a key that went away right after (late callback)"]++
		}
	case calls == 1:
		if _, jerr := r.judge("Take (loader called, i.e. a miss)", k, nil, false); jerr != nil {
			return jerr
		}
		if fail {
			if err != lerr || v != nil {
				return r.violation("Take(%s) with a failing loader returned %v, %v", k, v, err)
			}
		} else {
			if iv, isInt := v.(int); err != nil || !isInt || iv != val {
				return r.violation("Take(%s) on a miss returned %v, %v; the loader returned %d", k, v, err, val)
			}
			r.mset(k, val, r.base)
		}
	default:
		return r.violation("Take(%s) called the loader %d times", k, calls)
	}
	return r.settle()
}

func (r *c16cRun) opTick(n int) error {
	for i := 0; i < n; i++ {
		r.tk.Tick()
	}
	r.now += n
	r.lastTick = n
	if n == 1 {
		r.logf(" tick")
	} else {
		r.logf(" tick*%d", n)
	}
	if n > c16cSlots {
		r.cls["tick batch > one revolution"]++
	}
	return r.settle()
}

// edges returns the absolute ticks at which the model's obligations change, ascending.
func (r *c16cRun) edges(all bool) []int {
	set := map[int]bool{}
	for _, k := range c16cKeys {
		if e := r.model[k]; e != nil {
			set[e.setAt+e.lo-1] = true
			set[e.setAt+e.hi] = true
			if all {
				set[e.setAt+e.lo] = true
				set[e.setAt+e.hi-1] = true
			}
		}
		if all {
			for _, g := range r.ghosts[k] {
				set[g.hi] = true
			}
		}
	}
	var out []int
	for t := range set {
		if t > r.now {
			out = append(out, t)
		}
	}
	sort.Ints(out)
	return out
}

// runOut lets time pass until every key that is left is certainly gone, stopping at every
// tick at which an obligation changes (last certainly-present tick, first certainly-gone tick).
func (r *c16cRun) runOut() error {
	r.logf(" run-out")
	for guard := 0; guard < 64; guard++ {
		ed := r.edges(false)
		if len(ed) == 0 {
			break
		}
		if err := r.opTick(ed[0] - r.now); err != nil {
			return err
		}
	}
	if len(r.model) != 0 {
		return r.violation("model bug: %d keys left after run-out", len(r.model))
	}
	return nil
}

func (r *c16cRun) flushClasses(st *verifkit.Stats) {
	names := make([]string, 0, len(r.cls))
	for k := range r.cls {
		names = append(names, k)
	}
	sort.Strings(names)
	for _, k := range names {
		st.ClassN(k, r.cls[k])
		st.Class("cases with: " + k)
	}
	if r.evictions > 0 && r.expiries > 0 {
		st.Class("cases with: eviction and expiry")
	}
}

// ---------------------------------------------------------------- the state machine

func c16cDelay(t *rapid.T) time.Duration {
	switch rapid.IntRange(0, 9).Draw(t, "delayClass") {
	case 0, 1, 2, 3, 4: // a few ticks, quarter-second steps (1 s .. 12 s)
		return time.Duration(rapid.IntRange(4, 48).Draw(t, "quarterSeconds")) * 250 * time.Millisecond
	case 5, 6:
		return time.Duration(rapid.IntRange(13, 120).Draw(t, "seconds")) * time.Second
	case 7: // about one revolution of the 300-slot wheel
		return time.Duration(rapid.IntRange(270, 340).Draw(t, "seconds")) * time.Second
	case 8: // more than one revolution
		return time.Duration(rapid.IntRange(580, 700).Draw(t, "seconds")) * time.Second
	}
	return time.Duration(rapid.IntRange(900, 1000).Draw(t, "seconds")) * time.Second
}

func TestVerifC16CacheClock(t *testing.T) {
	logx.Disable()
	st := verifkit.New("cache-clock")
	defer st.Flush()
	c16cCalibrate()
	evals, inconclusive := 0, 0
	keyGen := rapid.SampledFrom(c16cKeys)
	rapid.Check(t, func(t *rapid.T) {
		st.Eval()
		evals++
		base := time.Duration(rapid.SampledFrom([]int{3, 4, 5, 5, 7, 10, 10, 30, 310}).Draw(t, "defaultExpireS")) * time.Second
		limit := rapid.SampledFrom([]int{0, 0, 0, 1, 2, 3}).Draw(t, "limit")
		seed := rapid.Int64Range(1, 1<<40).Draw(t, "jitterSeed")
		probeAll := limit == 0 || rapid.Bool().Draw(t, "probeAllKeysEveryStep")
		r, err := c16cNew(base, limit, seed)
		if err != nil {
			if _, stall := err.(*c16cStall); stall {
				inconclusive++
				st.Note("case abandoned at start: %v", err)
				return
			}
			t.Fatalf("%v", err)
		}
		r.probeAll = probeAll
		if !probeAll {
			r.logf(" (partial probes)")
		}
		dead := false
		defer func() {
			if err := r.close(); err != nil {
				st.Note("close: %v", err)
			}
		}()
		step := func(err error) {
			if err == nil {
				return
			}
			if _, stall := err.(*c16cStall); stall {
				dead = true
				inconclusive++
				st.Note("case abandoned: %v; %s", err, r.obs.String())
				return
			}
			t.Fatalf("%v", err)
		}
		guard := func(f func(t *rapid.T)) func(t *rapid.T) {
			return func(t *rapid.T) {
				if !dead {
					f(t)
				}
			}
		}
		t.Repeat(map[string]func(*rapid.T){
			"set": guard(func(t *rapid.T) { step(r.opSet(keyGen.Draw(t, "k"), 0)) }),
			"setWithExpire": guard(func(t *rapid.T) {
				k := keyGen.Draw(t, "k")
				step(r.opSet(k, c16cDelay(t)))
			}),
			"get": guard(func(t *rapid.T) { step(r.opGet(keyGen.Draw(t, "k"))) }),
			"del": guard(func(t *rapid.T) { step(r.opDel(keyGen.Draw(t, "k"))) }),
			"take": guard(func(t *rapid.T) {
				k := keyGen.Draw(t, "k")
				step(r.opTake(k, rapid.Bool().Draw(t, "loaderFails")))
			}),
			"tick": guard(func(t *rapid.T) { step(r.opTick(1)) }),
			"tickMany": guard(func(t *rapid.T) {
				var n int
				if rapid.Bool().Draw(t, "few") {
					n = rapid.IntRange(2, 12).Draw(t, "n")
				} else {
					n = rapid.SampledFrom([]int{20, 50, 100, 250, 299, 300, 301, 400}).Draw(t, "n")
				}
				step(r.opTick(n))
			}),
			// to a tick at which an obligation of the model changes (last certainly-present
			// tick, window, first certainly-gone tick of a key; superseded due time)
			"tickToEdge": guard(func(t *rapid.T) {
				ed := r.edges(true)
				i := rapid.IntRange(0, 7).Draw(t, "edge")
				n := 1
				if len(ed) > 0 {
					n = ed[i%len(ed)] - r.now
				}
				if n > 400 {
					n = 400
				}
				step(r.opTick(n))
			}),
		})
		if dead {
			return
		}
		step(r.runOut())
		if dead {
			return
		}
		r.flushClasses(st)
		if r.nontrivial {
			st.NonTrivial(r.ops.String())
		}
	})
	if !t.Failed() && inconclusive >= 5 && inconclusive*10 >= evals {
		st.Note("%d of %d cases abandoned on a wall-clock budget", inconclusive, evals)
		st.Flush()
		fmt.Printf("INCONCLUSIVE: C16 cache-clock: %d of %d cases abandoned on a wall-clock budget\n", inconclusive, evals)
		os.Exit(3)
	}
}

// ---------------------------------------------------------------- scripted histories

type c16cStep struct {
	op   byte // 's'et 'd'el 'g'et 't'ake tic'k'
	k    string
	d    time.Duration // 0 = Set with the default expire
	n    int
	fail bool
}

type c16cScript struct {
	name     string
	base     time.Duration
	limit    int
	probeAll bool
	steps    []c16cStep
}

func c16cS(k string, d time.Duration) c16cStep { return c16cStep{op: 's', k: k, d: d} }
func c16cD(k string) c16cStep                  { return c16cStep{op: 'd', k: k} }
func c16cG(k string) c16cStep                  { return c16cStep{op: 'g', k: k} }
func c16cT(k string, fail bool) c16cStep       { return c16cStep{op: 't', k: k, fail: fail} }
func c16cK(n int) c16cStep                     { return c16cStep{op: 'k', n: n} }

const c16cSec = time.Second

// Histories in which one key's expiry is re-targeted while an older timer entry of the same
// key is still in the wheel (flagged removed, lazily moved, relocated, fired) — the shapes the
// state machine needs the most cases to reach; each runs with 8 jitter seeds and ends with a
// run-out.  They are checked by the same model as the generated histories.
var c16cScripts = []c16cScript{
	{"removed entry scanned while a later entry of the key is live, then refresh", 3 * c16cSec, 0, true, []c16cStep{
		c16cS("k0", 5*c16cSec), c16cD("k0"), c16cS("k0", 20*c16cSec), c16cK(7), c16cS("k0", 100*c16cSec), c16cK(15), c16cG("k0"), c16cK(70)}},
	{"lazy move, relocation, then a move beyond one revolution", 3 * c16cSec, 0, true, []c16cStep{
		c16cS("k1", 0), c16cS("k1", 15*c16cSec), c16cK(13), c16cS("k1", 400*c16cSec), c16cK(150), c16cG("k1"), c16cK(200)}},
	{"moved earlier, expired, set again, superseded slot passes", 3 * c16cSec, 0, true, []c16cStep{
		c16cS("k0", 30*c16cSec), c16cS("k0", 5*c16cSec), c16cK(8), c16cS("k0", 100*c16cSec), c16cK(25), c16cG("k0")}},
	{"moved earlier then later before the first due time", 3 * c16cSec, 0, true, []c16cStep{
		c16cS("k0", 30*c16cSec), c16cS("k0", 5*c16cSec), c16cS("k0", 60*c16cSec), c16cK(8), c16cG("k0"), c16cK(26)}},
	{"deleted, set again with a longer delay", 3 * c16cSec, 0, true, []c16cStep{
		c16cS("k1", 5*c16cSec), c16cD("k1"), c16cS("k1", 30*c16cSec), c16cK(8), c16cG("k1"), c16cK(26)}},
	{"deleted, set again with a shorter delay", 3 * c16cSec, 0, true, []c16cStep{
		c16cS("k1", 30*c16cSec), c16cD("k1"), c16cS("k1", 5*c16cSec), c16cK(8), c16cS("k1", 60*c16cSec), c16cK(28), c16cG("k1")}},
	{"expiry next to LRU bookkeeping", 10 * c16cSec, 2, false, []c16cStep{
		c16cS("k2", 0), c16cS("k0", 1*c16cSec), c16cK(3), c16cS("k1", 0), c16cG("k2")}},
	{"evicted while pending, set again, superseded due time passes", 10 * c16cSec, 1, false, []c16cStep{
		c16cS("k0", 5*c16cSec), c16cS("k1", 0), c16cS("k0", 40*c16cSec), c16cK(8), c16cG("k0"), c16cT("k1", false), c16cK(3)}},
	{"fired entry, key set again beyond one revolution", 3 * c16cSec, 0, true, []c16cStep{
		c16cS("k0", 0), c16cK(20), c16cS("k0", 580*c16cSec), c16cK(400), c16cG("k0")}},
	{"same delay, same tick, several keys", 3 * c16cSec, 0, true, []c16cStep{
		c16cS("k0", 4*c16cSec), c16cS("k1", 4*c16cSec), c16cS("k2", 4*c16cSec), c16cS("k3", 4*c16cSec), c16cK(1), c16cK(1), c16cK(1), c16cK(1), c16cK(1), c16cK(1)}},
	{"loader error, then load, then expiry of the loaded value", 4 * c16cSec, 0, true, []c16cStep{
		c16cT("k0", true), c16cT("k0", false), c16cK(2), c16cT("k0", false), c16cK(4), c16cT("k0", true), c16cG("k0")}},
	{"delays of about one and two revolutions refreshed around the wrap", 310 * c16cSec, 0, true, []c16cStep{
		c16cS("k0", 0), c16cS("k1", 600*c16cSec), c16cK(299), c16cS("k0", 0), c16cK(2), c16cS("k1", 300*c16cSec), c16cK(280), c16cG("k0"), c16cG("k1")}},
}

func TestVerifC16CacheClockScripted(t *testing.T) {
	logx.Disable()
	st := verifkit.New("cache-clock-scripted")
	defer st.Flush()
	c16cCalibrate()
	for _, sc := range c16cScripts {
		for seed := int64(1); seed <= 8; seed++ {
			st.Eval()
			r, err := c16cNew(sc.base, sc.limit, seed)
			if err != nil {
				if _, stall := err.(*c16cStall); stall {
					st.Note("%s: abandoned at start: %v", sc.name, err)
					continue
				}
				t.Fatalf("%s: %v", sc.name, err)
			}
			r.probeAll = sc.probeAll
			err = func() error {
				for _, s := range sc.steps {
					var err error
					switch s.op {
					case 's':
						err = r.opSet(s.k, s.d)
					case 'd':
						err = r.opDel(s.k)
					case 'g':
						err = r.opGet(s.k)
					case 't':
						err = r.opTake(s.k, s.fail)
					case 'k':
						err = r.opTick(s.n)
					}
					if err != nil {
						return err
					}
				}
				return r.runOut()
			}()
			if cerr := r.close(); cerr != nil {
				st.Note("%s: close: %v", sc.name, cerr)
			}
			if err != nil {
				if _, stall := err.(*c16cStall); stall {
					st.Note("%s: abandoned: %v", sc.name, err)
					continue
				}
				t.Fatalf("scripted history %q, jitter seed %d: %v", sc.name, seed, err)
			}
			r.flushClasses(st)
			if r.nontrivial {
				st.NonTrivial(r.ops.String())
			}
		}
	}
}
