//go:build verif

package collection_test

// C16, unit cache-reentrant: Take loaders that use the SAME cache before they return.
//
// "The in-memory Cache returns the latest value set for a key unless it was deleted, has
// expired, or was evicted, never holds more than its limit, evicts in least-recently-used
// order, and Take calls the loader only on a miss" - under ANY sequence of operations.  A
// loader runs on the caller's goroutine, between the moment Take found the key absent and the
// moment Take stores what the loader returned; whatever the loader does to the cache meanwhile
// (set the key it is loading, set / delete / read / Take another key) is part of the sequence.
// The history of a case is therefore a sequential one:
//
//	... take(k){ reaction ... } ...   ==   ... [miss of k] reaction ... [store of k] ...
//
// Model (that of unit `cache`: map + recency list + limit; the type pairCache of
// c16_pair_test.go).  Recency effects, from the doc comments of the entry points and the
// statement ("least-recently-used"): Set / SetWithExpire make the key the most recently used
// (and evict the least recently used key when the limit is exceeded), a Get or Take that finds
// the key uses it, a Get that misses changes nothing, Del removes the key, a Take that misses
// "uses fetch to get the item, sets it into c and returns it" - a Set after the loader returned.
// A loader that fails: its error is returned, Take stores nothing; what the loader itself
// stored stays (it was set and neither deleted nor evicted).
//
// Nothing expires (1 h and more), so the real timing wheel of the cache only books timers.
// Every top-level action runs under a watchdog: nothing in a single-goroutine history on one
// cache can block (a nested Take on the SAME key would - it waits for itself - and is never
// generated), so an action that does not return within c16rBudget is a verdict.

import (
	"errors"
	"fmt"
	"sort"
	"strings"
	"testing"
	"time"

	"github.com/zeromicro/go-zero/core/collection"
	"github.com/zeromicro/go-zero/core/logx"
	"github.com/zeromicro/go-zero/internal/verifkit"
	"pgregory.net/rapid"
)

const c16rBudget = 10 * time.Second

var (
	c16rKeys = []string{"k0", "k1", "k2", "k3", "k4", "k5"}
	// a hang has been confirmed with the full budget in this process: shrinking uses a short one
	c16rHung bool
)

// one step of a loader's reaction
type c16rAtom struct {
	kind       string // setSelf setOther delSelf delOther getOther takeOther
	other      string // the other key (never the key being loaded)
	withExpire bool   // set*: SetWithExpire instead of Set
	fail       bool   // takeOther: its (plain) loader fails
}

func (a c16rAtom) String() string {
	switch a.kind {
	case "setSelf", "setOther":
		if a.withExpire {
			return a.kind + "+expire"
		}
	case "takeOther":
		return fmt.Sprintf("takeOther(fail=%v)", a.fail)
	}
	return a.kind
}

type c16rRun struct {
	c        *collection.Cache
	p        *pairCache // the model
	probeAll bool
	next     int
	step     int // index of the running top-level action
	depth    int // > 0 while a loader is running
	log      strings.Builder
	failure  string
	cls      map[string]int

	armedAt    int // top-level action in which a reaction set the key being loaded or evicted from inside the loader; -1 = none yet
	nontrivial bool
	hung       bool
}

func c16rNew(limit int, probeAll bool) (*c16rRun, error) {
	var opts []collection.CacheOption
	if limit > 0 {
		opts = append(opts, collection.WithLimit(limit))
	}
	c, err := collection.NewCache(time.Hour, opts...)
	if err != nil {
		return nil, err
	}
	r := &c16rRun{c: c, p: &pairCache{name: "c", c: c, limit: limit, model: map[string]int{}},
		probeAll: probeAll, cls: map[string]int{}, armedAt: -1}
	fmt.Fprintf(&r.log, "limit=%d", limit)
	if !probeAll {
		r.log.WriteString(" (partial probes)")
	}
	r.log.WriteString(":")
	return r, nil
}

func (r *c16rRun) failf(format string, a ...any) {
	if r.failure == "" {
		r.failure = fmt.Sprintf(format, a...)
	}
}

// mset applies a store of k to the model and books an eviction it causes.
func (r *c16rRun) mset(k string, v int) {
	before := r.p.evictions
	victim := ""
	if n := len(r.p.recency); n > 0 {
		victim = r.p.recency[n-1]
	}
	r.p.mset(k, v)
	if r.p.evictions == before {
		return
	}
	fmt.Fprintf(&r.log, "[evicts %s]", victim)
	r.cls["evictions"]++
	if r.armedAt >= 0 && r.step > r.armedAt {
		r.nontrivial = true
	}
	if r.depth > 0 {
		r.cls["evictions from inside a loader"]++
		if r.armedAt < 0 {
			r.armedAt = r.step
		}
	}
}

func (r *c16rRun) opSet(k string, withExpire bool) {
	r.next++
	if withExpire {
		r.c.SetWithExpire(k, r.next, time.Hour+time.Duration(r.next)*time.Second)
		fmt.Fprintf(&r.log, " setx(%s)", k)
	} else {
		r.c.Set(k, r.next)
		fmt.Fprintf(&r.log, " set(%s)", k)
	}
	r.mset(k, r.next)
}

func (r *c16rRun) opDel(k string) {
	r.c.Del(k)
	fmt.Fprintf(&r.log, " del(%s)", k)
	r.p.drop(k)
}

func (r *c16rRun) opGet(k string) {
	v, ok := r.c.Get(k)
	fmt.Fprintf(&r.log, " get(%s)", k)
	r.judgeGet("Get", k, v, ok)
	if _, mok := r.p.model[k]; mok {
		r.p.touch(k)
	}
}

func (r *c16rRun) judgeGet(what, k string, v any, ok bool) {
	mv, mok := r.p.model[k]
	switch {
	case ok && !mok:
		r.failf("%s(%s) returned %v although the key is absent (never set, deleted, or the least recently used key when the limit was exceeded)", what, k, v)
	case !ok && mok:
		r.failf("%s(%s) misses the key; the latest value set is %d and the key was neither deleted nor the least recently used one at an eviction (recency, most recent first: %v)", what, k, mv, r.p.recency)
	case ok:
		if iv, isInt := v.(int); !isInt || iv != mv {
			r.failf("%s(%s) returned %v, the latest value set is %d", what, k, v, mv)
		}
	}
}

// opTake: Take(k) whose loader first performs plan on the same cache.
func (r *c16rRun) opTake(k string, fail bool, plan []c16rAtom) {
	val := 0 // what the loader returns: chosen when it returns, so that values grow in the order of the stores
	calls := 0
	lerr := errors.New("loader failed")
	mvBefore, present := r.p.model[k]
	fmt.Fprintf(&r.log, " take(%s,fail=%v){", k, fail)
	v, err := r.c.Take(k, func() (any, error) {
		calls++
		if calls == 1 && present {
			r.failf("Take(%s) called the loader although the key was present with value %d", k, mvBefore)
		}
		r.depth++
		for _, a := range plan {
			r.react(k, a)
		}
		r.depth--
		if fail {
			return nil, lerr
		}
		r.next++
		val = r.next
		return val, nil
	})
	r.log.WriteString(" }")
	if present {
		if calls != 0 {
			return // reported above
		}
		if err != nil {
			r.failf("Take(%s) of a present key returned error %v", k, err)
			return
		}
		r.judgeGet("Take", k, v, true)
		r.p.touch(k)
		return
	}
	if calls != 1 {
		r.failf("Take(%s) of an absent key called its loader %d times (want once)", k, calls)
		return
	}
	if len(plan) > 0 {
		r.cls["takes with a reaction"]++
		if len(plan) > 1 {
			r.cls["takes with a reaction of two steps"]++
		}
		if fail {
			r.cls["loader error with reaction"]++
		}
	}
	if fail {
		if !errors.Is(err, lerr) {
			r.failf("Take(%s) whose loader failed returned %v, %v instead of the loader's error", k, v, err)
		}
		return // nothing is stored by Take; what the reaction stored stays
	}
	if iv, isInt := v.(int); err != nil || !isInt || iv != val {
		r.failf("Take(%s) on a miss returned %v, %v; its loader returned %d", k, v, err, val)
		return
	}
	r.mset(k, val)
}

// react performs one reaction step from inside the loader of Take(k), on the cache and on the model.
func (r *c16rRun) react(k string, a c16rAtom) {
	r.cls["reaction "+a.kind]++
	switch a.kind {
	case "setSelf":
		r.opSet(k, a.withExpire)
		r.cls["reaction set the key being loaded"]++
		if r.p.limit > 0 && r.armedAt < 0 {
			r.armedAt = r.step
		}
	case "setOther":
		r.opSet(a.other, a.withExpire)
	case "delSelf":
		r.opDel(k)
	case "delOther":
		r.opDel(a.other)
	case "getOther":
		if _, mok := r.p.model[a.other]; mok {
			r.cls["reaction getOther on a present key (recency touched inside the loader)"]++
		}
		r.opGet(a.other)
	case "takeOther":
		if _, mok := r.p.model[a.other]; mok {
			r.cls["nested take (hit)"]++
		} else {
			r.cls["nested take (miss, nested loader runs)"]++
		}
		r.opTake(a.other, a.fail, nil)
	}
}

// sweep compares Get of the keys with the model.  Keys the model holds to be absent first (a
// miss has no side effect); then, when every key is probed, the present ones from the least to
// the most recently used (each is moved to the front in turn: the order is unchanged).
func (r *c16rRun) sweep(all bool) {
	for _, k := range c16rKeys {
		if _, mok := r.p.model[k]; !mok {
			v, ok := r.c.Get(k)
			r.judgeGet("probe Get", k, v, ok)
		}
	}
	if r.p.limit > 0 && len(r.p.model) > r.p.limit {
		r.failf("model bug: %d keys, limit %d", len(r.p.model), r.p.limit)
	}
	if !all {
		return
	}
	present := 0
	for i := len(r.p.recency) - 1; i >= 0; i-- {
		k := r.p.recency[len(r.p.recency)-1]
		v, ok := r.c.Get(k)
		r.judgeGet("probe Get", k, v, ok)
		if ok {
			present++
		}
		r.p.touch(k)
	}
	if r.p.limit > 0 && present > r.p.limit {
		r.failf("%d keys present, the limit is %d", present, r.p.limit)
	}
}

// guarded runs one top-level action (and the probes after it) under the watchdog and reports
// the first disagreement.  fatal is t.Fatalf of the rapid case or of the scripted test.
func (r *c16rRun) guarded(what string, fatal func(format string, a ...any), f func()) {
	r.step++
	budget := c16rBudget
	if c16rHung {
		budget = 2 * time.Second
	}
	done := make(chan struct{})
	go func() {
		defer close(done)
		f()
		r.sweep(r.probeAll)
	}()
	select {
	case <-done:
	case <-time.After(budget):
		c16rHung = true
		r.hung = true
		// r.log is being written by nobody: the action's goroutine is blocked inside the cache
		fatal("C16 violated: %s did not return within %v (watchdog: 10 s for the first blocked call of the process, 2 s afterwards, i.e. while shrinking) - the call is blocked inside the Cache (nothing in a single-goroutine history on one cache can block: a loader may use the cache it is loading into, only a nested Take of the SAME key is excluded); history up to the blocked call: %s",
			what, budget, r.log.String())
	}
	if r.failure != "" {
		fatal("C16 violated (Cache returns the latest value set unless deleted or evicted, never exceeds its limit, evicts the least recently used key, Take calls the loader only on a miss and does not cache its error): %s; history (a loader's reaction in braces): %s",
			r.failure, r.log.String())
	}
}

func (r *c16rRun) finish(fatal func(format string, a ...any), st *verifkit.Stats) {
	r.guarded("the final sweep", fatal, func() { r.sweep(true) })
	collection.VerifCacheStop(r.c) // the wheel's loop ends; nothing was due
	names := make([]string, 0, len(r.cls))
	for k := range r.cls {
		names = append(names, k)
	}
	sort.Strings(names)
	for _, k := range names {
		st.ClassN(k, r.cls[k])
		st.Class("cases with: " + k)
	}
	if r.nontrivial {
		st.NonTrivial(r.log.String())
	}
}

func c16rOther(t *rapid.T, k string) string {
	i := rapid.IntRange(0, len(c16rKeys)-2).Draw(t, "other")
	for _, x := range c16rKeys {
		if x == k {
			continue
		}
		if i == 0 {
			return x
		}
		i--
	}
	return ""
}

var c16rKinds = []string{"setSelf", "setSelf", "setOther", "setOther", "delSelf", "delOther", "getOther", "takeOther", "takeOther"}

func c16rPlan(t *rapid.T, k string) []c16rAtom {
	n := rapid.SampledFrom([]int{1, 1, 2}).Draw(t, "reactionSteps")
	var plan []c16rAtom
	for i := 0; i < n; i++ {
		a := c16rAtom{kind: rapid.SampledFrom(c16rKinds).Draw(t, "reaction")}
		a.other = c16rOther(t, k)
		switch a.kind {
		case "setSelf", "setOther":
			a.withExpire = rapid.Bool().Draw(t, "withExpire")
		case "takeOther":
			a.fail = rapid.IntRange(0, 3).Draw(t, "nestedLoaderFails") == 0
		}
		plan = append(plan, a)
	}
	return plan
}

func TestVerifC16CacheReentrant(t *testing.T) {
	logx.Disable()
	st := verifkit.New("cache-reentrant")
	defer st.Flush()
	keyGen := rapid.SampledFrom(c16rKeys)
	rapid.Check(t, func(t *rapid.T) {
		st.Eval()
		limit := rapid.IntRange(0, 5).Draw(t, "limit") // 0 = no limit
		probeAll := rapid.Bool().Draw(t, "probeAllKeysEveryStep")
		r, err := c16rNew(limit, probeAll)
		if err != nil {
			t.Fatal(err)
		}
		t.Repeat(map[string]func(*rapid.T){
			"set": func(t *rapid.T) {
				k := keyGen.Draw(t, "k")
				x := rapid.Bool().Draw(t, "withExpire")
				r.guarded("Set("+k+")", t.Fatalf, func() { r.opSet(k, x) })
			},
			"get": func(t *rapid.T) {
				k := keyGen.Draw(t, "k")
				r.guarded("Get("+k+")", t.Fatalf, func() { r.opGet(k) })
			},
			"del": func(t *rapid.T) {
				k := keyGen.Draw(t, "k")
				r.guarded("Del("+k+")", t.Fatalf, func() { r.opDel(k) })
			},
			"take": func(t *rapid.T) {
				k := keyGen.Draw(t, "k")
				fail := rapid.IntRange(0, 2).Draw(t, "loaderFails") == 0
				var plan []c16rAtom
				if rapid.Bool().Draw(t, "loaderReacts") {
					plan = c16rPlan(t, k)
				}
				r.guarded(fmt.Sprintf("Take(%s) with a loader that does %v on the same cache", k, plan), t.Fatalf,
					func() { r.opTake(k, fail, plan) })
			},
		})
		r.finish(t.Fatalf, st)
	})
}

// ---------------------------------------------------------------- scripted histories

type c16rStep struct {
	op   byte // 's'et 'g'et 'd'el 't'ake
	k    string
	fail bool
	plan []c16rAtom
}

func c16rS(k string) c16rStep { return c16rStep{op: 's', k: k} }
func c16rG(k string) c16rStep { return c16rStep{op: 'g', k: k} }
func c16rD(k string) c16rStep { return c16rStep{op: 'd', k: k} }
func c16rT(k string, fail bool, plan ...c16rAtom) c16rStep {
	return c16rStep{op: 't', k: k, fail: fail, plan: plan}
}

// The reaction shapes, one short history each; judged by the same model as the generated
// histories, in both probe modes.
var c16rScripts = []struct {
	name  string
	limit int
	steps []c16rStep
}{
	{"loader sets the key it loads, then the cache fills up", 2, []c16rStep{
		c16rT("k0", false, c16rAtom{kind: "setSelf"}), c16rS("k1"), c16rG("k0"), c16rS("k2"), c16rS("k3"), c16rS("k4")}},
	{"loader sets the key it loads with an expire, then fails", 3, []c16rStep{
		c16rT("k0", true, c16rAtom{kind: "setSelf", withExpire: true}), c16rG("k0"), c16rT("k0", false), c16rS("k1"), c16rS("k2"), c16rS("k3")}},
	{"loader sets another key of a full cache", 2, []c16rStep{
		c16rS("k1"), c16rS("k2"), c16rT("k0", false, c16rAtom{kind: "setOther", other: "k3"}), c16rS("k4"), c16rS("k5")}},
	{"loader reads another key: it is used more recently than the rest", 2, []c16rStep{
		c16rS("k1"), c16rS("k2"), c16rT("k0", false, c16rAtom{kind: "getOther", other: "k1"}), c16rS("k3")}},
	{"loader sets and deletes the key it loads", 2, []c16rStep{
		c16rS("k1"), c16rT("k0", false, c16rAtom{kind: "setSelf"}, c16rAtom{kind: "delSelf"}), c16rS("k2"), c16rS("k3")}},
	{"loader deletes another key", 2, []c16rStep{
		c16rS("k1"), c16rS("k2"), c16rT("k0", false, c16rAtom{kind: "delOther", other: "k1"}), c16rS("k3"), c16rS("k4")}},
	{"nested Take of other keys, limit 1", 1, []c16rStep{
		c16rT("k0", false, c16rAtom{kind: "takeOther", other: "k1"}, c16rAtom{kind: "takeOther", other: "k2", fail: true}), c16rT("k1", false), c16rD("k1"), c16rS("k2")}},
	{"no limit: every reaction once", 0, []c16rStep{
		c16rS("k1"), c16rT("k0", true, c16rAtom{kind: "setSelf"}, c16rAtom{kind: "setOther", other: "k2"}), c16rT("k3", false, c16rAtom{kind: "delOther", other: "k1"}, c16rAtom{kind: "takeOther", other: "k1"}),
		c16rT("k4", false, c16rAtom{kind: "getOther", other: "k0"}, c16rAtom{kind: "delSelf"}), c16rT("k4", false, c16rAtom{kind: "setSelf"})}},
}

func TestVerifC16CacheReentrantScripted(t *testing.T) {
	logx.Disable()
	st := verifkit.New("cache-reentrant-scripted")
	defer st.Flush()
	for _, sc := range c16rScripts {
		for _, probeAll := range []bool{true, false} {
			st.Eval()
			r, err := c16rNew(sc.limit, probeAll)
			if err != nil {
				t.Fatal(err)
			}
			fatal := func(format string, a ...any) {
				t.Fatalf("scripted history %q: %s", sc.name, fmt.Sprintf(format, a...))
			}
			for _, s := range sc.steps {
				s := s
				switch s.op {
				case 's':
					r.guarded("Set("+s.k+")", fatal, func() { r.opSet(s.k, false) })
				case 'g':
					r.guarded("Get("+s.k+")", fatal, func() { r.opGet(s.k) })
				case 'd':
					r.guarded("Del("+s.k+")", fatal, func() { r.opDel(s.k) })
				case 't':
					r.guarded(fmt.Sprintf("Take(%s) with a loader that does %v on the same cache", s.k, s.plan), fatal,
						func() { r.opTake(s.k, s.fail, s.plan) })
				}
			}
			r.finish(fatal, st)
		}
	}
}
