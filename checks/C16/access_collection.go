//go:build verif

package collection

// Accessors for the C16 unit `cache-clock` (a Cache whose expiry wheel is driven by a
// timex.FakeTicker).  Used for construction and synchronisation only, never as an oracle.
// Every identifier of cache.go / timingwheel.go used here is unexported: a rename there makes
// the check fail to build (exit 2) instead of passing silently.

import (
	"time"

	"github.com/zeromicro/go-zero/core/timex"
)

// verifC16Sentinel is the key of the no-op RemoveTimer round trips; not a string, so it can
// never collide with a cache key.
type verifC16Sentinel struct{}

// VerifNewCacheWithTicker returns NewCache(expire, opts...) - the unchanged constructor, with
// its options, name, stat, LRU and the very execute callback it hands to its wheel - whose
// timing wheel has been replaced, before any use, by one of the same geometry (interval,
// number of slots) and the same execute callback but driven by ticker.  The wheel NewCache
// started is stopped.
func VerifNewCacheWithTicker(expire time.Duration, ticker timex.Ticker, opts ...CacheOption) (*Cache, error) {
	c, err := NewCache(expire, opts...)
	if err != nil {
		return nil, err
	}
	old := c.timingWheel
	tw, err := NewTimingWheelWithTicker(old.interval, old.numSlots, old.execute, ticker)
	old.Stop()
	if err != nil {
		return nil, err
	}
	c.timingWheel = tw
	return c, nil
}

// VerifCacheSeedJitter makes the +-5% expiry jitter of c a function of seed (same
// distribution, reproducible cases).
func VerifCacheSeedJitter(c *Cache, seed int64) {
	c.unstableExpiry.VerifSeed(seed)
}

// VerifCacheWheelSync is a round trip through the loop of c's wheel: the loop can only accept
// it after the handler of the previously accepted event (tick, set, move, remove) returned.
func VerifCacheWheelSync(c *Cache) error {
	return c.timingWheel.RemoveTimer(verifC16Sentinel{})
}

// VerifCacheStop stops c's wheel (its loop goroutine ends).
func VerifCacheStop(c *Cache) {
	c.timingWheel.Stop()
}

// VerifCacheRelease drops the slots of c's stopped wheel once its loop has ended: the stat
// goroutine NewCache starts never ends and would otherwise pin them for the whole run.
func VerifCacheRelease(c *Cache) {
	c.timingWheel.slots = nil
	c.timingWheel.timers = NewSafeMap()
}

// VerifSafeMapState returns m's deletion counters and generation sizes.  Used only to
// classify generated histories (class histograms of the SafeMap units), never as an oracle.
func VerifSafeMapState(m *SafeMap) (deletionOld, deletionNew, lenOld, lenNew int) {
	m.lock.RLock()
	defer m.lock.RUnlock()
	return m.deletionOld, m.deletionNew, len(m.dirtyOld), len(m.dirtyNew)
}

// VerifSafeMapThresholds returns maxDeletion and copyThreshold.
func VerifSafeMapThresholds() (int, int) { return maxDeletion, copyThreshold }
