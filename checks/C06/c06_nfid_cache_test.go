//go:build verif

package cache_test

// C06 — unit notfound-identity (cache.Cache part): the cache learns that a row is absent from
// the ERROR the caller's query function returns.  Real query functions do not always return
// the bare sentinel the cache was configured with: they wrap it (%w), join it with another
// error, or return a typed error whose Is method reports it.  The machines of the other units
// always return the bare sentinel; here every query function that finds no row draws the
// IDENTITY of the error it returns (five ways of saying "the configured not-found error" in
// errors.Is terms, two negative controls that are plain database errors).
//
// Environment, model, TTL rule and the write/delete/forward actions are those of
// cache-machine (c06_cache_test.go, internal/verifc06); the store is healthy throughout.

import (
	"context"
	"errors"
	"fmt"
	"sort"
	"testing"
	"time"

	kit "github.com/zeromicro/go-zero/internal/verifc06"
	"github.com/zeromicro/go-zero/internal/verifkit"
	"pgregory.net/rapid"
)

// identity kinds of the error a query function returns when it finds no row
const (
	nfBare     = iota // the configured sentinel itself
	nfWrapped         // fmt.Errorf("...: %w", sentinel)
	nfWrapped2        // wrapped twice
	nfJoined          // errors.Join(other, sentinel) (either order)
	nfTyped           // struct error with Is(target) reporting the sentinel
	nfCtlText         // control: unrelated error whose TEXT equals the sentinel's text
	nfCtlOther        // control: wraps a DIFFERENT not-found sentinel than the configured one
	nfKinds
)

var c06nfNames = [nfKinds]string{"bare", "wrapped", "wrapped-twice", "joined", "typed-Is", "control:same-text", "control:wraps-other-sentinel"}

func c06nfControl(kind int) bool { return kind == nfCtlText || kind == nfCtlOther }

// wrapped or joined in the sense of the non-trivial rule
func c06nfWrappedOrJoined(kind int) bool {
	return kind == nfWrapped || kind == nfWrapped2 || kind == nfJoined
}

var c06nfUnrelated = errors.New("c06: audit log unavailable")

// c06nfTyped is an application error type that reports a sentinel through its Is method only.
type c06nfTyped struct {
	sentinel error
	what     string
}

func (e *c06nfTyped) Error() string        { return "repository: " + e.what + " does not exist" }
func (e *c06nfTyped) Is(target error) bool { return target == e.sentinel }

// c06nfMake builds the error of the drawn identity.  sentinel is the configured not-found
// error, other a different not-found sentinel (the one of another store).
func c06nfMake(kind int, sentinel, other error, joinSentinelFirst bool, what string) error {
	switch kind {
	case nfBare:
		return sentinel
	case nfWrapped:
		return fmt.Errorf("load %s: %w", what, sentinel)
	case nfWrapped2:
		return fmt.Errorf("repository: %w", fmt.Errorf("load %s: %w", what, sentinel))
	case nfJoined:
		if joinSentinelFirst {
			return errors.Join(sentinel, c06nfUnrelated)
		}
		return errors.Join(c06nfUnrelated, sentinel)
	case nfTyped:
		return &c06nfTyped{sentinel: sentinel, what: what}
	case nfCtlText:
		return errors.New(sentinel.Error())
	default:
		return fmt.Errorf("load %s: %w", what, other)
	}
}

// c06nfIdent is a drawn identity.
type c06nfIdent struct {
	kind      int
	sentFirst bool
}

func c06nfDraw(t *rapid.T) c06nfIdent {
	return c06nfIdent{kind: rapid.IntRange(0, nfKinds-1).Draw(t, "notFoundIdentity"), sentFirst: rapid.Bool().Draw(t, "joinSentinelFirst")}
}

// c06NF is one case: the cache machine's case plus the bookkeeping of the non-trivial rule.
type c06NF struct {
	*c06M
	pend         int // key whose previous operation was a read that got a wrapped/joined not-found from the query function
	shape        bool
	controls     int
	markerServed int
}

// read is a cached read of key ki; id is the identity of the error the query function returns
// should it find no row.
func (n *c06NF) read(ki, api int, id c06nfIdent) {
	m, w := n.c06M, n.w
	key := m.keys[ki]
	w.Coherent(key)
	pre := w.Cached(key)
	q0 := m.queries
	var out c06Row
	var gotExpire time.Duration
	var returned error // what the query function returned when it found no row
	query := func(v any) error {
		m.queries++
		r, ok := m.db[ki]
		if !ok {
			returned = c06nfMake(id.kind, m.errNF, c06NotFnd[1-m.conf.nf], id.sentFirst, fmt.Sprintf("k%d", ki))
			return returned
		}
		*(v.(*c06Row)) = r
		return nil
	}
	queryX := func(v any, expire time.Duration) error {
		gotExpire = expire
		return query(v)
	}
	var err error
	var name string
	switch api {
	case apiTake:
		name, err = "Take", m.c.Take(&out, key, query)
	case apiTakeCtx:
		name, err = "TakeCtx", m.c.TakeCtx(context.Background(), &out, key, query)
	case apiTakeWithExpire:
		name, err = "TakeWithExpire", m.c.TakeWithExpire(&out, key, queryX)
	default:
		name, err = "TakeWithExpireCtx", m.c.TakeWithExpireCtx(context.Background(), &out, key, queryX)
	}
	m.disarm(name, err)
	dq := m.queries - q0
	said := ""
	if returned != nil {
		said = ",query-says:" + c06nfNames[id.kind]
	}
	fmt.Fprintf(&w.Log, " %s(k%d%s)=%s/q%d", name, ki, said, c06Res(err, out, m.errNF), dq)
	withExpire := api == apiTakeWithExpire || api == apiTakeWithExpireCtx
	pend := n.pend
	n.pend = -1

	if pre.Present {
		// "a cached row or not-found marker is served without touching the database until it expires or is invalidated"
		if dq != 0 {
			w.Fail("%s(k%d): the key is cached (%s) and the database was queried %d time(s); a cached row or not-found marker is served without touching the database until it expires or is invalidated",
				name, ki, pre, dq)
		}
		if pre.Placeholder {
			if !errors.Is(err, m.errNF) {
				w.Fail("%s(k%d): the not-found marker is cached, the call returned %s instead of the configured not-found error", name, ki, c06Res(err, out, m.errNF))
			}
			w.St.Class("read:served-from-not-found-marker")
			n.markerServed++
			n.noteReturned(err)
			if pend == ki {
				n.shape = true
			}
		} else {
			if err != nil || out.String() != pre.Val {
				w.Fail("%s(k%d): %s is cached, the call returned %s", name, ki, pre, c06Res(err, out, m.errNF))
			}
			w.St.Class("read:served-from-cached-row")
		}
		w.Settle(map[string]kit.Want{key: {Keep: true}})
		m.afterRead(ki)
		return
	}

	// not cached: exactly one query, and the answer is what the database holds
	if dq != 1 {
		w.Fail("%s(k%d): the key is not cached and the database was queried %d times (expected once)", name, ki, dq)
	}
	truth := w.FromTruth(key)
	want := kit.Want{}
	switch {
	case truth.OK:
		if err != nil || out.String() != truth.Val {
			w.Fail("%s(k%d) returned %s, the database holds %s", name, ki, c06Res(err, out, m.errNF), truth)
		}
		w.St.Class("read:miss-row")
		want.Val, want.TTL = truth.Val, m.rule("row")
		if withExpire && gotExpire > 0 {
			want.TTL = kit.Exact(kit.CeilSeconds(gotExpire), fmt.Sprintf("the query was told expire=%v, rounded up", gotExpire))
		}
	case returned == nil:
		w.Fail("harness: no row, one query, but the query function did not run to its not-found branch")
	case c06nfControl(id.kind):
		// "Database errors are returned and never cached": the query function's error is not the
		// configured not-found error in errors.Is terms, so it is a database error
		w.St.Class("consumed:" + name + "/" + c06nfNames[id.kind])
		w.St.Class("identity:" + c06nfNames[id.kind])
		if err == nil || !errors.Is(err, returned) {
			w.Fail("%s(k%d): the query function failed with %q (%s: not the configured not-found error %q by errors.Is), the call returned %s; database errors are returned",
				name, ki, returned, c06nfNames[id.kind], m.errNF, c06nfDescribe(err, out, m.errNF))
		}
		w.St.Class("control:returned-as-database-error")
		n.controls++
		want.Absent = true
	default:
		w.St.Class("consumed:" + name + "/" + c06nfNames[id.kind])
		w.St.Class("identity:" + c06nfNames[id.kind])
		if !errors.Is(err, m.errNF) {
			w.Fail("%s(k%d): no such row; the query function said so with an error that errors.Is the configured not-found error (%s: %q), the call returned %s instead of the configured not-found error",
				name, ki, c06nfNames[id.kind], returned, c06nfDescribe(err, out, m.errNF))
		}
		n.noteReturned(err)
		want.Placeholder, want.TTL = true, m.nfRule()
		if c06nfWrappedOrJoined(id.kind) {
			n.pend = ki
		}
	}
	w.Settle(map[string]kit.Want{key: want})
	m.afterRead(ki)
}

// noteReturned records (does not judge) whether the configured error itself came back.
func (n *c06NF) noteReturned(err error) {
	if err == n.errNF {
		n.w.St.Class("returned:the-configured-error-itself")
	} else {
		n.w.St.Class("returned:an-error-that-wraps-the-configured-one")
	}
}

func c06nfDescribe(err error, out c06Row, nf error) string {
	if err == nil {
		return "the row " + out.String()
	}
	if errors.Is(err, nf) {
		return fmt.Sprintf("the configured not-found error (%q)", err)
	}
	return fmt.Sprintf("error %q", err)
}

func (n *c06NF) forward(t *rapid.T) {
	m, w := n.c06M, n.w
	var ms int64
	switch rapid.IntRange(0, 2).Draw(t, "mode") {
	case 0:
		ms = rapid.Int64Range(1, 5000).Draw(t, "ms")
	case 1: // around the end of an entry's life
		var live []int64
		for _, k := range m.keys {
			if e := w.Cached(k); e.Present {
				live = append(live, e.ExpAt-w.Now)
			}
		}
		if len(live) == 0 {
			ms = 1000
			break
		}
		sort.Slice(live, func(i, j int) bool { return live[i] < live[j] })
		ms = rapid.SampledFrom(live).Draw(t, "remaining") + rapid.SampledFrom([]int64{-1000, -1, 0, 1, 1000}).Draw(t, "delta")
	default: // around the not-found expiry
		e := rapid.SampledFrom([]time.Duration{m.conf.nfExp, m.conf.nfExp, m.conf.exp, time.Minute}).Draw(t, "of")
		lo, hi := kit.Envelope(e)
		ms = rapid.Int64Range(lo, hi+1).Draw(t, "s")*1000 + rapid.SampledFrom([]int64{-1, 0, 1}).Draw(t, "delta")
	}
	n.pend = -1
	w.Forward(ms)
}

func TestVerifC06NotFoundIdentityCache(t *testing.T) {
	st := verifkit.New("notfound-identity")
	defer st.Flush()
	rapid.Check(t, func(t *rapid.T) {
		st.Eval()
		n := &c06NF{c06M: c06New(t, st, "n"), pend: -1}
		m, w := n.c06M, n.w
		if len(m.conf.nodes) == 1 {
			st.Class("topology:node")
		} else {
			st.Class(fmt.Sprintf("topology:cluster-%d", len(m.conf.nodes)))
		}
		key := rapid.IntRange(0, c06Keys-1)
		api := rapid.IntRange(0, 3)
		write := func(t *rapid.T, kis []int, delOdds int) {
			names := map[int]string{}
			del := map[int]bool{}
			for _, ki := range kis {
				del[ki] = rapid.IntRange(0, delOdds).Draw(t, "deleteRow") == 0
				names[ki] = rapid.SampledFrom([]string{"a", "b", "c"}).Draw(t, "name")
			}
			n.pend = -1
			m.invalidate(kis, func(ki int) string {
				if del[ki] {
					delete(m.db, ki)
					return ":=none"
				}
				m.ver++
				m.db[ki] = c06Row{ID: int64(ki), Name: names[ki], Ver: m.ver}
				return ":=" + m.db[ki].String()
			}, rapid.Bool().Draw(t, "ctx"), "none", kis[0])
		}
		actions := map[string]func(*rapid.T){
			"read": func(t *rapid.T) {
				n.read(key.Draw(t, "key"), api.Draw(t, "api"), c06nfDraw(t))
			},
			"readTwice": func(t *rapid.T) { // the second read must be served from the row / the marker, or query again after a control
				k := key.Draw(t, "key")
				n.read(k, api.Draw(t, "api"), c06nfDraw(t))
				n.read(k, api.Draw(t, "api"), c06nfDraw(t))
			},
			"write": func(t *rapid.T) { // row update or row removal, then Del of its key(s): what Exec does
				write(t, c06Distinct(t, rapid.IntRange(1, 3).Draw(t, "nkeys")), 1)
			},
			"markerThenInsert": func(t *rapid.T) { // the marker of an absent row must be invalidated by the write that creates the row
				k := key.Draw(t, "key")
				n.read(k, api.Draw(t, "api"), c06nfDraw(t))
				write(t, []int{k}, 3)
				n.read(k, api.Draw(t, "api"), c06nfDraw(t))
			},
			"del": func(t *rapid.T) {
				kis := c06Distinct(t, rapid.IntRange(1, 3).Draw(t, "nkeys"))
				n.pend = -1
				m.invalidate(kis, nil, rapid.Bool().Draw(t, "ctx"), "none", kis[0])
			},
			"forward": n.forward,
		}
		for name, f := range actions {
			f := f
			actions[name] = func(t *rapid.T) { w.F = t; w.Guard(func() { f(t) }) }
		}
		t.Repeat(actions)
		shape, controls := n.shape, n.controls // the non-trivial rule looks at the generated history only, not at the fixed sweep
		// final sweep on every key: two reads in a row, the first with a fixed identity per key
		w.F = t
		w.Guard(func() {
			for ki := range m.keys {
				n.read(ki, ki%4, c06nfIdent{kind: []int{nfJoined, nfCtlText, nfTyped, nfWrapped2}[ki], sentFirst: ki%2 == 0})
				n.read(ki, (ki+1)%4, c06nfIdent{kind: []int{nfCtlOther, nfWrapped, nfBare, nfCtlText}[ki]})
			}
		})
		if w.Dead {
			return
		}
		if n.shape {
			st.Class("case:wrapped-or-joined-not-found-then-served-from-marker")
		}
		if n.controls > 0 {
			st.Class("case:with-negative-control")
		}
		if shape && controls > 0 {
			st.Class("case:non-trivial(before-the-sweep)")
			st.NonTrivial(w.Log.String())
		}
	})
}
