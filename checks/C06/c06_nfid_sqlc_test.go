//go:build verif

package sqlc_test

// C06 — unit notfound-identity-sqlc: the sqlc.CachedConn part of notfound-identity (see
// c06_nfid_cache_test.go).  The fake connection reports "no row" with the bare configured
// sentinel (sqlx.ErrNotFound = sql.ErrNoRows, or the custom error of NewConnWithCache), as a
// driver does; the QUERY FUNCTIONS handed to QueryRow / QueryRowIndex then do what application
// code does with it: pass it on, wrap it with %w (once, twice), join it with another error,
// turn it into a typed error whose Is method reports it - or, as negative controls, replace it
// by an unrelated error with the same text or by an error that wraps the not-found sentinel of
// another store.  Case, fake database, model and judge are those of sqlc-machine.

import (
	"context"
	"database/sql"
	"errors"
	"fmt"
	"sort"
	"strconv"
	"strings"
	"testing"
	"time"

	"github.com/zeromicro/go-zero/core/stores/sqlx"
	kit "github.com/zeromicro/go-zero/internal/verifc06"
	"github.com/zeromicro/go-zero/internal/verifkit"
	"pgregory.net/rapid"
)

const (
	nfBare     = iota // the configured sentinel itself
	nfWrapped         // fmt.Errorf("...: %w", sentinel)
	nfWrapped2        // wrapped twice
	nfJoined          // errors.Join(other, sentinel) (either order)
	nfTyped           // struct error with Is(target) reporting the sentinel
	nfCtlText         // control: unrelated error whose TEXT equals the sentinel's text
	nfCtlOther        // control: wraps a DIFFERENT not-found sentinel than the configured one
	nfKinds
)

var c06nfNames = [nfKinds]string{"bare", "wrapped", "wrapped-twice", "joined", "typed-Is", "control:same-text", "control:wraps-other-sentinel"}

func c06nfControl(kind int) bool { return kind == nfCtlText || kind == nfCtlOther }

func c06nfWrappedOrJoined(kind int) bool {
	return kind == nfWrapped || kind == nfWrapped2 || kind == nfJoined
}

var (
	c06nfUnrelated = errors.New("c06: audit log unavailable")
	// the not-found sentinel of another store (text of mongo.ErrNoDocuments)
	c06nfForeign = errors.New("mongo: no documents in result")
)

type c06nfTyped struct {
	sentinel error
	what     string
}

func (e *c06nfTyped) Error() string        { return "repository: " + e.what + " does not exist" }
func (e *c06nfTyped) Is(target error) bool { return target == e.sentinel }

func c06nfMake(kind int, sentinel, other error, joinSentinelFirst bool, what string) error {
	switch kind {
	case nfBare:
		return sentinel
	case nfWrapped:
		return fmt.Errorf("load %s: %w", what, sentinel)
	case nfWrapped2:
		return fmt.Errorf("repository: %w", fmt.Errorf("load %s: %w", what, sentinel))
	case nfJoined:
		if joinSentinelFirst {
			return errors.Join(sentinel, c06nfUnrelated)
		}
		return errors.Join(c06nfUnrelated, sentinel)
	case nfTyped:
		return &c06nfTyped{sentinel: sentinel, what: what}
	case nfCtlText:
		return errors.New(sentinel.Error())
	default:
		return fmt.Errorf("load %s: %w", what, other)
	}
}

type c06nfIdent struct {
	kind      int
	sentFirst bool
}

func c06nfDraw(t *rapid.T) c06nfIdent {
	return c06nfIdent{kind: rapid.IntRange(0, nfKinds-1).Draw(t, "notFoundIdentity"), sentFirst: rapid.Bool().Draw(t, "joinSentinelFirst")}
}

// c06nfUse is what a query function did during one call when the database had no row.
type c06nfUse struct {
	kind  int
	err   error  // the error it returned
	where string // which query function: "query", "index-query", "primary-query"
}

type c06NFS struct {
	*c06S
	pend         string // cache key whose previous operation was a read that got a wrapped/joined not-found from a query function
	shape        bool
	controls     int
	markerServed int
	primaryPath  int
}

// other is a not-found sentinel that is NOT the configured one.
func (n *c06NFS) other() error {
	if n.errNF == sql.ErrNoRows {
		return c06nfForeign
	}
	return sql.ErrNoRows // the cache was configured with a custom error: the driver's own sentinel means nothing to it
}

// say turns the fake connection's "no row" into the error of the drawn identity.
func (n *c06NFS) say(err error, id c06nfIdent, where, what string, used **c06nfUse) error {
	if err != nil && err == n.db.nf {
		e := c06nfMake(id.kind, n.errNF, n.other(), id.sentFirst, what)
		*used = &c06nfUse{kind: id.kind, err: e, where: where}
		return e
	}
	return err
}

// judge: the store is healthy and no invalidation ever failed in this unit, so the model allows
// exactly one execution.  Everything but a consumed negative control is judged by the
// sqlc-machine's judge (result, query counts, store content and TTLs).
func (n *c06NFS) judge(api, name string, err error, out c06Rec, dIdx, dPri int, tr []kit.Cmd, alts []c06Alt, touched []string, used *c06nfUse, served string) {
	w := n.w
	pend := n.pend
	n.pend = ""
	if len(alts) != 1 {
		w.Fail("harness: %d executions allowed for %s on a healthy store", len(alts), name)
	}
	a := alts[0]
	if a.idxQ != dIdx || a.priQ != dPri {
		w.Fail("%s ran %d index + %d primary queries and returned %s; the statement allows: %s (a cached row or not-found marker is served without touching the database; a miss runs one query)",
			name, dIdx, dPri, n.res(err, out), a)
	}
	fromDB := a.o.NotFound && a.idxQ+a.priQ > 0
	if fromDB != (used != nil) {
		w.Fail("harness: %s: model says not-found-from-the-database=%v, the query functions' not-found branch ran=%v", name, fromDB, used != nil)
	}
	if used != nil {
		w.St.Class("identity:" + c06nfNames[used.kind])
		w.St.Class("consumed:" + api + "[" + used.where + "]/" + c06nfNames[used.kind])
		if used.where == "primary-query" {
			n.primaryPath++
		}
	}
	if used != nil && c06nfControl(used.kind) {
		// "Database errors are returned and never cached"
		if err == nil || !errors.Is(err, used.err) {
			w.Fail("%s: the %s function failed with %q (%s: not the configured not-found error %q by errors.Is), the call returned %s; database errors are returned",
				name, used.where, used.err, c06nfNames[used.kind], n.errNF, n.describe(err, out))
		}
		w.St.Class("control:returned-as-database-error")
		n.controls++
		want := map[string]kit.Want{}
		for _, k := range touched {
			want[k] = kit.Want{Keep: true}
		}
		for k, cw := range a.want {
			if cw.Placeholder {
				want[k] = kit.Want{Absent: true} // ... and never cached
			} else {
				want[k] = cw
			}
		}
		w.Settle(want)
		return
	}
	if used != nil && !errors.Is(err, n.errNF) {
		w.Fail("%s: no such row; the %s function said so with an error that errors.Is the configured not-found error (%s: %q), the call returned %s instead of the configured not-found error",
			name, used.where, c06nfNames[used.kind], used.err, n.describe(err, out))
	}
	n.c06S.judge(name, err, out, dIdx, dPri, tr, false, alts, touched)
	if a.o.NotFound {
		if err == n.errNF {
			w.St.Class("returned:the-configured-error-itself")
		} else {
			w.St.Class("returned:an-error-that-wraps-the-configured-one")
		}
	}
	switch {
	case used != nil && c06nfWrappedOrJoined(used.kind):
		for k, cw := range a.want {
			if cw.Placeholder {
				n.pend = k
			}
		}
	case used == nil && served != "" && a.o.NotFound:
		w.St.Class("read:served-from-not-found-marker")
		n.markerServed++
		if served == pend {
			n.shape = true
		}
	}
}

func (n *c06NFS) describe(err error, out c06Rec) string {
	if err == nil {
		return "the row " + out.String()
	}
	if errors.Is(err, n.errNF) {
		return fmt.Sprintf("the configured not-found error (%q)", err)
	}
	return fmt.Sprintf("error %q", err)
}

func c06nfSaid(used *c06nfUse) string {
	if used == nil {
		return ""
	}
	return "," + used.where + "-says:" + c06nfNames[used.kind]
}

func (n *c06NFS) queryRow(id int64, ctx bool, ident c06nfIdent) {
	s, w := n.c06S, n.w
	key := s.pk[id]
	w.Coherent(key)
	alts := s.primaryAlts(id, false)
	served := ""
	if e := w.Cached(key); e.Present && e.Placeholder {
		served = key
	}
	var out c06Rec
	var used *c06nfUse
	q0, i0 := s.db.byID, s.db.byIdx
	what := fmt.Sprintf("p%d", id)
	var err error
	name := "QueryRow"
	if ctx {
		name = "QueryRowCtx"
		err = s.cc.QueryRowCtx(context.Background(), &out, key, func(ctx context.Context, conn sqlx.SqlConn, v any) error {
			s.sameConn(conn)
			return n.say(conn.QueryRowCtx(ctx, v, "byid", id), ident, "query", what, &used)
		})
	} else {
		err = s.cc.QueryRow(&out, key, func(conn sqlx.SqlConn, v any) error {
			s.sameConn(conn)
			return n.say(conn.QueryRow(v, "byid", id), ident, "query", what, &used)
		})
	}
	tr := s.disarm(name, err)
	dPri, dIdx := s.db.byID-q0, s.db.byIdx-i0
	fmt.Fprintf(&w.Log, " %s(p%d%s)=%s/q%d", name, id, c06nfSaid(used), s.res(err, out), dPri)
	n.judge("QueryRow", fmt.Sprintf("%s(p%d)", name, id), err, out, dIdx, dPri, tr, alts, []string{key}, used, served)
	s.afterRead(key)
}

func (n *c06NFS) queryIndex(x int64, ctx bool, ident c06nfIdent) {
	s, w := n.c06S, n.w
	ikey := s.ik[x]
	w.Coherent(ikey)
	alts := s.indexAlts(x, false)
	touched := []string{ikey}
	for _, a := range alts {
		for k := range a.want {
			if k != ikey {
				touched = append(touched, k)
			}
		}
	}
	served := ""
	if e := w.Cached(ikey); e.Present && e.Placeholder {
		served = ikey
	} else if e.Present {
		pk := s.keyer(strings.TrimPrefix(e.Val, "->p"))
		if ep := w.Cached(pk); ep.Present && ep.Placeholder {
			served = pk
		}
	}
	var out c06Rec
	var used *c06nfUse
	q0, i0 := s.db.byID, s.db.byIdx
	what := fmt.Sprintf("i%d", x)
	var err error
	name := "QueryRowIndex"
	if ctx {
		name = "QueryRowIndexCtx"
		err = s.cc.QueryRowIndexCtx(context.Background(), &out, ikey, s.keyer,
			func(ctx context.Context, conn sqlx.SqlConn, v any) (any, error) {
				s.sameConn(conn)
				if err := conn.QueryRowCtx(ctx, v, "byidx", x); err != nil {
					return nil, n.say(err, ident, "index-query", what, &used)
				}
				return v.(*c06Rec).ID, nil
			},
			func(ctx context.Context, conn sqlx.SqlConn, v, primary any) error {
				s.sameConn(conn)
				id, _ := strconv.ParseInt(fmt.Sprint(primary), 10, 64)
				return n.say(conn.QueryRowCtx(ctx, v, "byid", id), ident, "primary-query", fmt.Sprintf("p%d", id), &used)
			})
	} else {
		err = s.cc.QueryRowIndex(&out, ikey, s.keyer,
			func(conn sqlx.SqlConn, v any) (any, error) {
				s.sameConn(conn)
				if err := conn.QueryRow(v, "byidx", x); err != nil {
					return nil, n.say(err, ident, "index-query", what, &used)
				}
				return v.(*c06Rec).ID, nil
			},
			func(conn sqlx.SqlConn, v, primary any) error {
				s.sameConn(conn)
				id, _ := strconv.ParseInt(fmt.Sprint(primary), 10, 64)
				return n.say(conn.QueryRow(v, "byid", id), ident, "primary-query", fmt.Sprintf("p%d", id), &used)
			})
	}
	tr := s.disarm(name, err)
	dPri, dIdx := s.db.byID-q0, s.db.byIdx-i0
	fmt.Fprintf(&w.Log, " %s(i%d%s)=%s/q%d+%d", name, x, c06nfSaid(used), s.res(err, out), dIdx, dPri)
	n.judge("QueryRowIndex", fmt.Sprintf("%s(i%d)", name, x), err, out, dIdx, dPri, tr, alts, touched, used, served)
	s.afterRead(touched...)
}

// deleteKeepIndex removes row id through Exec with its PRIMARY key only.  The index key of the
// row was not handed over, so a cached index entry is from now on "written behind the cache's
// back" (the statement's proviso): it is still served as cached until it expires or is
// invalidated, and the primary read it leads to must find - and cache - the absence of the row.
// This is the only way the primary query of QueryRowIndex can meet a missing row.
func (n *c06NFS) deleteKeepIndex(id int64) {
	s, w := n.c06S, n.w
	n.pend = ""
	old, had := s.db.rows[id]
	res, err := s.cc.Exec(func(conn sqlx.SqlConn) (sql.Result, error) {
		s.sameConn(conn)
		return conn.Exec("delete", id)
	}, s.pk[id])
	s.disarm("Exec", err)
	fmt.Fprintf(&w.Log, " Exec(delete p%d;keys=p%d only)=%s", id, id, c06ExecRes(s, res, err))
	if err != nil || res == nil {
		w.Fail("Exec on a healthy store and database returned (%v, %v)", res, err)
	}
	if had && old.Idx >= 0 {
		if e := w.Cached(s.ik[old.Idx]); e.Present && !e.Placeholder {
			w.Foreign[s.ik[old.Idx]] = true
			w.St.Class("exec:row-deleted-index-entry-left-behind")
		}
	}
	w.Settle(map[string]kit.Want{s.pk[id]: {Absent: true}})
	if s.phase[s.pk[id]] == 1 {
		s.phase[s.pk[id]] = 2
	}
}

func (n *c06NFS) forward(t *rapid.T) {
	s, w := n.c06S, n.w
	var ms int64
	switch rapid.IntRange(0, 2).Draw(t, "mode") {
	case 0:
		ms = rapid.Int64Range(1, 5000).Draw(t, "ms")
	case 1:
		var live []int64
		for _, k := range w.Keys {
			if e := w.Cached(k); e.Present {
				live = append(live, e.ExpAt-w.Now)
			}
		}
		if len(live) == 0 {
			ms = 1000
			break
		}
		sort.Slice(live, func(i, j int) bool { return live[i] < live[j] })
		ms = rapid.SampledFrom(live).Draw(t, "remaining") + rapid.SampledFrom([]int64{-1000, -1, 0, 1, 1000}).Draw(t, "delta")
	default:
		e := rapid.SampledFrom([]time.Duration{s.conf.nfExp, s.conf.nfExp, s.conf.exp, time.Minute}).Draw(t, "of")
		lo, hi := kit.Envelope(e)
		ms = rapid.Int64Range(lo, hi+6).Draw(t, "s")*1000 + rapid.SampledFrom([]int64{-1, 0, 1}).Draw(t, "delta")
	}
	n.pend = ""
	w.Forward(ms)
}

func TestVerifC06NotFoundIdentitySqlc(t *testing.T) {
	st := verifkit.New("notfound-identity-sqlc")
	defer st.Flush()
	rapid.Check(t, func(t *rapid.T) {
		st.Eval()
		n := &c06NFS{c06S: c06NewS(t, st, "n")}
		s, w := n.c06S, n.w
		st.Class("ctor:" + []string{"NewNodeConn", "NewConn", "NewConnWithCache"}[s.conf.ctor])
		st.Class(fmt.Sprintf("nodes:%d", len(s.conf.nodes)))
		id := rapid.Int64Range(0, c06IDs-1)
		ix := rapid.Int64Range(0, c06Idxs-1)
		exec := func(t *rapid.T, i int64, del bool) {
			n.pend = ""
			s.exec(i, del, rapid.Int64Range(-1, c06Idxs-1).Draw(t, "newIdx"), rapid.SampledFrom([]string{"a", "b", "c"}).Draw(t, "name"),
				rapid.Bool().Draw(t, "ctx"), false, "none", rapid.Permutation([]int{0, 1, 2}).Draw(t, "keyOrder"), false)
		}
		actions := map[string]func(*rapid.T){
			"queryRow": func(t *rapid.T) {
				n.queryRow(id.Draw(t, "id"), rapid.Bool().Draw(t, "ctx"), c06nfDraw(t))
			},
			"queryRowTwice": func(t *rapid.T) {
				i := id.Draw(t, "id")
				n.queryRow(i, rapid.Bool().Draw(t, "ctx"), c06nfDraw(t))
				n.queryRow(i, rapid.Bool().Draw(t, "ctx"), c06nfDraw(t))
			},
			"queryIndex": func(t *rapid.T) {
				n.queryIndex(ix.Draw(t, "idx"), rapid.Bool().Draw(t, "ctx"), c06nfDraw(t))
			},
			"queryIndexTwice": func(t *rapid.T) {
				x := ix.Draw(t, "idx")
				n.queryIndex(x, rapid.Bool().Draw(t, "ctx"), c06nfDraw(t))
				n.queryIndex(x, rapid.Bool().Draw(t, "ctx"), c06nfDraw(t))
			},
			"exec": func(t *rapid.T) {
				exec(t, id.Draw(t, "id"), rapid.Bool().Draw(t, "delete"))
			},
			"markerThenInsert": func(t *rapid.T) { // the markers of an absent row (primary and index key) must be invalidated by the insert
				i := id.Draw(t, "id")
				n.queryRow(i, rapid.Bool().Draw(t, "ctx"), c06nfDraw(t))
				x := ix.Draw(t, "idx")
				n.queryIndex(x, rapid.Bool().Draw(t, "ctx"), c06nfDraw(t))
				exec(t, i, rapid.IntRange(0, 3).Draw(t, "delete") == 0)
				n.queryRow(i, rapid.Bool().Draw(t, "ctx"), c06nfDraw(t))
				n.queryIndex(x, rapid.Bool().Draw(t, "ctx"), c06nfDraw(t))
			},
			"indexEntryLeftBehind": func(t *rapid.T) { // index hit -> primary miss -> no row: the PRIMARY query reports the absence
				x := ix.Draw(t, "idx")
				n.queryIndex(x, rapid.Bool().Draw(t, "ctx"), c06nfDraw(t))
				if r, ok := s.byIdx(x); ok {
					n.deleteKeepIndex(r.ID)
				}
				n.queryIndex(x, rapid.Bool().Draw(t, "ctx"), c06nfDraw(t))
				n.queryIndex(x, rapid.Bool().Draw(t, "ctx"), c06nfDraw(t))
			},
			"delCache": func(t *rapid.T) {
				perm := rapid.Permutation([]int64{0, 1, 2, 3}).Draw(t, "ids")
				n.pend = ""
				s.delCache(perm[:rapid.IntRange(1, 3).Draw(t, "n")], rapid.Bool().Draw(t, "ctx"), "none")
			},
			"forward": n.forward,
		}
		for name, f := range actions {
			f := f
			actions[name] = func(t *rapid.T) { w.F = t; w.Guard(func() { f(t) }) }
		}
		t.Repeat(actions)
		shape, controls := n.shape, n.controls // the non-trivial rule looks at the generated history only, not at the fixed sweep
		w.F = t
		w.Guard(func() { // final sweep: every key twice in a row, fixed identities
			for x := int64(0); x < c06Idxs; x++ {
				n.queryIndex(x, x%2 == 0, c06nfIdent{kind: []int{nfJoined, nfCtlOther}[x]})
				n.queryIndex(x, x%2 == 1, c06nfIdent{kind: []int{nfCtlText, nfTyped}[x], sentFirst: true})
			}
			for i := int64(0); i < c06IDs; i++ {
				n.queryRow(i, i%2 == 0, c06nfIdent{kind: []int{nfWrapped2, nfCtlText, nfWrapped, nfJoined}[i], sentFirst: i == 3})
				n.queryRow(i, i%2 == 1, c06nfIdent{kind: []int{nfCtlOther, nfTyped, nfBare, nfCtlText}[i]})
			}
		})
		if w.Dead {
			return
		}
		if n.shape {
			st.Class("case:wrapped-or-joined-not-found-then-served-from-marker")
		}
		if n.controls > 0 {
			st.Class("case:with-negative-control")
		}
		if n.primaryPath > 0 {
			st.Class("case:primary-query-of-an-index-read-met-a-missing-row")
		}
		if shape && controls > 0 {
			st.Class("case:non-trivial(before-the-sweep)")
			st.NonTrivial(w.Log.String())
		}
	})
}
