//go:build verif

// Package verifc06 is the shared part of check C06 (cache-aside store).  It is injected
// by -overlay as github.com/zeromicro/go-zero/internal/verifc06 and used by the external
// test packages cache_test (core/stores/cache) and sqlc_test (core/stores/sqlc).
//
// It contains
//
//   - the environment: three miniredis servers (one per cluster node), one go-zero
//     redis client per server carrying a fault-injecting go-redis hook (redis.WithHook),
//     outages through miniredis.SetError, PING padding that keeps the real per-address
//     breaker closed, and a logx writer that notices a breaker rejection should one
//     happen anyway,
//   - the TTL rule of the property ("finite TTL derived from the requested or configured
//     expiry, +/-5 % jitter, rounded up to seconds"),
//   - World: the reference model of the cache (per key: absent | value | not-found
//     marker, with expiry on the virtual clock that miniredis.FastForward drives) and the
//     comparison of that model with the real store after every operation.
//
// Nothing here knows how the code under test works beyond the Redis commands it may
// send (GET / SET..EX / SET..EX..NX / DEL on the key it was given).
package verifc06

import (
	"context"
	"errors"
	"fmt"
	"io"
	"net"
	"runtime"
	"sort"
	"strings"
	"sync"
	"sync/atomic"
	"time"

	"github.com/alicebob/miniredis/v2"
	red "github.com/redis/go-redis/v9"
	"github.com/zeromicro/go-zero/core/breaker"
	"github.com/zeromicro/go-zero/core/logx"
	"github.com/zeromicro/go-zero/core/stores/redis"
	"github.com/zeromicro/go-zero/internal/verifkit"
)

// ---------------------------------------------------------------------------- faults

// ErrInjected is what a command failed by the hook returns (the command is not sent).
var ErrInjected = errors.New("c06: injected cache-store failure")

// OutageMsg is the error reply every command gets while an outage is on.  It must not
// start with LOADING/READONLY/CLUSTERDOWN/TRYAGAIN (go-redis would retry with backoff).
const OutageMsg = "ERR c06 outage"

// IsStoreErr reports whether err is a failure this harness injected into the cache store.
func IsStoreErr(err error) bool {
	return err != nil && (errors.Is(err, ErrInjected) || strings.Contains(err.Error(), "c06 outage"))
}

// IsInfra reports whether err is trouble the harness did not inject (breaker rejection,
// transport trouble on an overloaded machine).  Such a case is inconclusive.
func IsInfra(err error) bool {
	if err == nil || IsStoreErr(err) {
		return false
	}
	var ne net.Error
	return errors.Is(err, breaker.ErrServiceUnavailable) || errors.As(err, &ne) ||
		errors.Is(err, io.EOF) || errors.Is(err, io.ErrUnexpectedEOF) ||
		errors.Is(err, context.DeadlineExceeded) || errors.Is(err, red.ErrClosed) ||
		strings.Contains(err.Error(), "connection pool timeout")
}

// Command kinds the hook distinguishes.
const (
	KGet   = "get"
	KSet   = "set"   // SET key value EX n      (unconditional write)
	KSetNX = "setnx" // SET key value EX n NX   (write if absent)
	KDel   = "del"
)

// Cmd is one traced command that touched a key of the running case.
type Cmd struct {
	Kind     string
	Keys     []string
	Injected bool
	Seq      int // position among the commands of the case since the last ArmNth/Disarm
}

type fault struct {
	kind, key string
	n         int
}

// Hook is a go-redis hook: it traces the commands on keys of the running case and fails
// the armed ones without sending them.
type Hook struct {
	mu     sync.Mutex
	prefix string
	faults []*fault
	trace  []Cmd
	// position-based plan: fail the nth command (counted from ArmNth on, whatever its name)
	// that touches a key of the case, and, when sticky, every later one as well
	nth    int
	sticky bool
	seen   int
}

func (h *Hook) DialHook(next red.DialHook) red.DialHook { return next }

// classify names a command and lists the arguments that are keys of the running case.  The
// four commands the cache is known to use get fixed kinds; ANY other command that mentions a
// key of the case is traced (and can be failed) under its own lower-case name, so that a
// command the code under test starts to use tomorrow (EXPIRE, GETSET, ...) is not invisible.
func classify(cmd red.Cmder, prefix string) (kind string, keys []string) {
	args := cmd.Args()
	for i := 1; i < len(args); i++ {
		if s, ok := args[i].(string); ok && prefix != "" && strings.HasPrefix(s, prefix) {
			keys = append(keys, s)
		}
	}
	if len(keys) == 0 {
		return "", nil
	}
	kind = strings.ToLower(cmd.Name())
	switch kind {
	case "setex", "psetex":
		kind = KSet
	case "set":
		for i := 3; i < len(args); i++ {
			if strings.EqualFold(fmt.Sprint(args[i]), "nx") {
				kind = KSetNX
			}
		}
	case "unlink":
		kind = KDel
	}
	return kind, keys
}

// decide is called with h.mu held for a command (or pipeline) that touches the case.
func (h *Hook) decide(kind string, keys []string) (inject bool) {
	h.seen++
	switch {
	case h.nth > 0 && h.seen == h.nth:
		inject = true
	case h.nth > 0 && h.sticky && h.seen > h.nth:
		inject = true
	}
	for _, f := range h.faults {
		if inject {
			break
		}
		if f.n == 0 || f.kind != kind {
			continue
		}
		for _, k := range keys {
			if k == f.key {
				inject = true
			}
		}
		if inject && f.n > 0 {
			f.n--
		}
	}
	h.trace = append(h.trace, Cmd{Kind: kind, Keys: keys, Injected: inject, Seq: h.seen})
	return inject
}

func (h *Hook) ProcessHook(next red.ProcessHook) red.ProcessHook {
	return func(ctx context.Context, cmd red.Cmder) error {
		h.mu.Lock()
		kind, keys := classify(cmd, h.prefix)
		if kind == "" {
			h.mu.Unlock()
			return next(ctx, cmd)
		}
		inject := h.decide(kind, keys)
		h.mu.Unlock()
		if inject {
			return ErrInjected
		}
		return next(ctx, cmd)
	}
}

// A pipeline that touches the case counts as one command named "pipeline"; it is failed as
// a whole (a partially executed pipeline cannot be produced from the client side).
func (h *Hook) ProcessPipelineHook(next red.ProcessPipelineHook) red.ProcessPipelineHook {
	return func(ctx context.Context, cmds []red.Cmder) error {
		h.mu.Lock()
		var keys []string
		for _, c := range cmds {
			_, ks := classify(c, h.prefix)
			keys = append(keys, ks...)
		}
		if len(keys) == 0 {
			h.mu.Unlock()
			return next(ctx, cmds)
		}
		inject := h.decide("pipeline", keys)
		h.mu.Unlock()
		if inject {
			for _, c := range cmds {
				c.SetErr(ErrInjected)
			}
			return ErrInjected
		}
		return next(ctx, cmds)
	}
}

// Reset forgets faults and trace and makes prefix the prefix of the keys that count.
func (h *Hook) Reset(prefix string) {
	h.mu.Lock()
	h.prefix, h.faults, h.trace = prefix, nil, nil
	h.nth, h.sticky, h.seen = 0, false, 0
	h.mu.Unlock()
}

// Arm makes the next n commands of the kind on the key fail (n < 0: all of them).
func (h *Hook) Arm(kind, key string, n int) {
	h.mu.Lock()
	h.faults = append(h.faults, &fault{kind: kind, key: key, n: n})
	h.mu.Unlock()
}

// ArmNth starts counting the commands that touch the case and fails the k-th one (k >= 1),
// whatever its name; sticky: and every one after it, until Disarm.
func (h *Hook) ArmNth(k int, sticky bool) {
	h.mu.Lock()
	h.nth, h.sticky, h.seen = k, sticky, 0
	h.mu.Unlock()
}

// Disarm drops all armed faults.
func (h *Hook) Disarm() {
	h.mu.Lock()
	h.faults = nil
	h.nth, h.sticky, h.seen = 0, false, 0
	h.mu.Unlock()
}

// ParseNth recognises the fault names "nth:K" (only the K-th command of the call fails) and
// "nth+:K" (the K-th and every later one).
func ParseNth(fault string) (k int, sticky, ok bool) {
	switch {
	case strings.HasPrefix(fault, "nth+:"):
		sticky = true
		fault = fault[5:]
	case strings.HasPrefix(fault, "nth:"):
		fault = fault[4:]
	default:
		return 0, false, false
	}
	for _, c := range fault {
		if c < '0' || c > '9' {
			return 0, false, false
		}
		k = k*10 + int(c-'0')
	}
	return k, sticky, k > 0
}

// OtherWriteFailed reports whether the hook failed a command that is neither GET nor DEL
// (SET, SET NX, or any command the harness has no name for): the call's write to the cache
// did not go through completely.
func OtherWriteFailed(trace []Cmd) bool {
	for _, c := range trace {
		if c.Injected && c.Kind != KGet && c.Kind != KDel {
			return true
		}
	}
	return false
}

// FailedKinds lists the kinds of the commands the hook failed, in order.
func FailedKinds(trace []Cmd) (out []string) {
	for _, c := range trace {
		if c.Injected {
			out = append(out, c.Kind)
		}
	}
	return out
}

// Take returns the trace collected so far and clears it.
func (h *Hook) Take() []Cmd {
	h.mu.Lock()
	t := h.trace
	h.trace = nil
	h.mu.Unlock()
	return t
}

// Count counts traced (not cleared) commands of a kind that mention key.
func (h *Hook) Count(kind, key string, injectedOnly bool) int {
	h.mu.Lock()
	defer h.mu.Unlock()
	n := 0
	for _, c := range h.trace {
		if c.Kind != kind || (injectedOnly && !c.Injected) {
			continue
		}
		for _, k := range c.Keys {
			if k == key {
				n++
				break
			}
		}
	}
	return n
}

// ---------------------------------------------------------------------------- log watcher

// logWatch replaces the logx writer: everything is dropped, but error lines that carry
// the breaker's rejection text are counted (a rejected SET/DEL is only ever logged).
type logWatch struct{ breakerOpen atomic.Int64 }

func (l *logWatch) see(v any) {
	if strings.Contains(fmt.Sprint(v), breaker.ErrServiceUnavailable.Error()) {
		l.breakerOpen.Add(1)
	}
}
func (l *logWatch) Alert(v any)                     {}
func (l *logWatch) Close() error                    { return nil }
func (l *logWatch) Debug(v any, _ ...logx.LogField) {}
func (l *logWatch) Error(v any, _ ...logx.LogField) { l.see(v) }
func (l *logWatch) Info(v any, _ ...logx.LogField)  {}
func (l *logWatch) Severe(v any)                    { l.see(v) }
func (l *logWatch) Slow(v any, _ ...logx.LogField)  {}
func (l *logWatch) Stack(v any)                     { l.see(v) }
func (l *logWatch) Stat(v any, _ ...logx.LogField)  {}

// ---------------------------------------------------------------------------- environment

// Nodes is the number of miniredis servers (= the largest cluster a case may use).
const Nodes = 3

// Env is created once per test process: go-zero keeps one client and one breaker per
// address for the life of the process, so servers are never restarted; cases are
// separated by FlushAll and by key prefixes that are unique per case.
type Env struct {
	MR   [Nodes]*miniredis.Miniredis
	Rds  [Nodes]*redis.Redis
	// RdsC: the same servers through clients of type "cluster" (go-redis ClusterClient; miniredis
	// answers CLUSTER SLOTS as a one-node cluster): cacheNode treats multi-key deletes differently there
	RdsC [Nodes]*redis.Redis
	Hook *Hook
	logs *logWatch
	seq  atomic.Int64
}

var (
	envOnce sync.Once
	env     *Env
	envErr  error
)

// Skipper is the part of testing.TB / rapid.T needed to give up on an unusable machine.
type Skipper interface {
	Skipf(format string, args ...any)
}

// GetEnv returns the process-wide environment.
func GetEnv(tb Skipper) *Env {
	envOnce.Do(func() {
		e := &Env{Hook: &Hook{}, logs: &logWatch{}}
		logx.DisableStat()
		logx.SetWriter(e.logs)
		for i := 0; i < Nodes; i++ {
			mr, err := miniredis.Run()
			if err != nil {
				envErr = err
				return
			}
			e.MR[i] = mr
			e.Rds[i] = redis.New(mr.Addr(), redis.WithHook(e.Hook))
			// the first command creates the per-address client; it must be this Redis (with
			// the hook) that creates it, every later redis.Redis on the address shares it
			if !e.Rds[i].Ping() {
				envErr = errors.New("miniredis does not answer PING")
				return
			}
			e.RdsC[i] = redis.New(mr.Addr(), redis.Cluster(), redis.WithHook(e.Hook))
			if !e.RdsC[i].Ping() {
				envErr = errors.New("miniredis does not answer PING through a cluster-type client")
				return
			}
		}
		env = e
	})
	if envErr != nil || env == nil {
		tb.Skipf("inconclusive: cannot start miniredis: %v", envErr)
	}
	return env
}

// NewCase wipes the servers, ends outages, resets the hook and returns a fresh key prefix.
func (e *Env) NewCase(tag string) string {
	for _, mr := range e.MR {
		mr.SetError("")
		mr.FlushAll()
	}
	p := fmt.Sprintf("c06:%s%d:", tag, e.seq.Add(1))
	e.Hook.Reset(p)
	return p
}

// Outage switches the error reply of every server on or off.
func (e *Env) Outage(on bool) {
	for _, mr := range e.MR {
		if on {
			mr.SetError(OutageMsg)
		} else {
			mr.SetError("")
		}
	}
}

// Pad sends n successful PINGs to each of the given servers through the go-zero client,
// i.e. through the per-address breaker.  The breaker starts to reject once the failures
// of the last 10 s exceed 5 + 0.1 x successes (its k never drops below 1.1); an operation
// of this harness fails at most one command per server, and is preceded by n >= 12 PINGs
// on every server it may reach, so that cannot happen.
func (e *Env) Pad(nodes []int, n int) bool {
	for _, i := range nodes {
		for j := 0; j < n; j++ {
			if !e.Rds[i].Ping() {
				return false
			}
		}
	}
	return true
}

// BreakerRejections is the number of logged breaker rejections so far.
func (e *Env) BreakerRejections() int64 { return e.logs.breakerOpen.Load() }

// Stored is what a server holds for a key.
type Stored struct {
	Present bool
	Raw     string
	TTL     time.Duration // 0 = no TTL (persistent key)
	Copies  int           // number of servers holding the key
}

// Lookup reads a key from the given servers with miniredis' direct API.  The three reads
// are not atomic, and the cleaner's retried DEL of a key whose invalidation failed may land
// between them (a vanished key reports TTL 0, which would look like a persistent key): a
// key that is gone at the end of the reads is reported as absent.
func (e *Env) Lookup(nodes []int, key string) Stored {
	var s Stored
	for _, n := range nodes {
		mr := e.MR[n]
		if !mr.Exists(key) {
			continue
		}
		raw, err := mr.Get(key)
		ttl := mr.TTL(key)
		if err != nil || !mr.Exists(key) {
			continue
		}
		s.Copies++
		s.Present = true
		s.Raw, s.TTL = raw, ttl
	}
	return s
}

// AllKeys lists every key on the given servers.
func (e *Env) AllKeys(nodes []int) []string {
	var out []string
	for _, n := range nodes {
		out = append(out, e.MR[n].Keys()...)
	}
	sort.Strings(out)
	return out
}

// ---------------------------------------------------------------------------- TTL rule

// Envelope returns the TTLs (whole seconds) the statement allows for an entry written
// with expiry e: e x [0.95, 1.05], rounded up to seconds.
func Envelope(e time.Duration) (lo, hi int64) {
	ceil := func(num, den int64) int64 { return (num + den - 1) / den }
	ns := int64(e)
	return ceil(ns*95, 100*int64(time.Second)), ceil(ns*105, 100*int64(time.Second))
}

// CeilSeconds rounds d up to whole seconds.
func CeilSeconds(d time.Duration) int64 {
	return (int64(d) + int64(time.Second) - 1) / int64(time.Second)
}

// TTLRule says what the TTL of a freshly written entry may be.
type TTLRule struct {
	Lo, Hi int64  // seconds, inclusive; Hi == 0: only "finite and positive" is required
	Why    string // rendered in failure messages
}

// Jittered is the rule for an entry written with a configured expiry e (+/-5 %).  When the
// expiry was not configured (library default) only finiteness is required.
func Jittered(e time.Duration, configured bool, extra int64, why string) TTLRule {
	if !configured {
		return TTLRule{Why: why + " (expiry not configured: finite TTL only)"}
	}
	lo, hi := Envelope(e)
	return TTLRule{Lo: lo + extra, Hi: hi + extra, Why: fmt.Sprintf("%s: expiry %v => [%d,%d] s", why, e, lo+extra, hi+extra)}
}

// Exact is the rule for an entry that must live exactly sec seconds.
func Exact(sec int64, why string) TTLRule {
	return TTLRule{Lo: sec, Hi: sec, Why: fmt.Sprintf("%s: %d s", why, sec)}
}

// ---------------------------------------------------------------------------- model

// Placeholder is the stored form of "the database has no such row".
const Placeholder = "*"

// Entry is the model of one cache key.
type Entry struct {
	Present     bool
	Placeholder bool
	Val         string // canonical rendering of the cached value (see World.Decode)
	ExpAt       int64  // virtual ms at which the entry is gone
}

func (e Entry) String() string {
	switch {
	case !e.Present:
		return "absent"
	case e.Placeholder:
		return fmt.Sprintf("not-found marker until t=%d", e.ExpAt)
	}
	return fmt.Sprintf("value %s until t=%d", e.Val, e.ExpAt)
}

// Want is what an operation is expected to leave in the store for one key.
type Want struct {
	Absent      bool
	Placeholder bool
	Val         string
	TTL         TTLRule
	// Loose: the operation was hit by an injected fault (or the key awaits a retried
	// invalidation); whatever is stored is accepted as long as it is lawful (see Settle).
	// The TTL clause is not relaxed: an entry this operation wrote must satisfy TTL (a value)
	// resp. MarkerTTL (the not-found marker) when those rules are given.
	Loose     bool
	MarkerTTL TTLRule
	// Keep: the entry must be exactly what the model already holds (a hit changes nothing).
	Keep bool
	// MayVanish: like Keep, but the operation may as well have removed the entry.
	MayVanish bool
}

// Failer is what the model needs from *rapid.T / *testing.T.
type Failer interface {
	Fatalf(format string, args ...any)
}

// World is one case: a set of keys on some servers, the model of their cache entries and
// the virtual clock.
type World struct {
	Env    *Env
	F      Failer
	St     *verifkit.Stats
	Prefix string
	Nodes  []int
	Now    int64 // virtual ms
	Log    strings.Builder
	Keys   []string          // every cache key the case may touch
	Model  map[string]*Entry // by key; missing = absent
	Dirty  map[string]bool   // an invalidation of this key failed: possibly stale until the cleaner retried
	// Foreign: the entry was written "behind the database's back" (explicit set of a value the
	// database does not hold); it is served as cached, the coherence clause does not apply.
	Foreign map[string]bool
	// Decode renders a stored non-placeholder payload canonically (error = undecodable).
	Decode func(key, raw string) (string, error)
	// Truth is what the database holds for the key, rendered like Decode does.
	Truth func(key string) (val string, found bool)

	Dead       bool
	rejections int64
	Faults     int // injected faults consumed in this case
}

// NewWorld starts a case.
func NewWorld(e *Env, f Failer, st *verifkit.Stats, tag string, nodes []int) *World {
	w := &World{Env: e, F: f, St: st, Nodes: nodes, Model: map[string]*Entry{},
		Dirty: map[string]bool{}, Foreign: map[string]bool{}}
	w.Prefix = e.NewCase(tag)
	w.rejections = e.BreakerRejections()
	return w
}

type abortSignal struct{}

// Abort ends the case without a verdict (see Guard).
func (w *World) Abort(format string, a ...any) {
	w.Dead = true
	w.Env.Outage(false)
	w.Env.Hook.Disarm()
	w.St.Class("inconclusive:case-abandoned")
	w.St.Note("inconclusive case: "+format+"; history: %s", append(a, w.Log.String())...)
	panic(abortSignal{})
}

// Guard runs f unless the case was abandoned and absorbs the unwinding of Abort.  (rapid's
// Skip cannot be used inside Repeat actions.)
func (w *World) Guard(f func()) {
	if w.Dead {
		return
	}
	defer func() {
		if r := recover(); r != nil {
			if _, ok := r.(abortSignal); !ok {
				panic(r)
			}
		}
	}()
	f()
}

// Fail reports a violation with the rendered history and the state of model and store.
func (w *World) Fail(format string, a ...any) {
	w.Env.Outage(false)
	w.Env.Hook.Disarm()
	msg := fmt.Sprintf(format, a...)
	w.St.Sample("FAILING: " + msg + " | " + w.Log.String())
	var ks []string
	for _, k := range w.Keys {
		s := w.Env.Lookup(w.Nodes, k)
		store := "absent"
		if s.Present {
			store = fmt.Sprintf("%q ttl=%v copies=%d", s.Raw, s.TTL, s.Copies)
		}
		flags := ""
		if w.Dirty[k] {
			flags += " [invalidation failed]"
		}
		if w.Foreign[k] {
			flags += " [explicitly set]"
		}
		ks = append(ks, fmt.Sprintf("%s: store %s | model %s%s", strings.TrimPrefix(k, w.Prefix), store, w.entry(k), flags))
	}
	w.F.Fatalf("%s\n  at virtual t=%dms; history:%s\n  keys:\n    %s", msg, w.Now, w.Log.String(), strings.Join(ks, "\n    "))
}

// CheckInfra abandons the case when err is trouble the harness did not inject, or when
// the breaker rejected a command since the last call.
func (w *World) CheckInfra(op string, err error) {
	if IsInfra(err) {
		w.Abort("%s returned %v (not injected)", op, err)
	}
	if n := w.Env.BreakerRejections(); n != w.rejections {
		w.rejections = n
		w.Abort("%s: the redis client's circuit breaker rejected a command", op)
	}
}

func (w *World) entry(key string) Entry {
	if e, ok := w.Model[key]; ok && e.Present {
		return *e
	}
	return Entry{}
}

// Cached returns the model entry of key at the current virtual time.
func (w *World) Cached(key string) Entry { return w.entry(key) }

// Forward advances the virtual clock (miniredis.FastForward on every server of the case)
// and checks that exactly the entries whose TTL ran out are gone.
func (w *World) Forward(ms int64) {
	if ms < 1 {
		ms = 1
	}
	for _, n := range w.Nodes {
		w.Env.MR[n].FastForward(time.Duration(ms) * time.Millisecond)
	}
	w.Now += ms
	fmt.Fprintf(&w.Log, " fwd(%dms)", ms)
	for _, k := range w.Keys {
		e := w.entry(k)
		if e.Present && e.ExpAt <= w.Now {
			w.St.Class("expiry:entry-expired")
			delete(w.Model, k)
			delete(w.Foreign, k)
		}
	}
	w.Settle(nil)
}

// Outcome is the result of a read as the oracle sees it.
type Outcome struct {
	Val      string // canonical value when OK
	OK       bool   // a row was returned
	NotFound bool   // the configured not-found error was returned
}

func (o Outcome) String() string {
	switch {
	case o.OK:
		return "row " + o.Val
	case o.NotFound:
		return "not-found"
	}
	return "other error"
}

// FromTruth is what the database holds for key.
func (w *World) FromTruth(key string) Outcome {
	if v, ok := w.Truth(key); ok {
		return Outcome{Val: v, OK: true}
	}
	return Outcome{NotFound: true}
}

// FromEntry is what a cached entry answers.
func FromEntry(e Entry) Outcome {
	if e.Placeholder {
		return Outcome{NotFound: true}
	}
	return Outcome{Val: e.Val, OK: true}
}

// Coherent checks the model's own invariant: an entry that was not written behind the
// database's back and does not await a retried invalidation equals the database.  A
// breach means the harness (not the code) is wrong, because the model is only ever
// updated from outcomes that were checked.
func (w *World) Coherent(key string) {
	e := w.entry(key)
	if !e.Present || w.Foreign[key] || w.Dirty[key] {
		return
	}
	if FromEntry(e) != w.FromTruth(key) {
		w.Fail("harness: model entry of %s (%s) differs from the database (%s) although every write was invalidated",
			key, e, w.FromTruth(key))
	}
}

// Settle compares the store with the model after an operation.  want lists the keys the
// operation was expected to write (or to leave loosely defined); every other key of the
// case must be exactly as the model has it.  Afterwards the model adopts the expiry the
// store reports for freshly written entries.
func (w *World) Settle(want map[string]Want) {
	known := map[string]bool{}
	for _, k := range w.Keys {
		known[k] = true
	}
	for _, k := range w.Env.AllKeys(w.Nodes) {
		if !known[k] && strings.HasPrefix(k, w.Prefix) {
			w.Fail("the store holds key %q, which no operation of this case was given", k)
		}
	}
	for _, k := range w.Keys {
		s := w.Env.Lookup(w.Nodes, k)
		if s.Copies > 1 {
			w.Fail("key %s is stored on %d servers of the cluster", k, s.Copies)
		}
		// TTL clause: whatever is in the store is never persistent
		if s.Present && s.TTL <= 0 {
			w.Fail("TTL clause: key %s is stored without a TTL (persistent key), value %q", k, s.Raw)
		}
		wt, touched := want[k]
		if w.Dirty[k] {
			// An invalidation of this key failed; the cleaner's retry (a DEL) may strike at any
			// moment from now on.  So absence is always acceptable, and an entry that should have
			// been removed may still be there unchanged; anything else is judged as usual.
			if !s.Present {
				w.adopt(k, s)
				continue
			}
			if touched && wt.Absent {
				if d := w.diff(k, w.entry(k), s); d != "" {
					w.Fail("key %s must not be cached after this operation, the store holds %q (ttl %v); an earlier invalidation of the key failed, so the entry from back then might have survived, but this is a different one: %s", k, s.Raw, s.TTL, d)
				}
				continue
			}
		}
		old := w.entry(k)
		if touched && wt.MayVanish {
			if s.Present {
				w.same(k, old, s)
			}
			w.adopt(k, s)
			continue
		}
		if !touched || wt.Keep {
			w.same(k, old, s)
			continue
		}
		if wt.Loose {
			w.lawful(k, s)
			if s.Present && w.diff(k, old, s) != "" { // written (or rewritten) by this operation
				switch {
				case s.Raw == Placeholder && wt.MarkerTTL.Why != "":
					w.ttl(k, s, wt.MarkerTTL)
				case s.Raw != Placeholder && wt.TTL.Why != "":
					w.ttl(k, s, wt.TTL)
				}
			}
			w.adopt(k, s)
			continue
		}
		switch {
		case wt.Absent:
			if s.Present {
				w.Fail("key %s must not be cached after this operation, the store holds %q (ttl %v)", k, s.Raw, s.TTL)
			}
		case wt.Placeholder:
			if !s.Present {
				w.Fail("load suppression: the absence of the row was not cached under %s (store healthy, no fault injected)", k)
			}
			if s.Raw != Placeholder {
				w.Fail("key %s should hold the not-found marker, holds %q", k, s.Raw)
			}
			w.ttl(k, s, wt.TTL)
		default:
			if !s.Present {
				w.Fail("load suppression: the row was not cached under %s (store healthy, no fault injected)", k)
			}
			if s.Raw == Placeholder {
				w.Fail("key %s holds the not-found marker although the row %s exists", k, wt.Val)
			}
			got, err := w.Decode(k, s.Raw)
			if err != nil || got != wt.Val {
				w.Fail("key %s caches %q (decoded %q, err %v), expected %s", k, s.Raw, got, err, wt.Val)
			}
			w.ttl(k, s, wt.TTL)
		}
		w.adopt(k, s)
	}
}

// same: an untouched (or merely read) entry is exactly what the model holds.
func (w *World) same(k string, old Entry, s Stored) {
	if d := w.diff(k, old, s); d != "" {
		w.Fail("key %s: %s (no operation wrote or removed it)", k, d)
	}
}

// diff describes how the stored key differs from the model entry ("" = not at all).
func (w *World) diff(k string, old Entry, s Stored) string {
	if old.Present != s.Present {
		return fmt.Sprintf("store present=%v, model says %s", s.Present, old)
	}
	if !s.Present {
		return ""
	}
	if old.Placeholder != (s.Raw == Placeholder) {
		return fmt.Sprintf("store holds %q, model says %s", s.Raw, old)
	}
	if !old.Placeholder {
		if got, err := w.Decode(k, s.Raw); err != nil || got != old.Val {
			return fmt.Sprintf("store holds %q (decoded %q, err %v), model says %s", s.Raw, got, err, old)
		}
	}
	if rem := time.Duration(old.ExpAt-w.Now) * time.Millisecond; s.TTL != rem {
		return fmt.Sprintf("remaining TTL %v, model says %v", s.TTL, rem)
	}
	return ""
}

// lawful: after an injected fault the statement does not fix what is cached, but what is
// cached must still be true: a value equals the database row, the marker means no row.
func (w *World) lawful(k string, s Stored) {
	if !s.Present || w.Foreign[k] || w.Dirty[k] {
		return
	}
	truth := w.FromTruth(k)
	if s.Raw == Placeholder {
		if !truth.NotFound {
			w.Fail("after a fault key %s caches the not-found marker although the database holds %s", k, truth)
		}
		return
	}
	got, err := w.Decode(k, s.Raw)
	if err != nil || !truth.OK || got != truth.Val {
		w.Fail("after a fault key %s caches %q (decoded %q, err %v) although the database holds %s", k, s.Raw, got, err, truth)
	}
}

func (w *World) ttl(k string, s Stored, r TTLRule) {
	sec := int64(s.TTL / time.Second)
	if s.TTL%time.Second != 0 {
		w.Fail("TTL clause: key %s was written with TTL %v, not whole seconds (%s)", k, s.TTL, r.Why)
	}
	if r.Hi == 0 {
		return // finiteness was checked above
	}
	if sec < r.Lo || sec > r.Hi {
		w.Fail("TTL clause: key %s was written with TTL %d s; %s", k, sec, r.Why)
	}
	switch {
	case r.Lo == r.Hi:
	case sec == r.Lo:
		w.St.Class("ttl:at-lower-bound")
	case sec == r.Hi:
		w.St.Class("ttl:at-upper-bound")
	}
}

// adopt makes the model follow the store for key k.
func (w *World) adopt(k string, s Stored) {
	if !s.Present {
		delete(w.Model, k)
		delete(w.Foreign, k)
		return
	}
	e := &Entry{Present: true, ExpAt: w.Now + int64(s.TTL/time.Millisecond)}
	if s.Raw == Placeholder {
		e.Placeholder = true
	} else {
		e.Val, _ = w.Decode(k, s.Raw)
	}
	w.Model[k] = e
}

// MarkFailedInvalidations looks at the trace of the operation that just ran: every key
// named by a DEL the harness failed is from now on "possibly stale until cleaned".
func (w *World) MarkFailedInvalidations(trace []Cmd, outage bool, keys []string) (n int) {
	for _, c := range trace {
		if c.Kind == KDel && (c.Injected || outage) {
			for _, k := range c.Keys {
				if !w.Dirty[k] {
					w.Dirty[k] = true
					n++
				}
			}
		}
	}
	defer func() {
		// VERIF_C06_WAIT_CLEANER_MS (experiments only, never set by check.json): pause after a
		// failed invalidation so that the cleaner's retry lands in the middle of the case
		if n > 0 && waitCleaner > 0 {
			time.Sleep(waitCleaner)
		}
	}()
	if outage { // under an outage the DEL reached the server and was answered with the error
		for _, k := range keys {
			if !w.Dirty[k] {
				w.Dirty[k] = true
				n++
			}
		}
	}
	return n
}

var waitCleaner = time.Duration(verifkit.EnvInt("c06_wait_cleaner_ms", 0)) * time.Millisecond

// Injected counts the commands of the trace that the hook failed.
func Injected(trace []Cmd) (n int) {
	for _, c := range trace {
		if c.Injected {
			n++
		}
	}
	return n
}

// Saw reports whether the trace contains a command of the kind (injected or not).
func Saw(trace []Cmd, kind string) bool {
	for _, c := range trace {
		if c.Kind == kind {
			return true
		}
	}
	return false
}

// InjectedKind reports whether the trace contains a failed command of the kind.
func InjectedKind(trace []Cmd, kind string) bool {
	for _, c := range trace {
		if c.Kind == kind && c.Injected {
			return true
		}
	}
	return false
}

// ---------------------------------------------------------------------------- concurrent rounds

// ParkedInFlight counts the goroutines that are inside SingleFlight's createCall, i.e. that
// found (or are about to find) a running flight for their key and wait for its result.
// While the harness holds the one running database query at its gate, a reader counted
// here has joined that query's flight for certain.  Used only to order events (release
// the gate once every reader has joined) and to know which readers overlapped the flight,
// never as an oracle; if the frames cannot be found the round is judged in the weak mode.
func ParkedInFlight() int {
	buf := make([]byte, 1<<20)
	for {
		n := runtime.Stack(buf, true)
		if n < len(buf) {
			return strings.Count(string(buf[:n]), "syncx.(*flightGroup).createCall")
		}
		buf = make([]byte, 2*len(buf))
	}
}

// Fault plans of a concurrent round.
const (
	PlanNone         = "none"
	PlanWriteBack    = "write-back-fails"    // the leader's SET / SET NX after the query is failed by the hook
	PlanOutageDuring = "outage-during-query" // the store goes down while the query closure runs and stays down
	PlanOutageBefore = "outage-before"       // the store is down before the readers start
	PlanWaiterGet    = "waiter-get-fails"    // every GET of the key after the leader's is failed by the hook
)

// Plans is what a concurrent round draws from (3 of 8 rounds run on a healthy store).
var Plans = []string{PlanNone, PlanNone, PlanNone, PlanWriteBack, PlanWriteBack, PlanOutageDuring, PlanOutageBefore, PlanWaiterGet}

// AwaitReaders waits (bounded) until the first query is held at the gate and all other
// readers are parked in its flight.  It reports whether that state was reached.
func AwaitReaders(g int, started, queries func() int64, maxInflight func() int64) (allParked bool) {
	deadline := time.Now().Add(5 * time.Second)
	for (started() < int64(g) || queries() == 0) && time.Now().Before(deadline) {
		runtime.Gosched()
	}
	if queries() == 0 {
		return false
	}
	// a healthy implementation parks g-1 readers within microseconds; one that does not share
	// flights never will, so do not wait long once a second query is already running
	soft := time.Now().Add(200 * time.Millisecond)
	for time.Now().Before(soft) && maxInflight() < 2 {
		if ParkedInFlight() >= g-1 {
			return true
		}
		time.Sleep(50 * time.Microsecond)
	}
	return false
}

// WriteFailed reports whether a command other than GET / DEL was failed during the operation
// (by the hook, or - under an outage - by the server): the call's write did not go through.
func WriteFailed(trace []Cmd, outage bool) bool {
	for _, c := range trace {
		if c.Kind != KGet && c.Kind != KDel && (c.Injected || outage) {
			return true
		}
	}
	return false
}

// NoteNth records, for a position-based fault, the drawn k and the names of the commands
// that were failed ("unconsumed" when the call issued fewer than k commands).
func (w *World) NoteNth(fault string, trace []Cmd) {
	k, sticky, ok := ParseNth(fault)
	if !ok {
		return
	}
	name := "nth"
	if sticky {
		name = "nth+"
	}
	w.St.Class(fmt.Sprintf("%s:k=%d", name, k))
	kinds := FailedKinds(trace)
	if len(kinds) == 0 {
		w.St.Class(name + ":unconsumed(call issued fewer commands)")
	}
	for _, kd := range kinds {
		w.St.Class(name + ":failed-cmd:" + kd)
	}
}

// ArmFault installs a named fault for one operation: "outage", "nth:K", "nth+:K", or a
// command kind (failed once on key).  Pads the breaker first.  Returns false if padding failed.
func (w *World) ArmFault(fault, key string) bool {
	if fault == "none" {
		return true
	}
	k, sticky, nth := ParseNth(fault)
	pad := 15
	if sticky || fault == "outage" {
		pad = 50 // a sticky fault fails every remaining command of the call (at most 4 per server)
	}
	if !w.Env.Pad(w.Nodes, pad) {
		return false
	}
	switch {
	case fault == "outage":
		w.Env.Outage(true)
	case nth:
		w.Env.Hook.ArmNth(k, sticky)
	default:
		w.Env.Hook.Arm(fault, key, 1)
	}
	return true
}
