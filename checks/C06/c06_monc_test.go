//go:build verif

package monc_test

// C06 — cache-aside store, part 3: monc.Model (FindOne / InsertOne / ReplaceOne / UpdateOne /
// UpdateByID / UpdateMany / DeleteOne / FindOneAndDelete / FindOneAndReplace /
// FindOneAndUpdate, their *NoCache variants, SetCache / GetCache / DelCache) in front of a
// fake mon.Collection (a map of documents; every call is counted).  No MongoDB deployment
// is needed: the models are built by the package's public constructors around an
// unconnected *mongo.Client registered with mon.Inject, and the exported field
// mon.Model.Collection is then replaced by the fake.  Same environment, fault injection and
// model as parts 1 and 2 (internal/verifc06).

import (
	"context"
	"encoding/json"
	"errors"
	"fmt"
	"sort"
	"strings"
	"sync"
	"sync/atomic"
	"testing"
	"time"

	"github.com/zeromicro/go-zero/core/stores/cache"
	"github.com/zeromicro/go-zero/core/stores/mon"
	"github.com/zeromicro/go-zero/core/stores/monc"
	"github.com/zeromicro/go-zero/core/stores/redis"
	"github.com/zeromicro/go-zero/core/syncx"
	kit "github.com/zeromicro/go-zero/internal/verifc06"
	"github.com/zeromicro/go-zero/internal/verifkit"
	"go.mongodb.org/mongo-driver/bson"
	"go.mongodb.org/mongo-driver/mongo"
	mopt "go.mongodb.org/mongo-driver/mongo/options"
	"pgregory.net/rapid"
)

// ---------------------------------------------------------------------------- fake collection

type mcDoc struct {
	ID    int64  `bson:"_id" json:"id"`
	Name  string `bson:"name" json:"name"`
	Ver   int64  `bson:"ver" json:"ver"`                         // assigned by the fake database on every write
	Stamp int64  `bson:"stamp,omitempty" json:"stamp,omitempty"` // concurrent unit: which query produced the document
}

func (d mcDoc) String() string {
	s := fmt.Sprintf("{id=%d %q v%d", d.ID, d.Name, d.Ver)
	if d.Stamp != 0 {
		s += fmt.Sprintf(" q%d", d.Stamp)
	}
	return s + "}"
}

var mcErrDB = errors.New("c06: injected database error")

const mcDupCode = 11000

func mcDupErr(id int64) error {
	return mongo.WriteException{WriteErrors: mongo.WriteErrors{{Code: mcDupCode, Message: fmt.Sprintf("E11000 duplicate key error _id: %d", id)}}}
}

func mcIsDup(err error) bool {
	var we mongo.WriteException
	return errors.As(err, &we) && we.HasErrorCode(mcDupCode)
}

// mcSameErr: err is (wraps) the error the fake database answered with.
func mcSameErr(err, want error) bool {
	if mcIsDup(want) {
		return mcIsDup(err)
	}
	return errors.Is(err, want)
}

type mcQRes struct {
	doc mcDoc
	err error
}

// mcColl is the fake database: it implements the methods of mon.Collection that monc uses.
// Every other method panics (nil embedded interface).
type mcColl struct {
	mon.Collection
	mu      sync.Mutex
	docs    map[int64]mcDoc
	ver     int64
	fail    bool   // every call of the running operation fails
	finds   int    // FindOne calls
	writes  int    // write calls
	lastErr error  // what the last write call answered
	before  func() // runs inside a write call before the write is applied
	// concurrent unit
	gate      chan struct{}
	inflight  atomic.Int64
	maxIn     atomic.Int64
	stamps    atomic.Int64
	results   map[int64]mcQRes
	errFirst  bool
	afterGate func(stamp int64)
}

func (c *mcColl) hold() (stamp int64, release func()) {
	if c.gate == nil {
		return 0, func() {}
	}
	n := c.inflight.Add(1)
	for {
		mx := c.maxIn.Load()
		if n <= mx || c.maxIn.CompareAndSwap(mx, n) {
			break
		}
	}
	stamp = c.stamps.Add(1)
	<-c.gate
	if c.afterGate != nil {
		c.afterGate(stamp)
	}
	return stamp, func() { c.inflight.Add(-1) }
}

func mcToInt(v any) (int64, bool) {
	switch x := v.(type) {
	case int64:
		return x, true
	case int32:
		return int64(x), true
	case int:
		return int64(x), true
	}
	return 0, false
}

// mcIDs understands the filters {"_id": n} and {"_id": {"$in": [n, ...]}} in any bson form.
func mcIDs(filter any) []int64 {
	raw, err := bson.Marshal(filter)
	if err != nil {
		panic(fmt.Sprintf("c06 fake collection: filter %v: %v", filter, err))
	}
	var m bson.M
	if err := bson.Unmarshal(raw, &m); err != nil {
		panic(err)
	}
	if n, ok := mcToInt(m["_id"]); ok {
		return []int64{n}
	}
	if sub, ok := m["_id"].(bson.M); ok {
		if arr, ok := sub["$in"].(bson.A); ok {
			var ids []int64
			for _, a := range arr {
				n, ok := mcToInt(a)
				if !ok {
					panic(fmt.Sprintf("c06 fake collection: unsupported filter %v", filter))
				}
				ids = append(ids, n)
			}
			return ids
		}
	}
	panic(fmt.Sprintf("c06 fake collection: unsupported filter %v", filter))
}

// mcSetName understands the update {"$set": {"name": s}}.
func mcSetName(update any) string {
	raw, err := bson.Marshal(update)
	if err != nil {
		panic(err)
	}
	var m bson.M
	if err := bson.Unmarshal(raw, &m); err != nil {
		panic(err)
	}
	if set, ok := m["$set"].(bson.M); ok {
		if s, ok := set["name"].(string); ok {
			return s
		}
	}
	panic(fmt.Sprintf("c06 fake collection: unsupported update %v", update))
}

func mcAsDoc(document any) mcDoc {
	raw, err := bson.Marshal(document)
	if err != nil {
		panic(err)
	}
	var d mcDoc
	if err := bson.Unmarshal(raw, &d); err != nil {
		panic(err)
	}
	return d
}

func mcSingle(d mcDoc, err error) (*mongo.SingleResult, error) {
	if err != nil {
		// like the real decorated collection: the result carries the error and it is returned too
		return mongo.NewSingleResultFromDocument(bson.D{}, err, nil), err
	}
	return mongo.NewSingleResultFromDocument(d, nil, nil), nil
}

func (c *mcColl) FindOne(_ context.Context, filter any, _ ...*mopt.FindOneOptions) (*mongo.SingleResult, error) {
	stamp, release := c.hold()
	defer release()
	id := mcIDs(filter)[0]
	c.mu.Lock()
	defer c.mu.Unlock()
	c.finds++
	d, found := c.docs[id]
	var err error
	switch {
	case c.fail || (c.errFirst && stamp == 1):
		err = mcErrDB
	case !found:
		err = mongo.ErrNoDocuments
	default:
		d.Stamp = stamp
	}
	if c.results != nil {
		c.results[stamp] = mcQRes{doc: d, err: err}
	}
	return mcSingle(d, err)
}

// write runs one write call of the fake database.
func (c *mcColl) write(f func() error) error {
	if b := c.before; b != nil {
		c.before = nil
		b()
	}
	c.mu.Lock()
	defer c.mu.Unlock()
	c.writes++
	if c.fail {
		c.lastErr = mcErrDB
		return mcErrDB
	}
	c.lastErr = f()
	return c.lastErr
}

func (c *mcColl) put(id int64, name string) {
	c.ver++
	c.docs[id] = mcDoc{ID: id, Name: name, Ver: c.ver}
}

func (c *mcColl) InsertOne(_ context.Context, document any, _ ...*mopt.InsertOneOptions) (*mongo.InsertOneResult, error) {
	d := mcAsDoc(document)
	err := c.write(func() error {
		if _, ok := c.docs[d.ID]; ok {
			return mcDupErr(d.ID)
		}
		c.put(d.ID, d.Name)
		return nil
	})
	if err != nil {
		return nil, err
	}
	return &mongo.InsertOneResult{InsertedID: d.ID}, nil
}

func mcUpsert(u *bool) bool { return u != nil && *u }

// update1 changes (or upserts) one document.
func (c *mcColl) update1(id int64, name string, upsert bool) (*mongo.UpdateResult, error) {
	res := &mongo.UpdateResult{}
	err := c.write(func() error {
		_, ok := c.docs[id]
		switch {
		case ok:
			c.put(id, name)
			res.MatchedCount, res.ModifiedCount = 1, 1
		case upsert:
			c.put(id, name)
			res.UpsertedCount, res.UpsertedID = 1, id
		}
		return nil
	})
	if err != nil {
		return nil, err
	}
	return res, nil
}

func (c *mcColl) ReplaceOne(_ context.Context, filter, replacement any, opts ...*mopt.ReplaceOptions) (*mongo.UpdateResult, error) {
	up := false
	for _, o := range opts {
		up = up || (o != nil && mcUpsert(o.Upsert))
	}
	return c.update1(mcIDs(filter)[0], mcAsDoc(replacement).Name, up)
}

func mcUpd(opts []*mopt.UpdateOptions) bool {
	up := false
	for _, o := range opts {
		up = up || (o != nil && mcUpsert(o.Upsert))
	}
	return up
}

func (c *mcColl) UpdateOne(_ context.Context, filter, update any, opts ...*mopt.UpdateOptions) (*mongo.UpdateResult, error) {
	return c.update1(mcIDs(filter)[0], mcSetName(update), mcUpd(opts))
}

func (c *mcColl) UpdateByID(_ context.Context, id, update any, opts ...*mopt.UpdateOptions) (*mongo.UpdateResult, error) {
	n, ok := mcToInt(id)
	if !ok {
		panic(fmt.Sprintf("c06 fake collection: unsupported id %v", id))
	}
	return c.update1(n, mcSetName(update), mcUpd(opts))
}

func (c *mcColl) UpdateMany(_ context.Context, filter, update any, _ ...*mopt.UpdateOptions) (*mongo.UpdateResult, error) {
	ids, name := mcIDs(filter), mcSetName(update)
	res := &mongo.UpdateResult{}
	err := c.write(func() error {
		for _, id := range ids {
			if _, ok := c.docs[id]; ok {
				c.put(id, name)
				res.MatchedCount++
				res.ModifiedCount++
			}
		}
		return nil
	})
	if err != nil {
		return nil, err
	}
	return res, nil
}

func (c *mcColl) DeleteOne(_ context.Context, filter any, _ ...*mopt.DeleteOptions) (*mongo.DeleteResult, error) {
	id := mcIDs(filter)[0]
	res := &mongo.DeleteResult{}
	err := c.write(func() error {
		if _, ok := c.docs[id]; ok {
			delete(c.docs, id)
			res.DeletedCount = 1
		}
		return nil
	})
	if err != nil {
		return nil, err
	}
	return res, nil
}

// findAnd: FindOneAndDelete / FindOneAndReplace / FindOneAndUpdate answer the document as it
// was before the write, or ErrNoDocuments when nothing matches (and then write nothing).
func (c *mcColl) findAnd(id int64, apply func()) (*mongo.SingleResult, error) {
	var old mcDoc
	err := c.write(func() error {
		d, ok := c.docs[id]
		if !ok {
			return mongo.ErrNoDocuments
		}
		old = d
		apply()
		return nil
	})
	return mcSingle(old, err)
}

func (c *mcColl) FindOneAndDelete(_ context.Context, filter any, _ ...*mopt.FindOneAndDeleteOptions) (*mongo.SingleResult, error) {
	id := mcIDs(filter)[0]
	return c.findAnd(id, func() { delete(c.docs, id) })
}

func (c *mcColl) FindOneAndReplace(_ context.Context, filter, replacement any, _ ...*mopt.FindOneAndReplaceOptions) (*mongo.SingleResult, error) {
	id, name := mcIDs(filter)[0], mcAsDoc(replacement).Name
	return c.findAnd(id, func() { c.put(id, name) })
}

func (c *mcColl) FindOneAndUpdate(_ context.Context, filter, update any, _ ...*mopt.FindOneAndUpdateOptions) (*mongo.SingleResult, error) {
	id, name := mcIDs(filter)[0], mcSetName(update)
	return c.findAnd(id, func() { c.put(id, name) })
}

func (c *mcColl) snapshot() map[int64]mcDoc {
	c.mu.Lock()
	defer c.mu.Unlock()
	out := make(map[int64]mcDoc, len(c.docs))
	for k, v := range c.docs {
		out[k] = v
	}
	return out
}

// ---------------------------------------------------------------------------- case

const (
	mcURI = "mongodb://c06-monc.invalid:27017"
	mcIDn = 4
)

var (
	mcInjectOnce sync.Once
	mcInjectErr  error
	mcStat       *cache.Stat
	mcStatOnce   sync.Once

	mcExpiries   = []time.Duration{0, 10 * time.Millisecond, time.Second, 1500 * time.Millisecond, 7 * time.Second, 20 * time.Second, 100 * time.Second, time.Hour}
	mcNfExpiries = []time.Duration{0, 500 * time.Millisecond, time.Second, 3 * time.Second, 10 * time.Second, time.Minute}
	mcWriteKinds = []string{"InsertOne", "ReplaceOne", "UpdateOne", "UpdateByID", "UpdateMany", "DeleteOne", "FindOneAndDelete", "FindOneAndReplace", "FindOneAndUpdate"}
	mcCtors      = []string{"NewNodeModel", "NewModel", "NewModelWithCache"}
)

// mcInject registers a client that was never connected (no goroutines, no sockets) for the
// URI of this harness, so that the public constructors of monc can be used as they are.
func mcInject() error {
	mcInjectOnce.Do(func() {
		cli, err := mongo.NewClient(mopt.Client().ApplyURI(mcURI))
		if err != nil {
			mcInjectErr = err
			return
		}
		mon.Inject(mcURI, cli)
	})
	return mcInjectErr
}

func mcGetStat() *cache.Stat {
	mcStatOnce.Do(func() { mcStat = cache.NewStat("c06monc") })
	return mcStat
}

type mcConf struct {
	ctor       int // 0 NewNodeModel, 1 NewModel(CacheConf), 2 NewModelWithCache(node)
	nodes      []int
	exp, nfExp time.Duration
}

func (c mcConf) String() string {
	return fmt.Sprintf("ctor=%s nodes=%v expiry=%v notFoundExpiry=%v", mcCtors[c.ctor], c.nodes, c.exp, c.nfExp)
}

func mcDrawConf(t *rapid.T) mcConf {
	var c mcConf
	c.ctor = rapid.IntRange(0, 2).Draw(t, "ctor")
	c.nodes = []int{rapid.IntRange(0, kit.Nodes-1).Draw(t, "node")}
	if c.ctor == 1 {
		switch rapid.IntRange(0, 2).Draw(t, "clusterSize") {
		case 1:
			skip := c.nodes[0]
			c.nodes = nil
			for i := 0; i < kit.Nodes; i++ {
				if i != skip {
					c.nodes = append(c.nodes, i)
				}
			}
		case 2:
			c.nodes = []int{0, 1, 2}
		}
	}
	c.exp = rapid.SampledFrom(mcExpiries).Draw(t, "expiry")
	c.nfExp = rapid.SampledFrom(mcNfExpiries).Draw(t, "notFoundExpiry")
	return c
}

func mcBuild(env *kit.Env, c mcConf, coll mon.Collection) (*monc.Model, error) {
	if err := mcInject(); err != nil {
		return nil, err
	}
	var opts []cache.Option
	if c.exp > 0 {
		opts = append(opts, cache.WithExpiry(c.exp))
	}
	if c.nfExp > 0 {
		opts = append(opts, cache.WithNotFoundExpiry(c.nfExp))
	}
	var m *monc.Model
	var err error
	switch c.ctor {
	case 0:
		m, err = monc.NewNodeModel(mcURI, "c06db", "c06coll", env.Rds[c.nodes[0]], opts...)
	case 1:
		var conf cache.CacheConf
		for _, n := range c.nodes {
			conf = append(conf, cache.NodeConf{
				RedisConf: redis.RedisConf{Host: env.MR[n].Addr(), Type: redis.NodeType, NonBlock: true},
				Weight:    100,
			})
		}
		m, err = monc.NewModel(mcURI, "c06db", "c06coll", conf, opts...)
	default:
		node := cache.NewNode(env.Rds[c.nodes[0]], syncx.NewSingleFlight(), mcGetStat(), monc.ErrNotFound, opts...)
		m, err = monc.NewModelWithCache(mcURI, "c06db", "c06coll", node)
	}
	if err != nil {
		return nil, err
	}
	m.Model.Collection = coll // the fake database takes the place of the decorated *mongo.Collection
	return m, nil
}

type mcS struct {
	w    *kit.World
	m    *monc.Model
	db   *mcColl
	conf mcConf
	key  []string // cache key of document i
	// non-trivial bookkeeping
	phase        map[string]int
	reads        int
	faultAfterRd bool
	faultBetween bool
	racing       int
	behind       int
}

func mcNewS(t *rapid.T, st *verifkit.Stats, tag string) *mcS {
	env := kit.GetEnv(t)
	conf := mcDrawConf(t)
	s := &mcS{conf: conf, phase: map[string]int{}}
	s.db = &mcColl{docs: map[int64]mcDoc{}}
	s.w = kit.NewWorld(env, t, st, tag, conf.nodes)
	m, err := mcBuild(env, conf, s.db)
	if err != nil {
		t.Fatalf("harness: cannot build a monc.Model without a deployment: %v", err)
	}
	s.m = m
	for i := 0; i < mcIDn; i++ {
		s.key = append(s.key, fmt.Sprintf("%sk%d", s.w.Prefix, i))
	}
	s.w.Keys = append([]string{}, s.key...)
	s.w.Decode = func(_, raw string) (string, error) {
		var d mcDoc
		if err := json.Unmarshal([]byte(raw), &d); err != nil {
			return "", err
		}
		return d.String(), nil
	}
	s.w.Truth = s.truth
	fmt.Fprintf(&s.w.Log, " [%s]", conf)
	for i := int64(0); i < mcIDn; i++ {
		if rapid.Bool().Draw(t, "docExists") {
			s.db.put(i, "init")
		}
	}
	return s
}

func (s *mcS) truth(key string) (string, bool) {
	for i, k := range s.key {
		if k == key {
			s.db.mu.Lock()
			d, ok := s.db.docs[int64(i)]
			s.db.mu.Unlock()
			return d.String(), ok
		}
	}
	return "", false
}

func (s *mcS) rule(what string) kit.TTLRule {
	return kit.Jittered(s.conf.exp, s.conf.exp > 0, 0, what)
}

func (s *mcS) nfRule() kit.TTLRule {
	return kit.Jittered(s.conf.nfExp, s.conf.nfExp > 0, 0, "not-found marker")
}

func (s *mcS) arm(fault, key string) {
	if !s.w.ArmFault(fault, key) {
		s.w.Abort("padding PING failed")
	}
}

func (s *mcS) disarm(op string, err error) []kit.Cmd {
	s.w.Env.Outage(false)
	s.w.Env.Hook.Disarm()
	tr := s.w.Env.Hook.Take()
	s.w.CheckInfra(op, err)
	return tr
}

func mcFailed(tr []kit.Cmd, outage bool, kind string) bool {
	if outage {
		return kit.Saw(tr, kind)
	}
	return kit.InjectedKind(tr, kind)
}

func (s *mcS) noteFault(tr []kit.Cmd, outage bool) {
	n := kit.Injected(tr)
	if outage && len(tr) > 0 {
		n++
	}
	if n == 0 {
		return
	}
	s.w.Faults += n
	s.w.St.ClassN("fault:consumed", n)
	if s.reads > 0 {
		s.faultAfterRd = true
	}
}

func (s *mcS) afterRead(key string) {
	s.reads++
	if s.faultAfterRd {
		s.faultBetween = true
	}
	switch s.phase[key] {
	case 0:
		s.phase[key] = 1
	case 2:
		s.phase[key] = 3
	}
}

func mcFlag(b bool, s string) string {
	if b {
		return s
	}
	return ""
}

func mcFault(f string) string {
	if f == "none" {
		return ""
	}
	return ",fault:" + f
}

func mcRes(err error, out mcDoc) string {
	switch {
	case err == nil:
		return out.String()
	case errors.Is(err, monc.ErrNotFound):
		return "not-found"
	case errors.Is(err, mcErrDB):
		return "db-error"
	case mcIsDup(err):
		return "db-duplicate"
	case kit.IsStoreErr(err):
		return "store-error"
	}
	return "error(" + err.Error() + ")"
}

// mcAlt is one execution the statement allows for a cached read.
type mcAlt struct {
	o     kit.Outcome
	dbErr bool
	q     int
	want  kit.Want
	class string
}

func (a mcAlt) String() string {
	s := a.o.String()
	if a.dbErr {
		s = "the database error"
	}
	return fmt.Sprintf("%s with %d database queries", s, a.q)
}

// states a key may be in: what the model holds, plus "absent" when a failed invalidation of
// it awaits the cleaner (the retry may have struck).
func (s *mcS) states(key string) []kit.Entry {
	e := s.w.Cached(key)
	if s.w.Dirty[key] && e.Present {
		return []kit.Entry{e, {}}
	}
	return []kit.Entry{e}
}

func (s *mcS) alts(id int64, dbFail bool) []mcAlt {
	key := s.key[id]
	var alts []mcAlt
	for _, e := range s.states(key) {
		switch {
		case e.Present && e.Placeholder:
			alts = append(alts, mcAlt{o: kit.Outcome{NotFound: true}, class: "hit-not-found-marker", want: kit.Want{Keep: true}})
		case e.Present:
			alts = append(alts, mcAlt{o: kit.FromEntry(e), class: "hit-value", want: kit.Want{Keep: true}})
		case dbFail:
			alts = append(alts, mcAlt{dbErr: true, q: 1, class: "miss-db-error", want: kit.Want{Absent: true}})
		default:
			t := s.w.FromTruth(key)
			if t.OK {
				alts = append(alts, mcAlt{o: t, q: 1, class: "miss-document", want: kit.Want{Val: t.Val, TTL: s.rule("document")}})
			} else {
				alts = append(alts, mcAlt{o: t, q: 1, class: "miss-not-found", want: kit.Want{Placeholder: true, TTL: s.nfRule()}})
			}
		}
	}
	return alts
}

// findOne: the cached read.
func (s *mcS) findOne(id int64, dbFail bool, fault string) {
	w := s.w
	key := s.key[id]
	w.Coherent(key)
	alts := s.alts(id, dbFail)
	var out mcDoc
	q0 := s.db.finds
	s.db.fail = dbFail
	s.arm(fault, key)
	err := s.m.FindOne(context.Background(), key, &out, bson.M{"_id": id})
	tr := s.disarm("FindOne", err)
	s.db.fail = false
	dq := s.db.finds - q0
	outage := fault == "outage"
	fmt.Fprintf(&w.Log, " FindOne(k%d%s%s)=%s/q%d", id, mcFlag(dbFail, ",dbfail"), mcFault(fault), mcRes(err, out), dq)
	s.noteFault(tr, outage)
	w.NoteNth(fault, tr)
	name := fmt.Sprintf("FindOne(k%d)", id)
	defer s.afterRead(key)
	if mcFailed(tr, outage, kit.KGet) {
		// "a failing cache store (other than a miss) is reported without querying the database"
		w.St.Class("read:cache-get-failed")
		if err == nil || errors.Is(err, monc.ErrNotFound) || errors.Is(err, mcErrDB) {
			w.Fail("%s: a cache GET failed, but the call returned %s instead of reporting the store failure", name, mcRes(err, out))
		}
		if dq != 0 {
			w.Fail("%s: a cache GET failed and the database was queried (%d FindOne calls); a failing cache store is reported without querying the database", name, dq)
		}
		w.Settle(map[string]kit.Want{key: {Keep: true}})
		return
	}
	var chosen *mcAlt
	for i := range alts {
		a := &alts[i]
		if a.q != dq {
			continue
		}
		switch {
		case err == nil:
			if a.o.OK && a.o.Val == out.String() {
				chosen = a
			}
		case errors.Is(err, monc.ErrNotFound):
			if a.o.NotFound {
				chosen = a
			}
		case errors.Is(err, mcErrDB):
			if a.dbErr {
				chosen = a
			}
		}
	}
	if chosen == nil {
		var want []string
		for _, a := range alts {
			want = append(want, a.String())
		}
		w.Fail("%s returned %s with %d database queries; the statement allows: %s", name, mcRes(err, out), dq, strings.Join(want, " | "))
	}
	if kit.WriteFailed(tr, outage) {
		// the answer is unaffected (checked above); what the interrupted write-back left behind may
		// be nothing or the entry, but never an entry with a TTL outside the rule
		w.St.Class("read:cache-write-failed")
		lw := kit.Want{Loose: true}
		switch {
		case chosen.want.Placeholder:
			lw.MarkerTTL = chosen.want.TTL
		case chosen.want.Val != "":
			lw.TTL = chosen.want.TTL
		}
		w.Settle(map[string]kit.Want{key: lw})
		return
	}
	w.St.Class("read:" + chosen.class)
	w.Settle(map[string]kit.Want{key: chosen.want})
	if chosen.q == 1 && chosen.want.Val != "" && !w.Dead {
		delete(w.Foreign, key) // freshly loaded from the database
	}
}

// findOneNoCache: documented as reading the database without the cache.
func (s *mcS) findOneNoCache(id int64, dbFail bool) {
	w := s.w
	var out mcDoc
	q0 := s.db.finds
	s.db.fail = dbFail
	err := s.m.FindOneNoCache(context.Background(), &out, bson.M{"_id": id})
	s.db.fail = false
	s.disarm("FindOneNoCache", err)
	dq := s.db.finds - q0
	fmt.Fprintf(&w.Log, " FindOneNoCache(k%d%s)=%s/q%d", id, mcFlag(dbFail, ",dbfail"), mcRes(err, out), dq)
	t := w.FromTruth(s.key[id])
	switch {
	case dbFail:
		if !errors.Is(err, mcErrDB) {
			w.Fail("FindOneNoCache(k%d): the database failed, the call returned %s (database errors are returned)", id, mcRes(err, out))
		}
	case t.OK:
		if err != nil || out.String() != t.Val {
			w.Fail("FindOneNoCache(k%d) returned %s, the database holds %s", id, mcRes(err, out), t)
		}
	default:
		if !errors.Is(err, monc.ErrNotFound) {
			w.Fail("FindOneNoCache(k%d) returned %s, the database holds no such document", id, mcRes(err, out))
		}
	}
	w.St.Class("read:no-cache")
	w.Settle(nil)
}

type mcCall struct {
	err    error
	hasRes bool  // a non-nil result value came back
	out    mcDoc // FindOneAnd*: the document handed back
	count  int64 // DeleteOne
	isFind bool
}

// call runs one write of the given kind through the model.
func (s *mcS) call(kind string, noCache bool, ids []int64, keys []string, nm string, upsert bool) (c mcCall) {
	ctx := context.Background()
	m := s.m
	id := ids[0]
	key := keys[0]
	flt := bson.M{"_id": id}
	upd := bson.M{"$set": bson.M{"name": nm}}
	doc := mcDoc{ID: id, Name: nm}
	var uopts []*mopt.UpdateOptions
	var ropts []*mopt.ReplaceOptions
	if upsert {
		uopts = append(uopts, mopt.Update().SetUpsert(true))
		ropts = append(ropts, mopt.Replace().SetUpsert(true))
	}
	upRes := func(r *mongo.UpdateResult, err error) { c.hasRes, c.err = r != nil, err }
	switch kind {
	case "InsertOne":
		var r *mongo.InsertOneResult
		if noCache {
			r, c.err = m.InsertOneNoCache(ctx, doc)
		} else {
			r, c.err = m.InsertOne(ctx, key, doc)
		}
		c.hasRes = r != nil
	case "ReplaceOne":
		if noCache {
			upRes(m.ReplaceOneNoCache(ctx, flt, doc, ropts...))
		} else {
			upRes(m.ReplaceOne(ctx, key, flt, doc, ropts...))
		}
	case "UpdateOne":
		if noCache {
			upRes(m.UpdateOneNoCache(ctx, flt, upd, uopts...))
		} else {
			upRes(m.UpdateOne(ctx, key, flt, upd, uopts...))
		}
	case "UpdateByID":
		if noCache {
			upRes(m.UpdateByIDNoCache(ctx, id, upd, uopts...))
		} else {
			upRes(m.UpdateByID(ctx, key, id, upd, uopts...))
		}
	case "UpdateMany":
		in := bson.A{}
		for _, i := range ids {
			in = append(in, i)
		}
		many := bson.M{"_id": bson.M{"$in": in}}
		if noCache {
			upRes(m.UpdateManyNoCache(ctx, many, upd))
		} else {
			upRes(m.UpdateMany(ctx, keys, many, upd))
		}
	case "DeleteOne":
		if noCache {
			c.count, c.err = m.DeleteOneNoCache(ctx, flt)
		} else {
			c.count, c.err = m.DeleteOne(ctx, key, flt)
		}
		c.hasRes = true
	case "FindOneAndDelete":
		c.isFind, c.hasRes = true, true
		if noCache {
			c.err = m.FindOneAndDeleteNoCache(ctx, &c.out, flt)
		} else {
			c.err = m.FindOneAndDelete(ctx, key, &c.out, flt)
		}
	case "FindOneAndReplace":
		c.isFind, c.hasRes = true, true
		if noCache {
			c.err = m.FindOneAndReplaceNoCache(ctx, &c.out, flt, doc)
		} else {
			c.err = m.FindOneAndReplace(ctx, key, &c.out, flt, doc)
		}
	case "FindOneAndUpdate":
		c.isFind, c.hasRes = true, true
		if noCache {
			c.err = m.FindOneAndUpdateNoCache(ctx, &c.out, flt, upd)
		} else {
			c.err = m.FindOneAndUpdate(ctx, key, &c.out, flt, upd)
		}
	default:
		panic("unknown write kind " + kind)
	}
	return c
}

// write runs a database write through the model: with the cache keys of the written
// documents (the model must invalidate them), or through the *NoCache variant (documented as
// leaving the cache alone: the entries of the written documents are from then on "written
// behind the cache's back").  racing: a cached read of the written key runs inside the
// database call, before the fake database applies the write.
func (s *mcS) write(kind string, noCache bool, ids []int64, nm string, upsert, dbFail bool, fault string, racing bool) {
	w := s.w
	var keys, short []string
	for _, id := range ids {
		keys = append(keys, s.key[id])
		short = append(short, fmt.Sprintf("k%d", id))
	}
	if noCache {
		fault = "none"
	}
	if fault != "none" || noCache {
		racing = false // (a racing read is only combined with a healthy store)
	}
	before := s.db.snapshot()
	if racing {
		rid := ids[0]
		s.db.before = func() {
			var r mcDoc
			s.m.FindOne(context.Background(), s.key[rid], &r, bson.M{"_id": rid})
		}
	}
	w0 := s.db.writes
	s.db.fail, s.db.lastErr = dbFail, nil
	s.arm(fault, keys[0])
	c := s.call(kind, noCache, ids, keys, nm, upsert)
	name := kind + mcFlag(noCache, "NoCache")
	tr := s.disarm(name, c.err)
	s.db.fail, s.db.before = false, nil
	dbErr := s.db.lastErr
	outage := fault == "outage"
	after := s.db.snapshot()
	changed := map[string]bool{}
	nChanged := 0
	for i, id := range ids {
		if before[id] != after[id] {
			changed[keys[i]] = true
			nChanged++
		}
	}
	resTxt := "ok"
	switch {
	case c.err != nil:
		resTxt = mcRes(c.err, mcDoc{})
	case c.isFind:
		resTxt = "old " + c.out.String()
	case kind == "DeleteOne":
		resTxt = fmt.Sprintf("ok(%d)", c.count)
	}
	fmt.Fprintf(&w.Log, " %s(%s,%q%s%s%s%s)=%s/changed%d", name, strings.Join(short, ","), nm, mcFlag(upsert, ",upsert"),
		mcFlag(dbFail, ",dbfail"), mcFlag(racing, ",racing-read"), mcFault(fault), resTxt, nChanged)
	s.noteFault(tr, outage)
	w.NoteNth(fault, tr)
	if n := s.db.writes - w0; n != 1 {
		w.Fail("%s ran %d database write calls instead of one", name, n)
	}
	failed := mcFailed(tr, outage, kit.KDel)
	if failed {
		n := w.MarkFailedInvalidations(tr, outage, keys)
		w.St.ClassN("write:failed-invalidation-keys-now-possibly-stale", n)
	}
	// what the call returned
	switch {
	case dbErr != nil:
		// "database errors are returned"
		w.St.Class("write:db-refused")
		if !mcSameErr(c.err, dbErr) {
			w.Fail("%s: the database answered %q but the call returned %s (database errors are returned)", name, dbErr, mcRes(c.err, c.out))
		}
	case !failed:
		if c.err != nil || !c.hasRes {
			w.Fail("%s on a healthy store and database returned error %v (result present: %v)", name, c.err, c.hasRes)
		}
		if c.isFind {
			if old, ok := before[ids[0]]; !ok || c.out != old {
				w.Fail("%s handed back %s, the database answered with the previous document %s", name, c.out, old)
			}
		}
		if kind == "DeleteOne" && c.count != int64(nChanged) {
			w.Fail("%s returned %d, the database deleted %d documents", name, c.count, nChanged)
		}
		w.St.Class("write:ok" + mcFlag(noCache, "-no-cache"))
	}
	want := map[string]kit.Want{}
	if noCache {
		// the cache is neither required to be left alone nor to be invalidated by the statement
		// (the documentation says the former); a stale entry is "written behind its back"
		for _, k := range keys {
			want[k] = kit.Want{MayVanish: true}
		}
		w.Settle(want)
		for _, k := range keys {
			if changed[k] && w.Cached(k).Present {
				w.Foreign[k] = true
				s.behind++
				w.St.Class("write:no-cache-left-a-stale-entry(behind-the-cache's-back)")
			}
		}
		return
	}
	if racing {
		s.racing++
		w.St.Class("write:with-racing-read")
		k := keys[0]
		if sv := w.Env.Lookup(w.Nodes, k); changed[k] && sv.Present && !w.Dirty[k] {
			w.Fail("%s(%s): a cached read of %s that completed before the database applied the write left %q in the cache after %s returned: the invalidation missed it (it ran before the write instead of after it, or not where the key is stored), so the old state stays cached for a whole expiry",
				name, short[0], short[0], sv.Raw, name)
		}
	}
	for _, k := range keys {
		switch {
		case changed[k]:
			// the database changed under this key: the write went "through the model with that key",
			// which must have invalidated it
			want[k] = kit.Want{Absent: true}
		case racing && k == keys[0]:
			want[k] = kit.Want{Loose: true}
		default:
			// nothing was written: invalidating anyway is harmless, not invalidating is fine
			want[k] = kit.Want{MayVanish: true}
		}
	}
	w.Settle(want)
	if dbErr == nil {
		for _, k := range keys {
			if changed[k] && s.phase[k] == 1 {
				s.phase[k] = 2
			}
		}
	}
}

func (s *mcS) setCache(id int64, v mcDoc, fault string) {
	w := s.w
	key := s.key[id]
	s.arm(fault, key)
	err := s.m.SetCache(key, v)
	tr := s.disarm("SetCache", err)
	fmt.Fprintf(&w.Log, " SetCache(k%d,%s%s)=%v", id, v, mcFault(fault), err)
	outage := fault == "outage"
	s.noteFault(tr, outage)
	w.NoteNth(fault, tr)
	rule := s.rule("SetCache")
	foreign := w.FromTruth(key) != kit.Outcome{OK: true, Val: v.String()}
	if kit.WriteFailed(tr, outage) {
		w.St.Class("set:cache-write-failed")
		if err == nil {
			w.Fail("SetCache(k%d): the cache write failed but the call reported success", id)
		}
		if kit.Saw(tr, kit.KSet) && len(tr) == 1 {
			w.Settle(map[string]kit.Want{key: {Keep: true}})
			return
		}
		if foreign {
			w.Foreign[key] = true
		}
		w.Settle(map[string]kit.Want{key: {Loose: true, TTL: rule, MarkerTTL: rule}})
		return
	}
	if err != nil {
		w.Fail("SetCache(k%d) on a healthy store returned %v", id, err)
	}
	w.St.Class("set:ok")
	if foreign {
		w.Foreign[key] = true
		w.St.Class("set:behind-the-database's-back")
	}
	w.Settle(map[string]kit.Want{key: {Val: v.String(), TTL: rule}})
	if !foreign {
		delete(w.Foreign, key)
	}
}

func (s *mcS) delCache(ids []int64, fault string) {
	w := s.w
	var keys, short []string
	for _, id := range ids {
		keys = append(keys, s.key[id])
		short = append(short, fmt.Sprintf("k%d", id))
	}
	s.arm(fault, keys[0])
	err := s.m.DelCache(context.Background(), keys...)
	tr := s.disarm("DelCache", err)
	fmt.Fprintf(&w.Log, " DelCache(%s%s)=%v", strings.Join(short, ","), mcFault(fault), err)
	outage := fault == "outage"
	s.noteFault(tr, outage)
	w.NoteNth(fault, tr)
	failed := mcFailed(tr, outage, kit.KDel)
	if !failed && err != nil {
		w.Fail("DelCache on a healthy store returned %v", err)
	}
	if failed {
		w.St.ClassN("del:failed-keys-now-possibly-stale", w.MarkFailedInvalidations(tr, outage, keys))
	}
	want := map[string]kit.Want{}
	for _, k := range keys {
		want[k] = kit.Want{Absent: true}
	}
	w.Settle(want)
	w.St.Class("del:explicit")
}

func (s *mcS) getCache(id int64, fault string) {
	w := s.w
	key := s.key[id]
	w.Coherent(key)
	pre, dirty := w.Cached(key), w.Dirty[key]
	var out mcDoc
	s.arm(fault, key)
	err := s.m.GetCache(key, &out)
	tr := s.disarm("GetCache", err)
	fmt.Fprintf(&w.Log, " GetCache(k%d%s)=%s", id, mcFault(fault), mcRes(err, out))
	outage := fault == "outage"
	s.noteFault(tr, outage)
	w.NoteNth(fault, tr)
	if mcFailed(tr, outage, kit.KGet) {
		w.St.Class("get:cache-get-failed")
		if err == nil || errors.Is(err, monc.ErrNotFound) {
			w.Fail("GetCache(k%d): the cache GET failed, but the call returned %s instead of reporting the store failure", id, mcRes(err, out))
		}
		w.Settle(map[string]kit.Want{key: {Keep: true}})
		return
	}
	okHit := pre.Present && !pre.Placeholder && err == nil && out.String() == pre.Val
	okNF := (!pre.Present || pre.Placeholder) && errors.Is(err, monc.ErrNotFound)
	if dirty {
		okNF = errors.Is(err, monc.ErrNotFound)
	}
	if !okHit && !okNF {
		w.Fail("GetCache(k%d) returned %s; cached: %s", id, mcRes(err, out), pre)
	}
	w.St.Class("get:" + map[bool]string{true: "value", false: "not-found"}[okHit])
	w.Settle(map[string]kit.Want{key: {Keep: true}})
}

// mcDrawFault: most operations run on a healthy store (1 in every+1 is hit by a fault).
func mcDrawFault(t *rapid.T, every int, kinds ...string) string {
	if rapid.IntRange(0, every).Draw(t, "faulty") != 0 {
		return "none"
	}
	switch rapid.IntRange(0, 3).Draw(t, "faultBy") {
	case 0:
		return fmt.Sprintf("nth:%d", rapid.SampledFrom([]int{1, 1, 2, 2, 2, 2, 3, 3, 3, 4}).Draw(t, "k"))
	case 1:
		return fmt.Sprintf("nth+:%d", rapid.SampledFrom([]int{1, 1, 2, 2, 2, 2, 3, 3, 3, 4}).Draw(t, "k"))
	}
	return rapid.SampledFrom(kinds).Draw(t, "fault")
}

func TestVerifC06MoncMachine(t *testing.T) {
	st := verifkit.New("monc-machine")
	defer st.Flush()
	rapid.Check(t, func(t *rapid.T) {
		st.Eval()
		s := mcNewS(t, st, "n")
		w := s.w
		st.Class("ctor:" + mcCtors[s.conf.ctor])
		st.Class(fmt.Sprintf("nodes:%d", len(s.conf.nodes)))
		id := rapid.Int64Range(0, mcIDn-1)
		names := rapid.SampledFrom([]string{"a", "b", "c"})
		drawWrite := func(t *rapid.T, noCache bool) {
			kind := rapid.SampledFrom(mcWriteKinds).Draw(t, "kind")
			ids := []int64{id.Draw(t, "id")}
			if kind == "UpdateMany" {
				perm := rapid.Permutation([]int64{0, 1, 2, 3}).Draw(t, "ids")
				ids = perm[:rapid.IntRange(1, 3).Draw(t, "n")]
			}
			upsert := false
			switch kind {
			case "ReplaceOne", "UpdateOne", "UpdateByID":
				upsert = rapid.Bool().Draw(t, "upsert")
			}
			st.Class("write-kind:" + kind + mcFlag(noCache, "NoCache"))
			fault := "none"
			racing := false
			if !noCache {
				fault = mcDrawFault(t, 12, kit.KDel, kit.KDel, "outage")
				racing = rapid.IntRange(0, 4).Draw(t, "racingRead") == 0
			}
			s.write(kind, noCache, ids, names.Draw(t, "name"), upsert, rapid.IntRange(0, 7).Draw(t, "dbFail") == 0, fault, racing)
		}
		actions := map[string]func(*rapid.T){
			"findOne": func(t *rapid.T) {
				s.findOne(id.Draw(t, "id"), rapid.IntRange(0, 7).Draw(t, "dbFail") == 0,
					mcDrawFault(t, 6, kit.KGet, kit.KSet, kit.KSetNX, "outage"))
			},
			"findOneAgain": func(t *rapid.T) { // two reads of one key in a row: the second is served from the cache
				i := id.Draw(t, "id")
				s.findOne(i, false, "none")
				s.findOne(i, rapid.Bool().Draw(t, "dbFail"), "none")
			},
			"findOneNoCache": func(t *rapid.T) {
				s.findOneNoCache(id.Draw(t, "id"), rapid.IntRange(0, 7).Draw(t, "dbFail") == 0)
			},
			"write":        func(t *rapid.T) { drawWrite(t, false) },
			"writeAgain":   func(t *rapid.T) { drawWrite(t, false) },
			"writeNoCache": func(t *rapid.T) { drawWrite(t, true) },
			"setCache": func(t *rapid.T) {
				i := id.Draw(t, "id")
				s.db.mu.Lock()
				v, ok := s.db.docs[i]
				s.db.mu.Unlock()
				if !ok || rapid.Bool().Draw(t, "arbitrary") {
					v = mcDoc{ID: i, Name: "set", Ver: 1000 + rapid.Int64Range(0, 2).Draw(t, "v")}
				}
				s.setCache(i, v, mcDrawFault(t, 6, kit.KSet, "outage"))
			},
			"delCache": func(t *rapid.T) {
				perm := rapid.Permutation([]int64{0, 1, 2, 3}).Draw(t, "ids")
				s.delCache(perm[:rapid.IntRange(1, 3).Draw(t, "n")], mcDrawFault(t, 12, kit.KDel, "outage"))
			},
			"getCache": func(t *rapid.T) {
				s.getCache(id.Draw(t, "id"), mcDrawFault(t, 6, kit.KGet, "outage"))
			},
			"forward": func(t *rapid.T) {
				var ms int64
				switch rapid.IntRange(0, 2).Draw(t, "mode") {
				case 0:
					ms = rapid.Int64Range(1, 5000).Draw(t, "ms")
				case 1:
					var live []int64
					for _, k := range w.Keys {
						if e := w.Cached(k); e.Present {
							live = append(live, e.ExpAt-w.Now)
						}
					}
					if len(live) == 0 {
						ms = 1000
						break
					}
					sort.Slice(live, func(i, j int) bool { return live[i] < live[j] })
					ms = rapid.SampledFrom(live).Draw(t, "remaining") + rapid.SampledFrom([]int64{-1000, -1, 0, 1, 1000}).Draw(t, "delta")
				default:
					e := rapid.SampledFrom([]time.Duration{s.conf.exp, s.conf.nfExp, time.Minute}).Draw(t, "of")
					lo, hi := kit.Envelope(e)
					ms = rapid.Int64Range(lo, hi+1).Draw(t, "s")*1000 + rapid.SampledFrom([]int64{-1, 0, 1}).Draw(t, "delta")
				}
				w.Forward(ms)
			},
		}
		for name, f := range actions {
			f := f
			actions[name] = func(t *rapid.T) { w.F = t; w.Guard(func() { f(t) }) }
		}
		t.Repeat(actions)
		w.F = t
		w.Guard(func() { // final sweep on a healthy store
			for i := int64(0); i < mcIDn; i++ {
				s.findOne(i, false, "none")
			}
		})
		if w.Dead {
			return
		}
		rwr := false
		for _, p := range s.phase {
			if p == 3 {
				rwr = true
			}
		}
		if rwr {
			st.Class("case:read-write-read-on-one-key")
		}
		if s.faultBetween {
			st.Class("case:fault-between-two-reads")
		}
		if len(w.Dirty) > 0 {
			st.Class("case:with-failed-invalidation")
		}
		if s.behind > 0 {
			st.Class("case:with-stale-entry-after-NoCache-write")
		}
		if s.racing > 0 {
			st.Class("case:with-racing-read-probe")
		}
		if rwr || s.faultBetween {
			st.NonTrivial(w.Log.String())
		}
	})
}

// ------------------------------------------------------------------ concurrent readers

// G goroutines FindOne one uncached key through one or two Models (the package keeps one
// SingleFlight for all models built by NewModel / NewNodeModel).  The fake database holds
// every FindOne at a gate until the other readers have joined the running flight (observed,
// see kit.ParkedInFlight) and records how many ran at a time.  A fault plan places a
// cache-store failure before, during or right after the query.
func TestVerifC06MoncConcurrent(t *testing.T) {
	st := verifkit.New("monc-concurrent")
	defer st.Flush()
	rapid.Check(t, func(t *rapid.T) {
		st.Eval()
		s := mcNewS(t, st, "o")
		w := s.w
		env := w.Env
		g := rapid.IntRange(2, 16).Draw(t, "G")
		twoModels := s.conf.ctor != 2 && rapid.Bool().Draw(t, "twoModels")
		docExists := rapid.Bool().Draw(t, "doc")
		dbMode := rapid.SampledFrom([]string{"ok", "ok", "ok", "error-always", "error-first"}).Draw(t, "db")
		pre := rapid.SampledFrom([]string{"never-cached", "invalidated", "expired"}).Draw(t, "pre")
		plan := rapid.SampledFrom(kit.Plans).Draw(t, "faultPlan")
		invalidateBy := rapid.SampledFrom(mcWriteKinds).Draw(t, "invalidateBy")
		const id = int64(1)
		d := s.db
		d.mu.Lock()
		d.docs = map[int64]mcDoc{}
		if docExists {
			d.put(id, "r")
		}
		d.mu.Unlock()
		fmt.Fprintf(&w.Log, " G=%d twoModels=%v doc=%v pre=%s db=%s plan=%s:", g, twoModels, docExists, pre, dbMode, plan)
		st.Class("pre:" + pre)
		st.Class("db:" + dbMode)
		st.Class("plan:" + plan)
		key := s.key[id]
		w.F = t
		w.Guard(func() {
			switch pre {
			case "invalidated":
				s.findOne(id, false, "none")
				// a write of the same document through the model, which invalidates its key
				s.write(invalidateBy, false, []int64{id}, "r2", false, false, "none", false)
				if w.Cached(key).Present { // the write changed nothing (e.g. an update of an absent document)
					s.delCache([]int64{id}, "none")
				}
				docExists = w.FromTruth(key).OK
			case "expired":
				s.findOne(id, false, "none")
				var last int64
				for _, k := range w.Keys {
					if e := w.Cached(k); e.Present && e.ExpAt > last {
						last = e.ExpAt
					}
				}
				w.Forward(last - w.Now + rapid.Int64Range(0, 2000).Draw(t, "past"))
			}
			for _, k := range w.Keys {
				if w.Cached(k).Present {
					w.Fail("harness: key %s still cached before the concurrent round", k)
				}
			}
			// keep the per-address breaker closed: up to G commands may be failed in this round
			if plan != kit.PlanNone && !env.Pad(w.Nodes, 12*g+15) {
				w.Abort("padding PING failed")
			}
		})
		if w.Dead {
			return
		}
		env.Hook.Take()
		models := []*monc.Model{s.m}
		if twoModels {
			m2, err := mcBuild(env, s.conf, s.db)
			if err != nil {
				t.Fatalf("harness: second model: %v", err)
			}
			models = append(models, m2)
		}
		d.gate, d.results, d.errFirst, d.fail = make(chan struct{}), map[int64]mcQRes{}, dbMode == "error-first", dbMode == "error-always"
		d.afterGate = func(stamp int64) {
			if plan == kit.PlanOutageDuring && stamp == 1 {
				env.Outage(true) // the store goes down while the query runs, and stays down
			}
		}
		if plan == kit.PlanOutageBefore {
			env.Outage(true)
		}
		d.mu.Lock()
		q0 := d.finds
		d.mu.Unlock()
		outs := make([]mcDoc, g)
		errs := make([]error, g)
		var started atomic.Int64
		var wg sync.WaitGroup
		for i := 0; i < g; i++ {
			wg.Add(1)
			go func(i int) {
				defer wg.Done()
				m := models[i%len(models)]
				started.Add(1)
				errs[i] = m.FindOne(context.Background(), key, &outs[i], bson.M{"_id": id})
			}(i)
		}
		strong := false
		if plan != kit.PlanOutageBefore {
			strong = kit.AwaitReaders(g, started.Load, d.stamps.Load, d.maxIn.Load)
			switch plan {
			case kit.PlanWriteBack:
				env.Hook.Arm(kit.KSet, key, -1)
				env.Hook.Arm(kit.KSetNX, key, -1)
			case kit.PlanWaiterGet: // the leader's GET is over: from now on every GET of the key fails
				env.Hook.Arm(kit.KGet, key, -1)
			}
		}
		close(d.gate)
		done := make(chan struct{})
		go func() { wg.Wait(); close(done) }()
		select {
		case <-done:
		case <-time.After(60 * time.Second):
			env.Outage(false)
			env.Hook.Disarm()
			st.Class("inconclusive:readers-did-not-return")
			st.Note("inconclusive: concurrent readers did not return within 60 s; %s", w.Log.String())
			return
		}
		env.Outage(false)
		env.Hook.Disarm()
		tr := env.Hook.Take()
		d.afterGate = nil
		for _, e := range errs {
			w.Guard(func() { w.CheckInfra("concurrent read", e) })
		}
		if w.Dead {
			return
		}
		d.mu.Lock()
		nq := d.finds - q0
		results := d.results
		d.mu.Unlock()
		nGet, nSetFailed, nNXFailed, nGetFailed := 0, 0, 0, 0
		down := plan == kit.PlanOutageBefore
		for _, c := range tr {
			switch c.Kind {
			case kit.KGet:
				nGet++
				if c.Injected || down || (plan == kit.PlanOutageDuring && nGet > 1) {
					nGetFailed++
				}
			case kit.KSet:
				if c.Injected || plan == kit.PlanOutageDuring {
					nSetFailed++
				}
			case kit.KSetNX:
				if c.Injected || plan == kit.PlanOutageDuring {
					nNXFailed++
				}
			}
		}
		st.ClassN("fault:write-back-SET-failed", nSetFailed)
		st.ClassN("fault:marker-SETNX-failed", nNXFailed)
		st.ClassN("fault:GET-failed", nGetFailed)
		fmt.Fprintf(&w.Log, " queries=%d maxInFlight=%d allJoined=%v failed(set=%d,setnx=%d,get=%d)", nq, d.maxIn.Load(), strong, nSetFailed, nNXFailed, nGetFailed)
		if mx := d.maxIn.Load(); mx > 1 {
			w.Fail("concurrent reads of one uncached key ran %d database queries at the same time (at most one at a time)", mx)
		}
		got := map[string]int{}
		for i := 0; i < g; i++ {
			got[mcRes(errs[i], outs[i])]++
		}
		fmt.Fprintf(&w.Log, " got=%v", got)
		same := func(i int, r mcQRes) bool {
			switch {
			case errs[i] == nil:
				return r.err == nil && outs[i] == r.doc
			case errors.Is(errs[i], monc.ErrNotFound):
				return errors.Is(r.err, monc.ErrNotFound)
			case errors.Is(errs[i], mcErrDB):
				return errors.Is(r.err, mcErrDB)
			}
			return false
		}
		describe := func(r mcQRes) string {
			if r.err != nil {
				return mcRes(r.err, mcDoc{})
			}
			return r.doc.String()
		}
		switch {
		case plan == kit.PlanOutageBefore:
			// "a failing cache store (other than a miss) is reported without querying the database"
			st.Class("mode:store-down-before")
			if nq != 0 {
				w.Fail("the cache store was down before the readers started, yet %d database queries ran (a failing cache store is reported without querying the database)", nq)
			}
			for i := 0; i < g; i++ {
				if errs[i] == nil || errors.Is(errs[i], monc.ErrNotFound) || errors.Is(errs[i], mcErrDB) {
					w.Fail("the cache store was down before the readers started, reader %d returned %s instead of reporting the store failure", i, mcRes(errs[i], outs[i]))
				}
			}
		case strong:
			st.Class("mode:all-readers-joined-the-flight")
			if plan != kit.PlanNone {
				st.Class("mode:all-joined+" + plan)
			}
			q1 := results[1]
			if nq != 1 {
				w.Fail("all %d readers had joined the flight of the first query, yet %d database queries ran", g, nq)
			}
			for i := 0; i < g; i++ {
				if same(i, q1) {
					continue
				}
				w.Fail("reader %d of %d returned %s; it overlapped the one database query, which returned %s, and must receive that query's result whatever happens to the cache store (plan %s; readers got %v)",
					i, g, mcRes(errs[i], outs[i]), describe(q1), plan, got)
			}
		default:
			st.Class("mode:some-readers-late")
			for i := 0; i < g; i++ {
				ok := false
				for _, r := range results {
					ok = ok || same(i, r)
				}
				if !ok && kit.IsStoreErr(errs[i]) && nGetFailed > 0 {
					ok = true // a late reader whose own GET met the fault
				}
				if !ok {
					w.Fail("reader %d of %d received %s, which is not the result of any of the %d queries that ran (%v)",
						i, g, mcRes(errs[i], outs[i]), len(results), results)
				}
			}
		}
		st.Class(fmt.Sprintf("queries:%d", min(nq, 3)))
		for _, k := range w.Keys {
			sv := env.Lookup(w.Nodes, k)
			switch {
			case !sv.Present:
				if dbMode == "ok" && plan == kit.PlanNone && k == key {
					w.Fail("load suppression: after %d readers and %d queries nothing is cached under %s (healthy store)", g, nq, k)
				}
			case dbMode == "error-always" || plan == kit.PlanOutageBefore:
				w.Fail("the store holds %s=%q after a round in which no query succeeded (database errors are never cached)", k, sv.Raw)
			case sv.TTL <= 0:
				w.Fail("TTL clause: key %s is stored without a TTL, value %q", k, sv.Raw)
			case k != key:
				w.Fail("the round left key %s=%q in the cache, which no reader asked for", k, sv.Raw)
			case sv.Raw == kit.Placeholder:
				if docExists {
					w.Fail("the not-found marker is cached under %s although the document exists", k)
				}
				s.ttlOf(k, sv, s.nfRule())
			default:
				var r mcDoc
				json.Unmarshal([]byte(sv.Raw), &r)
				if rr, ok := results[r.Stamp]; !ok || rr.err != nil || rr.doc != r {
					w.Fail("the cache holds %s=%q, which is not the result of any query of the round (%v)", k, sv.Raw, results)
				}
				s.ttlOf(k, sv, s.rule("document"))
			}
		}
		if strong || (nq < g && plan != kit.PlanOutageBefore) {
			st.Class("case:readers-shared-a-query")
			st.NonTrivial(fmt.Sprintf("G=%d twoModels=%v doc=%v pre=%s/%s db=%s ctor=%d nodes=%d plan=%s strong=%v", g, twoModels, docExists, pre, invalidateBy, dbMode, s.conf.ctor, len(s.conf.nodes), plan, strong))
		}
	})
}

// ttlOf applies the TTL clause to an entry written during a concurrent round.
func (s *mcS) ttlOf(k string, sv kit.Stored, r kit.TTLRule) {
	if sv.TTL%time.Second != 0 {
		s.w.Fail("TTL clause: key %s was written with TTL %v, not whole seconds (%s)", k, sv.TTL, r.Why)
	}
	if sec := int64(sv.TTL / time.Second); r.Hi != 0 && (sec < r.Lo || sec > r.Hi) {
		s.w.Fail("TTL clause: key %s was written with TTL %d s; %s", k, sec, r.Why)
	}
}
