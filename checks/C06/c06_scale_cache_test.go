//go:build verif

package cache_test

// C06 — unit `scale`: many keys in flight on one cache.Cache (node, one-node ClusterConf,
// 2-3 node cluster).
//
// Everything the other units of the check generate is small: 4 keys, G <= 16 readers of ONE
// key, Del of 1-3 keys.  Here one cache serves, in 1-3 waves, bursts of distinct uncached
// keys (1 .. 5 000 per wave, log-uniform inside a drawn size class; one reader goroutine per
// key, a drawn fraction of the keys read by two) whose queries are fast, while 1-3 RESIDENT
// keys each have one slow query parked on a harness gate.  After every wave new readers arrive
// on the resident keys: their query has been in flight since before the wave, so they must
// join it (gauge inside the query function: at most one query per key at a time; once every
// reader was observed parked in the flight: exactly one query and every reader receives its
// result).  After the waves: one invalidation of many keys at once (1 .. all keys of the case,
// log-uniform), optionally a clock advance, and the ordinary read / write-with-invalidation /
// read / read check of the state machine on a sample of the keys.  The store is healthy all
// the time (no injected faults).  The model of the store (kit.World) holds EVERY key of the
// case: after each wave the presence, payload and TTL of all of them are compared.
//
// Nothing is timed: gates order the events, wall-clock deadlines only end a wait (a case whose
// wait ran out is inconclusive or judged by the weaker rule, never a violation).

import (
	"context"
	"errors"
	"fmt"
	"math"
	"runtime"
	"strings"
	"sync"
	"sync/atomic"
	"testing"
	"time"

	"github.com/zeromicro/go-zero/core/syncx"
	kit "github.com/zeromicro/go-zero/internal/verifc06"
	"github.com/zeromicro/go-zero/internal/verifkit"
	"pgregory.net/rapid"
)

// size classes of a wave (number of distinct keys).  Nothing in the code under test is known
// to depend on these numbers; they only say how often the expensive sizes are drawn.
const (
	c06ScaleSmallMax = 20   // the largest wave of the "small" class
	c06ScaleLargeMin = 2000 // >= 100 x c06ScaleSmallMax, >= 100 x the 16 readers / 4 keys of the other units
	c06ScaleLargeMax = 5000
)

// c06LogUniform draws an integer from [lo, hi] with a log-uniform density.
func c06LogUniform(t *rapid.T, lo, hi int64, label string) int64 {
	if lo >= hi {
		return lo
	}
	x := rapid.Float64Range(math.Log(float64(lo)), math.Log(float64(hi)+1)).Draw(t, label)
	n := int64(math.Exp(x))
	if n < lo {
		n = lo
	}
	if n > hi {
		n = hi
	}
	return n
}

// c06Trunc keeps failure messages readable: kit.World.Fail lists every key of the case.
type c06Trunc struct{ t *rapid.T }

func (f c06Trunc) Fatalf(format string, a ...any) {
	s := fmt.Sprintf(format, a...)
	if len(s) > 9000 {
		s = s[:7000] + "\n    ... [" + fmt.Sprint(len(s)-8500) + " bytes of key states dropped] ...\n" + s[len(s)-1500:]
	}
	f.t.Fatalf("%s", s)
}

func c06Bucket(n int) string {
	switch {
	case n < 10:
		return "1-9"
	case n < 100:
		return "10-99"
	case n < 1000:
		return "100-999"
	case n < c06ScaleLargeMin:
		return "1000-1999"
	}
	return "2000-5000"
}

// c06Parked counts the goroutines that are inside SingleFlight's createCall, like
// kit.ParkedInFlight (same white-box frame name, same use: ordering and the choice between the
// strong and the weak rule, never an oracle), but from runtime.GoroutineProfile: after a large
// burst the connection pools keep > 1 000 goroutines alive and a formatted dump of all of them
// costs ~10 ms, the raw profile well under 1 ms.
var (
	c06ParkedBuf  []runtime.StackRecord
	c06ParkedPC   = map[uintptr]bool{}
	c06ParkedName = "syncx.(*flightGroup).createCall"
)

func c06Parked() int {
	for {
		n, ok := runtime.GoroutineProfile(c06ParkedBuf)
		if !ok {
			c06ParkedBuf = make([]runtime.StackRecord, n+n/2+64)
			continue
		}
		count := 0
		for _, rec := range c06ParkedBuf[:n] {
			for _, pc := range rec.Stack() {
				in, known := c06ParkedPC[pc]
				if !known {
					frames := runtime.CallersFrames([]uintptr{pc})
					for {
						f, more := frames.Next()
						if strings.HasSuffix(f.Function, c06ParkedName) {
							in = true
						}
						if !more {
							break
						}
					}
					c06ParkedPC[pc] = in
				}
				if in {
					count++
					break
				}
			}
		}
		return count
	}
}

// c06Resident is one resident key: its queries park on gate until the harness opens it.
type c06Resident struct {
	ki       int
	key      string
	kind     string // what every query of the key answers: "row", "not-found", "db-error"
	after    int    // the gate is opened after this wave (and after that wave's new readers arrived)
	gate     chan struct{}
	released bool
	judged   bool
	strong   bool // so far every reader was observed parked in the flight of query 1
	inflight atomic.Int64
	maxIn    atomic.Int64
	nq       atomic.Int64
	readers  int
	mu       sync.Mutex
	outs     []c06Row
	errs     []error
	wg       sync.WaitGroup
}

// c06Scale is one case.
type c06Scale struct {
	m        *c06M
	t        *rapid.T
	idx      map[string]int
	res      []*c06Resident
	openGate []chan struct{} // gates of running bursts (opened on every exit path)
	launched int64           // resident readers started by the harness
	started  atomic.Int64    // ... that are running
}

func c06ScaleNew(t *rapid.T, st *verifkit.Stats) *c06Scale {
	env := kit.GetEnv(t)
	conf := c06DrawConf(t)
	// expiries from a wide range as well (1 ms .. 1 year, log-uniform), not only the fixed lists
	if rapid.Bool().Draw(t, "wideExpiry") {
		conf.exp = time.Duration(c06LogUniform(t, 1, 365*24*3600*1000, "expiryMs")) * time.Millisecond
		st.Class("expiry:log-uniform")
	}
	if rapid.Bool().Draw(t, "wideNotFoundExpiry") {
		conf.nfExp = time.Duration(c06LogUniform(t, 1, 365*24*3600*1000, "notFoundExpiryMs")) * time.Millisecond
	}
	m := &c06M{conf: conf, errNF: c06NotFnd[conf.nf], db: map[int]c06Row{}}
	m.w = kit.NewWorld(env, c06Trunc{t}, st, "s", conf.nodes)
	s := &c06Scale{m: m, t: t, idx: map[string]int{}}
	m.w.Decode = c06Decode
	m.w.Truth = func(key string) (string, bool) {
		ki, ok := s.idx[key]
		if !ok {
			return "", false
		}
		r, ok := m.db[ki]
		return r.String(), ok
	}
	m.c = c06Build(env, conf, syncx.NewSingleFlight())
	fmt.Fprintf(&m.w.Log, " [%s]", conf)
	return s
}

// addKeys registers n new keys named <tag>0..<tag>n-1 and returns the index of the first.
func (s *c06Scale) addKeys(tag string, n int) int {
	m := s.m
	base := len(m.keys)
	for i := 0; i < n; i++ {
		k := fmt.Sprintf("%s%s%d", m.w.Prefix, tag, i)
		s.idx[k] = len(m.keys)
		m.keys = append(m.keys, k)
		m.phase = append(m.phase, 0)
	}
	m.w.Keys = m.keys
	return base
}

// cleanup opens every gate and waits (bounded) for the goroutines of the case, so that a
// failing or abandoned case leaves nothing parked that the next case could count.
func (s *c06Scale) cleanup() {
	for _, g := range s.openGate {
		select {
		case <-g:
		default:
			close(g)
		}
	}
	for _, r := range s.res {
		if !r.released {
			r.released = true
			close(r.gate)
		}
	}
	done := make(chan struct{})
	go func() {
		for _, r := range s.res {
			r.wg.Wait()
		}
		close(done)
	}()
	select {
	case <-done:
	case <-time.After(20 * time.Second):
	}
}

// residentQuery is the query function of a resident key: gauge, then park on the gate.
func (s *c06Scale) residentQuery(r *c06Resident) func(v any) error {
	m := s.m
	row, exists := m.db[r.ki]
	return func(v any) error {
		n := r.inflight.Add(1)
		for {
			mx := r.maxIn.Load()
			if n <= mx || r.maxIn.CompareAndSwap(mx, n) {
				break
			}
		}
		r.nq.Add(1)
		<-r.gate
		defer r.inflight.Add(-1)
		switch {
		case r.kind == "db-error":
			return c06ErrDB
		case !exists:
			return m.errNF
		}
		*(v.(*c06Row)) = row
		return nil
	}
}

// arrive starts g new concurrent readers on a resident key whose query is (or, for the first
// readers, is about to be) in flight.
func (s *c06Scale) arrive(r *c06Resident, g int, ctx bool) {
	q := s.residentQuery(r)
	r.mu.Lock()
	first := len(r.outs)
	r.outs = append(r.outs, make([]c06Row, g)...)
	r.errs = append(r.errs, make([]error, g)...)
	r.mu.Unlock()
	r.readers += g
	s.launched += int64(g)
	for i := 0; i < g; i++ {
		r.wg.Add(1)
		go func(i int) {
			defer r.wg.Done()
			s.started.Add(1)
			var out c06Row
			var err error
			if ctx {
				err = s.m.c.TakeCtx(context.Background(), &out, r.key, q)
			} else {
				err = s.m.c.Take(&out, r.key, q)
			}
			r.mu.Lock()
			// outs/errs may have been re-allocated by a later arrive: write through the current ones
			r.outs[first+i], r.errs[first+i] = out, err
			r.mu.Unlock()
		}(i)
	}
}

// awaitParked waits (bounded) until the query of every unreleased resident key is parked at its
// gate and all its other readers are inside the flight (goroutine profile, see c06Parked; no
// burst goroutine is alive when this is called).  Keys whose readers were not all seen are
// from then on judged by the weaker rule.
func (s *c06Scale) awaitParked() {
	w := s.m.w
	expect := 0
	var live []*c06Resident
	for _, r := range s.res {
		if !r.released {
			live = append(live, r)
			expect += r.readers - 1
		}
	}
	if len(live) == 0 {
		return
	}
	deadline := time.Now().Add(10 * time.Second)
	for _, r := range live {
		for r.nq.Load() == 0 && time.Now().Before(deadline) {
			runtime.Gosched()
		}
		if r.nq.Load() == 0 {
			w.Abort("the first query of resident key %s did not start within 10 s", strings.TrimPrefix(r.key, w.Prefix))
		}
	}
	// a started reader needs microseconds to reach the flight; a goroutine dump costs milliseconds
	// (the connection pools keep > 1 000 goroutines alive), so give the readers a moment first
	for s.started.Load() < s.launched && time.Now().Before(deadline) {
		runtime.Gosched()
	}
	soft := time.Now().Add(3 * time.Second)
	seen := false
	for pause := 50 * time.Microsecond; time.Now().Before(soft); pause = min(2*pause, 5*time.Millisecond) {
		time.Sleep(pause)
		over := false
		for _, r := range live {
			over = over || r.maxIn.Load() > 1
		}
		if over {
			break
		}
		if c06Parked() >= expect {
			seen = true
			break
		}
	}
	for _, r := range live {
		if mx := r.maxIn.Load(); mx > 1 {
			s.fail("load suppression: resident key %s ran %d database queries at the same time (at most one at a time); its first query has been in flight since before the bursts and %d readers arrived meanwhile",
				strings.TrimPrefix(r.key, w.Prefix), mx, r.readers)
		}
		if !seen {
			r.strong = false
		}
	}
}

func (s *c06Scale) fail(format string, a ...any) {
	s.m.w.Fail(format, a...)
}

// release opens the gate of a resident key, waits for its readers and judges them.
func (s *c06Scale) release(r *c06Resident) {
	m, w := s.m, s.m.w
	name := strings.TrimPrefix(r.key, w.Prefix)
	r.released = true
	close(r.gate)
	done := make(chan struct{})
	go func() { r.wg.Wait(); close(done) }()
	select {
	case <-done:
	case <-time.After(60 * time.Second):
		w.Abort("the readers of resident key %s did not return within 60 s", name)
	}
	r.judged = true
	for _, e := range r.errs {
		w.CheckInfra("Take("+name+")", e)
	}
	if mx := r.maxIn.Load(); mx > 1 {
		s.fail("load suppression: resident key %s ran %d database queries at the same time (at most one at a time)", name, mx)
	}
	row, exists := m.db[r.ki]
	got := map[string]int{}
	for i := range r.errs {
		got[c06Res(r.errs[i], r.outs[i], m.errNF)]++
	}
	fmt.Fprintf(&w.Log, " release(%s:%s readers=%d queries=%d allJoined=%v got=%v)", name, r.kind, r.readers, r.nq.Load(), r.strong, got)
	for i := range r.errs {
		ok := false
		switch {
		case r.kind == "db-error":
			ok = errors.Is(r.errs[i], c06ErrDB)
		case !exists:
			ok = errors.Is(r.errs[i], m.errNF)
		default:
			ok = r.errs[i] == nil && r.outs[i] == row
		}
		if !ok {
			s.fail("reader %d of %d of resident key %s returned %s; the key's query was in flight when the reader arrived and answered %s: every reader receives that query's result (readers got %v)",
				i, r.readers, name, c06Res(r.errs[i], r.outs[i], m.errNF), r.kind, got)
		}
	}
	if r.strong {
		w.St.Class("resident:all-readers-joined-the-flight")
		if n := r.nq.Load(); n != 1 {
			s.fail("all %d readers of resident key %s had joined the flight of its first query, yet %d database queries ran", r.readers, name, n)
		}
	} else {
		w.St.Class("resident:some-readers-not-seen-parked")
	}
	want := kit.Want{}
	switch {
	case r.kind == "db-error":
		want.Absent = true
	case !exists:
		want.Placeholder, want.TTL = true, m.nfRule()
	default:
		want.Val, want.TTL = row.String(), m.rule("row")
	}
	w.Settle(map[string]kit.Want{r.key: want})
}

// burst is one wave: n distinct uncached keys read at once.
func (s *c06Scale) burst(wv, n int, barrier bool, absentEvery, dupEvery, apiMode int) {
	m, w := s.m, s.m.w
	base := s.addKeys(fmt.Sprintf("w%d_", wv), n)
	rows := make([]c06Row, n)
	exists := make([]bool, n)
	for i := 0; i < n; i++ {
		exists[i] = absentEvery == 0 || i%absentEvery != absentEvery-1
		if exists[i] {
			m.ver++
			rows[i] = c06Row{ID: int64(base + i), Name: "b", Ver: m.ver}
			m.db[base+i] = rows[i]
		}
	}
	// readers: one per key, a second one for every dupEvery-th key
	var readerKey []int
	nReaders := make([]int32, n)
	for i := 0; i < n; i++ {
		readerKey = append(readerKey, i)
		nReaders[i] = 1
		if dupEvery > 0 && i%dupEvery == 0 {
			readerKey = append(readerKey, i)
			nReaders[i] = 2
		}
	}
	apiOf := func(i int) int {
		a := apiMode
		if apiMode > 3 {
			a = i % 4
		}
		if nReaders[i] > 1 {
			a &= 1 // two readers are told two different expiries: plain Take / TakeCtx only
		}
		return a
	}
	gauge := make([]atomic.Int32, n)
	nq := make([]atomic.Int32, n)
	told := make([]atomic.Int64, n)
	var over atomic.Int64 // 1 + index of a key that ran two queries at once
	var arrived, inNow, inPeak atomic.Int64
	gate := make(chan struct{})
	s.openGate = append(s.openGate, gate)
	query := func(i int) func(v any) error {
		return func(v any) error {
			if gauge[i].Add(1) > 1 {
				over.CompareAndSwap(0, int64(i)+1)
			}
			defer gauge[i].Add(-1)
			if nq[i].Add(1) == 1 {
				arrived.Add(1)
			}
			c := inNow.Add(1)
			for {
				p := inPeak.Load()
				if c <= p || inPeak.CompareAndSwap(p, c) {
					break
				}
			}
			defer inNow.Add(-1)
			if barrier {
				<-gate
			} else {
				runtime.Gosched()
			}
			if !exists[i] {
				return m.errNF
			}
			*(v.(*c06Row)) = rows[i]
			return nil
		}
	}
	outs := make([]c06Row, len(readerKey))
	errs := make([]error, len(readerKey))
	start := make(chan struct{})
	var wg sync.WaitGroup
	for r, i := range readerKey {
		wg.Add(1)
		go func(r, i int) {
			defer wg.Done()
			key := m.keys[base+i]
			q := query(i)
			qx := func(v any, e time.Duration) error { told[i].Store(int64(e)); return q(v) }
			<-start
			switch apiOf(i) {
			case apiTake:
				errs[r] = m.c.Take(&outs[r], key, q)
			case apiTakeCtx:
				errs[r] = m.c.TakeCtx(context.Background(), &outs[r], key, q)
			case apiTakeWithExpire:
				errs[r] = m.c.TakeWithExpire(&outs[r], key, qx)
			default:
				errs[r] = m.c.TakeWithExpireCtx(context.Background(), &outs[r], key, qx)
			}
		}(r, i)
	}
	close(start)
	filled := true
	if barrier {
		// every key's query waits until the queries of all n keys are in flight at once
		deadline := time.Now().Add(30 * time.Second)
		for arrived.Load() < int64(n) && over.Load() == 0 {
			if time.Now().After(deadline) {
				filled = false
				break
			}
			time.Sleep(200 * time.Microsecond)
		}
		close(gate)
	}
	done := make(chan struct{})
	go func() { wg.Wait(); close(done) }()
	select {
	case <-done:
	case <-time.After(120 * time.Second):
		w.Abort("wave %d: %d readers did not return within 120 s", wv, len(readerKey))
	}
	w.Env.Hook.Take() // drop the trace of the burst
	peak := int(inPeak.Load())
	fmt.Fprintf(&w.Log, " wave%d(keys=%d readers=%d barrier=%v absentEvery=%d dupEvery=%d api=%d peakQueriesInFlight=%d)",
		wv, n, len(readerKey), barrier, absentEvery, dupEvery, apiMode, peak)
	w.St.Class("wave:keys=" + c06Bucket(n))
	w.St.Class("wave:peak-queries-in-flight=" + c06Bucket(max(peak, 1)))
	if barrier {
		if filled {
			w.St.Class("wave:barrier(all-keys-in-flight-at-once)")
		} else {
			w.St.Class("wave:barrier-not-filled-within-30s")
			w.St.Note("wave with barrier: only %d of %d queries arrived within 30 s; %s", arrived.Load(), n, w.Log.String())
		}
	} else {
		w.St.Class("wave:free-running")
	}
	for _, e := range errs {
		w.CheckInfra("burst Take", e)
	}
	if i := over.Load(); i != 0 {
		s.fail("load suppression: wave %d: key w%d_%d ran two database queries at the same time (at most one at a time)", wv, wv, i-1)
	}
	for r, i := range readerKey {
		switch {
		case errs[r] == nil && exists[i] && outs[r] == rows[i]:
		case errors.Is(errs[r], m.errNF) && !exists[i]:
		default:
			truth := "no row"
			if exists[i] {
				truth = rows[i].String()
			}
			s.fail("wave %d (%d keys): the reader of uncached key w%d_%d returned %s; the database holds %s (healthy store, healthy database)",
				wv, n, wv, i, c06Res(errs[r], outs[r], m.errNF), truth)
		}
	}
	want := make(map[string]kit.Want, n)
	shared := 0
	for i := 0; i < n; i++ {
		q := nq[i].Load()
		if q < 1 || q > nReaders[i] {
			s.fail("wave %d (%d keys): uncached key w%d_%d was read by %d reader(s) and %d database queries ran (a miss runs one query; readers that share it run none)",
				wv, n, wv, i, nReaders[i], q)
		}
		if q < nReaders[i] {
			shared++
		}
		wt := kit.Want{}
		if exists[i] {
			wt.Val, wt.TTL = rows[i].String(), m.rule("row")
			if a := apiOf(i); a == apiTakeWithExpire || a == apiTakeWithExpireCtx {
				e := time.Duration(told[i].Load())
				if m.conf.exp > 0 {
					lo, hi := m.conf.exp*95/100, m.conf.exp*105/100
					if e < lo-time.Microsecond || e > hi+time.Microsecond {
						s.fail("wave %d: TakeWithExpire(w%d_%d): the query was told expire=%v, outside expiry %v +/-5%%", wv, wv, i, e, m.conf.exp)
					}
				}
				if e > 0 {
					wt.TTL = kit.Exact(kit.CeilSeconds(e), fmt.Sprintf("the query was told expire=%v, rounded up", e))
				}
			}
		} else {
			wt.Placeholder, wt.TTL = true, m.nfRule()
		}
		want[m.keys[base+i]] = wt
	}
	w.St.ClassN("wave:keys-whose-two-readers-shared-a-query", shared)
	// every key of the wave is cached (row or marker) with a lawful TTL, on exactly one server;
	// the resident keys whose query is parked are still uncached, everything else is untouched
	w.Settle(want)
}

// massInvalidate changes the rows of d keys (stride apart, from first) and deletes the keys in
// ONE Del call - what CachedConn.Exec does with the keys of the rows a statement wrote.
func (s *c06Scale) massInvalidate(first, stride, d int, mode int, ctx bool) {
	m, w := s.m, s.m.w
	nres := len(s.res)
	total := len(m.keys) - nres
	keys := make([]string, 0, d)
	want := make(map[string]kit.Want, d)
	for j := 0; j < d; j++ {
		ki := nres + (first+j*stride)%total
		if _, dup := want[m.keys[ki]]; dup {
			continue
		}
		switch {
		case mode == 0 || (mode == 2 && j%2 == 0): // update / insert
			m.ver++
			m.db[ki] = c06Row{ID: int64(ki), Name: "u", Ver: m.ver}
		default:
			delete(m.db, ki)
		}
		keys = append(keys, m.keys[ki])
		want[m.keys[ki]] = kit.Want{Absent: true}
		if m.phase[ki] == 1 {
			m.phase[ki] = 2
		}
	}
	var err error
	if ctx {
		err = m.c.DelCtx(context.Background(), keys...)
	} else {
		err = m.c.Del(keys...)
	}
	w.Env.Hook.Take()
	fmt.Fprintf(&w.Log, " write+Del(%d keys: first=%d stride=%d mode=%d)=%v", len(keys), first, stride, mode, err)
	w.St.Class("massdel:keys=" + c06Bucket(len(keys)))
	w.CheckInfra("Del", err)
	if err != nil {
		s.fail("Del of %d keys on a healthy store returned %v", len(keys), err)
	}
	w.Settle(want)
}

func TestVerifC06CacheScale(t *testing.T) {
	st := verifkit.New("scale")
	defer st.Flush()
	every := max(verifkit.EnvInt("c06_scale_every", 40), 1)
	mediumEvery := max(verifkit.EnvInt("c06_scale_medium_every", 8), 1)
	rapid.Check(t, func(t *rapid.T) {
		st.Eval()
		s := c06ScaleNew(t, st)
		m, w := s.m, s.m.w
		defer s.cleanup()
		if len(m.conf.nodes) == 1 {
			st.Class("topology:node")
		} else {
			st.Class(fmt.Sprintf("topology:cluster-%d", len(m.conf.nodes)))
		}
		// size class: the highest value of the draw is the large class, so that shrinking moves
		// towards small cases
		class := "small"
		switch {
		case rapid.IntRange(1, every).Draw(t, "largeClass") == every:
			class = "large"
		case rapid.IntRange(1, mediumEvery).Draw(t, "mediumClass") == mediumEvery:
			class = "medium"
		}
		st.Class("size:" + class)
		waves := rapid.IntRange(1, 3).Draw(t, "waves")
		big := rapid.IntRange(1, waves).Draw(t, "bigWave")
		sizes := make([]int, waves+1)
		for wv := 1; wv <= waves; wv++ {
			switch {
			case class == "large" && wv == big:
				sizes[wv] = int(c06LogUniform(t, c06ScaleLargeMin, c06ScaleLargeMax, "keys"))
			case class == "large":
				sizes[wv] = int(c06LogUniform(t, 1, c06ScaleLargeMax, "keys"))
			case class == "medium":
				sizes[wv] = int(c06LogUniform(t, c06ScaleSmallMax+1, c06ScaleLargeMin-1, "keys"))
			default:
				sizes[wv] = int(c06LogUniform(t, 1, c06ScaleSmallMax, "keys"))
			}
		}
		// resident keys
		nres := rapid.IntRange(1, 3).Draw(t, "residentKeys")
		s.addKeys("r", nres)
		for j := 0; j < nres; j++ {
			r := &c06Resident{ki: j, key: m.keys[j], gate: make(chan struct{}), strong: true}
			r.kind = rapid.SampledFrom([]string{"row", "row", "row", "not-found", "db-error"}).Draw(t, "residentAnswers")
			r.after = rapid.IntRange(1, waves).Draw(t, "releasedAfterWave")
			if r.kind != "not-found" {
				m.ver++
				m.db[j] = c06Row{ID: int64(j), Name: "res", Ver: m.ver}
			}
			s.res = append(s.res, r)
			st.Class("resident:answers-" + r.kind)
		}
		fmt.Fprintf(&w.Log, " size=%s resident=%d (kN below = N-th key of the case: the resident keys, then the keys of wave 1, 2, 3)", class, nres)
		w.Guard(func() {
			for _, r := range s.res {
				g := rapid.IntRange(1, 6).Draw(t, "firstReaders")
				s.arrive(r, g, rapid.Bool().Draw(t, "ctx"))
				fmt.Fprintf(&w.Log, " r%d:%s first-readers=%d released-after-wave=%d", r.ki, r.kind, g, r.after)
			}
			s.awaitParked()
			total := 0
			for wv := 1; wv <= waves; wv++ {
				n := sizes[wv]
				total += n
				s.burst(wv, n,
					rapid.Bool().Draw(t, "barrier"),
					rapid.SampledFrom([]int{0, 0, 2, 3, 10, 100}).Draw(t, "absentEvery"),
					rapid.SampledFrom([]int{0, 0, 1, 2, 7, 50}).Draw(t, "dupEvery"),
					rapid.IntRange(0, 4).Draw(t, "api"))
				// new readers on the resident keys: concurrently on those whose query is still parked
				// (they arrived while it was in flight), one after the other on those already cached
				for _, r := range s.res {
					g := rapid.IntRange(1, 4).Draw(t, "newReaders")
					if !r.released {
						s.arrive(r, g, rapid.Bool().Draw(t, "ctx"))
						fmt.Fprintf(&w.Log, " r%d+%d", r.ki, g)
						continue
					}
					m.read(r.ki, rapid.IntRange(0, 3).Draw(t, "api"), r.kind == "db-error", "none")
				}
				s.awaitParked()
				for _, r := range s.res {
					if !r.released && r.after == wv {
						s.release(r)
					}
				}
			}
			for _, r := range s.res {
				if !r.judged {
					s.fail("harness: resident key r%d was never released", r.ki)
				}
			}
			// one write that invalidates many keys at once
			// (its size follows the size of the case in two of three cases, else anything from 1 key up)
			dmin := int64(1)
			if rapid.IntRange(0, 2).Draw(t, "invalidateMany") > 0 {
				dmin = int64(max(1, total/4))
			}
			d := int(c06LogUniform(t, dmin, int64(total), "invalidatedKeys"))
			s.massInvalidate(rapid.IntRange(0, total-1).Draw(t, "first"),
				rapid.SampledFrom([]int{1, 1, 2, 3, 7}).Draw(t, "stride"), d,
				rapid.IntRange(0, 2).Draw(t, "writeMode"), rapid.Bool().Draw(t, "ctx"))
			// clock: sometimes to the neighbourhood of the end of one sampled entry
			if rapid.Bool().Draw(t, "forward") {
				ki := nres + rapid.IntRange(0, total-1).Draw(t, "forwardKey")
				if e := w.Cached(m.keys[ki]); e.Present {
					w.Forward(e.ExpAt - w.Now + rapid.SampledFrom([]int64{-1000, -1, 0, 1, 1000}).Draw(t, "delta"))
				}
			}
			// the ordinary coherence check on a sample of the keys
			for i, ns := 0, rapid.IntRange(2, 5).Draw(t, "sample"); i < ns; i++ {
				ki := rapid.IntRange(0, len(m.keys)-1).Draw(t, "sampleKey")
				dbFail := ki < nres && s.res[ki].kind == "db-error"
				m.read(ki, rapid.IntRange(0, 3).Draw(t, "api"), dbFail, "none")
				m.invalidate([]int{ki}, func(ki int) string {
					if rapid.IntRange(0, 3).Draw(t, "deleteRow") == 0 {
						delete(m.db, ki)
						return ":=none"
					}
					m.ver++
					m.db[ki] = c06Row{ID: int64(ki), Name: "w", Ver: m.ver}
					return ":=" + m.db[ki].String()
				}, rapid.Bool().Draw(t, "ctx"), "none", ki)
				m.read(ki, rapid.IntRange(0, 3).Draw(t, "api"), false, "none")
				m.read(ki, rapid.IntRange(0, 3).Draw(t, "api"), false, "none")
			}
		})
		if w.Dead {
			return
		}
		mx := 0
		for _, n := range sizes {
			mx = max(mx, n)
		}
		if mx >= c06ScaleLargeMin {
			st.Class("case:large-wave-judged")
			st.NonTrivial(w.Log.String())
		}
	})
}
