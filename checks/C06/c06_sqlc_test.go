//go:build verif

package sqlc_test

// C06 — cache-aside store, part 2: sqlc.CachedConn (QueryRow / QueryRowIndex / Exec /
// SetCache / DelCache / GetCache) in front of a fake sqlx.SqlConn (a map; every statement
// is counted).  Same environment, fault injection and model as part 1
// (internal/verifc06); the model additionally knows index keys (index value -> primary
// key) and that an index read fills the primary entry as well.

import (
	"context"
	"database/sql"
	"encoding/json"
	"errors"
	"fmt"
	"sort"
	"strconv"
	"strings"
	"sync"
	"sync/atomic"
	"testing"
	"time"

	"github.com/zeromicro/go-zero/core/stores/cache"
	"github.com/zeromicro/go-zero/core/stores/redis"
	"github.com/zeromicro/go-zero/core/stores/sqlc"
	"github.com/zeromicro/go-zero/core/stores/sqlx"
	"github.com/zeromicro/go-zero/core/syncx"
	kit "github.com/zeromicro/go-zero/internal/verifc06"
	"github.com/zeromicro/go-zero/internal/verifkit"
	"pgregory.net/rapid"
)

// ---------------------------------------------------------------------------- fake database

type c06Rec struct {
	ID    int64  `json:"id"`
	Idx   int64  `json:"idx"` // unique index value, -1 = none
	Name  string `json:"name"`
	Ver   int64  `json:"ver"`
	Stamp int64  `json:"stamp,omitempty"` // concurrent unit: which statement produced the row
}

func (r c06Rec) String() string {
	s := fmt.Sprintf("{id=%d idx=%d %q v%d", r.ID, r.Idx, r.Name, r.Ver)
	if r.Stamp != 0 {
		s += fmt.Sprintf(" q%d", r.Stamp)
	}
	return s + "}"
}

var (
	c06ErrDB  = errors.New("c06: injected database error")
	c06ErrDup = errors.New("c06: duplicate entry for unique index")
	c06ErrNF2 = errors.New("c06: configured not-found error")
)

type c06Result struct{ n int64 }

func (r c06Result) LastInsertId() (int64, error) { return 0, nil }
func (r c06Result) RowsAffected() (int64, error) { return r.n, nil }

// c06DB is the fake database behind a fake sqlx.SqlConn.
type c06DB struct {
	mu     sync.Mutex
	rows   map[int64]c06Rec
	ver    int64
	nf     error // what "no row" is reported as
	fail   bool  // every statement of the running operation fails
	byID   int   // statements executed
	byIdx  int
	execs  int
	before func() // runs inside an exec statement before the write is applied
	// concurrent unit
	gate     chan struct{}
	inflight atomic.Int64
	maxIn    atomic.Int64
	stamps   atomic.Int64
	results  map[int64]c06QRes
	errFirst bool
	// runs inside a statement after it passed the gate, before it reads the table
	afterGate func(stamp int64)
}

type c06QRes struct {
	rec c06Rec
	err error
}

type c06Conn struct{ db *c06DB }

var errUnsupported = errors.New("c06 fake conn: not supported")

func (c *c06Conn) hold() (stamp int64, release func()) {
	d := c.db
	if d.gate == nil {
		return 0, func() {}
	}
	n := d.inflight.Add(1)
	for {
		mx := d.maxIn.Load()
		if n <= mx || d.maxIn.CompareAndSwap(mx, n) {
			break
		}
	}
	stamp = d.stamps.Add(1)
	<-d.gate
	if d.afterGate != nil {
		d.afterGate(stamp)
	}
	return stamp, func() { d.inflight.Add(-1) }
}

func (c *c06Conn) QueryRowCtx(_ context.Context, v any, query string, args ...any) error {
	d := c.db
	stamp, release := c.hold()
	defer release()
	d.mu.Lock()
	defer d.mu.Unlock()
	var rec c06Rec
	var err error
	found := false
	switch query {
	case "byid":
		d.byID++
		rec, found = d.rows[args[0].(int64)]
	case "byidx":
		d.byIdx++
		for _, id := range d.ids() {
			if r := d.rows[id]; r.Idx == args[0].(int64) {
				rec, found = r, true
			}
		}
	default:
		return errUnsupported
	}
	switch {
	case d.fail || (d.errFirst && stamp == 1):
		err = c06ErrDB
	case !found:
		err = d.nf
	default:
		rec.Stamp = stamp
		*(v.(*c06Rec)) = rec
	}
	if d.results != nil {
		d.results[stamp] = c06QRes{rec: rec, err: err}
	}
	return err
}

func (d *c06DB) ids() []int64 {
	var ids []int64
	for id := range d.rows {
		ids = append(ids, id)
	}
	sort.Slice(ids, func(i, j int) bool { return ids[i] < ids[j] })
	return ids
}

func (c *c06Conn) ExecCtx(_ context.Context, query string, args ...any) (sql.Result, error) {
	d := c.db
	if d.before != nil {
		d.before()
	}
	d.mu.Lock()
	defer d.mu.Unlock()
	d.execs++
	if d.fail {
		return nil, c06ErrDB
	}
	switch query {
	case "upsert":
		id, idx, name := args[0].(int64), args[1].(int64), args[2].(string)
		if idx >= 0 {
			for oid, r := range d.rows {
				if oid != id && r.Idx == idx {
					return nil, c06ErrDup
				}
			}
		}
		d.ver++
		d.rows[id] = c06Rec{ID: id, Idx: idx, Name: name, Ver: d.ver}
		return c06Result{1}, nil
	case "delete":
		id := args[0].(int64)
		if _, ok := d.rows[id]; !ok {
			return c06Result{0}, nil
		}
		delete(d.rows, id)
		return c06Result{1}, nil
	}
	return nil, errUnsupported
}

func (c *c06Conn) Exec(q string, args ...any) (sql.Result, error) {
	return c.ExecCtx(context.Background(), q, args...)
}
func (c *c06Conn) QueryRow(v any, q string, args ...any) error {
	return c.QueryRowCtx(context.Background(), v, q, args...)
}
func (c *c06Conn) Prepare(string) (sqlx.StmtSession, error) { return nil, errUnsupported }
func (c *c06Conn) PrepareCtx(context.Context, string) (sqlx.StmtSession, error) {
	return nil, errUnsupported
}
func (c *c06Conn) QueryRowPartial(any, string, ...any) error { return errUnsupported }
func (c *c06Conn) QueryRowPartialCtx(context.Context, any, string, ...any) error {
	return errUnsupported
}
func (c *c06Conn) QueryRows(any, string, ...any) error                     { return errUnsupported }
func (c *c06Conn) QueryRowsCtx(context.Context, any, string, ...any) error { return errUnsupported }
func (c *c06Conn) QueryRowsPartial(any, string, ...any) error              { return errUnsupported }
func (c *c06Conn) QueryRowsPartialCtx(context.Context, any, string, ...any) error {
	return errUnsupported
}
func (c *c06Conn) RawDB() (*sql.DB, error)                 { return nil, errUnsupported }
func (c *c06Conn) Transact(func(sqlx.Session) error) error { return errUnsupported }
func (c *c06Conn) TransactCtx(context.Context, func(context.Context, sqlx.Session) error) error {
	return errUnsupported
}

// ---------------------------------------------------------------------------- case

var (
	c06Stat    *cache.Stat
	c06StatOne sync.Once

	c06Expiries   = []time.Duration{0, 10 * time.Millisecond, time.Second, 1500 * time.Millisecond, 7 * time.Second, 20 * time.Second, 100 * time.Second, time.Hour}
	c06NfExpiries = []time.Duration{0, 500 * time.Millisecond, time.Second, 3 * time.Second, 10 * time.Second, time.Minute}
	c06SetExpires = []time.Duration{time.Millisecond, 999 * time.Millisecond, time.Second, 1001 * time.Millisecond, 2500 * time.Millisecond, 19 * time.Second, time.Hour}
)

func c06GetStat() *cache.Stat {
	c06StatOne.Do(func() { c06Stat = cache.NewStat("c06") })
	return c06Stat
}

const (
	c06IDs  = 4
	c06Idxs = 2
)

type c06Conf struct {
	ctor       int // 0 NewNodeConn, 1 NewConn(CacheConf), 2 NewConnWithCache(node, custom not-found error)
	nodes      []int
	exp, nfExp time.Duration
}

func (c c06Conf) String() string {
	return fmt.Sprintf("ctor=%s nodes=%v expiry=%v notFoundExpiry=%v",
		[]string{"NewNodeConn", "NewConn", "NewConnWithCache"}[c.ctor], c.nodes, c.exp, c.nfExp)
}

func c06DrawConf(t *rapid.T) c06Conf {
	var c c06Conf
	c.ctor = rapid.IntRange(0, 2).Draw(t, "ctor")
	c.nodes = []int{rapid.IntRange(0, kit.Nodes-1).Draw(t, "node")}
	if c.ctor == 1 {
		switch rapid.IntRange(0, 2).Draw(t, "clusterSize") {
		case 1:
			skip := c.nodes[0]
			c.nodes = nil
			for i := 0; i < kit.Nodes; i++ {
				if i != skip {
					c.nodes = append(c.nodes, i)
				}
			}
		case 2:
			c.nodes = []int{0, 1, 2}
		}
	}
	c.exp = rapid.SampledFrom(c06Expiries).Draw(t, "expiry")
	c.nfExp = rapid.SampledFrom(c06NfExpiries).Draw(t, "notFoundExpiry")
	return c
}

func c06Build(env *kit.Env, c c06Conf, conn sqlx.SqlConn) (cc sqlc.CachedConn, nf error) {
	var opts []cache.Option
	if c.exp > 0 {
		opts = append(opts, cache.WithExpiry(c.exp))
	}
	if c.nfExp > 0 {
		opts = append(opts, cache.WithNotFoundExpiry(c.nfExp))
	}
	switch c.ctor {
	case 0:
		return sqlc.NewNodeConn(conn, env.Rds[c.nodes[0]], opts...), sqlc.ErrNotFound
	case 1:
		var conf cache.CacheConf
		for _, n := range c.nodes {
			conf = append(conf, cache.NodeConf{
				RedisConf: redis.RedisConf{Host: env.MR[n].Addr(), Type: redis.NodeType, NonBlock: true},
				Weight:    100,
			})
		}
		return sqlc.NewConn(conn, conf, opts...), sqlc.ErrNotFound
	default:
		node := cache.NewNode(env.Rds[c.nodes[0]], syncx.NewSingleFlight(), c06GetStat(), c06ErrNF2, opts...)
		return sqlc.NewConnWithCache(conn, node), c06ErrNF2
	}
}

type c06S struct {
	w     *kit.World
	cc    sqlc.CachedConn
	conn  *c06Conn
	db    *c06DB
	conf  c06Conf
	errNF error
	pk    []string // cache key of primary id i
	ik    []string // cache key of index value x
	// non-trivial bookkeeping
	phase        map[string]int
	reads        int
	faultAfterRd bool
	faultBetween bool
	indexFills   int
	racing       int
	// the primary keys the database hands out are pkBase + i: large numbers (>= 10^6, above 2^53) survive the
	// trip through the cached index entry only if they are decoded as numbers of full precision
	pkBase int64
}

var c06PkBases = []int64{0, 1_000_000, 1<<53 + 1, 1_700_000_000_000_000_000}

func (s *c06S) ext(id int64) int64 { return id + s.pkBase }

// unext: the row id a primary key value stands for, -1 if it is not one the database handed out
func (s *c06S) unext(primary any) int64 {
	v, err := strconv.ParseInt(fmt.Sprint(primary), 10, 64)
	if err != nil || v-s.pkBase < 0 || v-s.pkBase >= c06IDs {
		return -1
	}
	return v - s.pkBase
}

func c06NewS(t *rapid.T, st *verifkit.Stats, tag string) *c06S {
	env := kit.GetEnv(t)
	conf := c06DrawConf(t)
	s := &c06S{conf: conf, phase: map[string]int{}}
	s.db = &c06DB{rows: map[int64]c06Rec{}}
	s.conn = &c06Conn{db: s.db}
	s.w = kit.NewWorld(env, t, st, tag, conf.nodes)
	s.cc, s.errNF = c06Build(env, conf, s.conn)
	s.db.nf = s.errNF
	for i := 0; i < c06IDs; i++ {
		s.pk = append(s.pk, fmt.Sprintf("%sp%d", s.w.Prefix, i))
	}
	for x := 0; x < c06Idxs; x++ {
		s.ik = append(s.ik, fmt.Sprintf("%si%d", s.w.Prefix, x))
	}
	s.w.Keys = append(append([]string{}, s.pk...), s.ik...)
	s.w.Decode = s.decode
	s.w.Truth = s.truth
	fmt.Fprintf(&s.w.Log, " [%s]", conf)
	for i := int64(0); i < c06IDs; i++ {
		if rapid.Bool().Draw(t, "rowExists") {
			idx := rapid.Int64Range(-1, c06Idxs-1).Draw(t, "idx")
			if _, err := s.conn.Exec("upsert", i, idx, "init"); err != nil {
				s.conn.Exec("upsert", i, int64(-1), "init")
			}
		}
	}
	s.db.execs = 0
	return s
}

func (s *c06S) isIndexKey(key string) (int, bool) {
	for x, k := range s.ik {
		if k == key {
			return x, true
		}
	}
	return 0, false
}

func c06Ref(id int64) string { return fmt.Sprintf("->p%d", id) }

func (s *c06S) decode(key, raw string) (string, error) {
	if _, ok := s.isIndexKey(key); ok {
		id, err := strconv.ParseInt(strings.TrimSpace(raw), 10, 64)
		if err != nil {
			return "", fmt.Errorf("index entry %q is not a primary key", raw)
		}
		return c06Ref(id - s.pkBase), nil
	}
	var r c06Rec
	if err := json.Unmarshal([]byte(raw), &r); err != nil {
		return "", err
	}
	return r.String(), nil
}

func (s *c06S) truth(key string) (string, bool) {
	if x, ok := s.isIndexKey(key); ok {
		if r, ok := s.byIdx(int64(x)); ok {
			return c06Ref(r.ID), true
		}
		return "", false
	}
	for i, k := range s.pk {
		if k == key {
			r, ok := s.db.rows[int64(i)]
			return r.String(), ok
		}
	}
	return "", false
}

func (s *c06S) byIdx(x int64) (c06Rec, bool) {
	for _, id := range s.db.ids() {
		if r := s.db.rows[id]; r.Idx == x {
			return r, true
		}
	}
	return c06Rec{}, false
}

func (s *c06S) rule(extra int64, what string) kit.TTLRule {
	return kit.Jittered(s.conf.exp, s.conf.exp > 0, extra, what)
}

func (s *c06S) nfRule() kit.TTLRule {
	return kit.Jittered(s.conf.nfExp, s.conf.nfExp > 0, 0, "not-found marker")
}

func (s *c06S) arm(fault, key string) {
	if !s.w.ArmFault(fault, key) {
		s.w.Abort("padding PING failed")
	}
}

func (s *c06S) disarm(op string, err error) []kit.Cmd {
	s.w.Env.Outage(false)
	s.w.Env.Hook.Disarm()
	tr := s.w.Env.Hook.Take()
	s.w.CheckInfra(op, err)
	return tr
}

func c06Failed(tr []kit.Cmd, outage bool, kind string) bool {
	if outage {
		return kit.Saw(tr, kind)
	}
	return kit.InjectedKind(tr, kind)
}

func (s *c06S) noteFault(tr []kit.Cmd, outage bool) {
	n := kit.Injected(tr)
	if outage && len(tr) > 0 {
		n++
	}
	if n == 0 {
		return
	}
	s.w.Faults += n
	s.w.St.ClassN("fault:consumed", n)
	if s.reads > 0 {
		s.faultAfterRd = true
	}
}

func (s *c06S) afterRead(keys ...string) {
	s.reads++
	if s.faultAfterRd {
		s.faultBetween = true
	}
	for _, k := range keys {
		switch s.phase[k] {
		case 0:
			s.phase[k] = 1
		case 2:
			s.phase[k] = 3
		}
	}
}

func c06Flag(b bool, s string) string {
	if b {
		return s
	}
	return ""
}

func c06Fault(f string) string {
	if f == "none" {
		return ""
	}
	return ",fault:" + f
}

func (s *c06S) res(err error, out c06Rec) string {
	switch {
	case err == nil:
		return out.String()
	case errors.Is(err, s.errNF):
		return "not-found"
	case errors.Is(err, c06ErrDB):
		return "db-error"
	case errors.Is(err, c06ErrDup):
		return "db-duplicate"
	case kit.IsStoreErr(err):
		return "store-error"
	}
	return "error(" + err.Error() + ")"
}

// alt is one execution the statement allows for a read.
type c06Alt struct {
	o           kit.Outcome
	dbErr       bool
	idxQ, priQ  int
	want        map[string]kit.Want
	class       string
	filledIndex bool
}

func (a c06Alt) String() string {
	s := a.o.String()
	if a.dbErr {
		s = "the database error"
	}
	return fmt.Sprintf("%s with %d index + %d primary queries", s, a.idxQ, a.priQ)
}

// states a key may be in: what the model holds, plus "absent" when a failed invalidation
// of it awaits the cleaner (the retry may have struck).
func (s *c06S) states(key string) []kit.Entry {
	e := s.w.Cached(key)
	if s.w.Dirty[key] && e.Present {
		return []kit.Entry{e, {}}
	}
	return []kit.Entry{e}
}

// primaryAlts: the read of primary key id (QueryRow, or the second half of an index read).
func (s *c06S) primaryAlts(id int64, dbFail bool) []c06Alt {
	key := s.pk[id]
	var alts []c06Alt
	for _, e := range s.states(key) {
		switch {
		case e.Present && e.Placeholder:
			alts = append(alts, c06Alt{o: kit.Outcome{NotFound: true}, class: "hit-not-found-marker", want: map[string]kit.Want{key: {Keep: true}}})
		case e.Present:
			alts = append(alts, c06Alt{o: kit.FromEntry(e), class: "hit-value", want: map[string]kit.Want{key: {Keep: true}}})
		case dbFail:
			alts = append(alts, c06Alt{dbErr: true, priQ: 1, class: "miss-db-error", want: map[string]kit.Want{key: {Absent: true}}})
		default:
			t := s.w.FromTruth(key)
			if t.OK {
				alts = append(alts, c06Alt{o: t, priQ: 1, class: "miss-row",
					want: map[string]kit.Want{key: {Val: t.Val, TTL: s.rule(0, "row")}}})
			} else {
				alts = append(alts, c06Alt{o: t, priQ: 1, class: "miss-not-found",
					want: map[string]kit.Want{key: {Placeholder: true, TTL: s.nfRule()}}})
			}
		}
	}
	return alts
}

func (s *c06S) indexAlts(x int64, dbFail bool) []c06Alt {
	ikey := s.ik[x]
	var alts []c06Alt
	for _, e := range s.states(ikey) {
		switch {
		case e.Present && e.Placeholder:
			alts = append(alts, c06Alt{o: kit.Outcome{NotFound: true}, class: "index-hit-not-found-marker", want: map[string]kit.Want{ikey: {Keep: true}}})
		case e.Present:
			id, _ := strconv.ParseInt(strings.TrimPrefix(e.Val, "->p"), 10, 64)
			for _, a := range s.primaryAlts(id, dbFail) {
				a.class = "index-hit/primary-" + a.class
				a.want[ikey] = kit.Want{Keep: true}
				alts = append(alts, a)
			}
		case dbFail:
			alts = append(alts, c06Alt{dbErr: true, idxQ: 1, class: "index-miss-db-error", want: map[string]kit.Want{ikey: {Absent: true}}})
		default:
			r, ok := s.byIdx(x)
			if !ok {
				alts = append(alts, c06Alt{o: kit.Outcome{NotFound: true}, idxQ: 1, class: "index-miss-not-found",
					want: map[string]kit.Want{ikey: {Placeholder: true, TTL: s.nfRule()}}})
				break
			}
			alts = append(alts, c06Alt{o: kit.Outcome{OK: true, Val: r.String()}, idxQ: 1, class: "index-miss-row", filledIndex: true,
				want: map[string]kit.Want{
					ikey:       {Val: c06Ref(r.ID), TTL: s.rule(0, "index entry")},
					s.pk[r.ID]: {Val: r.String(), TTL: s.rule(5, "primary entry written by an index read (expiry + 5 s gap)")},
				}})
		}
	}
	return alts
}

// judge compares what a read returned with the allowed executions and settles the store.
func (s *c06S) judge(name string, err error, out c06Rec, dIdx, dPri int, tr []kit.Cmd, outage bool, alts []c06Alt, touched []string) {
	w := s.w
	if c06Failed(tr, outage, kit.KGet) {
		// "a failing cache store (other than a miss) is reported without querying the database"
		w.St.Class("read:cache-get-failed")
		if err == nil || errors.Is(err, s.errNF) || errors.Is(err, c06ErrDB) {
			w.Fail("%s: a cache GET failed, but the call returned %s instead of reporting the store failure", name, s.res(err, out))
		}
		if dIdx+dPri != 0 {
			w.Fail("%s: a cache GET failed and the database was queried (%d index, %d primary statements); a failing cache store is reported without querying the database", name, dIdx, dPri)
		}
		keep := map[string]kit.Want{}
		for _, k := range touched {
			keep[k] = kit.Want{Keep: true}
		}
		w.Settle(keep)
		return
	}
	writeFailed := kit.WriteFailed(tr, outage)
	var chosen *c06Alt
	for i := range alts {
		a := &alts[i]
		if a.idxQ != dIdx || a.priQ != dPri {
			continue
		}
		switch {
		case err == nil:
			if a.o.OK && a.o.Val == out.String() {
				chosen = a
			}
		case errors.Is(err, s.errNF):
			if a.o.NotFound {
				chosen = a
			}
		case errors.Is(err, c06ErrDB):
			if a.dbErr {
				chosen = a
			}
		case kit.IsStoreErr(err) && writeFailed && a.filledIndex:
			// an index read writes the primary entry inside its query step: when that write fails,
			// the failure is reported instead of the row (a plain read returns the row regardless)
			chosen = a
		}
	}
	if chosen == nil {
		var want []string
		for _, a := range alts {
			want = append(want, a.String())
		}
		w.Fail("%s returned %s with %d index + %d primary queries; the statement allows: %s", name, s.res(err, out), dIdx, dPri, strings.Join(want, " | "))
	}
	if writeFailed {
		w.St.Class("read:cache-write-failed")
		// the answer is unaffected (checked above); what the interrupted write left behind may be
		// nothing or the entry, but never an entry with a TTL outside the rule
		loose := map[string]kit.Want{}
		for _, k := range touched {
			loose[k] = kit.Want{Loose: true}
		}
		for k, cw := range chosen.want {
			switch {
			case cw.Placeholder:
				loose[k] = kit.Want{Loose: true, MarkerTTL: cw.TTL}
			case cw.Val != "":
				loose[k] = kit.Want{Loose: true, TTL: cw.TTL}
			default:
				loose[k] = kit.Want{Loose: true}
			}
		}
		w.Settle(loose)
		return
	}
	w.St.Class("read:" + chosen.class)
	if chosen.filledIndex {
		s.indexFills++
	}
	w.Settle(chosen.want)
	if chosen.filledIndex && !w.Dead {
		// "primary entry outlives index entry"
		var ik, pk string
		for k := range chosen.want {
			if _, ok := s.isIndexKey(k); ok {
				ik = k
			} else {
				pk = k
			}
		}
		ei, ep := w.Cached(ik), w.Cached(pk)
		if ei.Present && ep.Present && !w.Dirty[ik] && !w.Dirty[pk] && ep.ExpAt <= ei.ExpAt {
			w.Fail("%s: the primary entry (until t=%d) does not outlive the index entry (until t=%d)", name, ep.ExpAt, ei.ExpAt)
		}
		delete(w.Foreign, pk)
	}
}

func (s *c06S) queryRow(id int64, ctx, dbFail bool, fault string) {
	w := s.w
	key := s.pk[id]
	w.Coherent(key)
	alts := s.primaryAlts(id, dbFail)
	var out c06Rec
	q0, i0 := s.db.byID, s.db.byIdx
	s.db.fail = dbFail
	s.arm(fault, key)
	var err error
	name := "QueryRow"
	if ctx {
		name = "QueryRowCtx"
		err = s.cc.QueryRowCtx(context.Background(), &out, key, func(ctx context.Context, conn sqlx.SqlConn, v any) error {
			s.sameConn(conn)
			return conn.QueryRowCtx(ctx, v, "byid", id)
		})
	} else {
		err = s.cc.QueryRow(&out, key, func(conn sqlx.SqlConn, v any) error {
			s.sameConn(conn)
			return conn.QueryRow(v, "byid", id)
		})
	}
	tr := s.disarm(name, err)
	s.db.fail = false
	dPri, dIdx := s.db.byID-q0, s.db.byIdx-i0
	fmt.Fprintf(&w.Log, " %s(p%d%s%s)=%s/q%d", name, id, c06Flag(dbFail, ",dbfail"), c06Fault(fault), s.res(err, out), dPri)
	s.noteFault(tr, fault == "outage")
	s.w.NoteNth(fault, tr)
	s.judge(fmt.Sprintf("%s(p%d)", name, id), err, out, dIdx, dPri, tr, fault == "outage", alts, []string{key})
	s.afterRead(key)
}

func (s *c06S) sameConn(conn sqlx.SqlConn) {
	if c, ok := conn.(*c06Conn); !ok || c != s.conn {
		s.w.Fail("the query function was handed a connection that is not the CachedConn's database")
	}
}

func (s *c06S) keyer(primary any) string {
	id := s.unext(primary)
	if id < 0 {
		return s.w.Prefix + "p?" + fmt.Sprint(primary)
	}
	return s.pk[id]
}

func (s *c06S) queryIndex(x int64, ctx, dbFail bool, fault string, faultKey string) {
	w := s.w
	ikey := s.ik[x]
	w.Coherent(ikey)
	alts := s.indexAlts(x, dbFail)
	touched := []string{ikey}
	for _, a := range alts {
		for k := range a.want {
			if k != ikey {
				touched = append(touched, k)
			}
		}
	}
	var out c06Rec
	q0, i0 := s.db.byID, s.db.byIdx
	s.db.fail = dbFail
	s.arm(fault, faultKey)
	var err error
	name := "QueryRowIndex"
	if ctx {
		name = "QueryRowIndexCtx"
		err = s.cc.QueryRowIndexCtx(context.Background(), &out, ikey, s.keyer,
			func(ctx context.Context, conn sqlx.SqlConn, v any) (any, error) {
				s.sameConn(conn)
				if err := conn.QueryRowCtx(ctx, v, "byidx", x); err != nil {
					return nil, err
				}
				return s.ext(v.(*c06Rec).ID), nil
			},
			func(ctx context.Context, conn sqlx.SqlConn, v, primary any) error {
				s.sameConn(conn)
				return conn.QueryRowCtx(ctx, v, "byid", s.unext(primary))
			})
	} else {
		err = s.cc.QueryRowIndex(&out, ikey, s.keyer,
			func(conn sqlx.SqlConn, v any) (any, error) {
				s.sameConn(conn)
				if err := conn.QueryRow(v, "byidx", x); err != nil {
					return nil, err
				}
				return s.ext(v.(*c06Rec).ID), nil
			},
			func(conn sqlx.SqlConn, v, primary any) error {
				s.sameConn(conn)
				return conn.QueryRow(v, "byid", s.unext(primary))
			})
	}
	tr := s.disarm(name, err)
	s.db.fail = false
	dPri, dIdx := s.db.byID-q0, s.db.byIdx-i0
	fk := ""
	if fault != "none" && fault != "outage" {
		fk = "@" + strings.TrimPrefix(faultKey, w.Prefix)
	}
	fmt.Fprintf(&w.Log, " %s(i%d%s%s%s)=%s/q%d+%d", name, x, c06Flag(dbFail, ",dbfail"), c06Fault(fault), fk, s.res(err, out), dIdx, dPri)
	s.noteFault(tr, fault == "outage")
	s.w.NoteNth(fault, tr)
	s.judge(fmt.Sprintf("%s(i%d)", name, x), err, out, dIdx, dPri, tr, fault == "outage", alts, touched)
	s.afterRead(touched...)
}

// exec writes through CachedConn.Exec with every cache key the write affects.
// racing: a cached read of that primary key runs inside the statement, before the
// database applies the write (see the rule in check.json).
func (s *c06S) exec(id int64, del bool, idx int64, nm string, ctx, dbFail bool, fault string, order []int, racing bool) {
	w := s.w
	old, had := s.db.rows[id]
	keys := []string{s.pk[id]}
	if had && old.Idx >= 0 {
		keys = append(keys, s.ik[old.Idx])
	}
	if !del && idx >= 0 && !(had && old.Idx == idx) {
		keys = append(keys, s.ik[idx])
	}
	// the order in which the keys are handed over is arbitrary
	var shuffled []string
	for _, p := range order {
		if p < len(keys) {
			shuffled = append(shuffled, keys[p])
		}
	}
	keys = shuffled
	var fkey string
	if fault != "none" {
		fkey = keys[order[0]%len(keys)]
		racing = false // (a racing read is only combined with a healthy store)
	}
	stmt := func(conn sqlx.SqlConn) (sql.Result, error) {
		s.sameConn(conn)
		if del {
			return conn.Exec("delete", id)
		}
		return conn.Exec("upsert", id, idx, nm)
	}
	if racing {
		s.db.before = func() {
			s.db.before = nil
			// a reader that completes before the database applies the write
			var r c06Rec
			s.cc.QueryRow(&r, s.pk[id], func(conn sqlx.SqlConn, v any) error { return conn.QueryRow(v, "byid", id) })
		}
	}
	e0 := s.db.execs
	s.db.fail = dbFail
	s.arm(fault, fkey)
	var res sql.Result
	var err error
	name := "Exec"
	if ctx {
		name = "ExecCtx"
		res, err = s.cc.ExecCtx(context.Background(), func(_ context.Context, conn sqlx.SqlConn) (sql.Result, error) { return stmt(conn) }, keys...)
	} else {
		res, err = s.cc.Exec(stmt, keys...)
	}
	tr := s.disarm(name, err)
	s.db.fail, s.db.before = false, nil
	outage := fault == "outage"
	what := fmt.Sprintf("p%d:=idx%d,%q", id, idx, nm)
	if del {
		what = fmt.Sprintf("delete p%d", id)
	}
	var short []string
	for _, k := range keys {
		short = append(short, strings.TrimPrefix(k, w.Prefix))
	}
	fmt.Fprintf(&w.Log, " %s(%s;keys=%s%s%s%s)=%s", name, what, strings.Join(short, ","), c06Flag(dbFail, ",dbfail"), c06Flag(racing, ",racing-read"), c06Fault(fault), c06ExecRes(s, res, err))
	s.noteFault(tr, outage)
	s.w.NoteNth(fault, tr)
	if s.db.execs-e0 != 1 {
		w.Fail("%s ran the statement %d times", name, s.db.execs-e0)
	}
	_, has := s.db.rows[id]
	applied := (del && had && !has) || (!del && has && s.db.rows[id].Ver != old.Ver)
	dbRefused := dbFail || (!del && !applied)
	if dbRefused {
		// "database errors are returned"; nothing was written, nothing needs invalidating
		w.St.Class("exec:db-error")
		if !errors.Is(err, c06ErrDB) && !errors.Is(err, c06ErrDup) {
			w.Fail("%s: the database refused the statement but the call returned %s", name, s.res(err, c06Rec{}))
		}
		// (invalidating although nothing was written would be harmless: the keys may vanish)
		if c06Failed(tr, outage, kit.KDel) {
			w.MarkFailedInvalidations(tr, outage, keys)
		}
		want := map[string]kit.Want{}
		for _, k := range keys {
			want[k] = kit.Want{MayVanish: true}
		}
		if racing {
			want[s.pk[id]] = kit.Want{Loose: true}
		}
		w.Settle(want)
		return
	}
	failed := c06Failed(tr, outage, kit.KDel)
	if !failed && (err != nil || res == nil) {
		w.Fail("%s on a healthy store and database returned (%v, %v)", name, res, err)
	}
	if failed {
		n := w.MarkFailedInvalidations(tr, outage, keys)
		w.St.ClassN("exec:failed-invalidation-keys-now-possibly-stale", n)
	} else {
		w.St.Class("exec:ok")
	}
	if racing {
		s.racing++
		w.St.Class("exec:with-racing-read")
		if sv := w.Env.Lookup(w.Nodes, s.pk[id]); sv.Present && !failed && !w.Dirty[s.pk[id]] {
			w.Fail("%s(%s): a cached read of p%d that completed before the database applied the write left %q in the cache after %s returned: the invalidation missed it (it ran before the write instead of after it - 'ExecCtx: run DB write, then delete keys' - or not where the key is stored), so the old state stays cached for a whole expiry",
				name, what, id, sv.Raw, name)
		}
	}
	want := map[string]kit.Want{}
	for _, k := range keys {
		want[k] = kit.Want{Absent: true}
	}
	w.Settle(want)
	for _, k := range keys {
		if s.phase[k] == 1 {
			s.phase[k] = 2
		}
	}
}

func (s *c06S) setCache(id int64, v c06Rec, api int, e time.Duration, fault string) {
	w := s.w
	key := s.pk[id]
	s.arm(fault, key)
	var err error
	var name string
	rule := s.rule(0, "SetCache")
	switch api {
	case 0:
		name, err = "SetCache", s.cc.SetCache(key, v)
	case 1:
		name, err = "SetCacheCtx", s.cc.SetCacheCtx(context.Background(), key, v)
	case 2:
		name, err = "SetCacheWithExpire", s.cc.SetCacheWithExpire(key, v, e)
		rule = kit.Jittered(e, true, 0, name)
	default:
		name, err = "SetCacheWithExpireCtx", s.cc.SetCacheWithExpireCtx(context.Background(), key, v, e)
		rule = kit.Jittered(e, true, 0, name)
	}
	tr := s.disarm(name, err)
	arg := ""
	if api >= 2 {
		arg = "," + e.String()
	}
	fmt.Fprintf(&w.Log, " %s(p%d,%s%s%s)=%v", name, id, v, arg, c06Fault(fault), err)
	outage := fault == "outage"
	s.noteFault(tr, outage)
	s.w.NoteNth(fault, tr)
	if kit.WriteFailed(tr, outage) {
		w.St.Class("set:cache-write-failed")
		if err == nil {
			w.Fail("%s(p%d): the cache write failed but the call reported success", name, id)
		}
		if kit.Saw(tr, kit.KSet) && len(tr) == 1 {
			w.Settle(map[string]kit.Want{key: {Keep: true}})
			return
		}
		// the write consists of several commands and was interrupted: old or new entry, lawful TTL
		if w.FromTruth(key) != (kit.Outcome{OK: true, Val: v.String()}) {
			w.Foreign[key] = true
		}
		w.Settle(map[string]kit.Want{key: {Loose: true, TTL: rule, MarkerTTL: rule}})
		return
	}
	if err != nil {
		w.Fail("%s(p%d) on a healthy store returned %v", name, id, err)
	}
	w.St.Class("set:ok")
	foreign := w.FromTruth(key) != kit.Outcome{OK: true, Val: v.String()}
	if foreign {
		w.Foreign[key] = true
		w.St.Class("set:behind-the-database's-back")
	}
	w.Settle(map[string]kit.Want{key: {Val: v.String(), TTL: rule}})
	if !foreign {
		delete(w.Foreign, key)
	}
}

func (s *c06S) delCache(ids []int64, ctx bool, fault string) {
	w := s.w
	var keys, short []string
	for _, id := range ids {
		keys = append(keys, s.pk[id])
		short = append(short, fmt.Sprintf("p%d", id))
	}
	s.arm(fault, keys[0])
	var err error
	name := "DelCache"
	if ctx {
		name, err = "DelCacheCtx", s.cc.DelCacheCtx(context.Background(), keys...)
	} else {
		err = s.cc.DelCache(keys...)
	}
	tr := s.disarm(name, err)
	fmt.Fprintf(&w.Log, " %s(%s%s)=%v", name, strings.Join(short, ","), c06Fault(fault), err)
	outage := fault == "outage"
	s.noteFault(tr, outage)
	s.w.NoteNth(fault, tr)
	failed := c06Failed(tr, outage, kit.KDel)
	if !failed && err != nil {
		w.Fail("%s on a healthy store returned %v", name, err)
	}
	if failed {
		w.St.ClassN("del:failed-keys-now-possibly-stale", w.MarkFailedInvalidations(tr, outage, keys))
	}
	want := map[string]kit.Want{}
	for _, k := range keys {
		want[k] = kit.Want{Absent: true}
	}
	w.Settle(want)
	w.St.Class("del:explicit")
}

func (s *c06S) getCache(id int64, ctx bool, fault string) {
	w := s.w
	key := s.pk[id]
	w.Coherent(key)
	pre, dirty := w.Cached(key), w.Dirty[key]
	var out c06Rec
	s.arm(fault, key)
	var err error
	name := "GetCache"
	if ctx {
		name, err = "GetCacheCtx", s.cc.GetCacheCtx(context.Background(), key, &out)
	} else {
		err = s.cc.GetCache(key, &out)
	}
	tr := s.disarm(name, err)
	fmt.Fprintf(&w.Log, " %s(p%d%s)=%s", name, id, c06Fault(fault), s.res(err, out))
	outage := fault == "outage"
	s.noteFault(tr, outage)
	s.w.NoteNth(fault, tr)
	if c06Failed(tr, outage, kit.KGet) {
		w.St.Class("get:cache-get-failed")
		if err == nil || errors.Is(err, s.errNF) {
			w.Fail("%s(p%d): the cache GET failed, but the call returned %s instead of reporting the store failure", name, id, s.res(err, out))
		}
		w.Settle(map[string]kit.Want{key: {Keep: true}})
		return
	}
	okHit := pre.Present && !pre.Placeholder && err == nil && out.String() == pre.Val
	okNF := (!pre.Present || pre.Placeholder) && errors.Is(err, s.errNF)
	if dirty {
		okNF = errors.Is(err, s.errNF)
	}
	if !okHit && !okNF {
		w.Fail("%s(p%d) returned %s; cached: %s", name, id, s.res(err, out), pre)
	}
	w.St.Class("get:" + map[bool]string{true: "value", false: "not-found"}[okHit])
	w.Settle(map[string]kit.Want{key: {Keep: true}})
}

func c06ExecRes(s *c06S, res sql.Result, err error) string {
	if err == nil && res != nil {
		n, _ := res.RowsAffected()
		return fmt.Sprintf("ok(%d)", n)
	}
	if err == nil {
		return "nil-result"
	}
	return s.res(err, c06Rec{})
}

// c06DrawFault: most operations run on a healthy store (1 in every+1 is hit by a fault).
func c06DrawFault(t *rapid.T, every int, kinds ...string) string {
	if rapid.IntRange(0, every).Draw(t, "faulty") != 0 {
		return "none"
	}
	// by name (one chosen command of the call), or by position: the k-th command the call
	// issues, whatever it is - alone ("nth") or with everything after it ("nth+")
	switch rapid.IntRange(0, 3).Draw(t, "faultBy") {
	case 0:
		return fmt.Sprintf("nth:%d", rapid.SampledFrom([]int{1, 1, 2, 2, 2, 2, 3, 3, 3, 4}).Draw(t, "k"))
	case 1:
		return fmt.Sprintf("nth+:%d", rapid.SampledFrom([]int{1, 1, 2, 2, 2, 2, 3, 3, 3, 4}).Draw(t, "k"))
	}
	return rapid.SampledFrom(kinds).Draw(t, "fault")
}

func TestVerifC06SqlcMachine(t *testing.T) {
	st := verifkit.New("sqlc-machine")
	defer st.Flush()
	rapid.Check(t, func(t *rapid.T) {
		st.Eval()
		s := c06NewS(t, st, "s")
		s.pkBase = rapid.SampledFrom(c06PkBases).Draw(t, "pkBase")
		w := s.w
		st.Class("ctor:" + []string{"NewNodeConn", "NewConn", "NewConnWithCache"}[s.conf.ctor])
		st.Class(fmt.Sprintf("nodes:%d", len(s.conf.nodes)))
		id := rapid.Int64Range(0, c06IDs-1)
		ix := rapid.Int64Range(0, c06Idxs-1)
		actions := map[string]func(*rapid.T){
			"queryRow": func(t *rapid.T) {
				s.queryRow(id.Draw(t, "id"), rapid.Bool().Draw(t, "ctx"), rapid.IntRange(0, 7).Draw(t, "dbFail") == 0,
					c06DrawFault(t, 6, kit.KGet, kit.KSet, kit.KSetNX, "outage"))
			},
			"queryIndex": func(t *rapid.T) {
				x := ix.Draw(t, "idx")
				fault := c06DrawFault(t, 5, kit.KGet, kit.KGet, kit.KSet, kit.KSet, kit.KSetNX, "outage")
				fkey := s.ik[x]
				if rapid.Bool().Draw(t, "faultOnPrimary") {
					if r, ok := s.byIdx(x); ok {
						fkey = s.pk[r.ID]
					} else if e := w.Cached(s.ik[x]); e.Present && !e.Placeholder {
						if id, err := strconv.ParseInt(strings.TrimPrefix(e.Val, "->p"), 10, 64); err == nil {
							fkey = s.keyer(s.ext(id))
						}
					}
				}
				s.queryIndex(x, rapid.Bool().Draw(t, "ctx"), rapid.IntRange(0, 7).Draw(t, "dbFail") == 0, fault, fkey)
			},
			"indexThenPrimary": func(t *rapid.T) { // an index read, then the same row by primary key: served from the cache
				x := ix.Draw(t, "idx")
				s.queryIndex(x, false, false, "none", "")
				if r, ok := s.byIdx(x); ok {
					s.queryRow(r.ID, false, rapid.Bool().Draw(t, "dbFail"), "none")
				}
				s.queryIndex(x, true, rapid.Bool().Draw(t, "dbFail"), "none", "")
			},
			"exec": func(t *rapid.T) {
				i := id.Draw(t, "id")
				del := rapid.IntRange(0, 3).Draw(t, "delete") == 0
				s.exec(i, del, rapid.Int64Range(-1, c06Idxs-1).Draw(t, "newIdx"), rapid.SampledFrom([]string{"a", "b", "c"}).Draw(t, "name"),
					rapid.Bool().Draw(t, "ctx"), rapid.IntRange(0, 7).Draw(t, "dbFail") == 0,
					c06DrawFault(t, 12, kit.KDel, kit.KDel, "outage"),
					rapid.Permutation([]int{0, 1, 2}).Draw(t, "keyOrder"),
					rapid.IntRange(0, 4).Draw(t, "racingRead") == 0)
			},
			"setCache": func(t *rapid.T) {
				i := id.Draw(t, "id")
				v, ok := s.db.rows[i]
				if !ok || rapid.Bool().Draw(t, "arbitrary") {
					v = c06Rec{ID: i, Idx: -1, Name: "set", Ver: 1000 + rapid.Int64Range(0, 2).Draw(t, "v")}
				}
				s.setCache(i, v, rapid.IntRange(0, 3).Draw(t, "api"), rapid.SampledFrom(c06SetExpires).Draw(t, "expire"), c06DrawFault(t, 6, kit.KSet, "outage"))
			},
			"delCache": func(t *rapid.T) {
				perm := rapid.Permutation([]int64{0, 1, 2, 3}).Draw(t, "ids")
				s.delCache(perm[:rapid.IntRange(1, 3).Draw(t, "n")], rapid.Bool().Draw(t, "ctx"), c06DrawFault(t, 12, kit.KDel, "outage"))
			},
			"getCache": func(t *rapid.T) {
				s.getCache(id.Draw(t, "id"), rapid.Bool().Draw(t, "ctx"), c06DrawFault(t, 6, kit.KGet, "outage"))
			},
			"forward": func(t *rapid.T) {
				var ms int64
				switch rapid.IntRange(0, 2).Draw(t, "mode") {
				case 0:
					ms = rapid.Int64Range(1, 5000).Draw(t, "ms")
				case 1:
					var live []int64
					for _, k := range w.Keys {
						if e := w.Cached(k); e.Present {
							live = append(live, e.ExpAt-w.Now)
						}
					}
					if len(live) == 0 {
						ms = 1000
						break
					}
					sort.Slice(live, func(i, j int) bool { return live[i] < live[j] })
					ms = rapid.SampledFrom(live).Draw(t, "remaining") + rapid.SampledFrom([]int64{-1000, -1, 0, 1, 1000}).Draw(t, "delta")
				default:
					e := rapid.SampledFrom([]time.Duration{s.conf.exp, s.conf.nfExp, time.Minute}).Draw(t, "of")
					lo, hi := kit.Envelope(e)
					ms = rapid.Int64Range(lo, hi+6).Draw(t, "s")*1000 + rapid.SampledFrom([]int64{-1, 0, 1}).Draw(t, "delta")
				}
				w.Forward(ms)
			},
		}
		for name, f := range actions {
			f := f
			actions[name] = func(t *rapid.T) { w.F = t; w.Guard(func() { f(t) }) }
		}
		t.Repeat(actions)
		w.F = t
		w.Guard(func() { // final sweep on a healthy store
			for x := int64(0); x < c06Idxs; x++ {
				s.queryIndex(x, false, false, "none", "")
			}
			for i := int64(0); i < c06IDs; i++ {
				s.queryRow(i, false, false, "none")
			}
		})
		if w.Dead {
			return
		}
		rwr := false
		for _, p := range s.phase {
			if p == 3 {
				rwr = true
			}
		}
		if rwr {
			st.Class("case:read-write-read-on-one-key")
		}
		if s.faultBetween {
			st.Class("case:fault-between-two-reads")
		}
		if s.indexFills > 0 {
			st.Class("case:with-index-fill")
		}
		if len(w.Dirty) > 0 {
			st.Class("case:with-failed-invalidation")
		}
		if rwr || s.faultBetween {
			st.NonTrivial(w.Log.String())
		}
	})
}

// ------------------------------------------------------------------ concurrent readers

// G goroutines read one uncached key through one or two CachedConns that share the key
// (the package keeps one SingleFlight for all conns), by primary key or by index key.  The
// fake database holds every statement at a gate until the other readers have joined the
// running flight (observed, see kit.ParkedInFlight) and records how many statements ran at a
// time.  A fault plan places a cache-store failure before, during or right after the query.
func TestVerifC06SqlcConcurrent(t *testing.T) {
	st := verifkit.New("sqlc-concurrent")
	defer st.Flush()
	rapid.Check(t, func(t *rapid.T) {
		st.Eval()
		s := c06NewS(t, st, "d")
		s.pkBase = rapid.SampledFrom(c06PkBases).Draw(t, "pkBase")
		if s.pkBase > 0 {
			st.Class("primary-keys>=10^6")
		}
		w := s.w
		env := w.Env
		g := rapid.IntRange(2, 16).Draw(t, "G")
		byIndex := rapid.Bool().Draw(t, "byIndex")
		twoConns := s.conf.ctor != 2 && rapid.Bool().Draw(t, "twoConns")
		rowExists := rapid.Bool().Draw(t, "row")
		dbMode := rapid.SampledFrom([]string{"ok", "ok", "ok", "error-always", "error-first"}).Draw(t, "db")
		pre := rapid.SampledFrom([]string{"never-cached", "invalidated", "expired"}).Draw(t, "pre")
		plan := rapid.SampledFrom(kit.Plans).Draw(t, "faultPlan")
		// index reads write two entries: which write-back does the plan fail?
		wbTarget := rapid.SampledFrom([]string{"index-entry", "primary-entry", "both"}).Draw(t, "writeBackTarget")
		const id, x = int64(1), int64(0)
		// exactly row 1 may carry index value 0
		for i := int64(0); i < c06IDs; i++ {
			s.conn.Exec("delete", i)
		}
		if rowExists {
			s.conn.Exec("upsert", id, x, "r")
		}
		fmt.Fprintf(&w.Log, " G=%d byIndex=%v twoConns=%v row=%v pre=%s db=%s plan=%s", g, byIndex, twoConns, rowExists, pre, dbMode, plan)
		if byIndex && plan == kit.PlanWriteBack {
			fmt.Fprintf(&w.Log, "(%s)", wbTarget)
		}
		w.Log.WriteString(":")
		st.Class("pre:" + pre)
		st.Class("db:" + dbMode)
		st.Class("plan:" + plan)
		st.Class(fmt.Sprintf("byIndex:%v", byIndex))
		key := s.pk[id]
		if byIndex {
			key = s.ik[x]
		}
		w.F = t
		w.Guard(func() {
			fill := func() {
				if byIndex {
					s.queryIndex(x, false, false, "none", "")
				} else {
					s.queryRow(id, false, false, "none")
				}
			}
			switch pre {
			case "invalidated":
				fill()
				// a write of the same row through Exec (new version), which invalidates all its keys
				if rowExists {
					s.exec(id, false, x, "r2", false, false, "none", []int{0, 1, 2}, false)
				} else {
					s.cc.DelCache(s.pk[id], s.ik[x])
					env.Hook.Take()
					w.Settle(map[string]kit.Want{s.pk[id]: {Absent: true}, s.ik[x]: {Absent: true}})
				}
			case "expired":
				fill()
				var last int64
				for _, k := range w.Keys {
					if e := w.Cached(k); e.Present && e.ExpAt > last {
						last = e.ExpAt
					}
				}
				w.Forward(last - w.Now + rapid.Int64Range(0, 2000).Draw(t, "past"))
			}
			for _, k := range w.Keys {
				if w.Cached(k).Present {
					w.Fail("harness: key %s still cached before the concurrent round", k)
				}
			}
			// keep the per-address breaker closed: up to G commands may be failed in this round
			if plan != kit.PlanNone && !env.Pad(w.Nodes, 12*g+15) {
				w.Abort("padding PING failed")
			}
		})
		if w.Dead {
			return
		}
		conns := []sqlc.CachedConn{s.cc}
		if twoConns {
			cc2, _ := c06Build(env, s.conf, s.conn)
			conns = append(conns, cc2)
		}
		d := s.db
		d.gate, d.results, d.errFirst, d.fail = make(chan struct{}), map[int64]c06QRes{}, dbMode == "error-first", dbMode == "error-always"
		d.afterGate = func(stamp int64) {
			if plan == kit.PlanOutageDuring && stamp == 1 {
				env.Outage(true) // the store goes down while the statement runs, and stays down
			}
		}
		if plan == kit.PlanOutageBefore {
			env.Outage(true)
		}
		d.mu.Lock()
		id0, ix0 := d.byID, d.byIdx
		d.mu.Unlock()
		outs := make([]c06Rec, g)
		errs := make([]error, g)
		var started atomic.Int64
		var wg sync.WaitGroup
		for i := 0; i < g; i++ {
			wg.Add(1)
			go func(i int) {
				defer wg.Done()
				cc := conns[i%len(conns)]
				started.Add(1)
				if byIndex {
					errs[i] = cc.QueryRowIndex(&outs[i], key, s.keyer,
						func(conn sqlx.SqlConn, v any) (any, error) {
							if err := conn.QueryRow(v, "byidx", x); err != nil {
								return nil, err
							}
							return s.ext(v.(*c06Rec).ID), nil
						},
						func(conn sqlx.SqlConn, v, primary any) error {
							return conn.QueryRow(v, "byid", s.unext(primary))
						})
				} else {
					errs[i] = cc.QueryRow(&outs[i], key, func(conn sqlx.SqlConn, v any) error { return conn.QueryRow(v, "byid", id) })
				}
			}(i)
		}
		strong := false
		pkWriteFailed := false // the plan fails the write-back of the primary entry of an index read
		if plan != kit.PlanOutageBefore {
			strong = kit.AwaitReaders(g, started.Load, d.stamps.Load, d.maxIn.Load)
			switch plan {
			case kit.PlanWriteBack:
				targets := []string{key}
				if byIndex {
					switch wbTarget {
					case "primary-entry":
						targets = []string{s.pk[id]}
					case "both":
						targets = []string{key, s.pk[id]}
					}
					pkWriteFailed = wbTarget != "index-entry"
				}
				for _, k := range targets {
					env.Hook.Arm(kit.KSet, k, -1)
					env.Hook.Arm(kit.KSetNX, k, -1)
				}
			case kit.PlanOutageDuring:
				pkWriteFailed = byIndex
			case kit.PlanWaiterGet: // the leader's GET is over: from now on every GET of the key fails
				env.Hook.Arm(kit.KGet, key, -1)
			}
		}
		close(d.gate)
		done := make(chan struct{})
		go func() { wg.Wait(); close(done) }()
		select {
		case <-done:
		case <-time.After(60 * time.Second):
			env.Outage(false)
			env.Hook.Disarm()
			st.Class("inconclusive:readers-did-not-return")
			st.Note("inconclusive: concurrent readers did not return within 60 s; %s", w.Log.String())
			return
		}
		env.Outage(false)
		env.Hook.Disarm()
		tr := env.Hook.Take()
		d.afterGate = nil
		for _, e := range errs {
			w.Guard(func() { w.CheckInfra("concurrent read", e) })
		}
		if w.Dead {
			return
		}
		d.mu.Lock()
		nID, nIdx := d.byID-id0, d.byIdx-ix0
		results := d.results
		d.mu.Unlock()
		nq := nID + nIdx
		nGet, nSetFailed, nNXFailed, nGetFailed := 0, 0, 0, 0
		down := plan == kit.PlanOutageBefore
		for _, c := range tr {
			switch c.Kind {
			case kit.KGet:
				nGet++
				if c.Injected || down || (plan == kit.PlanOutageDuring && nGet > 1) {
					nGetFailed++
				}
			case kit.KSet:
				if c.Injected || plan == kit.PlanOutageDuring {
					nSetFailed++
				}
			case kit.KSetNX:
				if c.Injected || plan == kit.PlanOutageDuring {
					nNXFailed++
				}
			}
		}
		st.ClassN("fault:write-back-SET-failed", nSetFailed)
		st.ClassN("fault:marker-SETNX-failed", nNXFailed)
		st.ClassN("fault:GET-failed", nGetFailed)
		fmt.Fprintf(&w.Log, " statements=%d+%d maxInFlight=%d allJoined=%v failed(set=%d,setnx=%d,get=%d)", nIdx, nID, d.maxIn.Load(), strong, nSetFailed, nNXFailed, nGetFailed)
		if mx := d.maxIn.Load(); mx > 1 {
			w.Fail("concurrent reads of one uncached key ran %d database queries at the same time (at most one at a time)", mx)
		}
		got := map[string]int{}
		for i := 0; i < g; i++ {
			got[s.res(errs[i], outs[i])]++
		}
		fmt.Fprintf(&w.Log, " got=%v", got)
		same := func(i int, r c06QRes) bool {
			switch {
			case errs[i] == nil:
				return r.err == nil && outs[i] == r.rec
			case errors.Is(errs[i], s.errNF):
				return errors.Is(r.err, s.errNF)
			case errors.Is(errs[i], c06ErrDB):
				return errors.Is(r.err, c06ErrDB)
			}
			return false
		}
		describe := func(r c06QRes) string {
			if r.err != nil {
				return s.res(r.err, c06Rec{})
			}
			return r.rec.String()
		}
		switch {
		case plan == kit.PlanOutageBefore:
			// "a failing cache store (other than a miss) is reported without querying the database"
			st.Class("mode:store-down-before")
			if nq != 0 {
				w.Fail("the cache store was down before the readers started, yet %d database statements ran (a failing cache store is reported without querying the database)", nq)
			}
			for i := 0; i < g; i++ {
				if errs[i] == nil || errors.Is(errs[i], s.errNF) || errors.Is(errs[i], c06ErrDB) {
					w.Fail("the cache store was down before the readers started, reader %d returned %s instead of reporting the store failure", i, s.res(errs[i], outs[i]))
				}
			}
		case strong:
			st.Class("mode:all-readers-joined-the-flight")
			if plan != kit.PlanNone {
				st.Class("mode:all-joined+" + plan)
			}
			q1 := results[1]
			// An index read writes the primary entry inside its query step; when that write-back
			// fails the failure is reported (to all readers alike) instead of the row.
			lenient := byIndex && pkWriteFailed && q1.err == nil
			if lenient {
				st.Class("mode:index-read-with-failed-primary-write-back")
			}
			if !lenient && nq != 1 {
				w.Fail("all %d readers had joined the flight of the first query, yet %d index + %d primary statements ran", g, nIdx, nID)
			}
			for i := 0; i < g; i++ {
				if same(i, q1) || (lenient && kit.IsStoreErr(errs[i])) {
					continue
				}
				w.Fail("reader %d of %d returned %s; it overlapped the one database query, which returned %s, and must receive that query's result whatever happens to the cache store (plan %s; readers got %v)",
					i, g, s.res(errs[i], outs[i]), describe(q1), plan, got)
			}
		default:
			st.Class("mode:some-readers-late")
			for i := 0; i < g; i++ {
				ok := false
				for _, r := range results {
					ok = ok || same(i, r)
				}
				if !ok && kit.IsStoreErr(errs[i]) && (nGetFailed > 0 || (byIndex && pkWriteFailed)) {
					ok = true // a late reader whose own GET met the fault, or the reported primary write-back
				}
				if !ok {
					w.Fail("reader %d of %d received %s, which is not the result of any of the %d statements that ran (%v)",
						i, g, s.res(errs[i], outs[i]), len(results), results)
				}
			}
		}
		st.Class(fmt.Sprintf("statements:%d", min(nq, 3)))
		for _, k := range w.Keys {
			sv := env.Lookup(w.Nodes, k)
			switch {
			case !sv.Present:
				if dbMode == "ok" && plan == kit.PlanNone && k == key {
					w.Fail("load suppression: after %d readers and %d statements nothing is cached under %s (healthy store)", g, nq, k)
				}
			case dbMode == "error-always" || plan == kit.PlanOutageBefore:
				w.Fail("the store holds %s=%q after a round in which no statement succeeded (database errors are never cached)", k, sv.Raw)
			case sv.TTL <= 0:
				w.Fail("TTL clause: key %s is stored without a TTL, value %q", k, sv.Raw)
			case sv.Raw == kit.Placeholder:
				if rowExists {
					w.Fail("the not-found marker is cached under %s although the row exists", k)
				}
			case k == s.pk[id]:
				var r c06Rec
				json.Unmarshal([]byte(sv.Raw), &r)
				if rr, ok := results[r.Stamp]; !ok || rr.err != nil || rr.rec != r {
					w.Fail("the cache holds %s=%q, which is not the result of any statement of the round (%v)", k, sv.Raw, results)
				}
			case k == s.ik[x]:
				if v, err := s.decode(k, sv.Raw); err != nil || v != c06Ref(id) {
					w.Fail("the cache holds %s=%q, expected a reference to p%d", k, sv.Raw, id)
				}
			default:
				w.Fail("the round left key %s=%q in the cache, which no reader asked for", k, sv.Raw)
			}
		}
		if strong || (nq < g && plan != kit.PlanOutageBefore) {
			st.Class("case:readers-shared-a-query")
			st.NonTrivial(fmt.Sprintf("G=%d byIndex=%v twoConns=%v row=%v pre=%s db=%s ctor=%d nodes=%d plan=%s/%s strong=%v", g, byIndex, twoConns, rowExists, pre, dbMode, s.conf.ctor, len(s.conf.nodes), plan, wbTarget, strong))
		}
	})
}
