//go:build verif

package cache_test

// C06 — cache-aside store, part 1: cache.Cache (single node and 2-3 node cluster) in front
// of a harness-owned fake database (a map and closures that count queries).
//
// Redis is miniredis; time is miniredis.FastForward only.  Cache-store failures are
// injected by a go-redis hook (the armed command is not sent) and by miniredis.SetError
// (the server answers every command with an error).  After every operation the result,
// the number of database queries and the content + TTL of every key in the store are
// compared with a model written from the property statement (internal/verifc06).

import (
	"context"
	"encoding/json"
	"errors"
	"fmt"
	"sort"
	"strings"
	"sync"
	"sync/atomic"
	"testing"
	"time"

	"github.com/zeromicro/go-zero/core/proc"
	"github.com/zeromicro/go-zero/core/stores/cache"
	"github.com/zeromicro/go-zero/core/stores/redis"
	"github.com/zeromicro/go-zero/core/syncx"
	kit "github.com/zeromicro/go-zero/internal/verifc06"
	"github.com/zeromicro/go-zero/internal/verifkit"
	"pgregory.net/rapid"
)

type c06Row struct {
	ID    int64  `json:"id"`
	Name  string `json:"name"`
	Ver   int64  `json:"ver"`
	Stamp int64  `json:"stamp,omitempty"` // concurrent unit: which query produced the row
}

func (r c06Row) String() string {
	if r.Stamp != 0 {
		return fmt.Sprintf("{id=%d %q v%d q%d}", r.ID, r.Name, r.Ver, r.Stamp)
	}
	return fmt.Sprintf("{id=%d %q v%d}", r.ID, r.Name, r.Ver)
}

func c06Decode(_, raw string) (string, error) {
	var r c06Row
	if err := json.Unmarshal([]byte(raw), &r); err != nil {
		return "", err
	}
	return r.String(), nil
}

var (
	c06ErrDB   = errors.New("c06: injected database error")
	c06NotFnd  = []error{errors.New("c06: no such row (A)"), errors.New("c06: no such row (B)")}
	c06Stat    *cache.Stat
	c06StatOne sync.Once

	c06Expiries   = []time.Duration{0, 10 * time.Millisecond, time.Second, 1500 * time.Millisecond, 7 * time.Second, 20 * time.Second, 100 * time.Second, time.Hour, 7 * 24 * time.Hour}
	c06NfExpiries = []time.Duration{0, 500 * time.Millisecond, time.Second, 3 * time.Second, 10 * time.Second, time.Minute}
	c06SetExpires = []time.Duration{time.Millisecond, 999 * time.Millisecond, time.Second, 1001 * time.Millisecond, 2500 * time.Millisecond, 19 * time.Second, 30 * time.Second, time.Hour}
)

func c06GetStat() *cache.Stat {
	c06StatOne.Do(func() { c06Stat = cache.NewStat("c06") }) // NewStat starts a goroutine: one per process
	return c06Stat
}

// c06Conf is the drawn configuration of one cache.
type c06Conf struct {
	nodes       []int // env servers used; len 1 = single node
	viaClusterC bool  // single node built through cache.New(ClusterConf of one)
	clusterType bool  // single node on a redis client of Type "cluster" (multi-key deletes go key by key)
	exp, nfExp  time.Duration
	nf          int
}

func (c c06Conf) String() string {
	return fmt.Sprintf("nodes=%v viaConf=%v clusterType=%v expiry=%v notFoundExpiry=%v", c.nodes, c.viaClusterC, c.clusterType, c.exp, c.nfExp)
}

func c06DrawConf(t *rapid.T) c06Conf {
	var c c06Conf
	switch rapid.IntRange(0, 3).Draw(t, "topology") {
	case 0:
		c.nodes = []int{rapid.IntRange(0, kit.Nodes-1).Draw(t, "node")}
		c.clusterType = rapid.Bool().Draw(t, "clusterType")
	case 1:
		c.nodes = []int{rapid.IntRange(0, kit.Nodes-1).Draw(t, "node")}
		c.viaClusterC = true
	case 2:
		skip := rapid.IntRange(0, kit.Nodes-1).Draw(t, "without")
		for i := 0; i < kit.Nodes; i++ {
			if i != skip {
				c.nodes = append(c.nodes, i)
			}
		}
	default:
		c.nodes = []int{0, 1, 2}
	}
	c.exp = rapid.SampledFrom(c06Expiries).Draw(t, "expiry")
	c.nfExp = rapid.SampledFrom(c06NfExpiries).Draw(t, "notFoundExpiry")
	c.nf = rapid.IntRange(0, 1).Draw(t, "notFoundError")
	return c
}

func c06Build(env *kit.Env, c c06Conf, barrier syncx.SingleFlight) cache.Cache {
	var opts []cache.Option
	if c.exp > 0 {
		opts = append(opts, cache.WithExpiry(c.exp))
	}
	if c.nfExp > 0 {
		opts = append(opts, cache.WithNotFoundExpiry(c.nfExp))
	}
	if len(c.nodes) == 1 && !c.viaClusterC {
		rds := env.Rds[c.nodes[0]]
		if c.clusterType {
			rds = env.RdsC[c.nodes[0]]
		}
		return cache.NewNode(rds, barrier, c06GetStat(), c06NotFnd[c.nf], opts...)
	}
	var conf cache.ClusterConf
	for _, n := range c.nodes {
		conf = append(conf, cache.NodeConf{
			RedisConf: redis.RedisConf{Host: env.MR[n].Addr(), Type: redis.NodeType, NonBlock: true},
			Weight:    100,
		})
	}
	return cache.New(conf, barrier, c06GetStat(), c06NotFnd[c.nf], opts...)
}

// c06M is one case of the state machine.
type c06M struct {
	w       *kit.World
	c       cache.Cache
	conf    c06Conf
	errNF   error
	db      map[int]c06Row
	ver     int64
	queries int
	keys    []string
	// bookkeeping for the non-trivial rule (not used by the oracle)
	phase         []int // per key: 0 nothing, 1 read, 2 read+write-with-invalidation, 3 ...+read
	reads         int
	faultAfterRd  bool
	faultBetween  bool
	invalidations int
}

const c06Keys = 4

func c06New(t *rapid.T, st *verifkit.Stats, tag string) *c06M {
	env := kit.GetEnv(t)
	conf := c06DrawConf(t)
	m := &c06M{conf: conf, errNF: c06NotFnd[conf.nf], db: map[int]c06Row{}, phase: make([]int, c06Keys)}
	m.w = kit.NewWorld(env, t, st, tag, conf.nodes)
	for i := 0; i < c06Keys; i++ {
		m.keys = append(m.keys, fmt.Sprintf("%sk%d", m.w.Prefix, i))
	}
	m.w.Keys = m.keys
	m.w.Decode = c06Decode
	m.w.Truth = func(key string) (string, bool) {
		for i, k := range m.keys {
			if k == key {
				r, ok := m.db[i]
				return r.String(), ok
			}
		}
		return "", false
	}
	m.c = c06Build(env, conf, syncx.NewSingleFlight())
	fmt.Fprintf(&m.w.Log, " [%s]", conf)
	// some rows exist from the start
	for i := 0; i < c06Keys; i++ {
		if rapid.Bool().Draw(t, "rowExists") {
			m.ver++
			m.db[i] = c06Row{ID: int64(i), Name: "init", Ver: m.ver}
		}
	}
	return m
}

func (m *c06M) rule(what string) kit.TTLRule {
	return kit.Jittered(m.conf.exp, m.conf.exp > 0, 0, what)
}

func (m *c06M) nfRule() kit.TTLRule {
	return kit.Jittered(m.conf.nfExp, m.conf.nfExp > 0, 0, "not-found marker")
}

// arm installs the drawn fault for one operation on key (after padding the breaker).
func (m *c06M) arm(fault, key string) {
	if !m.w.ArmFault(fault, key) {
		m.w.Abort("padding PING failed")
	}
}

// disarm ends the fault and returns the trace of the operation.
func (m *c06M) disarm(op string, err error) []kit.Cmd {
	m.w.Env.Outage(false)
	m.w.Env.Hook.Disarm()
	tr := m.w.Env.Hook.Take()
	m.w.CheckInfra(op, err)
	return tr
}

// failed reports whether a command of the kind was failed during the operation.
func c06Failed(tr []kit.Cmd, outage bool, kind string) bool {
	if outage {
		return kit.Saw(tr, kind)
	}
	return kit.InjectedKind(tr, kind)
}

func (m *c06M) noteFault(n int) {
	if n == 0 {
		return
	}
	m.w.Faults += n
	m.w.St.ClassN("fault:consumed", n)
	if m.reads > 0 {
		m.faultAfterRd = true
	}
}

const (
	apiTake = iota
	apiTakeCtx
	apiTakeWithExpire
	apiTakeWithExpireCtx
)

// read is a cached read of key ki (Take family).
func (m *c06M) read(ki, api int, dbFail bool, fault string) {
	w := m.w
	key := m.keys[ki]
	w.Coherent(key)
	pre, dirty := w.Cached(key), w.Dirty[key]
	q0 := m.queries
	var out c06Row
	var gotExpire time.Duration
	query := func(v any) error {
		m.queries++
		if dbFail {
			return c06ErrDB
		}
		r, ok := m.db[ki]
		if !ok {
			return m.errNF
		}
		*(v.(*c06Row)) = r
		return nil
	}
	queryX := func(v any, expire time.Duration) error {
		gotExpire = expire
		return query(v)
	}
	m.arm(fault, key)
	var err error
	var name string
	switch api {
	case apiTake:
		name, err = "Take", m.c.Take(&out, key, query)
	case apiTakeCtx:
		name, err = "TakeCtx", m.c.TakeCtx(context.Background(), &out, key, query)
	case apiTakeWithExpire:
		name, err = "TakeWithExpire", m.c.TakeWithExpire(&out, key, queryX)
	default:
		name, err = "TakeWithExpireCtx", m.c.TakeWithExpireCtx(context.Background(), &out, key, queryX)
	}
	tr := m.disarm(name, err)
	dq := m.queries - q0
	fmt.Fprintf(&w.Log, " %s(k%d%s%s)=%s/q%d", name, ki, c06Flag(dbFail, ",dbfail"), c06Fault(fault), c06Res(err, out, m.errNF), dq)

	outage := fault == "outage"
	m.noteFault(kit.Injected(tr))
	m.w.NoteNth(fault, tr)
	if outage && len(tr) > 0 {
		m.noteFault(1)
	}
	withExpire := api == apiTakeWithExpire || api == apiTakeWithExpireCtx

	if c06Failed(tr, outage, kit.KGet) {
		// "a failing cache store (other than a miss) is reported without querying the database"
		w.St.Class("read:cache-get-failed")
		if err == nil || errors.Is(err, m.errNF) || errors.Is(err, c06ErrDB) {
			w.Fail("%s(k%d): the cache GET failed, but the call returned %s instead of reporting the store failure", name, ki, c06Res(err, out, m.errNF))
		}
		if dq != 0 {
			w.Fail("%s(k%d): the cache GET failed and the database was queried %d time(s) (a failing cache store is reported without querying the database)", name, ki, dq)
		}
		w.Settle(map[string]kit.Want{key: {Keep: true}})
		m.afterRead(ki)
		return
	}

	// acceptable outcomes
	type alt struct {
		o     kit.Outcome
		dbErr bool
		dq    int
		hit   bool
	}
	var alts []alt
	miss := alt{o: w.FromTruth(key), dq: 1}
	if dbFail {
		miss = alt{dbErr: true, dq: 1}
	}
	switch {
	case dirty:
		if pre.Present {
			alts = append(alts, alt{o: kit.FromEntry(pre), hit: true})
		}
		alts = append(alts, miss)
	case pre.Present:
		alts = append(alts, alt{o: kit.FromEntry(pre), hit: true})
	default:
		alts = append(alts, miss)
	}
	writeFailed := kit.WriteFailed(tr, outage)

	var chosen *alt
	switch {
	case err == nil:
		for i := range alts {
			if alts[i].o.OK && alts[i].o.Val == out.String() && alts[i].dq == dq {
				chosen = &alts[i]
			}
		}
	case errors.Is(err, m.errNF):
		for i := range alts {
			if alts[i].o.NotFound && alts[i].dq == dq {
				chosen = &alts[i]
			}
		}
	case errors.Is(err, c06ErrDB):
		for i := range alts {
			if alts[i].dbErr && alts[i].dq == dq {
				chosen = &alts[i]
			}
		}
	}
	if chosen == nil {
		var want []string
		for _, a := range alts {
			s := a.o.String()
			if a.dbErr {
				s = "the database error"
			}
			if a.hit {
				s += " from the cache"
			} else {
				s += " from the database"
			}
			want = append(want, fmt.Sprintf("%s with %d database queries", s, a.dq))
		}
		w.Fail("%s(k%d) returned %s with %d database queries; the statement allows: %s  [cached before: %s; database: %s; dbfail=%v]",
			name, ki, c06Res(err, out, m.errNF), dq, strings.Join(want, " | "), pre, w.FromTruth(key), dbFail)
	}

	want := kit.Want{}
	switch {
	case writeFailed:
		// the answer is unaffected (checked above); what the interrupted write left behind may be
		// nothing or the entry, but never an entry with a TTL outside the rule
		w.St.Class("read:cache-write-failed")
		want = kit.Want{Loose: true, TTL: m.rule("row"), MarkerTTL: m.nfRule()}
		if withExpire && gotExpire > 0 {
			want.TTL = kit.Exact(kit.CeilSeconds(gotExpire), fmt.Sprintf("the query was told expire=%v, rounded up", gotExpire))
		}
	case chosen.hit:
		if chosen.o.NotFound {
			w.St.Class("read:hit-not-found-marker")
		} else {
			w.St.Class("read:hit-value")
		}
		want.Keep = true
	case chosen.dbErr:
		w.St.Class("read:miss-db-error")
		want.Absent = true // "database errors are returned and never cached"
	case chosen.o.NotFound:
		w.St.Class("read:miss-not-found")
		want.Placeholder, want.TTL = true, m.nfRule()
	default:
		w.St.Class("read:miss-row")
		want.Val, want.TTL = chosen.o.Val, m.rule("row")
		if withExpire {
			if m.conf.exp > 0 {
				lo, hi := m.conf.exp*95/100, m.conf.exp*105/100
				if gotExpire < lo-time.Microsecond || gotExpire > hi+time.Microsecond {
					w.Fail("%s(k%d): the query was told expire=%v, outside expiry %v +/-5%%", name, ki, gotExpire, m.conf.exp)
				}
			}
			if gotExpire > 0 {
				want.TTL = kit.Exact(kit.CeilSeconds(gotExpire), fmt.Sprintf("the query was told expire=%v, rounded up", gotExpire))
			}
		}
	}
	w.Settle(map[string]kit.Want{key: want})
	m.afterRead(ki)
}

func (m *c06M) afterRead(ki int) {
	m.reads++
	if m.faultAfterRd {
		m.faultBetween = true
	}
	switch m.phase[ki] {
	case 0:
		m.phase[ki] = 1
	case 2:
		m.phase[ki] = 3
	}
}

// get is cache.Get: it never loads, it shows what is cached.
func (m *c06M) get(ki int, ctx bool, fault string) {
	w := m.w
	key := m.keys[ki]
	w.Coherent(key)
	pre, dirty := w.Cached(key), w.Dirty[key]
	var out c06Row
	m.arm(fault, key)
	var err error
	name := "Get"
	if ctx {
		name, err = "GetCtx", m.c.GetCtx(context.Background(), key, &out)
	} else {
		err = m.c.Get(key, &out)
	}
	tr := m.disarm(name, err)
	fmt.Fprintf(&w.Log, " %s(k%d%s)=%s", name, ki, c06Fault(fault), c06Res(err, out, m.errNF))
	outage := fault == "outage"
	m.noteFault(kit.Injected(tr))
	m.w.NoteNth(fault, tr)
	if outage && len(tr) > 0 {
		m.noteFault(1)
	}
	if c06Failed(tr, outage, kit.KGet) {
		w.St.Class("get:cache-get-failed")
		if err == nil || errors.Is(err, m.errNF) {
			w.Fail("%s(k%d): the cache GET failed, but the call returned %s instead of reporting the store failure", name, ki, c06Res(err, out, m.errNF))
		}
		w.Settle(map[string]kit.Want{key: {Keep: true}})
		return
	}
	okHit := pre.Present && !pre.Placeholder && err == nil && out.String() == pre.Val
	okNF := (!pre.Present || pre.Placeholder) && errors.Is(err, m.errNF)
	if dirty { // the retried invalidation may have removed the entry meanwhile
		okNF = errors.Is(err, m.errNF)
	}
	if !okHit && !okNF {
		w.Fail("%s(k%d) returned %s; cached: %s", name, ki, c06Res(err, out, m.errNF), pre)
	}
	if okHit {
		w.St.Class("get:value")
	} else {
		w.St.Class("get:not-found")
	}
	if !m.c.IsNotFound(m.errNF) || m.c.IsNotFound(c06ErrDB) {
		w.Fail("IsNotFound does not recognise exactly the configured not-found error")
	}
	w.Settle(map[string]kit.Want{key: {Keep: true}})
}

// invalidate changes the database rows of kis (when change != nil) and then deletes the keys
// from the cache — what sqlc.CachedConn.Exec does with its keys.
func (m *c06M) invalidate(kis []int, change func(ki int) string, ctx bool, fault string, faultKey int) {
	w := m.w
	var keys, descr []string
	for _, ki := range kis {
		keys = append(keys, m.keys[ki])
		d := fmt.Sprintf("k%d", ki)
		if change != nil {
			d += change(ki)
		}
		descr = append(descr, d)
	}
	m.arm(fault, m.keys[faultKey])
	var err error
	name := "Del"
	if ctx {
		name, err = "DelCtx", m.c.DelCtx(context.Background(), keys...)
	} else {
		err = m.c.Del(keys...)
	}
	tr := m.disarm(name, err)
	op := name
	if change != nil {
		op = "write+" + name
	}
	fmt.Fprintf(&w.Log, " %s(%s%s)=%v", op, strings.Join(descr, ","), c06Fault(fault), err)
	outage := fault == "outage"
	m.noteFault(kit.Injected(tr))
	m.w.NoteNth(fault, tr)
	if outage && len(tr) > 0 {
		m.noteFault(1)
	}
	failed := c06Failed(tr, outage, kit.KDel)
	if !failed && err != nil {
		w.Fail("%s(%s) on a healthy store returned %v", name, strings.Join(descr, ","), err)
	}
	if failed {
		n := w.MarkFailedInvalidations(tr, outage, keys)
		w.St.ClassN("invalidate:failed-keys-now-possibly-stale", n)
	}
	want := map[string]kit.Want{}
	for _, k := range keys {
		want[k] = kit.Want{Absent: true} // keys marked possibly-stale are loosened by Settle
	}
	w.Settle(want)
	m.invalidations++
	if change != nil {
		w.St.Class("invalidate:write")
		for _, ki := range kis {
			if m.phase[ki] == 1 {
				m.phase[ki] = 2
			}
		}
	} else {
		w.St.Class("invalidate:explicit-del")
	}
}

// set is an explicit Set / SetWithExpire.
func (m *c06M) set(ki int, v c06Row, api int, e time.Duration, fault string) {
	w := m.w
	key := m.keys[ki]
	m.arm(fault, key)
	var err error
	var name string
	rule := m.rule("Set")
	switch api {
	case 0:
		name, err = "Set", m.c.Set(key, v)
	case 1:
		name, err = "SetCtx", m.c.SetCtx(context.Background(), key, v)
	case 2:
		name, err = "SetWithExpire", m.c.SetWithExpire(key, v, e)
		rule = kit.Jittered(e, true, 0, "SetWithExpire")
	default:
		name, err = "SetWithExpireCtx", m.c.SetWithExpireCtx(context.Background(), key, v, e)
		rule = kit.Jittered(e, true, 0, "SetWithExpireCtx")
	}
	tr := m.disarm(name, err)
	arg := ""
	if api >= 2 {
		arg = "," + e.String()
	}
	fmt.Fprintf(&w.Log, " %s(k%d,%s%s%s)=%v", name, ki, v, arg, c06Fault(fault), err)
	outage := fault == "outage"
	m.noteFault(kit.Injected(tr))
	m.w.NoteNth(fault, tr)
	if outage && len(tr) > 0 {
		m.noteFault(1)
	}
	if kit.WriteFailed(tr, outage) {
		w.St.Class("set:cache-write-failed")
		if err == nil {
			w.Fail("%s(k%d): the cache write failed but the call reported success", name, ki)
		}
		if kit.Saw(tr, kit.KSet) && len(tr) == 1 {
			// the one write command did not happen: whatever was there stays
			w.Settle(map[string]kit.Want{key: {Keep: true}})
			return
		}
		// the write consists of several commands and was interrupted: old or new entry, lawful TTL
		if w.FromTruth(key) != (kit.Outcome{OK: true, Val: v.String()}) {
			w.Foreign[key] = true
		}
		w.Settle(map[string]kit.Want{key: {Loose: true, TTL: rule, MarkerTTL: rule}})
		return
	}
	if err != nil {
		w.Fail("%s(k%d) on a healthy store returned %v", name, ki, err)
	}
	w.St.Class("set:ok")
	foreign := w.FromTruth(key) != kit.Outcome{OK: true, Val: v.String()}
	if foreign {
		w.Foreign[key] = true // before Settle: the entry is exempt from the coherence clause
		w.St.Class("set:behind-the-database's-back")
	}
	w.Settle(map[string]kit.Want{key: {Val: v.String(), TTL: rule}})
	if !foreign {
		delete(w.Foreign, key)
	}
}

func c06Flag(b bool, s string) string {
	if b {
		return s
	}
	return ""
}

func c06Fault(f string) string {
	if f == "none" {
		return ""
	}
	return ",fault:" + f
}

func c06Res(err error, out c06Row, nf error) string {
	switch {
	case err == nil:
		return out.String()
	case errors.Is(err, nf):
		return "not-found"
	case errors.Is(err, c06ErrDB):
		return "db-error"
	case kit.IsStoreErr(err):
		return "store-error"
	}
	return "error(" + err.Error() + ")"
}

// c06DrawFault: most operations run on a healthy store (1 in every+1 is hit by a fault).
func c06DrawFault(t *rapid.T, every int, kinds ...string) string {
	if rapid.IntRange(0, every).Draw(t, "faulty") != 0 {
		return "none"
	}
	// by name (one chosen command of the call), or by position: the k-th command the call
	// issues, whatever it is - alone ("nth") or with everything after it ("nth+")
	switch rapid.IntRange(0, 3).Draw(t, "faultBy") {
	case 0:
		return fmt.Sprintf("nth:%d", rapid.SampledFrom([]int{1, 1, 2, 2, 2, 2, 3, 3, 3, 4}).Draw(t, "k"))
	case 1:
		return fmt.Sprintf("nth+:%d", rapid.SampledFrom([]int{1, 1, 2, 2, 2, 2, 3, 3, 3, 4}).Draw(t, "k"))
	}
	return rapid.SampledFrom(kinds).Draw(t, "fault")
}

func TestVerifC06CacheMachine(t *testing.T) {
	st := verifkit.New("cache-machine")
	defer st.Flush()
	rapid.Check(t, func(t *rapid.T) {
		st.Eval()
		m := c06New(t, st, "m")
		w := m.w
		if len(m.conf.nodes) == 1 {
			st.Class("topology:node")
		} else {
			st.Class(fmt.Sprintf("topology:cluster-%d", len(m.conf.nodes)))
		}
		key := rapid.IntRange(0, c06Keys-1)
		actions := map[string]func(*rapid.T){
			"read": func(t *rapid.T) {
				m.read(key.Draw(t, "key"), rapid.IntRange(0, 3).Draw(t, "api"),
					rapid.IntRange(0, 7).Draw(t, "dbFail") == 0,
					c06DrawFault(t, 5, kit.KGet, kit.KSet, kit.KSetNX, "outage"))
			},
			"readAgain": func(t *rapid.T) { // a second read of a key that was just read: must be served from the cache
				k := key.Draw(t, "key")
				m.read(k, rapid.IntRange(0, 3).Draw(t, "api"), false, "none")
				m.read(k, rapid.IntRange(0, 3).Draw(t, "api"), rapid.Bool().Draw(t, "dbFail"), "none")
			},
			"get": func(t *rapid.T) {
				m.get(key.Draw(t, "key"), rapid.Bool().Draw(t, "ctx"), c06DrawFault(t, 6, kit.KGet, "outage"))
			},
			"write": func(t *rapid.T) {
				n := rapid.IntRange(1, 3).Draw(t, "nkeys")
				kis := c06Distinct(t, n)
				names := map[int]string{}
				del := map[int]bool{}
				for _, ki := range kis {
					del[ki] = rapid.IntRange(0, 3).Draw(t, "deleteRow") == 0
					names[ki] = rapid.SampledFrom([]string{"a", "b", "c"}).Draw(t, "name")
				}
				fault := c06DrawFault(t, 12, kit.KDel, kit.KDel, "outage")
				fk := kis[rapid.IntRange(0, len(kis)-1).Draw(t, "faultKey")]
				m.invalidate(kis, func(ki int) string {
					if del[ki] {
						delete(m.db, ki)
						return ":=none"
					}
					m.ver++
					m.db[ki] = c06Row{ID: int64(ki), Name: names[ki], Ver: m.ver}
					return ":=" + m.db[ki].String()
				}, rapid.Bool().Draw(t, "ctx"), fault, fk)
			},
			"del": func(t *rapid.T) {
				kis := c06Distinct(t, rapid.IntRange(1, 3).Draw(t, "nkeys"))
				m.invalidate(kis, nil, rapid.Bool().Draw(t, "ctx"), c06DrawFault(t, 12, kit.KDel, "outage"), kis[0])
			},
			"set": func(t *rapid.T) {
				ki := key.Draw(t, "key")
				v, ok := m.db[ki]
				if !ok || rapid.Bool().Draw(t, "arbitrary") {
					v = c06Row{ID: int64(ki), Name: "set", Ver: 1000 + rapid.Int64Range(0, 2).Draw(t, "v")}
				}
				m.set(ki, v, rapid.IntRange(0, 3).Draw(t, "api"), rapid.SampledFrom(c06SetExpires).Draw(t, "expire"),
					c06DrawFault(t, 6, kit.KSet, "outage"))
			},
			"forward": func(t *rapid.T) {
				var ms int64
				switch rapid.IntRange(0, 2).Draw(t, "mode") {
				case 0:
					ms = rapid.Int64Range(1, 5000).Draw(t, "ms")
				case 1: // around the end of an entry's life
					var live []int64
					for _, k := range m.keys {
						if e := w.Cached(k); e.Present {
							live = append(live, e.ExpAt-w.Now)
						}
					}
					if len(live) == 0 {
						ms = 1000
						break
					}
					sort.Slice(live, func(i, j int) bool { return live[i] < live[j] })
					ms = rapid.SampledFrom(live).Draw(t, "remaining") + rapid.SampledFrom([]int64{-1000, -1, 0, 1, 1000}).Draw(t, "delta")
				default: // around a configured expiry
					e := rapid.SampledFrom([]time.Duration{m.conf.exp, m.conf.nfExp, time.Minute}).Draw(t, "of")
					lo, hi := kit.Envelope(e)
					ms = rapid.Int64Range(lo, hi+1).Draw(t, "s")*1000 + rapid.SampledFrom([]int64{-1, 0, 1}).Draw(t, "delta")
				}
				w.Forward(ms)
			},
		}
		for name, f := range actions {
			f := f
			actions[name] = func(t *rapid.T) { w.F = t; w.Guard(func() { f(t) }) }
		}
		t.Repeat(actions)
		// final sweep: every key once more, on a healthy store
		w.F = t
		w.Guard(func() {
			for ki := range m.keys {
				m.read(ki, apiTake, false, "none")
				m.get(ki, false, "none")
			}
		})
		if w.Dead {
			return
		}
		rwr := false
		for _, p := range m.phase {
			if p == 3 {
				rwr = true
			}
		}
		if rwr {
			st.Class("case:read-write-read-on-one-key")
		}
		if m.faultBetween {
			st.Class("case:fault-between-two-reads")
		}
		if len(w.Dirty) > 0 {
			st.Class("case:with-failed-invalidation")
		}
		if rwr || m.faultBetween {
			st.NonTrivial(w.Log.String())
		}
	})
}

func c06Distinct(t *rapid.T, n int) []int {
	perm := rapid.Permutation([]int{0, 1, 2, 3}).Draw(t, "keys")
	return perm[:n]
}

// ------------------------------------------------------------------ concurrent readers

// G goroutines read one uncached key at once.  The fake database holds every query at a
// gate until the other readers have joined the query's flight (observed, see
// kit.ParkedInFlight), so on correct code all readers pile up behind one query; a gauge
// inside the query closure records how many queries ran at a time.  A fault plan places a
// cache-store failure before, during or right after that query.  Nothing is asserted about
// timing: which assertions apply depends on what was observed (strong mode: every reader was
// seen parked in the flight of query 1), never on how long something took.
func TestVerifC06CacheConcurrent(t *testing.T) {
	st := verifkit.New("cache-concurrent")
	defer st.Flush()
	rapid.Check(t, func(t *rapid.T) {
		st.Eval()
		m := c06New(t, st, "c")
		w := m.w
		env := w.Env
		g := rapid.IntRange(2, 16).Draw(t, "G")
		ki := 0
		key := m.keys[ki]
		rowExists := rapid.Bool().Draw(t, "row")
		if rowExists {
			m.ver++
			m.db[ki] = c06Row{ID: 0, Name: "r", Ver: m.ver}
		} else {
			delete(m.db, ki)
		}
		pre := rapid.SampledFrom([]string{"never-cached", "invalidated", "expired"}).Draw(t, "pre")
		dbMode := rapid.SampledFrom([]string{"ok", "ok", "ok", "error-always", "error-first"}).Draw(t, "db")
		withExpire := rapid.Bool().Draw(t, "withExpire")
		plan := rapid.SampledFrom(kit.Plans).Draw(t, "faultPlan")
		fmt.Fprintf(&w.Log, " G=%d row=%v pre=%s db=%s withExpire=%v plan=%s:", g, rowExists, pre, dbMode, withExpire, plan)
		st.Class("pre:" + pre)
		st.Class("db:" + dbMode)
		st.Class("plan:" + plan)
		w.Guard(func() {
			switch pre {
			case "invalidated":
				m.read(ki, apiTake, false, "none")
				m.invalidate([]int{ki}, nil, false, "none", ki)
			case "expired":
				m.read(ki, apiTake, false, "none")
				w.Forward(w.Cached(key).ExpAt - w.Now + rapid.Int64Range(0, 2000).Draw(t, "past"))
			}
			if w.Cached(key).Present {
				w.Fail("harness: key still cached before the concurrent round")
			}
			// keep the per-address breaker closed: up to G commands may be failed in this round
			if plan != kit.PlanNone && !env.Pad(w.Nodes, 12*g+15) {
				w.Abort("padding PING failed")
			}
		})
		if w.Dead {
			return
		}

		var inflight, maxInflight, nq atomic.Int64
		gate := make(chan struct{})
		type qres struct {
			row   c06Row
			err   error
			stamp int64
		}
		var qmu sync.Mutex
		results := map[int64]qres{}
		query := func(v any) error {
			n := inflight.Add(1)
			for {
				mx := maxInflight.Load()
				if n <= mx || maxInflight.CompareAndSwap(mx, n) {
					break
				}
			}
			stamp := nq.Add(1)
			<-gate
			if plan == kit.PlanOutageDuring && stamp == 1 {
				env.Outage(true) // the store goes down while the query runs, and stays down
			}
			var res qres
			res.stamp = stamp
			switch {
			case dbMode == "error-always" || (dbMode == "error-first" && stamp == 1):
				res.err = c06ErrDB
			case !rowExists:
				res.err = m.errNF
			default:
				res.row = m.db[ki]
				res.row.Stamp = stamp
				*(v.(*c06Row)) = res.row
			}
			qmu.Lock()
			results[stamp] = res
			qmu.Unlock()
			inflight.Add(-1)
			return res.err
		}
		if plan == kit.PlanOutageBefore {
			env.Outage(true)
		}
		outs := make([]c06Row, g)
		errs := make([]error, g)
		var started atomic.Int64
		var wg sync.WaitGroup
		for i := 0; i < g; i++ {
			wg.Add(1)
			go func(i int) {
				defer wg.Done()
				started.Add(1)
				if withExpire {
					errs[i] = m.c.TakeWithExpire(&outs[i], key, func(v any, _ time.Duration) error { return query(v) })
				} else {
					errs[i] = m.c.Take(&outs[i], key, query)
				}
			}(i)
		}
		strong := false
		if plan != kit.PlanOutageBefore {
			strong = kit.AwaitReaders(g, started.Load, nq.Load, maxInflight.Load)
			switch plan {
			case kit.PlanWriteBack:
				env.Hook.Arm(kit.KSet, key, -1)
				env.Hook.Arm(kit.KSetNX, key, -1)
			case kit.PlanWaiterGet: // the leader's GET is over: from now on every GET of the key fails
				env.Hook.Arm(kit.KGet, key, -1)
			}
		}
		close(gate)
		done := make(chan struct{})
		go func() { wg.Wait(); close(done) }()
		select {
		case <-done:
		case <-time.After(60 * time.Second):
			env.Outage(false)
			env.Hook.Disarm()
			st.Class("inconclusive:readers-did-not-return")
			st.Note("inconclusive: concurrent readers did not return within 60 s; %s", w.Log.String())
			return
		}
		env.Outage(false)
		env.Hook.Disarm()
		tr := env.Hook.Take()
		for _, e := range errs {
			w.Guard(func() { w.CheckInfra("concurrent Take", e) })
		}
		if w.Dead {
			return
		}
		nGet, nSetFailed, nNXFailed, nGetFailed := 0, 0, 0, 0
		down := plan == kit.PlanOutageBefore
		for _, c := range tr {
			switch c.Kind {
			case kit.KGet:
				nGet++
				// during-query outage: the leader's GET (the first) preceded the outage, all later ones met it
				if c.Injected || down || (plan == kit.PlanOutageDuring && nGet > 1) {
					nGetFailed++
				}
			case kit.KSet:
				if c.Injected || plan == kit.PlanOutageDuring {
					nSetFailed++
				}
			case kit.KSetNX:
				if c.Injected || plan == kit.PlanOutageDuring {
					nNXFailed++
				}
			}
		}
		st.ClassN("fault:write-back-SET-failed", nSetFailed)
		st.ClassN("fault:marker-SETNX-failed", nNXFailed)
		st.ClassN("fault:GET-failed", nGetFailed)
		fmt.Fprintf(&w.Log, " queries=%d maxInFlight=%d allJoined=%v failed(set=%d,setnx=%d,get=%d)", nq.Load(), maxInflight.Load(), strong, nSetFailed, nNXFailed, nGetFailed)
		if mx := maxInflight.Load(); mx > 1 {
			w.Fail("concurrent reads of one uncached key ran %d database queries at the same time (at most one at a time)", mx)
		}
		got := map[string]int{}
		for i := 0; i < g; i++ {
			got[c06Res(errs[i], outs[i], m.errNF)]++
		}
		fmt.Fprintf(&w.Log, " got=%v", got)
		same := func(i int, r qres) bool {
			switch {
			case errs[i] == nil:
				return r.err == nil && outs[i] == r.row
			case errors.Is(errs[i], m.errNF):
				return errors.Is(r.err, m.errNF)
			case errors.Is(errs[i], c06ErrDB):
				return errors.Is(r.err, c06ErrDB)
			}
			return false
		}
		describe := func(r qres) string {
			if r.err != nil {
				return c06Res(r.err, c06Row{}, m.errNF)
			}
			return r.row.String()
		}
		switch {
		case plan == kit.PlanOutageBefore:
			// "a failing cache store (other than a miss) is reported without querying the database"
			st.Class("mode:store-down-before")
			if nq.Load() != 0 {
				w.Fail("the cache store was down before the readers started, yet %d database queries ran (a failing cache store is reported without querying the database)", nq.Load())
			}
			for i := 0; i < g; i++ {
				if errs[i] == nil || errors.Is(errs[i], m.errNF) || errors.Is(errs[i], c06ErrDB) {
					w.Fail("the cache store was down before the readers started, reader %d returned %s instead of reporting the store failure", i, c06Res(errs[i], outs[i], m.errNF))
				}
			}
		case strong:
			// every reader was seen inside the flight of query 1 while that query was held
			st.Class("mode:all-readers-joined-the-flight")
			if plan != kit.PlanNone {
				st.Class("mode:all-joined+" + plan)
			}
			if nq.Load() != 1 {
				w.Fail("all %d readers had joined the flight of the first query, yet %d database queries ran", g, nq.Load())
			}
			q1 := results[1]
			for i := 0; i < g; i++ {
				if !same(i, q1) {
					w.Fail("reader %d of %d returned %s; it overlapped the one database query, which returned %s, and must receive that query's result whatever happens to the cache store (plan %s; readers got %v)",
						i, g, c06Res(errs[i], outs[i], m.errNF), describe(q1), plan, got)
				}
			}
		default:
			// not every reader was seen joining: a late reader starts its own read (and may meet the fault)
			st.Class("mode:some-readers-late")
			for i := 0; i < g; i++ {
				ok := false
				for _, r := range results {
					ok = ok || same(i, r)
				}
				if !ok && kit.IsStoreErr(errs[i]) && nGetFailed > 0 {
					ok = true // a late reader whose own GET met the fault
				}
				if !ok {
					w.Fail("reader %d of %d received %s, which is not the result of any of the %d queries that ran (%v)",
						i, g, c06Res(errs[i], outs[i], m.errNF), len(results), results)
				}
			}
		}
		st.Class(fmt.Sprintf("queries:%d", min(int(nq.Load()), 3)))
		// what the round left in the cache is the result of one of its queries, with a lawful
		// TTL; nothing after database errors only; on a healthy store something
		s := env.Lookup(w.Nodes, key)
		switch {
		case !s.Present:
			if dbMode == "ok" && plan == kit.PlanNone {
				w.Fail("load suppression: after %d readers and %d queries nothing is cached under the key (healthy store)", g, nq.Load())
			}
		case dbMode == "error-always" || plan == kit.PlanOutageBefore:
			w.Fail("the store holds %q after a round in which no query succeeded (database errors are never cached)", s.Raw)
		case s.TTL <= 0:
			w.Fail("TTL clause: key %s is stored without a TTL, value %q", key, s.Raw)
		case s.Raw == kit.Placeholder:
			if rowExists {
				w.Fail("the not-found marker is cached although the row exists")
			}
		default:
			var r c06Row
			json.Unmarshal([]byte(s.Raw), &r)
			if rr, ok := results[r.Stamp]; !ok || rr.err != nil || rr.row != r {
				w.Fail("the cache holds %q, which is not the result of any query of the round (%v)", s.Raw, results)
			}
		}
		if (strong && g >= 2) || int(nq.Load()) < g && plan != kit.PlanOutageBefore {
			st.Class("case:readers-shared-a-query")
			st.NonTrivial(fmt.Sprintf("G=%d row=%v pre=%s db=%s withExpire=%v nodes=%d plan=%s strong=%v", g, rowExists, pre, dbMode, withExpire, len(m.conf.nodes), plan, strong))
		}
	})
}

// ------------------------------------------------------------------ cleaner retry (real time)

// A failed invalidation is retried by the background cleaner (1 s timing wheel).  Real
// time is unavoidable here: thorough tier only, and a budget overrun is inconclusive.
func TestVerifC06CleanerRetry(t *testing.T) { c06CleanerRetry(t, "cleaner", false) }

// The same history in a process that has been told to shut down (proc.Shutdown: the shutdown
// listeners have run, among them the cleaner's drain) and goes on serving during its grace period,
// as a go-zero service does between SIGTERM and exit.  Own unit = own process: the listeners fire
// once per process.
func TestVerifC06CleanerRetryAfterShutdownNotice(t *testing.T) {
	c06CleanerRetry(t, "cleaner-after-shutdown", true)
}

func c06CleanerRetry(t *testing.T, unit string, afterShutdown bool) {
	st := verifkit.New(unit)
	defer st.Flush()
	env := kit.GetEnv(t)
	if afterShutdown {
		proc.Shutdown()
		st.Class("lifecycle:shutdown-listeners-have-run")
	}
	// The retry is due 1 s after the failed invalidation (a second one 5 s later).  The budget
	// is >= 10x that, with a healthy store throughout, so an overrun is a verdict, not a
	// scheduling accident: the stale entry would be served until its TTL (1 h here) runs out.
	budget := time.Duration(verifkit.EnvInt("c06_cleaner_budget_s", 40)) * time.Second
	type scen struct {
		name   string
		nodes  []int
		nkeys  int
		fails  int // number of DEL attempts on the key that fail (1: first retry succeeds, 2: second retry, ~+5 s)
		outage bool
	}
	scens := []scen{
		{"node/1-key/hook", []int{0}, 1, 1, false},
		{"cluster/2-keys/outage", []int{0, 1}, 2, 1, true},
	}
	rounds := 2
	if verifkit.Thorough() {
		scens = append(scens,
			scen{"node/3-keys/hook", []int{1}, 3, 1, false},
			scen{"node/1-key/outage", []int{2}, 1, 1, true},
			scen{"cluster/3-keys/hook", []int{0, 1, 2}, 3, 1, false},
			scen{"node/1-key/hook-twice", []int{0}, 1, 2, false})
		rounds = 3
	}
	prefix := env.NewCase("clean")
	type pending struct {
		s     scen
		keys  []string
		nodes []int
	}
	tried, removed := 0, 0
	// The same key sets are invalidated-with-failure again in every round: recovery must work
	// every time, not only the first time a key set is seen by this process.
	for round := 0; round < rounds; round++ {
		var pend []pending
		for si, s := range scens {
			st.Eval()
			conf := c06Conf{nodes: s.nodes, exp: time.Hour}
			c := c06Build(env, conf, syncx.NewSingleFlight())
			var keys []string
			for i := 0; i < s.nkeys; i++ {
				k := fmt.Sprintf("%ss%d:k%d", prefix, si, i)
				keys = append(keys, k)
				if err := c.Set(k, c06Row{ID: int64(i), Name: "stale"}); err != nil {
					st.Note("inconclusive: Set failed: %v", err)
					return
				}
			}
			env.Pad(s.nodes, 15)
			if s.outage {
				env.Outage(true)
			} else {
				env.Hook.Arm(kit.KDel, keys[0], s.fails)
			}
			err := c.Del(keys...)
			env.Outage(false)
			stale := 0
			for _, k := range keys {
				if env.Lookup(s.nodes, k).Present {
					stale++
				}
			}
			st.Class(fmt.Sprintf("del-returned-error:%v", err != nil))
			if stale == 0 {
				st.Note("%s: no key survived the failed Del (nothing to retry)", s.name)
				continue
			}
			pend = append(pend, pending{s, keys, s.nodes})
		}
		start := time.Now()
		tried += len(pend)
		for len(pend) > 0 && time.Since(start) < budget {
			time.Sleep(50 * time.Millisecond)
			var rest []pending
			for _, p := range pend {
				left := 0
				for _, k := range p.keys {
					if env.Lookup(p.nodes, k).Present {
						left++
					}
				}
				if left > 0 {
					rest = append(rest, p)
					continue
				}
				removed++
				st.Class(fmt.Sprintf("cleaner:stale-keys-removed:round-%d", round))
				st.NonTrivial(fmt.Sprintf("%s round %d: stale keys removed by the cleaner after a failed invalidation", p.s.name, round))
			}
			pend = rest
		}
		env.Hook.Disarm()
		for _, p := range pend {
			t.Fatalf("C06 coherence clause (a cached read returns what the database holds once the write went through Exec with that key): "+
				"%s, round %d on the same key set: the invalidation failed while the store was faulty, the store has been healthy for %v since, "+
				"and the stale entries %v are still cached (the retry is due after 1 s%s); they would be served until their TTL of 1 h ends",
				p.s.name, round, budget, p.keys, c06Flag(p.s.fails > 1, ", a second one 5 s later"))
		}
	}
	// whatever the cleaner did, it must not have left persistent keys
	for _, k := range env.AllKeys([]int{0, 1, 2}) {
		if s := env.Lookup([]int{0, 1, 2}, k); s.Present && s.TTL <= 0 {
			t.Fatalf("TTL clause: key %s is persistent after the cleaner ran", k)
		}
	}
	if tried == 0 {
		st.Note("no failed invalidation left a stale key: cleaner clause not exercised")
	}
}
