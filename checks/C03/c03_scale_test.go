//go:build verif

package limit_test

// C03, units `scale` (TestVerifC03ScaleToken, TestVerifC03ScalePeriodLong) and `scale-period`
// (TestVerifC03ScalePeriod): slow refill, long idle, large quotas.
//
// Everything the other units of C03 generate is small (rate and burst 1-50, periods of 1-5 s,
// quotas up to 12, clock steps of milliseconds to ~100 s).  This unit drives the same two
// limiters against the same two oracles with sizes drawn log-uniformly from wide ranges:
//
//   - TokenLimiter: rate 1-3 per second (sometimes a faster one), burst 1 000 - 1 000 000, i.e. a
//     bucket that needs minutes to days to fill; requests for thousands of tokens at once by
//     1-4 instances on one key; idle gaps of seconds, minutes, hours and days (harness clock =
//     explicit now = miniredis FastForward, monotone).  Oracle: the ONE reference bucket of the
//     token unit (c03Bucket: +rate per whole elapsed second, capped at burst, granted iff it
//     holds n) - a drained bucket is only as full as rate x elapsed allows, however long the key
//     was left alone.
//   - PeriodLimit: periods of one hour to 40 days, quotas 1 000 - 100 000 consumed in bulk
//     rounds (G goroutines at a frozen store clock, judged like the concurrent unit: exactly the
//     expected numbers of Allowed / HitQuota / OverQuota, nothing granted to a goroutine after it
//     saw the quota reached), single judged requests, idle gaps up to twice the period.  Oracle:
//     the request counter of the period unit ("i-th request of the period").
//
// The sizes are not aimed at any threshold; the ranges are simply two to four orders of
// magnitude above the small generators.  What bounds a PeriodLimit case is the number of
// requests it may make (knob VERIF_SCALE_TAKES; one request costs 0.1-0.3 ms against
// miniredis, which builds a Lua state per EVAL): quotas are drawn from 1 000 .. min(100 000,
// budget - 50), i.e. up to ~3 000 in the quick tier and the whole range in the thorough tier.
// Long periods do not need large quotas: TestVerifC03ScalePeriodLong runs the same machine
// with quotas 1-8, so that the period dimension gets many (cheap) cases.
//
// Like the independence units, a request of which no command reached the store is judged (not
// abandoned) when go-zero's own breaker-open counter shows that no breaker rejected anything:
// an answer given without asking the reachable store has to be the bucket's / the counter's.

import (
	"fmt"
	"math"
	"sync"
	"testing"

	"github.com/zeromicro/go-zero/core/limit"
	"github.com/zeromicro/go-zero/internal/verifkit"
	"pgregory.net/rapid"
)

const (
	// 100 x the largest sizes of the small generators (see the rule in check.json)
	c03SBigBurst  = 100 * 50  // burst, rate <= 50 there
	c03SBigN      = 100 * 52  // a request is at most burst+2 = 52 tokens there
	c03SBigGapSec = 100 * 102 // the longest clock step there is (2*burst/rate + 2) s = 102 s
	c03SBigPeriod = 100 * 5   // periods are 1-5 s there
	c03SBigQuota  = 100 * 12  // quotas are <= 12 there (concurrent unit)
)

// c03SFrac draws a position in [0, 1].  rapid's integer generators prefer small values by
// design (a draw from [0, 65535] is below 256 more often than not), which is the opposite of
// what this unit is for: the top four bits come from four fair coins (rapid.Bool is
// unbiased), only the position inside the sixteenth is left to rapid's taste.  Shrinks
// towards 0.
func c03SFrac(t *rapid.T, label string) float64 {
	c := 0
	for b := 3; b >= 0; b-- {
		if rapid.Bool().Draw(t, label+"/sixteenth") {
			c |= 1 << b
		}
	}
	f := rapid.IntRange(0, 4095).Draw(t, label+"/fine")
	return float64(c*4096+f) / 65535
}

// c03SPow is lo * (hi/lo)^frac: the point at position frac of [lo, hi] on a logarithmic scale.
func c03SPow(lo, hi int64, frac float64) int64 {
	if hi <= lo {
		return lo
	}
	v := int64(math.Round(float64(lo) * math.Pow(float64(hi)/float64(lo), frac)))
	if v < lo {
		v = lo
	}
	if v > hi {
		v = hi
	}
	return v
}

// c03SLog draws an integer log-uniformly from [lo, hi] (every order of magnitude is equally
// likely, up to the granularity described at c03SFrac); shrinks towards lo.
func c03SLog(t *rapid.T, lo, hi int64, label string) int64 {
	if hi <= lo {
		return lo
	}
	return c03SPow(lo, hi, c03SFrac(t, label))
}

func c03SDecade(v int64) string {
	switch {
	case v < 10:
		return "<10"
	case v < 100:
		return "10-99"
	case v < 1000:
		return "100-999"
	case v < 10_000:
		return "1e3-1e4"
	case v < 100_000:
		return "1e4-1e5"
	case v < 1_000_000:
		return "1e5-1e6"
	}
	return ">=1e6"
}

func c03SGapClass(ms int64) string {
	switch s := ms / 1000; {
	case s < 1:
		return "<1s"
	case s < 60:
		return "seconds"
	case s < 3600:
		return "minutes"
	case s < 86400:
		return "hours"
	}
	return "days"
}

// ------------------------------------------------------------------ token limiter at scale

type c03SWorld struct {
	*c03TWorld
	// bookkeeping for the non-trivial rule
	bigGrant  bool  // a request for >= c03SBigN tokens was granted
	gapOpen   bool  // the latest clock step was a long one that began with a bucket that was not full
	gapFilled bool  // ... and rate x elapsed filled it up
	longGap   bool  // a request was judged right after such a step
	partial   bool  // ... and the bucket was still not full then
	maxGap    int64 // longest single clock step, ms
}

// allow is one request while the store is reachable: the reference bucket decides.  This is
// the reachable-store branch of c03TWorld.allowN with the no-rejection path of the
// independence units (see the comment at the top).
func (s *c03SWorld) allow(i, n int, ctx bool) {
	w := s.c03TWorld
	in, e := w.inst[i], w.e
	pr := e.probe()
	got := w.call(in, n, ctx)
	rejected := !e.reached(pr) && !c03INoRejection()
	held := w.model.peek(w.sec())
	want := w.model.take(w.sec(), n)
	w.logf(" i%d.allow(%d)=%s", i, n, tf(got))
	if rejected || e.transported(pr) || (e.reached(pr) && e.executed(pr) != 1) {
		w.abort("allowN: breaker/transport interfered (reached=%v breaker-open rejection possible=%v transport=%v executions=%d)",
			e.reached(pr), rejected, e.transported(pr), e.executed(pr))
	}
	if got != want {
		how := ""
		if !e.reached(pr) {
			how = fmt.Sprintf("; the limiter did not ask its store (no command sent, none rejected by a breaker), it consults the store: %v", in.lim.VerifAlive())
		}
		w.fail("instance %d: request for %d tokens answered %v, but the shared bucket holds %d of %d (statement: one bucket of size burst refilled at rate per whole second, granted iff the bucket holds n; the longest clock step of this history was %d s)%s",
			i, n, got, held, w.burst, s.maxGap/1000, how)
	}
	w.st.Class("allow:joint-" + tf(got))
	if !e.reached(pr) {
		w.st.Class("allow:answered-without-asking-the-store")
	}
	w.st.Class("allow:n=" + c03SDecade(int64(n)))
	if got {
		in.granted += n
		if n >= c03SBigN {
			s.bigGrant = true
		}
	}
	if s.gapOpen {
		s.gapOpen = false
		s.longGap = true
		w.st.Class("allow:right-after-long-gap")
		if !s.gapFilled {
			s.partial = true
			w.st.Class("allow:right-after-long-gap-bucket-partially-refilled")
		}
	}
}

func (s *c03SWorld) advance(d int64) {
	w := s.c03TWorld
	if d <= 0 {
		return
	}
	before := w.model.peek(w.sec())
	w.advance(d)
	if d > s.maxGap {
		s.maxGap = d
	}
	w.st.Class("advance:" + c03SGapClass(d))
	if d >= c03SBigGapSec*1000 && w.model.used && before < w.burst {
		s.gapOpen = true
	}
	if s.gapOpen { // further steps before the next request only let the clock go on
		s.gapFilled = w.model.peek(w.sec()) >= w.burst
	}
}

// c03SDrawN: request sizes of 0 .. burst+2 tokens - around what the bucket holds (+-1 and a
// few hundred below/above: what a refill computed in chunks would lose), around burst, a
// fraction of what it holds, or anything (log-uniform).
func c03SDrawN(t *rapid.T, w *c03TWorld) int {
	held := w.model.peek(w.sec())
	var n int
	switch rapid.IntRange(0, 7).Draw(t, "nMode") {
	case 0, 1:
		n = c03DrawN(t, w)
	case 2:
		n = held - rapid.IntRange(0, 400).Draw(t, "below")
	case 3:
		n = held + rapid.IntRange(1, 400).Draw(t, "above")
	case 4:
		n = int(c03SLog(t, 1, int64(w.burst)+2, "nLog"))
	case 5:
		n = int(int64(held) * int64(rapid.IntRange(1, 99).Draw(t, "pct")) / 100)
	case 6:
		n = held
	default:
		n = held + 1
	}
	if n < 0 {
		n = 0
	}
	if n > w.burst+2 {
		n = w.burst + 2
	}
	return n
}

const c03SDayMs = 86_400_000

// c03SDrawAdvance: idle gaps from milliseconds to thirty days.
func c03SDrawAdvance(t *rapid.T, w *c03TWorld) int64 {
	off := rapid.SampledFrom([]int64{-1, 0, 0, 1}).Draw(t, "off")
	var d int64
	switch rapid.IntRange(0, 6).Draw(t, "gapMode") {
	case 0, 1:
		d = c03SLog(t, 1, 30*c03SDayMs, "gapLog")
	case 2: // whole minutes / hours / days
		unit := rapid.SampledFrom([]int64{60_000, 3_600_000, c03SDayMs}).Draw(t, "unit")
		d = unit*rapid.Int64Range(1, 30).Draw(t, "units") + off
	case 3: // the small machine's steps: second boundaries, key expiry, refill time
		d = c03DrawAdvance(t, w)
	case 4: // part of the time the bucket needs to fill up from what it holds now
		need := int64((w.burst-w.model.peek(w.sec()))/w.rate) + 1
		d = c03SLog(t, 1, need, "partOfRefill")*1000 + off
	case 5: // around the time a drained bucket needs, and around the expiry of the keys (twice that)
		fill := int64((w.burst + w.rate - 1) / w.rate)
		d = fill*1000*rapid.Int64Range(1, 2).Draw(t, "fills") + off*rapid.SampledFrom([]int64{1, 1000}).Draw(t, "offUnit")
	default:
		d = rapid.Int64Range(0, 1500).Draw(t, "ms")
	}
	if d < 0 {
		d = 0
	}
	return d
}

func c03SDrawTokenConfig(t *rapid.T) (rate, burst int) {
	burst = int(c03SLog(t, 1000, 1_000_000, "burst"))
	if rapid.IntRange(0, 5).Draw(t, "rateMode") == 0 {
		// a faster refill: still at least ten seconds to fill
		rate = int(c03SLog(t, 1, int64(burst)/10, "rateLog"))
	} else {
		rate = rapid.IntRange(1, 3).Draw(t, "rate")
	}
	return
}

func TestVerifC03ScaleToken(t *testing.T) {
	st := verifkit.New("scale-token")
	defer st.Flush()
	tt := t
	cases, abandoned := 0, 0
	rapid.Check(t, func(t *rapid.T) {
		st.Eval()
		cases++
		e := c03IndepEnvs(t, 1)[0]
		e.mr.FlushAll()
		rate, burst := c03SDrawTokenConfig(t)
		k := rapid.IntRange(1, 4).Draw(t, "instances")
		s := &c03SWorld{c03TWorld: c03NewTWorld(t, st, e, rate, burst, k, c03DrawT0(t))}
		w := s.c03TWorld
		pickI := rapid.IntRange(0, k-1)
		t.Repeat(map[string]func(*rapid.T){
			"allow": func(t *rapid.T) {
				i, n, ctx := pickI.Draw(t, "inst"), c03SDrawN(t, w), rapid.Bool().Draw(t, "ctx")
				w.guard(func() { s.allow(i, n, ctx) })
			},
			"drain": func(t *rapid.T) {
				// take all that is left, then ask another instance for one more
				i, j := pickI.Draw(t, "inst"), pickI.Draw(t, "inst2")
				w.guard(func() {
					s.allow(i, w.model.peek(w.sec()), false)
					s.allow(j, 1, false)
				})
			},
			"advance": func(t *rapid.T) {
				d := c03SDrawAdvance(t, w)
				w.guard(func() { s.advance(d) })
			},
			"several": func(t *rapid.T) {
				// several instances ask for large amounts at one instant
				cnt := rapid.IntRange(2, 5).Draw(t, "requests")
				type rq struct{ i, n int }
				rs := make([]rq, cnt)
				for x := range rs {
					rs[x] = rq{pickI.Draw(t, "inst"), int(c03SLog(t, 100, int64(w.burst), "nLog"))}
				}
				w.guard(func() {
					for _, r := range rs {
						s.allow(r.i, r.n, false)
					}
				})
			},
			"takeIdleProbe": func(t *rapid.T) {
				// one large request, a long idle gap, then requests around what the bucket can
				// hold by then, made by (possibly) different instances
				i, j, l := pickI.Draw(t, "inst"), pickI.Draw(t, "inst2"), pickI.Draw(t, "inst3")
				pct := 100 - rapid.IntRange(0, 99).Draw(t, "pctLeft") // rapid prefers small numbers: mostly a deep drain
				gapMode := rapid.IntRange(0, 3).Draw(t, "idleMode")
				part := rapid.Int64Range(1, 99).Draw(t, "idlePct")
				x := c03SFrac(t, "idleLog")
				jitter := rapid.Int64Range(0, 999).Draw(t, "idleMs")
				over := rapid.IntRange(1, 300).Draw(t, "over")
				w.guard(func() {
					held := w.model.peek(w.sec())
					s.allow(i, int(int64(held)*int64(pct)/100), false)
					need := int64((w.burst-w.model.peek(w.sec()))/w.rate) + 1 // seconds until full
					var sec int64
					switch gapMode {
					case 0: // log-uniform part of the refill time
						sec = c03SPow(1, need, x)
					case 1: // log-uniform up to thirty days
						sec = c03SPow(1, 30*86_400, x)
					case 2: // a part of the refill time on a linear scale
						sec = need * part / 100
					default: // half of it
						sec = need / 2
					}
					s.advance(sec*1000 + jitter)
					now := w.model.peek(w.sec())
					if now+over <= w.burst+2 {
						s.allow(j, now+over, false) // more than it can hold by now
					}
					s.allow(l, now, false) // exactly what it holds
					s.allow(j, 1, false)
				})
			},
		})
		st.Class("config:burst=" + c03SDecade(int64(burst)))
		st.Class("config:fill-time=" + c03SGapClass(int64(burst/rate)*1000))
		if w.dead {
			abandoned++
			return
		}
		st.Class("case:longest-gap=" + c03SGapClass(s.maxGap))
		competing := 0
		for _, in := range w.inst {
			if in.granted > 0 {
				competing++
			}
		}
		if competing >= 2 {
			st.Class("case:>=2-instances-granted")
		}
		if s.longGap {
			st.Class("case:judged-right-after-long-gap")
		}
		if s.partial {
			st.Class("case:long-gap-partial-refill")
		}
		if s.bigGrant {
			st.Class("case:granted>=5200-at-once")
		}
		if burst >= c03SBigBurst && s.bigGrant && s.longGap {
			st.Class("case:nontrivial")
			st.NonTrivial(w.log.String())
		}
	})
	c03ITooManyAbandoned(tt, st, "scale-token", cases, abandoned)
}

// ------------------------------------------------------------------ period limiter at scale

// c03STakes is the number of PeriodLimit requests one case may make (quick: small, so that
// the unit stays within seconds; thorough: enough to use up a quota of 100 000 and go on).
var c03STakes = verifkit.EnvInt("scale_takes", 3_000)

type c03SPWorld struct {
	*c03PWorld
	takes int // requests made so far
	// bookkeeping for the non-trivial rule (per case, any key)
	bulkHit      bool // the quota was reached inside a bulk round
	hit          bool // the quota was reached (by a single request or inside a round)
	overAfterGap bool // OverQuota judged after an idle gap >= c03SBigPeriod s inside the period in which the quota was reached
	lastGap      int64
	maxGap       int64
	maxRound     int
}

func (s *c03SPWorld) left() int { return c03STakes - s.takes }

// one is a single judged request (the no-fault branch of c03PWorld.take with the no-rejection
// path of the independence units).
func (s *c03SPWorld) one(li, ki int) int {
	w := s.c03PWorld
	k, l := w.keys[ki], w.lims[li]
	if s.left() < 1 {
		return limit.Unknown
	}
	s.takes++
	w.roll(k)
	pr := w.e.probe()
	code, err := l.Take(k.name)
	rejected := !w.e.reached(pr) && !c03INoRejection()
	w.logf(" take%d(%s)=%s", li, k.name, c03CodeName(code))
	if rejected || w.e.transported(pr) || (w.e.reached(pr) && w.e.executed(pr) != 1) {
		w.abort("take: breaker/transport interfered (reached=%v breaker-open rejection possible=%v transport=%v executions=%d err=%v)",
			w.e.reached(pr), rejected, w.e.transported(pr), w.e.executed(pr), err)
	}
	how := ""
	if !w.e.reached(pr) {
		how = " (the limiter did not ask its store: no command sent, none rejected by a breaker)"
		w.st.Class("take:answered-without-asking-the-store")
	}
	if err != nil {
		w.fail("take on %s returned error %v (code %s) although the store is reachable%s (statement: the first `quota` requests of a period are granted; only a store error is reported as an error)",
			k.name, err, c03CodeName(code), how)
	}
	k.count++
	if want := c03Expect(k.count, w.quota); code != want {
		where := "the key's previous period, if any, is over: this request starts a new one"
		if k.count > 1 {
			where = fmt.Sprintf("%d ms of the period are left", k.end-w.now)
		}
		w.fail("request #%d of the period on %s answered %s, statement requires %s (quota %d, period %d s; %s)%s",
			k.count, k.name, c03CodeName(code), c03CodeName(want), w.quota, w.period, where, how)
	}
	if k.count == 1 {
		w.start(k)
	}
	if k.count >= w.quota {
		k.hit, s.hit = true, true
	}
	if k.crossed && (code == limit.Allowed || code == limit.HitQuota) {
		k.regrant = true
	}
	if code == limit.OverQuota && s.lastGap >= c03SBigPeriod*1000 {
		s.overAfterGap = true
		w.st.Class("take:OverQuota-after-long-idle-inside-the-period")
	}
	s.lastGap = 0
	w.st.Class("take:" + c03CodeName(code))
	return code
}

// bulk makes m requests on one key with g goroutines (goroutine i through limiter i mod
// len(lims)) while the store's clock stands still.  Judged like the concurrent unit: the
// numbers of Allowed / HitQuota / OverQuota are those of requests #c+1 .. #c+m of the period,
// every request is answered without an error, and within one goroutine nothing is granted
// after it saw the quota reached.
func (s *c03SPWorld) bulk(ki, m, g int) {
	w := s.c03PWorld
	k := w.keys[ki]
	if m > s.left() {
		m = s.left()
	}
	if m < 1 {
		return
	}
	if g > m {
		g = m
	}
	s.takes += m
	w.roll(k)
	type res struct {
		codes  [4]int
		other  int   // codes outside Unknown..OverQuota
		err    error // first error
		errs   int
		late   int // a grant after the goroutine had seen the quota reached: index of it, -1 none
		lateIs int
	}
	out := make([]res, g)
	pr := w.e.probe()
	var wg sync.WaitGroup
	start := make(chan struct{})
	for i := 0; i < g; i++ {
		cnt := m / g
		if i < m%g {
			cnt++
		}
		wg.Add(1)
		go func(i, cnt int) {
			defer wg.Done()
			l := w.lims[i%len(w.lims)]
			r := &out[i]
			r.late = -1
			seen := false
			<-start
			for j := 0; j < cnt; j++ {
				c, err := l.Take(k.name)
				if err != nil {
					if r.err == nil {
						r.err = err
					}
					r.errs++
					continue
				}
				if c < 0 || c > limit.OverQuota {
					r.other++
					continue
				}
				r.codes[c]++
				if seen && c != limit.OverQuota && r.late < 0 {
					r.late, r.lateIs = j, c
				}
				if c != limit.Allowed {
					seen = true
				}
			}
		}(i, cnt)
	}
	close(start)
	wg.Wait()
	var got [4]int
	errs, other := 0, 0
	var firstErr error
	for i := range out {
		for c := range got {
			got[c] += out[i].codes[c]
		}
		errs += out[i].errs
		other += out[i].other
		if firstErr == nil {
			firstErr = out[i].err
		}
	}
	w.logf(" bulk(%s x%d by %d from #%d)=A%d/H%d/O%d", k.name, m, g, k.count, got[limit.Allowed], got[limit.HitQuota], got[limit.OverQuota])
	ex := w.e.executed(pr)
	how := ""
	if w.e.transported(pr) || ex > int64(m) {
		w.abort("bulk: transport error or re-sent command (%d requests, %d script executions, transport=%v, first error %v)", m, ex, w.e.transported(pr), firstErr)
	}
	if ex < int64(m) {
		// some requests did not reach the store: inconclusive unless it is certain that no breaker rejected one
		if !c03INoRejection() {
			w.abort("bulk: %d requests but %d script executions and a breaker may have rejected some (first error %v)", m, ex, firstErr)
		}
		how = fmt.Sprintf(" (%d of the %d requests were answered without asking the store: not sent, none rejected by a breaker)", int64(m)-ex, m)
		w.st.Class("bulk:answered-without-asking-the-store")
	}
	if errs > 0 || other > 0 {
		w.fail("bulk round of %d requests on %s from request #%d of the period: %d came back with an error (first: %v), %d with an unknown code, although the store is reachable%s",
			m, k.name, k.count+1, errs, firstErr, other, how)
	}
	var want [4]int
	if a := min(k.count+m, w.quota-1) - k.count; a > 0 { // requests #c+1..#c+m below the quota
		want[limit.Allowed] = a
	}
	if k.count < w.quota && k.count+m >= w.quota {
		want[limit.HitQuota] = 1
	}
	want[limit.OverQuota] = m - want[limit.Allowed] - want[limit.HitQuota]
	if got != want {
		w.fail("bulk round of %d requests (%d goroutines) on %s from request #%d of the period: got Allowed=%d HitQuota=%d OverQuota=%d Unknown=%d, statement requires Allowed=%d HitQuota=%d OverQuota=%d (quota %d, period %d s)%s",
			m, g, k.name, k.count+1, got[limit.Allowed], got[limit.HitQuota], got[limit.OverQuota], got[limit.Unknown],
			want[limit.Allowed], want[limit.HitQuota], want[limit.OverQuota], w.quota, w.period, how)
	}
	for i := range out {
		if out[i].late >= 0 {
			w.fail("bulk round on %s: goroutine %d got %s as its request %d after it had already seen the quota reached", k.name, i, c03CodeName(out[i].lateIs), out[i].late)
		}
	}
	if k.count == 0 {
		w.start(k)
	}
	if k.count < w.quota && k.count+m >= w.quota {
		s.bulkHit = true
		w.st.Class("bulk:quota-reached-inside-the-round")
	}
	k.count += m
	if k.count >= w.quota {
		k.hit, s.hit = true, true
	}
	if k.crossed && want[limit.Allowed]+want[limit.HitQuota] > 0 {
		k.regrant = true
	}
	s.lastGap = 0
	if m > s.maxRound {
		s.maxRound = m
	}
	w.st.Class("bulk:size=" + c03SDecade(int64(m)))
}

// forward moves the store's clock.  lastGap is the idle time since the latest request if
// every key that has reached its quota is still inside that period (used by the non-trivial rule only).
func (s *c03SPWorld) forward(d int64) {
	w := s.c03PWorld
	before := w.now
	w.forward(d)
	d = w.now - before
	if d > s.maxGap {
		s.maxGap = d
	}
	s.lastGap += d
	for _, k := range w.keys {
		if k.active && w.now > k.end {
			s.lastGap = 0 // a period ended during the gap
		}
	}
	w.st.Class("forward:" + c03SGapClass(d))
}

// TestVerifC03ScalePeriod: long periods AND large quotas (what a case costs is the number of
// requests, so few cases in the quick tier).
func TestVerifC03ScalePeriod(t *testing.T) { c03ScalePeriod(t, "scale-period", true) }

// TestVerifC03ScalePeriodLong: the same machine with long periods and the small quotas of the
// period unit (1-8): a case is a few dozen requests, so the period dimension gets many cases.
func TestVerifC03ScalePeriodLong(t *testing.T) { c03ScalePeriod(t, "scale-period-long", false) }

func c03ScalePeriod(t *testing.T, unit string, largeQuota bool) {
	st := verifkit.New(unit)
	defer st.Flush()
	tt := t
	cases, abandoned := 0, 0
	rapid.Check(t, func(t *rapid.T) {
		st.Eval()
		cases++
		e := c03IndepEnvs(t, 1)[0]
		e.mr.FlushAll()
		w := &c03PWorld{period: int(c03SLog(t, 3600, 40*86400, "period"))}
		if largeQuota {
			// what the case's request budget can use up (quick: a few thousand; thorough: up to 100 000)
			w.quota = int(c03SLog(t, 1000, min(100_000, int64(c03STakes)-50), "quota"))
		} else {
			w.quota = rapid.IntRange(1, 8).Draw(t, "quota")
		}
		s := &c03SPWorld{c03PWorld: w}
		w.f, w.st, w.e = t, st, e
		w.prefix = fmt.Sprintf("c03s:%d:", e.seq.Add(1))
		nl := rapid.IntRange(1, 3).Draw(t, "limiters")
		nk := rapid.IntRange(1, 2).Draw(t, "keys")
		for i := 0; i < nl; i++ {
			store := e.store
			if i > 0 {
				store = e.newStore()
			}
			w.lims = append(w.lims, limit.NewPeriodLimit(w.period, w.quota, store, w.prefix))
		}
		for i := 0; i < nk; i++ {
			w.keys = append(w.keys, &c03PKey{name: string(rune('a' + i))})
		}
		w.logf("period=%d quota=%d lims=%d budget=%d requests:", w.period, w.quota, nl, c03STakes)
		pickL := rapid.IntRange(0, nl-1)
		pickK := rapid.IntRange(0, nk-1)
		periodMs := int64(w.period) * 1000
		t.Repeat(map[string]func(*rapid.T){
			"take": func(t *rapid.T) {
				li, ki := pickL.Draw(t, "lim"), pickK.Draw(t, "key")
				w.guard(func() { s.one(li, ki) })
			},
			"bulk": func(t *rapid.T) {
				ki, g := pickK.Draw(t, "key"), rapid.IntRange(1, 8).Draw(t, "goroutines")
				mode := rapid.IntRange(0, 5).Draw(t, "sizeMode")
				x := c03SFrac(t, "sizeLog")
				extra := rapid.IntRange(0, 40).Draw(t, "extra")
				w.guard(func() {
					k := w.keys[ki]
					w.roll(k)
					rem := w.quota - k.count // requests until the quota is reached
					var m int
					switch {
					case rem <= 0: // already over: a few more
						m = 1 + extra
					case mode == 0: // anything up to the quota (log-uniform)
						m = int(c03SPow(1, int64(w.quota), x))
					case mode == 1: // just short of the quota
						m = rem - 1 - extra%3
					case mode == 2: // exactly up to it
						m = rem
					case mode == 3: // past it
						m = rem + 1 + extra
					case mode == 4: // half of what is left
						m = rem / 2
					default: // a part of what is left (log-uniform)
						m = int(c03SPow(1, int64(rem), x))
					}
					s.bulk(ki, m, g)
				})
			},
			"exhaust": func(t *rapid.T) {
				// use up the quota in 1-4 bursts with idle time in between (all inside the period),
				// ask again after more idle time inside the period, let the period end, ask again
				li, ki, g := pickL.Draw(t, "lim"), pickK.Draw(t, "key"), rapid.IntRange(1, 8).Draw(t, "goroutines")
				bursts := rapid.IntRange(1, 4).Draw(t, "bursts")
				sizePct := rapid.SliceOfN(rapid.IntRange(1, 99), 3, 3).Draw(t, "burstPct")
				gapPct := rapid.SliceOfN(rapid.Int64Range(1, 60), 3, 3).Draw(t, "gapPct")
				x := c03SFrac(t, "idleLog")
				idleMode := rapid.IntRange(0, 2).Draw(t, "idleMode")
				pct := rapid.Int64Range(1, 99).Draw(t, "idlePct")
				before := rapid.SampledFrom([]int64{1, 2, 1000, 60_000}).Draw(t, "beforeEnd")
				off := rapid.SampledFrom([]int64{1, 2, 1000, 60_000}).Draw(t, "off")
				w.guard(func() {
					k := w.keys[ki]
					w.roll(k)
					if w.quota-k.count > 0 {
						if w.quota-k.count+2 > s.left() {
							return // not within this case's budget
						}
						for b := 0; b < bursts-1; b++ {
							rem := w.quota - k.count
							if m := rem * sizePct[b] / 100; m >= 1 {
								s.bulk(ki, m, g)
							}
							if leftMs := k.end - w.now; k.active && leftMs > 2 {
								s.forward(leftMs * gapPct[b] / 100)
							}
							w.roll(k)
						}
						if rem := w.quota - k.count; rem >= 0 {
							s.bulk(ki, rem+1, g)
						}
					}
					if leftMs := k.end - w.now; leftMs > 2 {
						var d int64
						switch idleMode {
						case 0: // a part of what is left of the period, on a logarithmic scale from one second
							d = c03SPow(min(1000, leftMs-1), leftMs-1, x)
						case 1: // a part of it, on a linear scale
							d = leftMs * pct / 100
						default: // until shortly before the period ends
							d = leftMs - before
						}
						if d > 0 && d < leftMs {
							s.forward(d)
						}
						s.one(li, ki)
					}
					if k.active && k.end >= w.now {
						s.forward(k.end + off - w.now)
					}
					s.one(li, ki)
				})
			},
			"forward": func(t *rapid.T) {
				var d int64
				switch rapid.IntRange(0, 5).Draw(t, "mode") {
				case 0:
					d = rapid.Int64Range(0, 2000).Draw(t, "ms")
				case 1, 2: // around the end of a running period
					k := w.keys[pickK.Draw(t, "key")]
					off := rapid.SampledFrom([]int64{-1, 1, 1, -2, 2, -1000, 1000, 60_000, -60_000}).Draw(t, "off")
					if k.active && k.end+off > w.now {
						d = k.end + off - w.now
					} else {
						d = periodMs + off
					}
				case 3: // whole hours / days
					unit := rapid.SampledFrom([]int64{3_600_000, c03SDayMs}).Draw(t, "unit")
					d = unit * rapid.Int64Range(1, 30).Draw(t, "units")
				case 4: // anything up to twice the period (log-uniform)
					d = c03SLog(t, 1, 2*periodMs, "gapLog")
				default: // a part of the period (uniform)
					d = rapid.Int64Range(0, periodMs).Draw(t, "msAny")
				}
				w.guard(func() { s.forward(d) })
			},
		})
		st.Class("config:quota=" + c03SDecade(int64(w.quota)))
		st.Class("config:period=" + c03SGapClass(periodMs))
		if w.dead {
			abandoned++
			return
		}
		st.Class("case:longest-gap=" + c03SGapClass(s.maxGap))
		st.Class("case:largest-round=" + c03SDecade(int64(s.maxRound)))
		regrant := false
		for _, k := range w.keys {
			if k.regrant {
				regrant = true
			}
			if k.crossing > 0 {
				st.Class("case:period-boundary-crossed")
			}
		}
		if s.bulkHit {
			st.Class("case:quota-reached-in-bulk")
		}
		if s.overAfterGap {
			st.Class("case:OverQuota-after-long-idle")
		}
		if regrant {
			st.Class("case:granted-again-after-the-period")
		}
		reached := s.bulkHit
		if !largeQuota {
			reached = s.hit
		}
		if w.period >= c03SBigPeriod && (w.quota >= c03SBigQuota || !largeQuota) && reached && s.overAfterGap && regrant {
			st.Class("case:nontrivial")
			st.NonTrivial(w.log.String())
		}
	})
	c03ITooManyAbandoned(tt, st, unit, cases, abandoned)
}
