//go:build verif

package limit_test

// Independence part of C03.  The statement speaks about "all TokenLimiter instances sharing a
// key and a reachable store" (they are ONE bucket) and, for PeriodLimit, "for each key": the
// unit of limiting is the (store, key) pair.  Limiters that do not share both must therefore
// behave as if the others did not exist:
//
//   - every (store, key) pair has its own reference bucket (the c03Bucket of the token unit,
//     with that pair's rate and burst); while the pair's store is reachable, every answer of
//     every instance on the pair equals that bucket's answer — whatever happens meanwhile to
//     OTHER stores (down, coming back, flapping) and to limiters on other keys or stores,
//     including limiters on the same key name on another store and limiters constructed in
//     the middle of the history;
//   - an instance whose own store is unreachable obeys the local bound burst + rate x elapsed
//     (the outage unit's oracle, per instance over its whole history);
//   - PeriodLimit: one request counter per (store, key); a take on store A never consumes
//     quota on store B, and a store error on A is not an error (nor a grant) on B.
//
// Both machines are compositions of the single-pair worlds of c03_token_test.go /
// c03_period_test.go (one c03TWorld per (store, key) pair, one c03PWorld per store): those
// keep doing the judging (reference bucket, local bound, inconclusive-case detection through
// the per-client hook counters); this file adds several miniredis servers in one process, a
// common harness clock for all of them, per-store outages, mid-history construction and one
// joint history log.

import (
	"fmt"
	"os"
	"strings"
	"sync"
	"sync/atomic"
	"testing"
	"time"

	prom "github.com/prometheus/client_golang/prometheus"
	"github.com/zeromicro/go-zero/core/limit"
	zprom "github.com/zeromicro/go-zero/core/prometheus"
	"github.com/zeromicro/go-zero/internal/verifkit"
	"pgregory.net/rapid"
)

// ------------------------------------------------------------------ servers

var (
	c03IOnce sync.Once
	c03IEnvs []*c03Env
	c03IErr  error
	c03ISeq  atomic.Int64
	// go-zero's redis client metrics are live (the PINGs of the warm-up were counted)
	c03IMetrics bool
)

// c03IndepEnvs returns n of the three process-wide servers A, B, C of the independence units
// (each a miniredis of its own with the one go-zero client, breaker and hook of its address).
func c03IndepEnvs(f failer, n int) []*c03Env {
	c03IOnce.Do(func() {
		// go-zero's redis client metrics (count of breaker-open rejections, see c03INoRejection)
		// are only kept while its prometheus support is switched on
		zprom.Enable()
		for i := 0; i < 3; i++ {
			e, err := c03NewEnv()
			if err != nil {
				c03IErr = err
				return
			}
			c03IEnvs = append(c03IEnvs, e)
		}
		_, commands, err := c03IGather()
		c03IMetrics = err == nil && commands >= 900 // 3 x 300 warm-up PINGs went through the clients
	})
	if c03IErr != nil {
		f.Skipf("inconclusive: cannot start miniredis: %v", c03IErr)
	}
	for _, e := range c03IEnvs { // a failed case may have left any of them down
		e.reset()
	}
	c03INoRejection() // reference value of the breaker-open counter for this case
	return c03IEnvs[:n]
}

// ------------------------------------------------------------------ joint log / failer

// c03IJoint is what both independence worlds share: the joint history over all stores, the
// failer that adds it to the failure messages of the single-pair worlds, and the guard.
type c03IJoint struct {
	f    failer
	st   *verifkit.Stats
	log  strings.Builder
	dead bool
	// entry a single-pair world is about to append to its own log (copied into the joint log
	// with the pair's label also when the call ends in a failure or an abandoned case)
	pend         *strings.Builder
	pendFrom     int
	pendA, pendB string
	downNow      func() []string
}

func (g *c03IJoint) logf(format string, a ...any) { fmt.Fprintf(&g.log, format, a...) }

func (g *c03IJoint) begin(b *strings.Builder, from, to string) {
	g.pend, g.pendFrom, g.pendA, g.pendB = b, b.Len(), from, to
}

func (g *c03IJoint) end() {
	if g.pend == nil {
		return
	}
	g.log.WriteString(strings.ReplaceAll(g.pend.String()[g.pendFrom:], g.pendA, g.pendB))
	g.pend = nil
}

func (g *c03IJoint) guard(f func()) {
	if g.dead {
		return
	}
	defer func() {
		if r := recover(); r != nil {
			g.end()
			if _, ok := r.(c03Abort); !ok {
				panic(r)
			}
			g.dead = true
		}
	}()
	f()
}

// untouched runs one limiter call f on the store named `on` and then requires that no other
// store executed a script meanwhile: the harness makes its calls one after the other and the
// recovery loops of the limiters only send PING, so a script execution on another store can
// only be the work of the call just made - a limiter that consumes from (or writes to) a
// store it was not constructed on.  Checked also when the single-pair world abandoned the
// call as inconclusive ("no command of the call reached its own store").
func (g *c03IJoint) untouched(what, on string, envs []*c03Env, self int, f func()) {
	before := make([]int64, len(envs))
	for i, e := range envs {
		before[i] = e.srvEvals.Load()
	}
	defer func() {
		r := recover()
		if r != nil {
			if _, ok := r.(c03Abort); !ok {
				panic(r)
			}
		}
		for i, e := range envs {
			if d := e.srvEvals.Load() - before[i]; i != self && d != 0 {
				g.end()
				g.f.Fatalf("%s is a limiter on store %s, but during its request store %s executed %d script(s): limiters that do not share a store must not touch each other's store (statement: the bucket / the counter belongs to the key on ITS store)\n  joint history over all stores: %s\n  stores unreachable now: %v",
					what, on, string(rune('A'+i)), d, g.log.String(), g.downNow())
			}
		}
		if r != nil {
			panic(r)
		}
	}()
	f()
}

// c03ITooManyAbandoned: a run in which most cases were abandoned as inconclusive has not
// checked much.  That is no verdict (only wall-clock budgets and breaker/transport
// interference abandon a case) but no pass either: like c03NoRecovery the unit ends with a
// non-FAIL exit status, which the driver reports as INFRA/inconclusive instead of OK.
func c03ITooManyAbandoned(tt *testing.T, st *verifkit.Stats, unit string, cases, abandoned int) {
	if tt.Failed() || cases < 10 || 2*abandoned <= cases {
		return
	}
	st.Note("%d of %d cases abandoned as inconclusive", abandoned, cases)
	st.Flush()
	fmt.Printf("INCONCLUSIVE: C03 %s: %d of %d cases abandoned as inconclusive\n", unit, abandoned, cases)
	os.Exit(3)
}

// c03IFailer is the failer of a single-pair world inside a joint world.
type c03IFailer struct {
	g     *c03IJoint
	label string
}

func (x c03IFailer) Fatalf(format string, a ...any) {
	x.g.end()
	x.g.f.Fatalf("[%s] %s\n  (the history above is the one of %s only; the stores and (store, key) pairs are independent limiters)\n  joint history over all stores: %s\n  stores unreachable now: %v",
		x.label, fmt.Sprintf(format, a...), x.label, x.g.log.String(), x.g.downNow())
}

func (x c03IFailer) Skipf(format string, a ...any) { x.g.f.Skipf(format, a...) }

// ------------------------------------------------------------------ token world

type c03IStore struct {
	e        *c03Env
	name     string
	down     bool
	outages  int
	glitches int
}

// c03IPair is one (store, key) pair: a single-pair token world with its own reference bucket.
type c03IPair struct {
	*c03TWorld
	s       int // index of its store
	keyName string
	label   string // "A/a"
}

type c03IWorld struct {
	c03IJoint
	envs     []*c03Env
	stores   []*c03IStore
	pairs    []*c03IPair
	prefix   string
	now      int64 // the one harness clock, ms
	insts    int
	outages  int
	glitches int
	// bookkeeping for the non-trivial rule: answers of an instance on a healthy store, compared
	// with its pair's bucket, while another store was down
	otherGrant, otherDeny bool
}

func (g *c03IWorld) pairOn(s int, keyName string) *c03IPair {
	for _, p := range g.pairs {
		if p.s == s && p.keyName == keyName {
			return p
		}
	}
	return nil
}

func (g *c03IWorld) newPair(s int, keyName string, rate, burst int) *c03IPair {
	st := g.stores[s]
	w := &c03TWorld{rate: rate, burst: burst, now: g.now, budget: 5 * time.Second}
	p := &c03IPair{c03TWorld: w, s: s, keyName: keyName, label: st.name + "/" + keyName}
	w.f, w.st, w.e = c03IFailer{&g.c03IJoint, "pair " + p.label}, g.st, st.e
	w.model = c03Bucket{rate: rate, burst: burst}
	w.key = g.prefix + keyName // the same key string on every store
	w.down = st.down
	w.logf("rate=%d burst=%d key=%q on store %s, t=%d:", rate, burst, w.key, st.name, g.now)
	g.pairs = append(g.pairs, p)
	g.logf(" PAIR(%s rate=%d burst=%d)", p.label, rate, burst)
	return p
}

// addInst constructs one more TokenLimiter on the pair (through the first redis.Redis of the
// address or another one for the same address: go-zero resolves both to one client).
func (g *c03IWorld) addInst(p *c03IPair, otherRedis bool) int {
	st := g.stores[p.s]
	store := st.e.store
	if otherRedis {
		store = st.e.newStore()
	}
	p.inst = append(p.inst, &c03TInst{lim: limit.NewTokenLimiter(p.rate, p.burst, store, p.key)})
	g.insts++
	i := len(p.inst) - 1
	p.logf(" NEW(i%d)", i)
	g.logf(" NEW(%s#%d)", p.label, i)
	return i
}

// otherDown: is a store other than s unreachable right now?
func (g *c03IWorld) otherDown(s int) bool {
	for x, st := range g.stores {
		if x != s && st.down {
			return true
		}
	}
	return false
}

// allow is one request.  Store of the pair unreachable, instance in an outage episode of its
// own, or a single failing command: judged by the pair's single-pair world (local bound of
// the instance).  Otherwise (allowJoint) the pair's reference bucket decides.
func (g *c03IWorld) allow(p *c03IPair, i, n int, ctx bool, fault int) {
	in := p.inst[i]
	joint := !p.down && !in.local && fault == c03FaultNone
	other := g.otherDown(p.s)
	g.begin(&p.log, " i", " "+p.label+"#")
	g.untouched(fmt.Sprintf("%s#%d", p.label, i), g.stores[p.s].name, g.envs, p.s, func() {
		if joint {
			g.allowJoint(p, i, n, ctx, other)
		} else {
			p.allowN(i, n, ctx, fault)
		}
	})
	g.end()
	if !joint && other {
		g.st.Class("allow:local-while-another-store-is-down-too")
	}
}

// allowJoint: the pair's store is reachable and has been for the whole life of the instance
// or since it was seen back on the store: "instances sharing a key and a reachable store
// jointly behave as one token bucket ... granted iff the bucket holds n" - the answer must
// be the one of the pair's reference bucket, whatever the other stores are doing.
//
// This is the reachable-store branch of c03TWorld.allowN with one difference.  There, a call
// of which no command got past the client's breaker is abandoned as inconclusive.  Here the
// harness knows more: the breaker-open rejections of the redis clients are counted by
// go-zero's own metric redis_client_requests_error_total{error="breaker open"}; if that did
// not move and no transport error happened, nothing kept the limiter from asking its
// (reachable) store - it answered on its own, e.g. because an outage of ANOTHER store put it
// into local mode.  Such an answer is judged like any other: it has to equal the bucket's.
func (g *c03IWorld) allowJoint(p *c03IPair, i, n int, ctx, other bool) {
	in, e := p.inst[i], p.e
	pr := e.probe()
	got := p.call(in, n, ctx)
	// a call that did not reach the store stays inconclusive unless it is certain that no
	// breaker rejected a command
	rejected := !e.reached(pr) && !c03INoRejection()
	held := p.model.peek(p.sec())
	want := p.model.take(p.sec(), n)
	p.logf(" i%d.allow(%d)=%s", i, n, tf(got))
	if rejected || e.transported(pr) || (e.reached(pr) && e.executed(pr) != 1) {
		p.abort("allowN: breaker/transport interfered (reached=%v breaker-open rejection possible=%v transport=%v executions=%d)",
			e.reached(pr), rejected, e.transported(pr), e.executed(pr))
	}
	asked := e.reached(pr)
	if got != want {
		how := ""
		if !asked {
			how = fmt.Sprintf("; the limiter did not ask its store (no command sent, none rejected by a breaker), it consults the store: %v", in.lim.VerifAlive())
		}
		p.fail("instance %d on %s: request for %d tokens answered %v, but the bucket of this (store, key) holds %d (statement: instances sharing a key and a reachable store behave as one bucket, granted iff the bucket holds n); store %s is reachable and was for the whole life of the instance or since it was seen back on it; other stores unreachable at this moment: %v%s",
			i, p.label, n, got, held, g.stores[p.s].name, g.downNames(), how)
	}
	g.st.Class("allow:joint-" + tf(got))
	if !asked {
		// allowed to go on: the answer was right; the bucket and the store now differ by this
		// request, which the next answers will show
		g.st.Class("allow:joint-answered-without-asking-the-store")
	}
	if got {
		in.granted += n
	}
	if p.recovered > 0 {
		p.afterRecovery++
	}
	if other {
		// an answer of an instance on a healthy store, equal to its bucket's, while another
		// store is down
		g.st.Class("outage-on-other-store")
		if got && n >= 1 {
			g.otherGrant = true
		}
		if !got && n <= p.burst {
			g.otherDeny = true
		}
	}
}

// c03INoRejection: it is certain that no redis client's breaker has rejected a command since
// the previous call of this function (every case starts with one): go-zero's counter
// redis_client_requests_error_total{error="breaker open"} (all commands, all clients of the
// process) has not moved.  Reading the registry is not free, so the counter is read at the
// start of a case and then only for calls that did not reach their store; a rejection
// anywhere in between makes the answer "not certain" (the call stays inconclusive).
func c03INoRejection() bool {
	if !c03IMetrics {
		return false
	}
	open, _, err := c03IGather()
	if err != nil {
		c03IOpenSeen = -1
		return false
	}
	same := open == c03IOpenSeen
	c03IOpenSeen = open
	return same
}

var c03IOpenSeen float64 = -1

// c03IGather reads go-zero's redis client metrics from the default registry: breaker-open
// rejections and the number of commands the clients have timed.
func c03IGather() (breakerOpen float64, commands uint64, err error) {
	mfs, err := prom.DefaultGatherer.Gather()
	if err != nil {
		return 0, 0, err
	}
	for _, mf := range mfs {
		switch mf.GetName() {
		case "redis_client_requests_error_total":
			for _, m := range mf.GetMetric() {
				for _, l := range m.GetLabel() {
					if l.GetName() == "error" && l.GetValue() == "breaker open" {
						breakerOpen += m.GetCounter().GetValue()
					}
				}
			}
		case "redis_client_requests_duration_ms":
			for _, m := range mf.GetMetric() {
				commands += m.GetHistogram().GetSampleCount()
			}
		}
	}
	return
}

func (g *c03IWorld) advance(d int64) {
	if d <= 0 {
		return
	}
	for _, st := range g.stores { // a store that answers errors still ages its keys
		st.e.mr.FastForward(time.Duration(d) * time.Millisecond)
	}
	g.now += d
	for _, p := range g.pairs {
		p.now = g.now
		p.logf(" +%dms", d)
	}
	g.logf(" +%dms", d)
}

func (g *c03IWorld) storeDown(x int) bool {
	st := g.stores[x]
	if st.down || st.outages >= 2 || g.outages >= 4 {
		return false
	}
	st.outages++
	g.outages++
	st.down = true
	st.e.down.Store(true)
	for _, p := range g.pairs {
		if p.s == x {
			p.down = true
			p.logf(" DOWN")
		}
	}
	g.logf(" DOWN(%s)", st.name)
	g.st.Class("store:down")
	if g.otherDown(x) {
		g.st.Class("store:down-while-another-is-down")
	}
	return true
}

// storeUp makes the store reachable again and waits (wall clock, budget, overrun =
// inconclusive) until every instance on it consults it again.
func (g *c03IWorld) storeUp(x int) {
	st := g.stores[x]
	if !st.down {
		return
	}
	st.down = false
	st.e.down.Store(false)
	g.logf(" UP(%s)", st.name)
	for _, p := range g.pairs {
		if p.s == x {
			p.down = false
			p.logf(" UP")
		}
	}
	for _, p := range g.pairs {
		if p.s == x {
			p.waitAlive(p.all())
		}
	}
	g.logf(" recovered(%s)", st.name)
	g.st.Class("store:up")
}

// probe: on a pair whose store is healthy, take all the bucket holds (a grant the bucket
// predicts), ask another instance (if there is one) for one more (a denial it predicts),
// let `gap` ms pass and ask again.
func (g *c03IWorld) probe(p *c03IPair, j1, j2 int, gap int64) {
	j1, j2 = j1%len(p.inst), j2%len(p.inst)
	g.allow(p, j1, p.model.peek(p.sec()), false, c03FaultNone)
	g.allow(p, j2, 1, false, c03FaultNone)
	g.advance(gap)
	g.allow(p, j2, 1, true, c03FaultNone)
}

func (g *c03IWorld) downNames() []string {
	var d []string
	for _, st := range g.stores {
		if st.down {
			d = append(d, st.name)
		}
	}
	return d
}

func c03IDrawSize(t *rapid.T, label string) int {
	// resolved against the pair's burst: -1 = burst, -2 = burst+1, -3 = half of it
	return rapid.SampledFrom([]int{-1, -1, 1, 1, 0, -2, -3}).Draw(t, label)
}

func c03ISize(code, burst int) int {
	switch code {
	case -1:
		return burst
	case -2:
		return burst + 1
	case -3:
		return (burst + 1) / 2
	}
	return code
}

func TestVerifC03TokenIndependence(t *testing.T) {
	st := verifkit.New("token-independence")
	defer st.Flush()
	tt := t
	cases, abandoned := 0, 0
	rapid.Check(t, func(t *rapid.T) {
		c03NoRecovery(tt, st)
		st.Eval()
		cases++
		nStores := rapid.SampledFrom([]int{2, 2, 3}).Draw(t, "stores")
		envs := c03IndepEnvs(t, nStores)
		g := &c03IWorld{now: c03DrawT0(t), envs: envs}
		defer func() {
			if g.dead {
				abandoned++
			}
		}()
		g.f, g.st = t, st
		g.downNow = g.downNames
		if !c03IMetrics {
			st.Class("inconclusive:redis-client-metrics-not-readable")
		}
		g.prefix = fmt.Sprintf("c03i:%d:", c03ISeq.Add(1))
		for i, e := range envs {
			e.mr.FlushAll()
			e.pad(80) // see "breaker" in check.json: the few injected errors stay far below its threshold
			g.stores = append(g.stores, &c03IStore{e: e, name: string(rune('A' + i))})
		}
		g.logf("stores=%d t0=%d:", nStores, g.now)
		keyNames := []string{"a", "b"}
		pickStore := rapid.IntRange(0, nStores-1)
		pickKey := rapid.SampledFrom(keyNames)

		// 2-4 pairs on at least two stores, 2-6 instances; some pairs get two or three instances
		nPairs := rapid.IntRange(2, 4).Draw(t, "pairs")
		for x := 0; x < nPairs; x++ {
			s, k := x, "a"
			if x == 1 {
				k = pickKey.Draw(t, "key")
			}
			if x >= 2 {
				s, k = pickStore.Draw(t, "store"), pickKey.Draw(t, "key")
			}
			p := g.pairOn(s, k)
			if p == nil {
				rate, burst := c03DrawConfig(t, st)
				p = g.newPair(s, k, rate, burst)
			}
			g.addInst(p, len(p.inst)%2 == 1)
		}
		for extra := rapid.IntRange(0, 6-g.insts).Draw(t, "extraInstances"); extra > 0; extra-- {
			p := g.pairs[rapid.IntRange(0, len(g.pairs)-1).Draw(t, "pair")]
			g.addInst(p, len(p.inst)%2 == 1)
		}

		pickPair := func(t *rapid.T) *c03IPair {
			return g.pairs[rapid.IntRange(0, len(g.pairs)-1).Draw(t, "pair")]
		}
		pickInst := func(t *rapid.T, p *c03IPair, label string) int {
			return rapid.IntRange(0, len(p.inst)-1).Draw(t, label)
		}

		t.Repeat(map[string]func(*rapid.T){
			"allow": func(t *rapid.T) {
				p := pickPair(t)
				i, n, ctx := pickInst(t, p, "inst"), c03DrawN(t, p.c03TWorld), rapid.Bool().Draw(t, "ctx")
				g.guard(func() { g.allow(p, i, n, ctx, c03FaultNone) })
			},
			"drain": func(t *rapid.T) {
				p := pickPair(t)
				i, j := pickInst(t, p, "inst"), pickInst(t, p, "inst2")
				g.guard(func() {
					if p.down {
						return
					}
					g.allow(p, i, p.model.peek(p.sec()), false, c03FaultNone)
					g.allow(p, j, 1, false, c03FaultNone)
				})
			},
			"advance": func(t *rapid.T) {
				d := c03DrawAdvance(t, pickPair(t).c03TWorld)
				g.guard(func() { g.advance(d) })
			},
			"down": func(t *rapid.T) {
				x := pickStore.Draw(t, "store")
				g.guard(func() { g.storeDown(x) })
			},
			"up": func(t *rapid.T) {
				x := pickStore.Draw(t, "store")
				g.guard(func() { g.storeUp(x) })
			},
			"construct": func(t *rapid.T) {
				// a new limiter in the middle of the history: on an existing pair (joins that
				// pair's bucket as it is) or on a (store, key) not used so far (a bucket of its own)
				s, k := pickStore.Draw(t, "store"), rapid.SampledFrom([]string{"a", "b", "c"}).Draw(t, "key")
				rate, burst := c03DrawConfig(t, st)
				other := rapid.Bool().Draw(t, "otherRedis")
				first := c03IDrawSize(t, "first")
				g.guard(func() {
					p := g.pairOn(s, k)
					if g.insts >= 8 || (p == nil && len(g.pairs) >= 5) {
						return
					}
					if p == nil {
						p = g.newPair(s, k, rate, burst)
						st.Class("construct:new-pair")
					} else {
						st.Class("construct:joins-pair")
					}
					i := g.addInst(p, other)
					switch {
					case g.stores[s].down:
						st.Class("construct-during-outage")
						st.Class("construct-during-outage:own-store")
					case g.otherDown(s):
						st.Class("construct-during-outage")
						st.Class("construct-during-outage:other-store")
					}
					g.allow(p, i, c03ISize(first, p.burst), false, c03FaultNone)
				})
			},
			"glitch": func(t *rapid.T) {
				// one command of one instance fails at the client while its store is fine
				p := pickPair(t)
				i, n := pickInst(t, p, "inst"), c03DrawN(t, p.c03TWorld)
				fl := rapid.SampledFrom([]int{c03FaultPre, c03FaultPre, c03FaultPost}).Draw(t, "kind")
				g.guard(func() {
					s := g.stores[p.s]
					if s.down || s.glitches >= 1 || g.glitches >= 2 || p.inst[i].local {
						return
					}
					s.glitches++
					g.glitches++
					g.allow(p, i, n, false, fl)
					p.waitAlive([]int{i})
					g.logf(" recovered(%s#%d)", p.label, i)
				})
			},
			"crossOutage": func(t *rapid.T) {
				// store X goes down (or is down already), a drawn subset of the instances on X
				// asks (and so notices), a pair on a healthy store is probed, optionally X comes
				// back and the healthy pair is probed again
				x := pickStore.Draw(t, "down")
				p := pickPair(t)
				who := rapid.IntRange(0, 255).Draw(t, "who")
				ns := rapid.SliceOfN(rapid.Custom(func(t *rapid.T) int { return c03IDrawSize(t, "n") }), 1, 3).Draw(t, "ns")
				j1, j2 := rapid.IntRange(0, 7).Draw(t, "inst"), rapid.IntRange(0, 7).Draw(t, "inst2")
				gap := rapid.SampledFrom([]int64{0, 0, 1, 400, 1000, 2000}).Draw(t, "gap")
				gap2 := rapid.SampledFrom([]int64{0, 1, 1000}).Draw(t, "gap2")
				bringUp, again := rapid.Bool().Draw(t, "bringUp"), rapid.Bool().Draw(t, "probeAfterRecovery")
				g.guard(func() {
					if p.s == x || p.down {
						return
					}
					if !g.stores[x].down && !g.storeDown(x) {
						return
					}
					bit := 0
					for _, q := range g.pairs {
						if q.s != x {
							continue
						}
						for i := range q.inst {
							if who&(1<<(bit%8)) != 0 {
								for _, n := range ns {
									g.allow(q, i, c03ISize(n, q.burst), false, c03FaultNone)
								}
							}
							bit++
						}
					}
					g.probe(p, j1, j2, gap)
					if bringUp {
						g.storeUp(x)
						if again {
							st.Class("probe:after-recovery-of-other-store")
							g.probe(p, j2, j1, gap2)
						}
					}
				})
			},
		})
		for _, s := range g.stores {
			s.e.down.Store(false)
		}
		if g.dead {
			return
		}
		g.guard(func() { // leave no instance behind in its ping loop
			for x := range g.stores {
				g.storeUp(x)
			}
		})
		if g.dead {
			return
		}
		shared, sameKey, twoKeys := false, false, false
		for a, p := range g.pairs {
			if len(p.inst) >= 2 {
				shared = true
			}
			for _, q := range g.pairs[a+1:] {
				if p.keyName == q.keyName && p.s != q.s {
					sameKey = true
				}
				if p.keyName != q.keyName && p.s == q.s {
					twoKeys = true
				}
			}
		}
		if shared {
			st.Class("pairs-shared")
		}
		if sameKey {
			st.Class("case:same-key-on-two-stores")
		}
		if twoKeys {
			st.Class("case:two-keys-on-one-store")
		}
		if nStores == 3 {
			st.Class("case:three-stores")
		}
		if g.otherGrant && g.otherDeny {
			st.Class("case:nontrivial")
			st.NonTrivial(g.log.String())
		}
	})
	c03NoRecovery(tt, st)
	c03ITooManyAbandoned(tt, st, "token-independence", cases, abandoned)
}

// ------------------------------------------------------------------ period world

// c03IPWorld: one c03PWorld (per-key request counters) per store, all with the same key
// prefix and the same key names.
type c03IPWorld struct {
	c03IJoint
	envs    []*c03Env
	ws      []*c03PWorld
	names   []string
	now     int64
	faults  int
	crossed bool // non-trivial rule
}

func (g *c03IPWorld) take(s, li, ki, fault int, otherDown bool) int {
	w := g.ws[s]
	li %= len(w.lims)
	if otherDown {
		// every other store answers errors while this one is asked
		for x, o := range g.ws {
			if x != s {
				o.e.down.Store(true)
			}
		}
		g.logf(" [others down:")
		g.st.Class("take:other-store-down")
	}
	g.begin(&w.log, " take", " "+g.names[s]+":take")
	var code int
	g.untouched(fmt.Sprintf("%s:lim%d", g.names[s], li), g.names[s], g.envs, s, func() {
		if fault != c03FaultNone {
			code = w.take(li, ki, fault)
		} else {
			code = g.takePlain(w, g.names[s], li, ki)
		}
	})
	g.end()
	if otherDown {
		for _, o := range g.ws {
			o.e.down.Store(false)
		}
		g.logf("]")
	}
	// non-trivial: granted here although the same key is over its quota, in a period that is
	// still running, on another store
	if fault == c03FaultNone && (code == limit.Allowed || code == limit.HitQuota) {
		for x, o := range g.ws {
			k := o.keys[ki]
			if x != s && k.active && g.now < k.end && k.count > o.quota {
				g.crossed = true
			}
		}
	}
	return code
}

// takePlain is a request without an injected fault: the no-fault branch of c03PWorld.take
// ("request #i of the period on this store's key: i<quota Allowed, i=quota HitQuota, later
// OverQuota"), with the difference described at allowJoint: a call of which no command
// reached the store although no breaker rejected one is not abandoned, its answer is judged.
func (g *c03IPWorld) takePlain(w *c03PWorld, store string, li, ki int) int {
	k, l := w.keys[ki], w.lims[li]
	w.roll(k)
	pr := w.e.probe()
	code, err := l.Take(k.name)
	rejected := !w.e.reached(pr) && !c03INoRejection()
	w.logf(" take%d(%s)=%s", li, k.name, c03CodeName(code))
	if rejected || w.e.transported(pr) || (w.e.reached(pr) && w.e.executed(pr) != 1) {
		w.abort("take: breaker/transport interfered (reached=%v breaker-open rejection possible=%v transport=%v executions=%d err=%v)",
			w.e.reached(pr), rejected, w.e.transported(pr), w.e.executed(pr), err)
	}
	how := ""
	if !w.e.reached(pr) {
		how = " (the limiter did not ask its store: no command sent, none rejected by a breaker)"
		g.st.Class("take:answered-without-asking-the-store")
	}
	if err != nil {
		w.fail("take on %s of store %s returned error %v (code %s) although that store is reachable%s (statement: the first `quota` requests of a period are granted; only a store error is reported as an error)",
			k.name, store, err, c03CodeName(code), how)
	}
	k.count++
	if want := c03Expect(k.count, w.quota); code != want {
		w.fail("request #%d of the period on key %s of store %s answered %s, statement requires %s (quota %d; one counter per key of a store: requests on other stores do not count)%s",
			k.count, k.name, store, c03CodeName(code), c03CodeName(want), w.quota, how)
	}
	if k.count == 1 {
		w.start(k)
	}
	if k.count >= w.quota {
		k.hit = true
	}
	if k.crossed && (code == limit.Allowed || code == limit.HitQuota) {
		k.regrant = true
	}
	g.st.Class("take:" + c03CodeName(code))
	return code
}

// forward moves the one clock of all stores; the exact end of a running period is avoided
// on every store (see c03PWorld.forward).
func (g *c03IPWorld) forward(d int64) {
	if d < 0 {
		d = 0
	}
	for again := true; again; {
		again = false
		for _, w := range g.ws {
			for _, k := range w.keys {
				if k.active && g.now+d == k.end {
					d++
					again = true
				}
			}
		}
	}
	for _, w := range g.ws {
		w.forward(d) // nothing left to nudge: every store moves by the same d
	}
	g.now += d
	g.logf(" +%dms", d)
}

func TestVerifC03PeriodIndependence(t *testing.T) {
	st := verifkit.New("period-independence")
	defer st.Flush()
	tt := t
	cases, abandoned := 0, 0
	rapid.Check(t, func(t *rapid.T) {
		st.Eval()
		cases++
		nStores := rapid.SampledFrom([]int{2, 2, 3}).Draw(t, "stores")
		envs := c03IndepEnvs(t, nStores)
		g := &c03IPWorld{envs: envs}
		defer func() {
			if g.dead {
				abandoned++
			}
		}()
		g.f, g.st = t, st
		g.downNow = func() []string { return nil }
		prefix := fmt.Sprintf("c03pi:%d:", c03ISeq.Add(1))
		nk := rapid.IntRange(1, 2).Draw(t, "keys")
		sameConf := rapid.Bool().Draw(t, "sameConfig")
		period, quota := rapid.IntRange(1, 5).Draw(t, "period"), rapid.IntRange(1, 6).Draw(t, "quota")
		for i, e := range envs {
			e.mr.FlushAll()
			e.pad(12)
			w := &c03PWorld{period: period, quota: quota, prefix: prefix}
			if !sameConf && i > 0 {
				w.period, w.quota = rapid.IntRange(1, 5).Draw(t, "period"), rapid.IntRange(1, 6).Draw(t, "quota")
			}
			name := string(rune('A' + i))
			w.f, w.st, w.e = c03IFailer{&g.c03IJoint, "store " + name}, st, e
			nl := 1
			if i == 0 {
				nl = rapid.IntRange(1, 2).Draw(t, "limiters")
			}
			for l := 0; l < nl; l++ {
				store := e.store
				if l > 0 {
					store = e.newStore()
				}
				w.lims = append(w.lims, limit.NewPeriodLimit(w.period, w.quota, store, prefix))
			}
			for k := 0; k < nk; k++ { // the same key names on every store
				w.keys = append(w.keys, &c03PKey{name: string(rune('a' + k))})
			}
			w.logf("store %s period=%d quota=%d lims=%d:", name, w.period, w.quota, nl)
			g.logf(" STORE(%s period=%d quota=%d lims=%d)", name, w.period, w.quota, nl)
			g.ws = append(g.ws, w)
			g.names = append(g.names, name)
		}
		pickS := rapid.IntRange(0, nStores-1)
		pickK := rapid.IntRange(0, nk-1)
		pickL := rapid.IntRange(0, 1)
		t.Repeat(map[string]func(*rapid.T){
			"take": func(t *rapid.T) {
				s, li, ki := pickS.Draw(t, "store"), pickL.Draw(t, "lim"), pickK.Draw(t, "key")
				fault, other := c03FaultNone, false
				switch rapid.IntRange(0, 29).Draw(t, "fault") {
				case 0:
					fault = c03FaultPre
				case 1:
					fault = c03FaultDown
				case 2:
					fault = c03FaultPost
				case 3, 4, 5, 6:
					other = true // costs no store error: nothing is sent to the other stores
				}
				g.guard(func() {
					if g.faults >= 2 { // sparse: the clients' breakers stay out of the picture
						fault = c03FaultNone
					}
					if fault != c03FaultNone {
						g.faults++
					}
					g.take(s, li, ki, fault, other)
				})
			},
			"exhaustOne": func(t *rapid.T) {
				// one store's quota on a key is used up (one past it), then the same key is asked on
				// another store
				s, s2, ki := pickS.Draw(t, "store"), pickS.Draw(t, "store2"), pickK.Draw(t, "key")
				g.guard(func() {
					for i := 0; i < g.ws[s].quota+2; i++ {
						if g.take(s, i, ki, c03FaultNone, false) == limit.OverQuota {
							break
						}
					}
					g.take(s2, 0, ki, c03FaultNone, false)
				})
			},
			"forward": func(t *rapid.T) {
				w := g.ws[pickS.Draw(t, "store")]
				var d int64
				switch rapid.IntRange(0, 3).Draw(t, "mode") {
				case 0:
					d = rapid.Int64Range(0, 30).Draw(t, "ms")
				case 1, 2: // around the end of a running period of one store
					k := w.keys[pickK.Draw(t, "key")]
					off := rapid.SampledFrom([]int64{-1, 1, 1, -2, 2, 500}).Draw(t, "off")
					if k.active && k.end+off > g.now {
						d = k.end + off - g.now
					} else {
						d = int64(w.period)*1000 + off
					}
				default:
					d = rapid.Int64Range(0, int64(w.period)*1000+500).Draw(t, "msAny")
				}
				g.guard(func() { g.forward(d) })
			},
		})
		for _, w := range g.ws {
			w.e.down.Store(false)
		}
		if g.dead {
			return
		}
		if sameConf {
			st.Class("case:same-config-on-all-stores")
		}
		if g.crossed {
			st.Class("case:nontrivial")
			st.NonTrivial(g.log.String())
		}
	})
	c03ITooManyAbandoned(tt, st, "period-independence", cases, abandoned)
}
