//go:build verif

package limit_test

// PeriodLimit part of C03: "For each key, within one period a PeriodLimit grants exactly
// the first `quota` requests (the quota-th flagged HitQuota) and answers OverQuota to all
// later ones until the period expires, no matter how the requests interleave; a store
// error is reported as an error, never as a grant."
//
// Model (per key): the number of requests seen in the running period and the virtual
// instant at which that period ends (= instant of its first request + period; with Align()
// the first request's TTL is read back from the store and must lie in [1 s, period]).

import (
	"fmt"
	"strconv"
	"sync"
	"testing"
	"time"

	"github.com/zeromicro/go-zero/core/limit"
	"github.com/zeromicro/go-zero/internal/verifkit"
	"pgregory.net/rapid"
)

const (
	c03FaultNone = iota
	c03FaultPre  // client-side failure, command never sent
	c03FaultPost // command executed, reply replaced by an error
	c03FaultDown // server answers the command with an error reply
)

var c03FaultName = map[int]string{c03FaultPre: "pre", c03FaultPost: "post", c03FaultDown: "down"}

func c03CodeName(c int) string {
	switch c {
	case limit.Unknown:
		return "Unknown"
	case limit.Allowed:
		return "Allowed"
	case limit.HitQuota:
		return "HitQuota"
	case limit.OverQuota:
		return "OverQuota"
	}
	return fmt.Sprintf("code(%d)", c)
}

// c03Expect is the statement's verdict for the i-th request (1-based) of a period.
func c03Expect(i, quota int) int {
	switch {
	case i < quota:
		return limit.Allowed
	case i == quota:
		return limit.HitQuota
	default:
		return limit.OverQuota
	}
}

type c03PKey struct {
	name   string
	active bool  // a period is running
	end    int64 // virtual ms at which it ends
	count  int   // requests seen in it
	// bookkeeping for the non-trivial rule only
	hit      bool // quota reached in the running period
	crossed  bool // a period in which the quota was reached has expired
	regrant  bool // ... and a later request was granted
	crossing int
}

type c03PWorld struct {
	c03Case
	period, quota int
	align         bool
	prefix        string
	lims          []*limit.PeriodLimit
	keys          []*c03PKey
	now           int64
	faults        int
}

func (w *c03PWorld) fail(format string, a ...any) {
	msg := fmt.Sprintf(format, a...)
	w.st.Sample("FAILING: " + msg + " | " + w.log.String())
	var ks []string
	for _, k := range w.keys {
		v, _ := w.e.mr.Get(w.prefix + k.name)
		ks = append(ks, fmt.Sprintf("%s: model active=%v count=%d end=%d; store value=%q ttl=%v",
			k.name, k.active, k.count, k.end, v, w.e.mr.TTL(w.prefix+k.name)))
	}
	w.f.Fatalf("%s\n  period=%ds quota=%d align=%v, virtual t=%dms\n  history: %s\n  %v",
		msg, w.period, w.quota, w.align, w.now, w.log.String(), ks)
}

// roll ends the key's period if the virtual clock is past it.
func (w *c03PWorld) roll(k *c03PKey) {
	if k.active && w.now > k.end {
		if k.hit {
			k.crossed = true
		}
		k.active, k.count, k.hit = false, 0, false
		k.crossing++
		w.st.Class("period:expired")
	}
}

// start is called after the first counted request of a period.
func (w *c03PWorld) start(k *c03PKey) {
	k.active = true
	k.end = w.now + int64(w.period)*1000
	if w.align {
		// Align() derives the TTL from the wall clock; all the statement needs is that the
		// period is not longer than configured and not empty.
		ttl := w.e.mr.TTL(w.prefix + k.name)
		if ttl < time.Second || ttl > time.Duration(w.period)*time.Second {
			w.fail("first request of a period on %s (Align) left TTL %v, want within [1s, %ds]", k.name, ttl, w.period)
		}
		k.end = w.now + ttl.Milliseconds()
	}
}

// resync follows the store after a faulty request: the statement does not say whether a
// request that ended in a store error counts; the counter in Redis does.
func (w *c03PWorld) resync(k *c03PKey) {
	v, err := w.e.mr.Get(w.prefix + k.name)
	n := 0
	if err == nil {
		n, _ = strconv.Atoi(v)
	}
	if n != k.count && n != k.count+1 {
		w.fail("after a faulty request the store counts %d requests on %s, model %d", n, k.name, k.count)
	}
	if n == k.count+1 {
		w.st.Class("fault:request-counted")
		k.count = n
		if !k.active {
			w.start(k)
		}
		if k.count >= w.quota {
			k.hit = true
		}
	}
}

func (w *c03PWorld) take(li, ki, fault int) int {
	k, l := w.keys[ki], w.lims[li]
	w.roll(k)
	p := w.e.probe()
	switch fault {
	case c03FaultPre:
		w.e.failPre.Store(1)
	case c03FaultPost:
		w.e.failPost.Store(1)
	case c03FaultDown:
		w.e.down.Store(true)
	}
	code, err := l.Take(k.name)
	w.e.down.Store(false)
	w.e.failPre.Store(0)
	w.e.failPost.Store(0)
	if fault != c03FaultNone {
		w.faults++
		w.logf(" take%d(%s)!%s=%s", li, k.name, c03FaultName[fault], c03CodeName(code))
		w.st.Class("take:fault-" + c03FaultName[fault])
		if !w.e.reached(p) {
			w.abort("faulty take: no script command passed the breaker (err %v)", err)
		}
		if err == nil {
			w.fail("store error (%s) on %s was reported as %s without an error (statement: a store error is reported as an error)",
				c03FaultName[fault], k.name, c03CodeName(code))
		}
		if code == limit.Allowed || code == limit.HitQuota {
			w.fail("store error (%s) on %s came back as grant %s with err %v (statement: never as a grant)",
				c03FaultName[fault], k.name, c03CodeName(code), err)
		}
		w.resync(k)
		return code
	}
	w.logf(" take%d(%s)=%s", li, k.name, c03CodeName(code))
	if !w.e.reached(p) || w.e.transported(p) || !w.oneExecution(p) {
		w.abort("take: breaker/transport interfered (reached=%v transport=%v executions=%d err=%v)",
			w.e.reached(p), w.e.transported(p), w.e.executed(p), err)
	}
	if err != nil {
		w.fail("take on %s returned error %v (code %s) although the store is reachable and received the command (statement: the first `quota` requests of a period are granted)", k.name, err, c03CodeName(code))
	}
	w.flushPending = false
	k.count++
	want := c03Expect(k.count, w.quota)
	if code != want {
		w.fail("request #%d of the period on %s answered %s, statement requires %s (quota %d)",
			k.count, k.name, c03CodeName(code), c03CodeName(want), w.quota)
	}
	if k.count == 1 {
		w.start(k)
	}
	if k.count >= w.quota {
		k.hit = true
	}
	if k.crossed && (code == limit.Allowed || code == limit.HitQuota) {
		k.regrant = true
	}
	w.st.Class("take:" + c03CodeName(code))
	return code
}

// forward moves the store's clock; the exact instant a period ends is avoided (Redis
// expires at now > deadline, miniredis at TTL <= 0 — the statement does not say which).
func (w *c03PWorld) forward(d int64) {
	if d < 0 {
		d = 0
	}
	for again := true; again; {
		again = false
		for _, k := range w.keys {
			if k.active && w.now+d == k.end {
				d++
				again = true
				w.st.Class("forward:nudged-off-deadline")
			}
		}
	}
	if d > 0 {
		w.e.mr.FastForward(time.Duration(d) * time.Millisecond)
		w.now += d
	}
	w.logf(" +%dms", d)
}

func TestVerifC03PeriodMachine(t *testing.T) {
	st := verifkit.New("period")
	defer st.Flush()
	rapid.Check(t, func(t *rapid.T) { c03PeriodCase(t, st, false) })
}

// The Align() variant is a test of its own: there the length of a period comes from the
// wall clock, so a failing case need not fail again when rapid re-runs it while shrinking
// ("flaky test" in rapid's report; still a failure).  The plain machine stays replayable.
func TestVerifC03PeriodAlign(t *testing.T) {
	st := verifkit.New("period-align")
	defer st.Flush()
	rapid.Check(t, func(t *rapid.T) { c03PeriodCase(t, st, true) })
}

func c03PeriodCase(t *rapid.T, st *verifkit.Stats, align bool) {
	{
		st.Eval()
		e := c03Server(t)
		e.mr.FlushAll()
		// <= 2 injected failures per case against >= 12 accepted commands: the client's breaker
		// (rejects when failures exceed 5 + accepts/2 in its window) stays closed even while
		// rapid shrinks towards cases that consist of little more than the faults
		e.pad(12)
		w := &c03PWorld{
			period: rapid.IntRange(1, 5).Draw(t, "period"),
			quota:  rapid.IntRange(1, 8).Draw(t, "quota"),
			align:  align,
		}
		w.f, w.st, w.e = t, st, e
		w.prefix = fmt.Sprintf("c03p:%d:", e.seq.Add(1))
		nl := rapid.IntRange(1, 2).Draw(t, "limiters")
		nk := rapid.IntRange(1, 3).Draw(t, "keys")
		for i := 0; i < nl; i++ {
			store := e.store
			if i > 0 {
				store = e.newStore()
			}
			if w.align {
				w.lims = append(w.lims, limit.NewPeriodLimit(w.period, w.quota, store, w.prefix, limit.Align()))
			} else {
				w.lims = append(w.lims, limit.NewPeriodLimit(w.period, w.quota, store, w.prefix))
			}
		}
		for i := 0; i < nk; i++ {
			w.keys = append(w.keys, &c03PKey{name: string(rune('a' + i))})
		}
		w.logf("period=%d quota=%d align=%v lims=%d:", w.period, w.quota, w.align, nl)
		pickL := rapid.IntRange(0, nl-1)
		pickK := rapid.IntRange(0, nk-1)
		drawFault := func(t *rapid.T) int {
			if w.faults >= 2 { // sparse: the client's breaker must stay out of the picture
				return c03FaultNone
			}
			switch rapid.IntRange(0, 39).Draw(t, "fault") {
			case 0:
				return c03FaultPre
			case 1:
				return c03FaultPost
			case 2:
				return c03FaultDown
			}
			return c03FaultNone
		}
		t.Repeat(map[string]func(*rapid.T){
			"take": func(t *rapid.T) {
				li, ki, fl := pickL.Draw(t, "lim"), pickK.Draw(t, "key"), drawFault(t)
				w.guard(func() { w.take(li, ki, fl) })
			},
			"exhaust": func(t *rapid.T) {
				// up to and one past the quota
				li, ki := pickL.Draw(t, "lim"), pickK.Draw(t, "key")
				w.guard(func() {
					for i := 0; i < w.quota+2; i++ {
						if w.take((li+i)%len(w.lims), ki, c03FaultNone) == limit.OverQuota {
							break
						}
					}
				})
			},
			"lose": func(t *rapid.T) {
				// the server loses its script cache; with its data the running periods are gone
				drop := rapid.IntRange(0, 2).Draw(t, "drop") == 0
				w.guard(func() {
					if w.losses >= 2 {
						return
					}
					w.lose(drop)
					if drop {
						for _, k := range w.keys {
							k.active, k.count, k.hit = false, 0, false
						}
					}
				})
			},
			"forward": func(t *rapid.T) {
				var d int64
				switch rapid.IntRange(0, 4).Draw(t, "mode") {
				case 0:
					d = rapid.Int64Range(0, 30).Draw(t, "ms")
				case 1, 2: // around the end of a running period
					k := w.keys[pickK.Draw(t, "key")]
					off := rapid.SampledFrom([]int64{-1, 1, 1, -2, 2, 500}).Draw(t, "off")
					if k.active && k.end+off > w.now {
						d = k.end + off - w.now
					} else {
						d = int64(w.period)*1000 + off
					}
				case 3:
					d = 1000 * rapid.Int64Range(1, int64(w.period)).Draw(t, "s")
				default:
					d = rapid.Int64Range(0, int64(w.period)*1000+500).Draw(t, "ms")
				}
				w.guard(func() { w.forward(d) })
			},
		})
		if w.dead {
			return
		}
		nt := false
		for _, k := range w.keys {
			if k.regrant {
				nt = true
			}
			if k.crossing > 0 {
				st.Class("case:period-boundary-crossed")
			}
		}
		if nt {
			st.Class("case:nontrivial")
			st.NonTrivial(w.log.String())
		}
	}
}

// Concurrent part: G goroutines x n takes on one key at a frozen store clock.
func TestVerifC03PeriodConcurrent(t *testing.T) {
	st := verifkit.New("period-concurrent")
	defer st.Flush()
	rapid.Check(t, func(t *rapid.T) {
		st.Eval()
		e := c03Server(t)
		e.mr.FlushAll()
		w := &c03PWorld{
			period: rapid.IntRange(1, 5).Draw(t, "period"),
			quota:  rapid.IntRange(1, 12).Draw(t, "quota"),
		}
		w.f, w.st, w.e = t, st, e
		w.prefix = fmt.Sprintf("c03pc:%d:", e.seq.Add(1))
		nl := rapid.IntRange(1, 3).Draw(t, "limiters")
		for i := 0; i < nl; i++ {
			w.lims = append(w.lims, limit.NewPeriodLimit(w.period, w.quota, e.newStore(), w.prefix))
		}
		k := &c03PKey{name: "k"}
		w.keys = []*c03PKey{k}
		w.logf("period=%d quota=%d lims=%d:", w.period, w.quota, nl)
		rounds := rapid.IntRange(1, 3).Draw(t, "rounds")
		contended, crossedAfterHit := false, false
		w.guard(func() {
			for r := 0; r < rounds; r++ {
				if r > 0 {
					var d int64
					switch rapid.IntRange(0, 2).Draw(t, "gap") {
					case 0:
						d = rapid.Int64Range(0, 200).Draw(t, "ms")
					case 1:
						d = k.end + 1 - w.now
					default:
						d = k.end - 1 - w.now
					}
					w.forward(d)
				}
				w.roll(k)
				if k.crossed {
					crossedAfterHit = true
				}
				g := rapid.IntRange(2, 8).Draw(t, "goroutines")
				per := rapid.SliceOfN(rapid.IntRange(1, 6), g, g).Draw(t, "takes")
				total := 0
				for _, n := range per {
					total += n
				}
				p := e.probe()
				type res struct {
					code int
					err  error
				}
				out := make([][]res, g)
				var wg sync.WaitGroup
				start := make(chan struct{})
				for i := 0; i < g; i++ {
					wg.Add(1)
					go func(i int) {
						defer wg.Done()
						l := w.lims[i%len(w.lims)]
						<-start
						for j := 0; j < per[i]; j++ {
							c, err := l.Take(k.name)
							out[i] = append(out[i], res{c, err})
						}
					}(i)
				}
				close(start)
				wg.Wait()
				got := map[int]int{}
				w.logf(" round(%v from #%d):", per, k.count)
				for i := range out {
					seenQuota := false
					for _, x := range out[i] {
						if x.err != nil {
							if e.transported(p) || e.executed(p) != int64(total) {
								w.abort("concurrent take: transport/breaker error %v", x.err)
							}
							w.fail("concurrent take returned error %v (code %s) although the store executed every script", x.err, c03CodeName(x.code))
						}
						got[x.code]++
						// requests of one goroutine are ordered: nothing is granted after it saw the quota reached
						if seenQuota && x.code != limit.OverQuota {
							w.fail("goroutine %d got %s after it had already seen the quota reached (codes %v)", i, c03CodeName(x.code), out[i])
						}
						if x.code != limit.Allowed {
							seenQuota = true
						}
					}
				}
				if e.executed(p) != int64(total) {
					w.abort("concurrent take: %d calls but %d script executions", total, e.executed(p))
				}
				want := map[int]int{}
				for i := 1; i <= total; i++ {
					want[c03Expect(k.count+i, w.quota)]++
				}
				w.logf("A%d/H%d/O%d", got[limit.Allowed], got[limit.HitQuota], got[limit.OverQuota])
				for _, c := range []int{limit.Allowed, limit.HitQuota, limit.OverQuota, limit.Unknown} {
					if got[c] != want[c] {
						w.fail("%d goroutines x %v takes starting at request #%d of the period: %d x %s, statement requires %d (quota %d; got A=%d H=%d O=%d)",
							g, per, k.count+1, got[c], c03CodeName(c), want[c], w.quota, got[limit.Allowed], got[limit.HitQuota], got[limit.OverQuota])
					}
				}
				if k.count == 0 {
					w.start(k)
				}
				if k.count < w.quota && k.count+total > w.quota {
					contended = true
				}
				k.count += total
				if k.count >= w.quota {
					k.hit = true
				}
			}
		})
		if w.dead {
			return
		}
		if contended {
			st.Class("case:quota-crossed-concurrently")
			st.NonTrivial(w.log.String())
		}
		if crossedAfterHit {
			st.Class("case:new-period-after-hit")
		}
	})
}
