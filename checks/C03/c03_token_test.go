//go:build verif

package limit_test

// TokenLimiter part of C03: "All TokenLimiter instances sharing a key and a reachable store
// jointly behave as one token bucket of size `burst` refilled at `rate` per whole second - a
// request for n tokens is granted iff the bucket holds n - hence jointly never grant more
// than burst + rate x elapsed over any interval; while the store is unreachable each
// instance enforces that same bound locally."
//
// Reachable store: every answer of every instance is compared with ONE reference bucket
// (tokens, last second) written from that sentence; the harness clock is the explicit `now`
// of AllowN and, in step, miniredis' FastForward.
// Unreachable store (server answering errors, client-side command failures, or a really
// closed server): per instance, ALL grants it answered on its own (store unreachable at that
// call) over the whole history — however many outage episodes they are spread over — must
// satisfy sum(n) <= burst + rate x elapsed over every sub-interval [t_i, t_j] of grant times
// ("that same bound": never more than burst + rate x elapsed over ANY interval; a
// one-directional bound, no answer is demanded).  After the store is back the harness waits for the limiter's 100 ms
// ping loop (observed through the verif accessor VerifAlive, generous wall-clock budget,
// overrun = inconclusive) and goes on comparing with the reference bucket.

import (
	"context"
	"fmt"
	"os"
	"sync"
	"testing"
	"time"

	"github.com/zeromicro/go-zero/core/limit"
	"github.com/zeromicro/go-zero/internal/verifkit"
	"pgregory.net/rapid"
)

// ------------------------------------------------------------------ reference bucket

type c03Bucket struct {
	rate, burst int
	tokens      int
	last        int64 // second of the latest request
	used        bool
}

func (b *c03Bucket) refill(sec int64) {
	if !b.used {
		b.tokens, b.last, b.used = b.burst, sec, true
		return
	}
	if sec > b.last {
		if d := sec - b.last; d >= int64(b.burst) { // rate >= 1: full
			b.tokens = b.burst
		} else if t := b.tokens + int(d)*b.rate; t < b.burst {
			b.tokens = t
		} else {
			b.tokens = b.burst
		}
		b.last = sec
	}
}

// peek: tokens the bucket holds at second sec.
func (b *c03Bucket) peek(sec int64) int {
	c := *b
	c.refill(sec)
	return c.tokens
}

// take: "a request for n tokens is granted iff the bucket holds n".
func (b *c03Bucket) take(sec int64, n int) bool {
	b.refill(sec)
	if n <= b.tokens {
		b.tokens -= n
		return true
	}
	return false
}

// ------------------------------------------------------------------ world

type c03Grant struct {
	t int64
	n int
}

type c03TInst struct {
	lim     *limit.TokenLimiter
	local   bool       // the harness put it into an outage episode
	grants  []c03Grant // every grant it answered locally, whole history, time-ordered
	granted int        // joint grants (bookkeeping)
	episode int        // outage episodes it took part in so far (bookkeeping)
	grantEp int        // episodes in which it granted locally (bookkeeping)
	epGrant bool       // granted locally in the running episode
}

type c03TWorld struct {
	c03Case
	rate, burst int
	key         string
	inst        []*c03TInst
	now         int64 // harness clock, ms
	model       c03Bucket
	down        bool // store unreachable
	budget      time.Duration
	// bookkeeping for the non-trivial rules
	deniedSec     int64
	denied        bool
	regrant       bool
	faults        int
	localGrants   int
	recovered     int
	afterRecovery int
	deadCtx       int
}

func c03NewTWorld(f failer, st *verifkit.Stats, e *c03Env, rate, burst, k int, t0 int64) *c03TWorld {
	w := &c03TWorld{rate: rate, burst: burst, now: t0, budget: 5 * time.Second}
	w.f, w.st, w.e = f, st, e
	w.model = c03Bucket{rate: rate, burst: burst}
	w.key = fmt.Sprintf("c03t:%d", e.seq.Add(1))
	for i := 0; i < k; i++ {
		store := e.store
		if i%2 == 1 {
			store = e.newStore()
		}
		w.inst = append(w.inst, &c03TInst{lim: limit.NewTokenLimiter(rate, burst, store, w.key)})
	}
	w.logf("rate=%d burst=%d inst=%d t0=%d:", rate, burst, k, t0)
	return w
}

func (w *c03TWorld) sec() int64 { return w.now / 1000 }

func (w *c03TWorld) fail(format string, a ...any) {
	msg := fmt.Sprintf(format, a...)
	w.st.Sample("FAILING: " + msg + " | " + w.log.String())
	tk, _ := w.e.mr.Get("{" + w.key + "}.tokens")
	ts, _ := w.e.mr.Get("{" + w.key + "}.ts")
	var al []bool
	for _, in := range w.inst {
		al = append(al, in.lim.VerifAlive())
	}
	w.f.Fatalf("%s\n  rate=%d burst=%d instances=%d, harness clock %d ms (second %d), store down=%v\n  history: %s\n  reference bucket: tokens=%d last second=%d; store: tokens=%q ts=%q ttl=%v; instances consulting the store: %v",
		msg, w.rate, w.burst, len(w.inst), w.now, w.sec(), w.down, w.log.String(),
		w.model.tokens, w.model.last, tk, ts, w.e.mr.TTL("{"+w.key+"}.tokens"), al)
}

func (w *c03TWorld) advance(d int64) {
	if d <= 0 {
		return
	}
	w.e.mr.FastForward(time.Duration(d) * time.Millisecond)
	w.now += d
	w.logf(" +%dms", d)
}

func (w *c03TWorld) call(in *c03TInst, n int, ctx bool) bool {
	now := time.UnixMilli(w.now)
	if ctx {
		return in.lim.AllowNCtx(context.Background(), now, n)
	}
	return in.lim.AllowN(now, n)
}

// localGrant checks the per-instance bound over every interval [t_j, now] of local grant
// times of the WHOLE history (earlier intervals were checked when their last grant was
// made), across outage episodes.
func (w *c03TWorld) localGrant(i int, n int) {
	in := w.inst[i]
	in.grants = append(in.grants, c03Grant{w.now, n})
	w.localGrants++
	if !in.epGrant {
		in.epGrant = true
		in.grantEp++
	}
	sum := 0
	for j := len(in.grants) - 1; j >= 0; j-- {
		sum += in.grants[j].n
		if j > 0 && in.grants[j-1].t == in.grants[j].t {
			continue // same instant: the interval starts at the first grant of that instant
		}
		el := float64(w.now-in.grants[j].t) / 1000
		bound := float64(w.burst) + float64(w.rate)*el
		// x/time/rate rounds the refill interval to whole ns: relative slack 1e-6 is ample
		if float64(sum) > bound*(1+1e-6)+1e-6 {
			w.fail("store unreachable: instance %d granted %d tokens on its own within %.3f s (it has granted locally in %d outage episode(s) so far; local grants of the interval {t ms, n}: %v), bound burst + rate x elapsed = %.3f",
				i, sum, el, in.grantEp, in.grants[j:], bound)
		}
	}
}

// allowN is one request.  fault: c03FaultNone / Pre / Post (store reachable, this one
// command fails at the client).
func (w *c03TWorld) allowN(i, n int, ctx bool, fault int) {
	in := w.inst[i]
	alive := in.lim.VerifAlive()
	p := w.e.probe()
	switch fault {
	case c03FaultPre:
		w.e.failPre.Store(1)
	case c03FaultPost:
		w.e.failPost.Store(1)
	}
	got := w.call(in, n, ctx)
	w.e.failPre.Store(0)
	w.e.failPost.Store(0)

	if w.down || fault != c03FaultNone || in.local {
		// outage episode of this instance
		tag := "down"
		if fault != c03FaultNone {
			tag = c03FaultName[fault]
			w.faults++
			if alive && !w.e.reached(p) {
				w.abort("faulty allowN: no script command passed the breaker")
			}
		}
		if fault == c03FaultPost && w.e.executed(p) == 1 {
			// the store did execute the request: the shared bucket moved
			w.model.take(w.sec(), n)
		}
		w.logf(" i%d.allow(%d)!%s=%s", i, n, tag, tf(got))
		w.st.Class("allow:local-" + tf(got))
		in.local = true
		if got {
			w.localGrant(i, n)
		}
		return
	}

	// reachable store: the reference bucket decides
	want := w.model.take(w.sec(), n)
	w.logf(" i%d.allow(%d)=%s", i, n, tf(got))
	if alive && (!w.e.reached(p) || w.e.transported(p) || !w.oneExecution(p)) {
		w.abort("allowN: breaker/transport interfered (reached=%v transport=%v executions=%d)",
			w.e.reached(p), w.e.transported(p), w.e.executed(p))
	}
	if got != want {
		held := w.model.tokens
		if want {
			held += n
		}
		w.fail("instance %d: request for %d tokens answered %v, but the shared bucket holds %d (statement: granted iff the bucket holds n)",
			i, n, got, held)
	}
	w.st.Class("allow:joint-" + tf(got))
	if alive {
		w.flushPending = false
	}
	if got {
		in.granted += n
		if w.denied && n >= 1 && w.sec() > w.deniedSec {
			w.regrant = true
		}
	} else if n <= w.burst {
		w.denied, w.deniedSec = true, w.sec()
	}
	if w.recovered > 0 {
		w.afterRecovery++
	}
}

// allowDeadCtx is one request through AllowNCtx whose context is already done when the call is made
// (kind 2: cancelled, 3: its deadline has passed) while the store is reachable.  The caller giving up says
// nothing about the store, so the instances still form one bucket: a grant needs the shared bucket to hold n
// (and, if the store did execute the request, the bucket moved whatever the caller was told); the call
// after it is again answered by the shared bucket (asserted by the ordinary allowN that follows).
func (w *c03TWorld) allowDeadCtx(i, n, kind int) {
	in := w.inst[i]
	ctx, cancel := context.WithCancel(context.Background())
	if kind == 3 {
		cancel()
		ctx, cancel = context.WithDeadline(context.Background(), time.Unix(1, 0))
	}
	cancel()
	p := w.e.probe()
	got := in.lim.AllowNCtx(ctx, time.UnixMilli(w.now), n)
	ex := w.e.executed(p)
	if ex > 1 {
		w.abort("allowN with a done context: %d script executions", ex)
	}
	want := n == 0 // zero tokens are always held
	if ex == 1 {
		want = w.model.take(w.sec(), n)
	}
	w.logf(" i%d.allowCtx[%s](%d)=%s", i, map[int]string{2: "cancelled", 3: "deadline-passed"}[kind], n, tf(got))
	w.st.Class("allow:done-context-" + tf(got))
	w.deadCtx++
	if got && !want {
		w.fail("instance %d: request for %d tokens with a done context was granted, but the store is reachable and %s (statement: with a reachable store the instances behave as one bucket; granted iff the bucket holds n)",
			i, n, map[bool]string{true: "the shared bucket did not hold them", false: "was not consulted"}[ex == 1])
	}
	if got {
		in.granted += n
	}
}

// waitAlive waits (wall clock, budget) until the given instances consult the store again.
func (w *c03TWorld) waitAlive(idx []int) {
	needed := false // somebody really is on its rescue bucket: this wait exercises the ping loop
	for _, i := range idx {
		if !w.inst[i].lim.VerifAlive() {
			needed = true
		}
	}
	if needed {
		c03RecTried++
	}
	t0 := time.Now()
	for {
		all := true
		for _, i := range idx {
			if !w.inst[i].lim.VerifAlive() || w.inst[i].lim.VerifMonitoring() {
				all = false
			}
		}
		if all {
			break
		}
		if time.Since(t0) > w.budget {
			w.st.Class("inconclusive:recovery-budget-overrun")
			w.abort("instances %v not back on the store %v after it became reachable (ping loop is 100 ms; wall-clock budget, not a verdict)", idx, w.budget)
		}
		time.Sleep(2 * time.Millisecond)
	}
	if needed {
		c03RecOK++
		w.st.Class("recovery:completed")
	}

	for _, i := range idx {
		in := w.inst[i]
		if in.local {
			w.recovered++
			in.episode++
		}
		in.local, in.epGrant = false, false // in.grants is kept: the bound spans episodes
	}
	w.logf(" recovered%v", idx)
}

// Recoveries that had to wait for the ping loop, and those that completed within the
// budget (process-wide; the units run their cases sequentially).
var c03RecTried, c03RecOK int

// c03NoRecovery: when not a single recovery completed in >= 3 attempts the outage clause
// was not exercised.  That is no verdict (wall-clock budgets only) but no pass either: the
// unit ends with a non-FAIL exit status, which the driver reports as INFRA/inconclusive
// instead of OK.
func c03NoRecovery(tt *testing.T, st *verifkit.Stats) {
	if tt.Failed() || c03RecTried < 3 || c03RecOK > 0 {
		return
	}
	st.Note("no limiter returned to the store within the budget in %d attempts: outage/recovery clause not exercised", c03RecTried)
	st.Flush()
	fmt.Printf("INCONCLUSIVE: C03 outage: 0 of %d recoveries completed within the wall-clock budget\n", c03RecTried)
	os.Exit(3)
}

// loseServer: the reachable server loses its script cache; with its data the shared bucket
// is a new (full) one.
func (w *c03TWorld) loseServer(drop bool) {
	w.lose(drop)
	if drop {
		w.model = c03Bucket{rate: w.rate, burst: w.burst}
	}
}

// classEpisodes records how far the case spread local grants over outage episodes.
func (w *c03TWorld) classEpisodes() {
	maxEp, differ := 0, false
	for _, in := range w.inst {
		if in.grantEp > maxEp {
			maxEp = in.grantEp
		}
		if in.episode != w.inst[0].episode {
			differ = true
		}
	}
	if maxEp >= 2 {
		w.st.Class("case:one-instance-granted-locally-in->=2-episodes")
	}
	if maxEp >= 3 {
		w.st.Class("case:one-instance-granted-locally-in->=3-episodes")
	}
	if differ {
		w.st.Class("case:instances-saw-different-episodes")
	}
}

func (w *c03TWorld) all() []int {
	idx := make([]int, len(w.inst))
	for i := range idx {
		idx[i] = i
	}
	return idx
}

func tf(b bool) string {
	if b {
		return "T"
	}
	return "F"
}

// ------------------------------------------------------------------ generators

var c03KnownD7 = verifkit.KnownFindings("C03")["D7"]

// c03DrawConfig draws (rate, burst).  rate > 2*burst is finding D7's signature: excluded by
// construction (and counted) only while D7 is listed as known.
func c03DrawConfig(t *rapid.T, st *verifkit.Stats) (rate, burst int) {
	small := rapid.Bool().Draw(t, "small")
	hi := 50
	if small {
		hi = 6
	}
	rate = rapid.IntRange(1, hi).Draw(t, "rate")
	burst = rapid.IntRange(1, hi).Draw(t, "burst")
	if rate > 2*burst {
		if c03KnownD7 {
			st.Excluded()
			rate = 1 + (rate-1)%(2*burst)
		} else {
			st.Class("config:rate>2*burst")
		}
	}
	return
}

func c03DrawT0(t *rapid.T) int64 {
	return 1_700_000_000_000 + rapid.Int64Range(0, 999_999).Draw(t, "t0")
}

func c03DrawN(t *rapid.T, w *c03TWorld) int {
	held := w.model.peek(w.sec())
	n := rapid.SampledFrom([]int{0, 1, 1, 1, 2, w.burst - 1, w.burst, w.burst + 1, w.burst + 2, held, held + 1, held / 2, -1}).Draw(t, "n")
	if n == -1 {
		n = rapid.IntRange(0, w.burst+2).Draw(t, "nAny")
	}
	if n < 0 {
		n = 0
	}
	return n
}

func c03DrawAdvance(t *rapid.T, w *c03TWorld) int64 {
	off := rapid.SampledFrom([]int64{-1, 0, 0, 1}).Draw(t, "off")
	ttl := int64(2 * w.burst / w.rate)
	if ttl < 1 {
		ttl = 1
	}
	var d int64
	switch rapid.IntRange(0, 6).Draw(t, "mode") {
	case 0:
		d = rapid.Int64Range(1, 999).Draw(t, "ms")
	case 1, 2: // just before / at / after the next second boundary
		d = 1000 - w.now%1000 + off
	case 3:
		d = 1000*rapid.Int64Range(1, 3).Draw(t, "s") + off
	case 4: // around the expiry of the Redis keys
		d = ttl*1000 + off
	case 5: // around the time a drained bucket needs to fill up
		d = int64((w.burst+w.rate-1)/w.rate)*1000 + off
	default:
		d = rapid.Int64Range(0, (ttl+2)*1000).Draw(t, "msAny")
	}
	if d < 0 {
		d = 0
	}
	return d
}

func (w *c03TWorld) jointActions(pickI *rapid.Generator[int]) map[string]func(*rapid.T) {
	return map[string]func(*rapid.T){
		"allow": func(t *rapid.T) {
			i, n, ctx := pickI.Draw(t, "inst"), c03DrawN(t, w), rapid.Bool().Draw(t, "ctx")
			w.guard(func() { w.allowN(i, n, ctx, c03FaultNone) })
		},
		"drain": func(t *rapid.T) {
			// take all that is left, then ask another instance for one more
			i, j := pickI.Draw(t, "inst"), pickI.Draw(t, "inst2")
			w.guard(func() {
				if w.down || w.inst[i].local || w.inst[j].local {
					return
				}
				w.allowN(i, w.model.peek(w.sec()), false, c03FaultNone)
				w.allowN(j, 1, false, c03FaultNone)
			})
		},
		"advance": func(t *rapid.T) {
			d := c03DrawAdvance(t, w)
			w.guard(func() { w.advance(d) })
		},
		"donectx": func(t *rapid.T) {
			// a caller whose context is already done (optionally after another instance emptied the bucket),
			// then an ordinary request on the same instance: the store is reachable throughout
			i, j := pickI.Draw(t, "inst"), pickI.Draw(t, "inst2")
			kind := rapid.SampledFrom([]int{2, 3}).Draw(t, "kind")
			n := c03DrawN(t, w)
			drainFirst := rapid.Bool().Draw(t, "drainFirst")
			w.guard(func() {
				// a passed deadline is a failure to the Redis client's breaker: keep those few
				if w.down || w.inst[i].local || w.inst[j].local || w.deadCtx >= 3 {
					return
				}
				if drainFirst {
					w.allowN(j, w.model.peek(w.sec()), false, c03FaultNone)
				}
				w.allowDeadCtx(i, n, kind)
				w.allowN(i, 1, true, c03FaultNone)
			})
		},
		"lose": func(t *rapid.T) {
			// restart / replacement / fail-over / SCRIPT FLUSH of the reachable server
			drop := rapid.IntRange(0, 2).Draw(t, "drop") == 0
			w.guard(func() {
				if w.down || w.losses >= 2 {
					return
				}
				w.loseServer(drop)
			})
		},
	}
}

// ------------------------------------------------------------------ units

func TestVerifC03TokenMachine(t *testing.T) {
	st := verifkit.New("token")
	defer st.Flush()
	rapid.Check(t, func(t *rapid.T) {
		st.Eval()
		e := c03Server(t)
		e.mr.FlushAll()
		e.pad(8) // a lost script cache costs one NOSCRIPT reply, which the client's breaker counts as a failure
		rate, burst := c03DrawConfig(t, st)
		k := rapid.IntRange(1, 4).Draw(t, "instances")
		w := c03NewTWorld(t, st, e, rate, burst, k, c03DrawT0(t))
		t.Repeat(w.jointActions(rapid.IntRange(0, k-1)))
		if w.dead {
			return
		}
		competing := 0
		for _, in := range w.inst {
			if in.granted > 0 {
				competing++
			}
		}
		if competing >= 2 {
			st.Class("case:>=2-instances-granted")
		}
		if w.regrant {
			st.Class("case:nontrivial")
			st.NonTrivial(w.log.String())
		}
	})
}

// Outage machine: the same machine plus store faults.  Faults are kept sparse (the go-zero
// client has a per-address breaker) and every case pads the breaker window with successful
// PINGs first.
func TestVerifC03TokenOutage(t *testing.T) {
	st := verifkit.New("token-outage")
	defer st.Flush()
	tt := t
	rapid.Check(t, func(t *rapid.T) {
		c03NoRecovery(tt, st)
		st.Eval()
		e := c03Server(t)
		e.mr.FlushAll()
		e.pad(80)
		rate, burst := c03DrawConfig(t, st)
		k := rapid.IntRange(1, 4).Draw(t, "instances")
		w := c03NewTWorld(t, st, e, rate, burst, k, c03DrawT0(t))
		pickI := rapid.IntRange(0, k-1)
		acts := w.jointActions(pickI)
		outages := 0
		acts["down"] = func(t *rapid.T) {
			w.guard(func() {
				if w.down || outages >= 4 {
					return
				}
				outages++
				w.down = true
				e.down.Store(true)
				w.logf(" DOWN")
			})
		}
		acts["localBurst"] = func(t *rapid.T) {
			// several requests by one instance with little or no time in between
			i := pickI.Draw(t, "inst")
			ns := rapid.SliceOfN(rapid.IntRange(0, burst+1), 2, 6).Draw(t, "ns")
			gaps := rapid.SliceOfN(rapid.SampledFrom([]int64{0, 0, 1, 20, 400, 1000}), len(ns), len(ns)).Draw(t, "gaps")
			w.guard(func() {
				if !w.down {
					return
				}
				for x, n := range ns {
					w.allowN(i, n, false, c03FaultNone)
					w.advance(gaps[x])
				}
			})
		}
		acts["up"] = func(t *rapid.T) {
			// the server that comes back may be a restarted / replaced one
			lose := rapid.SampledFrom([]int{0, 0, 1, 1, 2}).Draw(t, "comesBack")
			w.guard(func() {
				if !w.down {
					return
				}
				w.down = false
				e.down.Store(false)
				w.logf(" UP")
				if lose > 0 && w.losses < 3 {
					w.loseServer(lose == 2)
				}
				w.waitAlive(w.all())
			})
		}
		acts["flap"] = func(t *rapid.T) {
			// 2-4 outage episodes in quick succession: in each one a (drawn) subset of the
			// instances drains its local bucket and asks again; the store comes back just
			// long enough for the ping loops to notice, and goes down again well before
			// burst/rate seconds of harness time have passed.
			eps := rapid.IntRange(2, 4).Draw(t, "episodes")
			type ep struct {
				mask int
				gap  int64
				ns   []int
				lose int
			}
			plan := make([]ep, eps)
			for x := range plan {
				plan[x] = ep{
					mask: rapid.IntRange(1, 1<<k-1).Draw(t, "who"),
					gap:  rapid.SampledFrom([]int64{0, 0, 1, 7, 50, 300, 1000}).Draw(t, "gap"),
					ns:   rapid.SliceOfN(rapid.SampledFrom([]int{burst, burst, 1, 1, (burst + 1) / 2, 0, burst + 1}), 2, 4).Draw(t, "ns"),
					lose: rapid.SampledFrom([]int{0, 0, 0, 1, 2}).Draw(t, "comesBack"),
				}
			}
			w.guard(func() {
				if w.down || outages+eps > 4 {
					return
				}
				for _, p := range plan {
					outages++
					w.down = true
					e.down.Store(true)
					w.logf(" DOWN")
					for i := 0; i < k; i++ {
						if p.mask&(1<<i) == 0 {
							continue
						}
						for _, n := range p.ns {
							w.allowN(i, n, false, c03FaultNone)
						}
					}
					w.down = false
					e.down.Store(false)
					w.logf(" UP")
					if p.lose > 0 && w.losses < 3 {
						w.loseServer(p.lose == 2)
					}
					w.waitAlive(w.all())
					w.advance(p.gap)
				}
			})
		}
		acts["glitch"] = func(t *rapid.T) {
			// one command of one instance fails while the store is fine
			i, n := pickI.Draw(t, "inst"), c03DrawN(t, w)
			fl := rapid.SampledFrom([]int{c03FaultPre, c03FaultPre, c03FaultPost}).Draw(t, "kind")
			w.guard(func() {
				if w.down || w.faults >= 2 || w.inst[i].local || w.flushPending {
					return
				}
				w.allowN(i, n, false, fl)
				w.waitAlive([]int{i})
			})
		}
		t.Repeat(acts)
		e.down.Store(false)
		if w.dead {
			return
		}
		if w.down { // leave no instance behind in its ping loop with the store down
			w.down = false
			w.guard(func() { w.waitAlive(w.all()) })
		}
		if w.localGrants > 0 {
			st.Class("case:local-grants")
		}
		w.classEpisodes()
		if w.localGrants > 0 && w.recovered > 0 && w.afterRecovery > 0 {
			st.Class("case:nontrivial")
			st.NonTrivial(w.log.String())
		}
	})
	c03NoRecovery(tt, st)
}

// Real outage: the server is closed (connection refused) and restarted on its port.
var (
	c03RealOnce sync.Once
	c03Real     *c03Env
	c03RealErr  error
)

func TestVerifC03TokenOutageReal(t *testing.T) {
	st := verifkit.New("token-outage-real")
	defer st.Flush()
	tt := t
	defer c03NoRecovery(tt, st)
	rapid.Check(t, func(t *rapid.T) {
		c03NoRecovery(tt, st)
		st.Eval()
		c03RealOnce.Do(func() { c03Real, c03RealErr = c03NewEnv() })
		if c03RealErr != nil {
			t.Skipf("inconclusive: cannot start miniredis: %v", c03RealErr)
		}
		e := c03Real
		e.reset()
		if e.closed.Load() { // a failed case left the server closed
			if err := e.mr.Restart(); err != nil {
				c03RealErr = fmt.Errorf("restart: %w", err)
				t.Skipf("inconclusive: cannot restart miniredis: %v", err)
			}
			e.installPreHook()
			e.closed.Store(false)
			e.reset()
		}
		e.mr.FlushAll()
		e.pad(300)
		rate, burst := c03DrawConfig(t, st)
		k := rapid.IntRange(1, 3).Draw(t, "instances")
		w := c03NewTWorld(t, st, e, rate, burst, k, c03DrawT0(t))
		w.budget = 10 * time.Second
		pickI := rapid.IntRange(0, k-1)
		type op struct {
			i, n int
			adv  int64
		}
		drawOps := func(label string, lo, hi int) []op {
			cnt := rapid.IntRange(lo, hi).Draw(t, label)
			ops := make([]op, cnt)
			for x := range ops {
				ops[x] = op{pickI.Draw(t, "inst"), rapid.SampledFrom([]int{0, 1, 1, 2, burst, burst/2 + 1, burst + 1}).Draw(t, "n"),
					rapid.SampledFrom([]int64{0, 0, 3, 250, 700, 1000, 2100}).Draw(t, "adv")}
			}
			return ops
		}
		cycles := rapid.IntRange(1, 3).Draw(t, "cycles")
		before, after := drawOps("before", 1, 6), drawOps("after", 2, 8)
		during := make([][]op, cycles)
		between := make([][]op, cycles)
		comesBack := make([]int, cycles) // 0 same server, 1 scripts lost, 2 scripts and data lost
		for c := range during {
			comesBack[c] = rapid.SampledFrom([]int{0, 1, 1, 2}).Draw(t, "comesBack")
			during[c] = drawOps("during", 2, 8)
			// little or nothing between two outages: the next one starts well before the
			// local bucket would have refilled
			between[c] = drawOps("between", 0, 2)
		}
		run := func(ops []op) {
			for _, o := range ops {
				w.allowN(o.i, o.n, false, c03FaultNone)
				w.advance(o.adv)
			}
		}
		w.guard(func() {
			run(before)
			for c := 0; c < cycles; c++ {
				e.closed.Store(true)
				e.mr.Close()
				w.down = true
				w.logf(" CLOSE")
				run(during[c])
				if err := e.mr.Restart(); err != nil {
					// somebody else took the port meanwhile
					c03RealErr = fmt.Errorf("restart: %w", err)
					w.abort("miniredis could not be restarted on its port: %v", err)
				}
				e.installPreHook()
				e.closed.Store(false)
				w.down = false
				w.logf(" RESTART")
				if comesBack[c] > 0 {
					// a restarted Redis has an empty script cache (miniredis keeps it over Restart)
					w.loseServer(comesBack[c] == 2)
				}
				w.waitAlive(w.all())
				if c < cycles-1 {
					run(between[c])
				}
			}
			run(after)
		})
		w.classEpisodes()
		if w.dead {
			return
		}
		if w.localGrants > 0 && w.afterRecovery > 0 {
			st.Class("case:nontrivial")
			st.NonTrivial(w.log.String())
		}
	})
}

// Concurrent requests by several instances at one frozen instant: the outcome must be
// explainable by SOME serial order of one bucket.  With time frozen the bucket only
// shrinks, so that is exactly: the granted sizes fit into what the bucket held, and every
// denied request is larger than what is left at the end.
func TestVerifC03TokenConcurrent(t *testing.T) {
	st := verifkit.New("token-concurrent")
	defer st.Flush()
	rapid.Check(t, func(t *rapid.T) {
		st.Eval()
		e := c03Server(t)
		e.mr.FlushAll()
		rate, burst := c03DrawConfig(t, st)
		k := rapid.IntRange(1, 4).Draw(t, "instances")
		w := c03NewTWorld(t, st, e, rate, burst, k, c03DrawT0(t))
		rounds := rapid.IntRange(1, 3).Draw(t, "rounds")
		nontrivial := false
		w.guard(func() {
			for r := 0; r < rounds; r++ {
				if r > 0 {
					w.advance(c03DrawAdvance(t, w))
				}
				if rapid.Bool().Draw(t, "predrain") {
					w.allowN(rapid.IntRange(0, k-1).Draw(t, "inst"), rapid.IntRange(0, burst).Draw(t, "pre"), false, c03FaultNone)
				}
				avail := w.model.peek(w.sec())
				g := rapid.IntRange(2, 8).Draw(t, "goroutines")
				reqs := make([][]int, g)
				total, calls := 0, 0
				for i := range reqs {
					reqs[i] = rapid.SliceOfN(rapid.IntRange(0, min(burst, avail+2)), 1, 3).Draw(t, "sizes")
					for _, n := range reqs[i] {
						total += n
						calls++
					}
				}
				aliveAll := true
				for _, in := range w.inst {
					aliveAll = aliveAll && in.lim.VerifAlive()
				}
				p := e.probe()
				out := make([][]bool, g)
				var wg sync.WaitGroup
				start := make(chan struct{})
				for i := 0; i < g; i++ {
					wg.Add(1)
					go func(i int) {
						defer wg.Done()
						in := w.inst[i%k]
						<-start
						for _, n := range reqs[i] {
							out[i] = append(out[i], w.call(in, n, i%2 == 0))
						}
					}(i)
				}
				close(start)
				wg.Wait()
				if aliveAll && (!e.reached(p) || e.transported(p) || e.executed(p) != int64(calls)) {
					w.abort("concurrent allowN: breaker/transport interfered (%d calls, %d script executions, transport=%v)",
						calls, e.executed(p), e.transported(p))
				}
				granted, ngr, nden := 0, 0, 0
				for i := range out {
					for j, ok := range out[i] {
						if ok {
							granted += reqs[i][j]
							ngr++
						} else {
							nden++
						}
					}
				}
				w.logf(" round(held=%d reqs=%v)=%v", avail, reqs, out)
				if granted > avail {
					w.fail("concurrent round at one instant granted %d tokens in total, the bucket held %d (requests %v, answers %v)", granted, avail, reqs, out)
				}
				left := avail - granted
				for i := range out {
					for j, ok := range out[i] {
						if !ok && reqs[i][j] <= left {
							w.fail("concurrent round: request for %d tokens denied although %d were still left at the end of the round (held %d, requests %v, answers %v) — no serial order of one bucket explains that",
								reqs[i][j], left, avail, reqs, out)
						}
					}
				}
				// follow the bucket and make sure the instances agree on what is left
				w.model.refill(w.sec())
				w.model.tokens = left
				w.allowN(r%k, left+1, false, c03FaultNone)
				w.allowN((r+1)%k, left, false, c03FaultNone)
				if total > avail && ngr > 0 && nden > 0 && k >= 2 {
					nontrivial = true
				}
			}
		})
		if w.dead {
			return
		}
		if nontrivial {
			st.Class("case:nontrivial")
			st.NonTrivial(w.log.String())
		}
	})
}

// ------------------------------------------------------------------ regressions

type c03Failure struct{ msg string }

type c03Recorder struct{}

func (c03Recorder) Fatalf(format string, a ...any) { panic(c03Failure{fmt.Sprintf(format, a...)}) }
func (c03Recorder) Skipf(format string, a ...any) {
	panic(c03Failure{"skip: " + fmt.Sprintf(format, a...)})
}

type c03Step struct {
	inst, n int   // request (adv == 0)
	adv     int64 // or clock advance in ms
}

type c03History struct {
	name        string
	rate, burst int
	instances   int
	t0          int64
	steps       []c03Step
}

// c03Replay runs a history against the reachable-store oracle; "" = property held.
func c03Replay(t *testing.T, st *verifkit.Stats, h c03History) (verdict string) {
	e := c03Server(t)
	e.mr.FlushAll()
	w := c03NewTWorld(c03Recorder{}, st, e, h.rate, h.burst, h.instances, h.t0)
	defer func() {
		if r := recover(); r != nil {
			f, ok := r.(c03Failure)
			if !ok {
				panic(r)
			}
			verdict = f.msg
		}
		// let every instance finish its ping loop before the next history reuses the server
		deadline := time.Now().Add(5 * time.Second)
		for _, in := range w.inst {
			for !in.lim.VerifAlive() && time.Now().Before(deadline) {
				time.Sleep(2 * time.Millisecond)
			}
		}
	}()
	w.guard(func() {
		for _, s := range h.steps {
			if s.adv > 0 {
				w.advance(s.adv)
			} else {
				w.allowN(s.inst, s.n, false, c03FaultNone)
			}
		}
	})
	if w.dead {
		return "skip: inconclusive (breaker/transport)"
	}
	return ""
}

// Shrunk failing inputs of finding D7 (tokenscript.lua: ttl = floor(2*burst/rate) is 0 when
// rate > 2*burst; SETEX with 0 is an error; every instance then answers from its own
// in-process bucket although the store is reachable).
var c03D7 = []c03History{
	{name: "two-instances-one-token", rate: 3, burst: 1, instances: 2, t0: 1_700_000_000_000,
		steps: []c03Step{{inst: 0, n: 1}, {inst: 1, n: 1}}},
	{name: "one-instance-fractional-refill", rate: 3, burst: 1, instances: 1, t0: 1_700_000_000_000,
		steps: []c03Step{{inst: 0, n: 1}, {adv: 400}, {inst: 0, n: 1}}},
	{name: "design-D7-rate100-burst10-three-instances", rate: 100, burst: 10, instances: 3, t0: 1_700_000_000_000,
		steps: []c03Step{{inst: 0, n: 10}, {inst: 1, n: 10}, {inst: 2, n: 10}}},
}

// TestVerifC03RegressD7 replays them.  While D7 is listed as known the first failure is
// reported as KNOWN-FINDING; otherwise any failure is a violation.
func TestVerifC03RegressD7(t *testing.T) {
	st := verifkit.New("regress")
	defer st.Flush()
	reported := false
	for _, h := range c03D7 {
		st.Eval()
		st.Class("regress:" + h.name)
		st.Sample(fmt.Sprintf("%s: rate=%d burst=%d instances=%d steps=%v", h.name, h.rate, h.burst, h.instances, h.steps))
		v := c03Replay(t, st, h)
		if v == "" {
			continue
		}
		if len(v) > 5 && v[:5] == "skip:" {
			st.Note("regress %s: %s", h.name, v)
			continue
		}
		st.NonTrivial("D7 " + h.name + " fails")
		if !c03KnownD7 {
			t.Errorf("D7/%s: %s", h.name, v)
			continue
		}
		if !reported {
			reported = true
			st.KnownFinding("D7", "token limiter with rate > 2*burst: tokenscript.lua computes ttl 0, SETEX fails, every instance falls back to its own local bucket although the store is reachable ("+h.name+")")
		} else {
			t.Logf("D7/%s (known): %s", h.name, v)
		}
	}
	if c03KnownD7 && !reported {
		st.Note("D7 is listed as known but its minimal inputs pass on this tree")
	}
}

// TestVerifC03RegressModel pins the reference bucket itself on hand-computed histories
// (independent of the limiter), so that an error in the oracle cannot hide behind the
// implementation agreeing with it.
func TestVerifC03RegressModel(t *testing.T) {
	b := c03Bucket{rate: 2, burst: 5}
	type step struct {
		sec  int64
		n    int
		want bool
		left int
	}
	for i, s := range []step{
		{100, 5, true, 0},  // full at the start
		{100, 1, false, 0}, // empty
		{100, 0, true, 0},  // a request for nothing is always covered
		{101, 2, true, 0},  // one whole second: +2
		{101, 1, false, 0},
		{103, 5, false, 4}, // two seconds: +4, not enough for 5
		{103, 4, true, 0},
		{110, 6, false, 5}, // capped at burst; n > burst never fits
		{110, 5, true, 0},
		{109, 1, false, 0}, // clock never refills backwards
	} {
		if got := b.take(s.sec, s.n); got != s.want || b.tokens != s.left {
			t.Fatalf("model step %d %+v: got %v left %d", i, s, got, b.tokens)
		}
	}
}
