//go:build verif

package limit_test

// C03 — rate limiters never grant more than the configured quota.
//
// Shared plumbing of the C03 units: a miniredis server (running the unmodified
// periodscript.lua / tokenscript.lua in its Lua interpreter) with
//   - a server-side pre-hook that can make the store answer every command with an error
//     ("down") and counts the script executions that reached the server, and
//   - a go-redis hook (installed through redis.WithHook on the first redis.Redis of the
//     address, hence *inside* go-zero's per-address breaker hook) that counts the script
//     commands that passed the breaker, classifies transport errors and can fail the next
//     script command before it is sent or after it was executed.
// Time is never the wall clock: Redis TTLs move with miniredis.FastForward only and the token
// limiter gets the harness clock as its explicit `now`.  The wall clock is used solely to
// bound the wait for the limiter's 100 ms recovery ping (an overrun is inconclusive).

import (
	"context"
	"errors"
	"fmt"
	"strings"
	"sync"
	"sync/atomic"
	"time"

	"github.com/alicebob/miniredis/v2"
	"github.com/alicebob/miniredis/v2/server"
	red "github.com/redis/go-redis/v9"
	"github.com/zeromicro/go-zero/core/limit"
	"github.com/zeromicro/go-zero/core/logx"
	"github.com/zeromicro/go-zero/core/stores/redis"
	"github.com/zeromicro/go-zero/internal/verifkit"
)

func init() {
	logx.Disable()
	red.SetLogger(c03NopLogger{})
}

type c03NopLogger struct{}

func (c03NopLogger) Printf(context.Context, string, ...interface{}) {}

// failer is what the models need from *rapid.T / *testing.T.
type failer interface {
	Fatalf(format string, args ...any)
	Skipf(format string, args ...any)
}

var (
	errC03Pre  = errors.New("verif: injected client-side failure (command not sent)")
	errC03Post = errors.New("verif: injected client-side failure (reply dropped after execution)")
)

// c03Env is one miniredis plus the one go-zero client go-zero keeps per address.
type c03Env struct {
	mr    *miniredis.Miniredis
	addr  string
	store *redis.Redis // first Redis of the address: its hooks are the client's hooks

	down      atomic.Bool  // server answers every command with an error reply
	closed    atomic.Bool  // server really closed (real-outage unit): transport errors are expected
	srvEvals  atomic.Int64 // EVAL/EVALSHA commands the server started to execute
	passed    atomic.Int64 // script commands that got past go-zero's breaker hook
	transport atomic.Int64 // script commands that ended with a non-reply (network) error
	failPre   atomic.Int32 // fail the next script command before sending it
	failPost  atomic.Int32 // let the next script command execute, then report an error
	seq       atomic.Int64 // per-case unique key suffix

	scriptsGone atomic.Bool // the server's script cache was flushed and not every script re-sent since
	rawOnce     sync.Once
	raw     *red.Client // plain go-redis client (no go-zero hooks) for server-side events
}

type c03Hook struct{ e *c03Env }

func (h c03Hook) DialHook(next red.DialHook) red.DialHook { return next }

func (h c03Hook) ProcessPipelineHook(next red.ProcessPipelineHook) red.ProcessPipelineHook {
	return next
}

func (h c03Hook) ProcessHook(next red.ProcessHook) red.ProcessHook {
	return func(ctx context.Context, cmd red.Cmder) error {
		name := strings.ToLower(cmd.Name())
		if name != "evalsha" && name != "eval" {
			return next(ctx, cmd)
		}
		h.e.passed.Add(1)
		if h.e.failPre.CompareAndSwap(1, 0) {
			cmd.SetErr(errC03Pre)
			return errC03Pre
		}
		err := next(ctx, cmd)
		if h.e.failPost.CompareAndSwap(1, 0) {
			cmd.SetErr(errC03Post)
			return errC03Post
		}
		if err != nil {
			var re red.Error
			if !errors.As(err, &re) {
				h.e.transport.Add(1)
			}
		}
		return err
	}
}

func c03NewEnv() (*c03Env, error) {
	mr, err := miniredis.Run()
	if err != nil {
		return nil, err
	}
	e := &c03Env{mr: mr, addr: mr.Addr()}
	e.installPreHook()
	e.store = redis.New(mr.Addr(), redis.WithHook(c03Hook{e}))
	// Successful commands first: go-zero's per-address breaker only starts to reject when
	// failures outnumber 5 + accepts/2 within its 10 s window.
	e.pad(300)
	// load both scripts, so that a call is one EVALSHA from now on
	if err := e.warm(); err != nil {
		return nil, fmt.Errorf("warm-up take: %w", err)
	}
	mr.FlushAll()
	return e, nil
}

// warm runs both scripts once through the stock client path (EVALSHA, on NOSCRIPT EVAL).
func (e *c03Env) warm() error {
	_, err := limit.NewPeriodLimit(1, 1, e.store, "c03:warm:").Take("p")
	limit.NewTokenLimiter(1, 1, e.store, "c03:warm:t").AllowN(time.Unix(1_700_000_000, 0), 1)
	return err
}

// installPreHook (re-)installs the server-side hook; a restarted miniredis has a new server.
func (e *c03Env) installPreHook() {
	e.mr.Server().SetPreHook(func(c *server.Peer, cmd string, _ ...string) bool {
		if e.down.Load() {
			c.WriteError("ERR verif: store is down")
			return true
		}
		if cmd == "EVAL" || cmd == "EVALSHA" {
			e.srvEvals.Add(1)
		}
		return false
	})
}

// scriptFlush makes the server lose its script cache (what a restarted or replaced Redis, a
// fail-over or SCRIPT FLUSH does), optionally together with its data.  Sent through a plain
// client, so neither the breaker nor the harness counters see it.
func (e *c03Env) scriptFlush(dropData bool) error {
	e.rawOnce.Do(func() { e.raw = red.NewClient(&red.Options{Addr: e.addr}) })
	if err := e.raw.ScriptFlush(context.Background()).Err(); err != nil {
		return err
	}
	e.scriptsGone.Store(true)
	if dropData {
		e.mr.FlushAll()
	}
	return nil
}

// reset clears fault switches a failed case may have left behind.
func (e *c03Env) reset() {
	e.down.Store(false)
	e.failPre.Store(0)
	e.failPost.Store(0)
	if e.scriptsGone.Load() && !e.closed.Load() {
		// the previous case ended with an empty script cache: start with a warm one again, so
		// that the "one call = one script command" bookkeeping holds from the first call on
		// (a lost cache is produced inside the cases, at generated points)
		e.warm()
		e.scriptsGone.Store(false)
	}
}

// pad issues n successful PINGs (accepted by the breaker).
func (e *c03Env) pad(n int) {
	for i := 0; i < n; i++ {
		e.store.Ping()
	}
}

// newStore returns another redis.Redis for the same address ("sharing a store"): go-zero
// resolves it to the same client.
func (e *c03Env) newStore() *redis.Redis { return redis.New(e.addr) }

var (
	c03Once    sync.Once
	c03Main    *c03Env
	c03MainErr error
)

// c03Server returns the process-wide server of the state-machine units.  One server per
// process: go-zero never forgets a client (and its breaker and hooks) once created for an
// address, so cases are separated by FlushAll and per-case unique keys instead.
func c03Server(f failer) *c03Env {
	c03Once.Do(func() { c03Main, c03MainErr = c03NewEnv() })
	if c03MainErr != nil {
		f.Skipf("inconclusive: cannot start miniredis: %v", c03MainErr)
	}
	c03Main.reset()
	return c03Main
}

// ---------------------------------------------------------------- inconclusive cases

type c03Abort struct{}

// c03Case carries what every model needs: log, stats, abort/guard (see C19 for why
// rapid's Skip is not usable inside Repeat actions).
type c03Case struct {
	f    failer
	st   *verifkit.Stats
	e    *c03Env
	log  strings.Builder
	dead bool
	// the server lost its script cache and no script has run since: the next call is
	// EVALSHA -> NOSCRIPT -> EVAL, i.e. two script commands for one execution
	flushPending bool
	losses       int
}

// lose: the server loses its script cache (and, if drop, its data) while it is reachable.
func (w *c03Case) lose(drop bool) {
	if err := w.e.scriptFlush(drop); err != nil {
		w.abort("SCRIPT FLUSH through the raw client failed: %v", err)
	}
	w.flushPending = true
	w.losses++
	if drop {
		w.logf(" SERVER-REPLACED(scripts+data lost)")
		w.st.Class("lose:scripts+data")
	} else {
		w.logf(" SCRIPTS-LOST")
		w.st.Class("lose:scripts")
	}
}

// oneExecution: the call was exactly one script execution on the server (two commands when
// the script had to be re-sent after the server lost its cache).
func (w *c03Case) oneExecution(p c03Probe) bool {
	n := w.e.executed(p)
	return n == 1 || (w.flushPending && n == 2)
}

func (w *c03Case) abort(format string, a ...any) {
	w.dead = true
	w.st.Class("inconclusive:case-abandoned")
	w.st.Note("inconclusive case: "+format+"; history: %s", append(a, w.log.String())...)
	panic(c03Abort{})
}

func (w *c03Case) guard(f func()) {
	if w.dead {
		return
	}
	defer func() {
		if r := recover(); r != nil {
			if _, ok := r.(c03Abort); !ok {
				panic(r)
			}
		}
	}()
	f()
}

func (w *c03Case) logf(format string, a ...any) { fmt.Fprintf(&w.log, format, a...) }

// probe remembers the hook counters before a call so that afterwards the harness can tell
// "the breaker / transport got in the way" (inconclusive) from "the limiter answered
// wrongly although its command was executed" (violation).
type c03Probe struct {
	passed, transport, srv int64
}

func (e *c03Env) probe() c03Probe {
	return c03Probe{e.passed.Load(), e.transport.Load(), e.srvEvals.Load()}
}

// reached: at least one script command of the call got past the breaker.
func (e *c03Env) reached(p c03Probe) bool { return e.passed.Load() > p.passed }

// transported: a script command of the call ended with a network error.
func (e *c03Env) transported(p c03Probe) bool { return e.transport.Load() > p.transport }

// executed: number of script executions the server started during the call.
func (e *c03Env) executed(p c03Probe) int64 { return e.srvEvals.Load() - p.srv }
