//go:build verif

package limit

import "sync/atomic"

// VerifAlive reports whether the limiter currently consults the store (redisAlive == 1)
// or answers from its in-process rescue bucket.  Injected by /verif/checks/C03 only; the
// harness uses it to wait for the 100 ms ping loop after a store fault instead of guessing
// with sleeps, never as an oracle.
func (lim *TokenLimiter) VerifAlive() bool {
	return atomic.LoadUint32(&lim.redisAlive) == 1
}

// VerifMonitoring reports whether the recovery goroutine (waitForRedis) of an outage is
// still registered.  After a recovery the harness waits for VerifAlive && !VerifMonitoring
// so that the next injected outage is seen by the limiter as a new one (startMonitor is a
// no-op while the previous monitor has not signed off).  Synchronisation only.
func (lim *TokenLimiter) VerifMonitoring() bool {
	lim.rescueLock.Lock()
	defer lim.rescueLock.Unlock()
	return lim.monitorStarted
}
