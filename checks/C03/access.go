//go:build verif

package limit

import "sync/atomic"

// VerifAlive reports whether the limiter currently consults the store (redisAlive == 1)
// or answers from its in-process rescue bucket.  Injected by /verif/checks/C03 only; the
// harness uses it to wait for the 100 ms ping loop after a store fault instead of guessing
// with sleeps, never as an oracle.
func (lim *TokenLimiter) VerifAlive() bool {
	return atomic.LoadUint32(&lim.redisAlive) == 1
}
