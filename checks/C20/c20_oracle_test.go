//go:build verif

package format_test

// Oracle side of C20: a normal form of the parsed API description (all token texts kept,
// positions and comments dropped), comment extraction by the scanner, guarded execution with a
// per-input watchdog.

import (
	"bytes"
	"fmt"
	"runtime/debug"
	"sort"
	"strings"
	"time"

	"github.com/zeromicro/go-zero/tools/goctl/pkg/parser/api/ast"
	"github.com/zeromicro/go-zero/tools/goctl/pkg/parser/api/format"
	"github.com/zeromicro/go-zero/tools/goctl/pkg/parser/api/parser"
	"github.com/zeromicro/go-zero/tools/goctl/pkg/parser/api/scanner"
	"github.com/zeromicro/go-zero/tools/goctl/pkg/parser/api/token"
)

const (
	softWatchdog = 2 * time.Second  // per input; longer = reported as slow (inconclusive)
	hardWatchdog = 30 * time.Second // never returning within this = hang
)

type runResult struct {
	out      string
	err      error  // error reported by the code under test
	panicked string // non-empty: panic value + stack
	slow     bool   // finished, but only after softWatchdog
	hung     bool   // did not finish within hardWatchdog
}

// guarded runs f in its own goroutine with panic capture and the watchdog.
func guarded(f func() (string, error)) runResult {
	ch := make(chan runResult, 1)
	go func() {
		var r runResult
		defer func() {
			if p := recover(); p != nil {
				r.panicked = fmt.Sprintf("%v\n%s", p, debug.Stack())
			}
			ch <- r
		}()
		r.out, r.err = f()
	}()
	soft := time.NewTimer(softWatchdog)
	defer soft.Stop()
	select {
	case r := <-ch:
		return r
	case <-soft.C:
	}
	hard := time.NewTimer(hardWatchdog - softWatchdog)
	defer hard.Stop()
	select {
	case r := <-ch:
		r.slow = true
		return r
	case <-hard.C:
		return runResult{hung: true}
	}
}

func runFormat(src string) runResult {
	return guarded(func() (string, error) {
		var out bytes.Buffer
		err := format.Source([]byte(src), &out)
		return out.String(), err
	})
}

// parseNorm parses src and returns the normal form of its AST; err is the parser's own error.
func runParseNorm(src string) runResult {
	return guarded(func() (string, error) {
		p := parser.New("", src)
		a := p.Parse()
		if err := p.CheckErrors(); err != nil {
			return "", err
		}
		if a == nil {
			return "", fmt.Errorf("Parse returned nil without recording an error")
		}
		return normAST(a), nil
	})
}

// runScan drives the scanner alone until EOF, an error or an ILLEGAL token.  The number of
// tokens is bounded by the number of runes + 2; more means the scanner stopped making progress.
func runScan(src string) runResult {
	return guarded(func() (string, error) {
		s, err := scanner.NewScanner("", src)
		if err != nil {
			return "", err
		}
		limit := len([]rune(src)) + 2
		for i := 0; ; i++ {
			tok, err := s.NextToken()
			if err != nil {
				return "", err
			}
			if tok.Type == token.EOF || tok.Type == token.ILLEGAL {
				return "", nil
			}
			if i > limit {
				panic(fmt.Sprintf("scanner produced more than %d tokens from %d runes (no progress)", limit, limit-2))
			}
		}
	})
}

// scanTokens returns the tokens of src up to EOF, the first error or the first ILLEGAL token (with
// the same progress bound as runScan); never panics.
func scanTokens(src string) (out []token.Token) {
	defer func() { _ = recover() }()
	s, err := scanner.NewScanner("", src)
	if err != nil {
		return nil
	}
	limit := len([]rune(src)) + 2
	for i := 0; i <= limit; i++ {
		tok, err := s.NextToken()
		if err != nil || tok.Type == token.EOF || tok.Type == token.ILLEGAL {
			return out
		}
		out = append(out, tok)
	}
	return out
}

// comments returns the texts of all comments of src in source order, as the scanner sees them.
func scanComments(src string) ([]string, error) {
	s, err := scanner.NewScanner("", src)
	if err != nil {
		return nil, err
	}
	var out []string
	for {
		tok, err := s.NextToken()
		if err != nil {
			return out, err
		}
		switch tok.Type {
		case token.EOF:
			return out, nil
		case token.COMMENT, token.DOCUMENT:
			out = append(out, tok.Text)
		case token.ILLEGAL:
			return out, fmt.Errorf("illegal token %q", tok.Text)
		}
	}
}

// squash removes all whitespace: comment texts are compared modulo whitespace ("only whitespace
// and comment placement may differ").
func squash(s string) string {
	return strings.Map(func(r rune) rune {
		switch r {
		case ' ', '\t', '\n', '\r', '\f', '\v':
			return -1
		}
		return r
	}, s)
}

func multiset(list []string) map[string]int {
	m := map[string]int{}
	for _, s := range list {
		m[squash(s)]++
	}
	return m
}

// ------------------------------------------------------------------ AST normal form

type normalizer struct{ sb strings.Builder }

func normAST(a *ast.AST) string {
	n := &normalizer{}
	for _, s := range a.Stmts {
		n.stmt(s)
	}
	return n.sb.String()
}

func (n *normalizer) w(format string, a ...any) { fmt.Fprintf(&n.sb, format, a...) }

func tx(t *ast.TokenNode) string {
	if t == nil {
		return "<nil>"
	}
	return t.Token.Text
}

func zero(t *ast.TokenNode) bool { return t != nil && (t.Token.Text == `""` || t.Token.Text == "``") }

// kvs renders a key-value list; a list without any non-empty value is what the formatter drops on
// purpose (golden tests: `info()`, `@server()`, `@doc()` => nothing), so it renders as "".
func kvs(list []*ast.KVExpr) string {
	var sb strings.Builder
	any := false
	for _, kv := range list {
		if kv == nil {
			sb.WriteString("(kv <nil>)")
			any = true
			continue
		}
		if !zero(kv.Value) {
			any = true
		}
		fmt.Fprintf(&sb, "(kv %s %s %s)", tx(kv.Key), tx(kv.Colon), tx(kv.Value))
	}
	if !any {
		return ""
	}
	return sb.String()
}

func (n *normalizer) stmt(s ast.Stmt) {
	switch v := s.(type) {
	case nil:
		n.w("(nil-stmt)\n")
	case *ast.CommentStmt:
		// comments are compared separately
	case *ast.SyntaxStmt:
		n.w("(syntax %s %s)\n", tx(v.Assign), tx(v.Value))
	case *ast.InfoStmt:
		if body := kvs(v.Values); body != "" {
			n.w("(info %s %s %s)\n", tx(v.LParen), body, tx(v.RParen))
		}
	case *ast.ImportLiteralStmt:
		if !zero(v.Value) {
			n.w("(import %s)\n", tx(v.Value))
		}
	case *ast.ImportGroupStmt:
		any := false
		var sb strings.Builder
		for _, x := range v.Values {
			if !zero(x) {
				any = true
			}
			sb.WriteString(" " + tx(x))
		}
		if any {
			n.w("(importgroup %s%s %s)\n", tx(v.LParen), sb.String(), tx(v.RParen))
		}
	case *ast.TypeLiteralStmt:
		n.w("(type ")
		n.typeExpr(v.Expr)
		n.w(")\n")
	case *ast.TypeGroupStmt:
		if len(v.ExprList) == 0 {
			return
		}
		n.w("(typegroup %s", tx(v.LParen))
		for _, e := range v.ExprList {
			n.w("\n  ")
			n.typeExpr(e)
		}
		n.w(" %s)\n", tx(v.RParen))
	case *ast.ServiceStmt:
		n.service(v)
	default:
		n.w("(unknown-stmt %T)\n", s)
	}
}

func (n *normalizer) typeExpr(e *ast.TypeExpr) {
	if e == nil {
		n.w("(texpr <nil>)")
		return
	}
	n.w("(texpr %s", tx(e.Name))
	if e.Assign != nil {
		n.w(" %s", tx(e.Assign))
	}
	n.w(" ")
	n.dataType(e.DataType)
	n.w(")")
}

func (n *normalizer) dataType(d ast.DataType) {
	switch v := d.(type) {
	case nil:
		n.w("(nil-dt)")
	case *ast.AnyDataType:
		n.w("(any %s)", tx(v.Any))
	case *ast.BaseDataType:
		n.w("(base %s)", tx(v.Base))
	case *ast.InterfaceDataType:
		n.w("(iface %s)", tx(v.Interface))
	case *ast.SliceDataType:
		n.w("(slice %s%s ", tx(v.LBrack), tx(v.RBrack))
		n.dataType(v.DataType)
		n.w(")")
	case *ast.ArrayDataType:
		n.w("(array %s%s%s ", tx(v.LBrack), tx(v.Length), tx(v.RBrack))
		n.dataType(v.DataType)
		n.w(")")
	case *ast.MapDataType:
		n.w("(map %s%s ", tx(v.Map), tx(v.LBrack))
		n.dataType(v.Key)
		n.w(" %s ", tx(v.RBrack))
		n.dataType(v.Value)
		n.w(")")
	case *ast.PointerDataType:
		n.w("(ptr %s ", tx(v.Star))
		n.dataType(v.DataType)
		n.w(")")
	case *ast.StructDataType:
		n.w("(struct %s", tx(v.LBrace))
		for _, e := range v.Elements {
			if e == nil {
				n.w(" (field <nil>)")
				continue
			}
			n.w(" (field [")
			for i, nm := range e.Name {
				if i > 0 {
					n.w(" ")
				}
				n.w("%s", tx(nm))
			}
			n.w("] ")
			n.dataType(e.DataType)
			if e.Tag != nil {
				n.w(" tag=%s", tx(e.Tag))
			}
			n.w(")")
		}
		n.w(" %s)", tx(v.RBrace))
	default:
		n.w("(unknown-dt %T)", d)
	}
}

func (n *normalizer) body(kind string, b *ast.BodyStmt) {
	// "()" is dropped by the formatter on purpose (golden: `get /bar () returns (Bar);` =>
	// `get /bar returns (Bar)`): an empty body is the same description as no body
	if b == nil || b.Body == nil {
		return
	}
	e := b.Body
	n.w(" (%s %s", kind, tx(b.LParen))
	if e.LBrack != nil {
		n.w(" %s%s", tx(e.LBrack), tx(e.RBrack))
	}
	if e.Star != nil {
		n.w(" %s", tx(e.Star))
	}
	n.w(" %s %s)", tx(e.Value), tx(b.RParen))
}

func (n *normalizer) service(v *ast.ServiceStmt) {
	n.w("(service")
	if v.AtServerStmt != nil {
		if body := kvs(v.AtServerStmt.Values); body != "" {
			n.w(" (%s %s %s %s)", tx(v.AtServerStmt.AtServer), tx(v.AtServerStmt.LParen), body, tx(v.AtServerStmt.RParen))
		}
	}
	name := "<nil>"
	if v.Name != nil {
		name = tx(v.Name.Name)
	}
	n.w(" %s %s %s", tx(v.Service), name, tx(v.LBrace))
	for _, it := range v.Routes {
		if it == nil {
			n.w("\n  (item <nil>)")
			continue
		}
		n.w("\n  (item")
		switch d := it.AtDoc.(type) {
		case nil:
		case *ast.AtDocLiteralStmt:
			if !zero(d.Value) {
				n.w(" (%s %s)", tx(d.AtDoc), tx(d.Value))
			}
		case *ast.AtDocGroupStmt:
			if body := kvs(d.Values); body != "" {
				n.w(" (%s %s %s %s)", tx(d.AtDoc), tx(d.LParen), body, tx(d.RParen))
			}
		default:
			n.w(" (unknown-doc %T)", it.AtDoc)
		}
		if it.AtHandler == nil {
			n.w(" (handler <nil>)")
		} else {
			n.w(" (%s %s)", tx(it.AtHandler.AtHandler), tx(it.AtHandler.Name))
		}
		if it.Route == nil {
			n.w(" (route <nil>)")
		} else {
			r := it.Route
			path := "<nil>"
			if r.Path != nil {
				path = tx(r.Path.Value)
			}
			n.w(" (route %s %s", tx(r.Method), path)
			n.body("req", r.Request)
			if r.Response != nil && r.Response.Body != nil {
				n.w(" %s", tx(r.Returns))
				n.body("resp", r.Response)
			}
			n.w(")")
		}
		n.w(")")
	}
	n.w(" %s)\n", tx(v.RBrace))
}

// ------------------------------------------------------------------ the valid-program oracle

type verdict struct {
	ok     bool
	clause string // which clause of the statement is violated
	detail string
	slow   bool
}

func fail(clause, format string, a ...any) verdict {
	return verdict{clause: clause, detail: fmt.Sprintf(format, a...)}
}

// checkValid applies the statement to a source the parser accepts.  mustComments are the texts of
// comments that have to survive (generator knowledge); for arbitrary sources pass nil.
// It returns the formatted text for histograms.
//
// exactTokens: the source holds none of the constructs the formatter drops on purpose (generator
// knowledge), so "only whitespace and comment placement may differ" means that the sequence of
// non-comment tokens is the same; otherwise the formatted tokens must be a subsequence of the
// source's (the formatter may drop, never add or alter).  This comparison does not go through the
// parser: information the parser loses on both sides the same way is still noticed.
func checkValid(src string, origNorm string, mustComments []string, exactTokens bool) (verdict, string) {
	slow := false
	f1 := runFormat(src)
	switch {
	case f1.hung:
		return fail("formatting succeeds", "format.Source did not return within %v", hardWatchdog), ""
	case f1.panicked != "":
		return fail("formatting succeeds", "format.Source panicked: %s", f1.panicked), ""
	case f1.err != nil:
		return fail("formatting succeeds", "format.Source failed on a source the parser accepts: %v", f1.err), ""
	}
	slow = slow || f1.slow
	formatted := f1.out
	if strings.TrimSpace(formatted) == "" {
		// everything was dropped: legal only if the description is empty
		if origNorm != "" {
			return fail("parses to the same API description", "formatted text is empty but the source has statements:\n%s", origNorm), formatted
		}
	} else {
		p2 := runParseNorm(formatted)
		switch {
		case p2.hung:
			return fail("formatted text parses", "parser did not return on the formatted text"), formatted
		case p2.panicked != "":
			return fail("formatted text parses", "parser panicked on the formatted text: %s", p2.panicked), formatted
		case p2.err != nil:
			return fail("formatted text parses", "the formatted text does not parse: %v", p2.err), formatted
		}
		slow = slow || p2.slow
		if p2.out != origNorm {
			return fail("parses to the same API description", "API description changed by formatting\n--- original AST (normal form)\n%s--- AST of formatted text\n%s%s",
				origNorm, p2.out, firstDiff(origNorm, p2.out)), formatted
		}
	}
	if t1, t2 := codeTokens(src), codeTokens(formatted); strings.TrimSpace(formatted) != "" || exactTokens {
		if at, ok := subsequence(t2, t1); !ok {
			return fail("only whitespace and comment placement may differ", "token %d of the formatted text (%q) is not in the source at that place: the formatter added or altered a token\n--- source tokens\n%q\n--- formatted tokens\n%q", at, t2[at], t1, t2), formatted
		}
		if exactTokens && len(t1) != len(t2) {
			return fail("only whitespace and comment placement may differ", "the formatter dropped tokens although the source has no construct that is dropped on purpose\n--- source tokens\n%q\n--- formatted tokens\n%q", t1, t2), formatted
		}
	}
	// comments: nothing invented or duplicated; statement-level comments survive
	if c1, err1 := scanComments(src); err1 == nil {
		c2, err2 := scanComments(formatted)
		if err2 != nil && strings.TrimSpace(formatted) != "" {
			return fail("formatted text parses", "scanner fails on the formatted text: %v", err2), formatted
		}
		m1, m2 := multiset(c1), multiset(c2)
		var extra []string
		for k, n := range m2 {
			if n > m1[k] {
				extra = append(extra, fmt.Sprintf("%q x%d (source has %d)", k, n, m1[k]))
			}
		}
		if len(extra) > 0 {
			sort.Strings(extra)
			return fail("only whitespace and comment placement may differ", "formatted text has comments the source does not have (invented, altered or duplicated): %s", strings.Join(extra, "; ")), formatted
		}
		var lost []string
		for _, c := range mustComments {
			if m2[squash(c)] == 0 {
				lost = append(lost, fmt.Sprintf("%q", c))
			}
		}
		if len(lost) > 0 {
			return fail("only whitespace and comment placement may differ", "statement-level comments vanished: %s", strings.Join(lost, "; ")), formatted
		}
	}
	if strings.TrimSpace(formatted) != "" {
		f2 := runFormat(formatted)
		switch {
		case f2.hung:
			return fail("formatting the result again changes nothing", "second format did not return"), formatted
		case f2.panicked != "":
			return fail("formatting the result again changes nothing", "second format panicked: %s", f2.panicked), formatted
		case f2.err != nil:
			return fail("formatting the result again changes nothing", "second format failed: %v", f2.err), formatted
		}
		slow = slow || f2.slow
		if f2.out != formatted {
			return fail("formatting the result again changes nothing", "format(format(src)) != format(src)\n--- first\n%s\n--- second\n%s\n%s",
				visible(formatted), visible(f2.out), firstDiff(formatted, f2.out)), formatted
		}
	}
	return verdict{ok: true, slow: slow}, formatted
}

// codeTokens: the texts of all non-comment tokens, as the scanner sees them.
func codeTokens(src string) []string {
	var out []string
	for _, tok := range scanTokens(src) {
		if tok.Type != token.COMMENT && tok.Type != token.DOCUMENT {
			out = append(out, tok.Text)
		}
	}
	return out
}

// subsequence reports whether sub is a subsequence of all; if not, the index of the first element
// of sub that cannot be matched.
func subsequence(sub, all []string) (int, bool) {
	j := 0
	for i, s := range sub {
		for j < len(all) && all[j] != s {
			j++
		}
		if j == len(all) {
			return i, false
		}
		j++
	}
	return 0, true
}

func firstDiff(a, b string) string {
	i := 0
	for i < len(a) && i < len(b) && a[i] == b[i] {
		i++
	}
	lo := i - 40
	if lo < 0 {
		lo = 0
	}
	end := func(s string) int {
		if i+40 < len(s) {
			return i + 40
		}
		return len(s)
	}
	return fmt.Sprintf("--- first difference at byte %d: %q vs %q\n", i, a[lo:end(a)], b[lo:end(b)])
}

// visible renders a source for failure messages: the text itself plus a Go-quoted copy that can be
// pasted into a regression test.
func visible(src string) string {
	return fmt.Sprintf("%s\n(quoted: %q)", src, src)
}
