// Copyright 2019 Gregory Petrosyan <gregory.petrosyan@gmail.com>
//
// This Source Code Form is subject to the terms of the Mozilla Public
// License, v. 2.0. If a copy of the MPL was not distributed with this
// file, You can obtain one at https://mozilla.org/MPL/2.0/.

package rapid

import (
	"bytes"
	"context"
	"encoding/binary"
	"flag"
	"fmt"
	"io"
	"log"
	"os"
	"path/filepath"
	"regexp"
	"runtime"
	"strconv"
	"strings"
	"sync"
	"sync/atomic"
	"testing"
	"time"
)

const (
	small             = 5
	invalidChecksMult = 10
	exampleMaxTries   = 1000

	maxTestTimeout  = 24 * time.Hour
	shrinkStepBound = 10 * time.Second // can be improved by taking average checkOnce runtime into account

	tracebackLen  = 32
	tracebackStop = "github.com/zeromicro/go-zero/internal/verifrapid.checkOnce"
	runtimePrefix = "runtime."
)

var (
	flags cmdline

	tracebackBlacklist = map[string]bool{
		"github.com/zeromicro/go-zero/internal/verifrapid.(*customGen[...]).maybeValue.func1": true,
		"github.com/zeromicro/go-zero/internal/verifrapid.runAction.func1":                    true,
	}
)

type cmdline struct {
	checks     int
	steps      int
	failfile   string
	nofailfile bool
	seed       uint64
	log        bool
	verbose    bool
	debug      bool
	debugvis   bool
	shrinkTime time.Duration
}

func init() {
	defaults := loadCmdlineDefaults(os.LookupEnv)
	flag.IntVar(&flags.checks, "rapid.checks", defaults.checks, "rapid: number of checks to perform")
	flag.IntVar(&flags.steps, "rapid.steps", defaults.steps, "rapid: average number of Repeat actions to execute")
	flag.StringVar(&flags.failfile, "rapid.failfile", defaults.failfile, "rapid: fail file to use to reproduce test failure")
	flag.BoolVar(&flags.nofailfile, "rapid.nofailfile", defaults.nofailfile, "rapid: do not write fail files on test failures")
	flag.Uint64Var(&flags.seed, "rapid.seed", defaults.seed, "rapid: PRNG seed to start with (0 to use a random one)")
	flag.BoolVar(&flags.log, "rapid.log", defaults.log, "rapid: eager verbose output to stdout (to aid with unrecoverable test failures)")
	flag.BoolVar(&flags.verbose, "rapid.v", defaults.verbose, "rapid: verbose output")
	flag.BoolVar(&flags.debug, "rapid.debug", defaults.debug, "rapid: debugging output")
	flag.BoolVar(&flags.debugvis, "rapid.debugvis", defaults.debugvis, "rapid: debugging visualization")
	flag.DurationVar(&flags.shrinkTime, "rapid.shrinktime", defaults.shrinkTime, "rapid: maximum time to spend on test case minimization")
}

func defaultCmdline() cmdline {
	return cmdline{
		checks:     100,
		steps:      30,
		shrinkTime: 30 * time.Second,
	}
}

func loadCmdlineDefaults(lookup func(string) (string, bool)) cmdline {
	defaults := defaultCmdline()

	defaults.checks = envInt(lookup, "RAPID_CHECKS", defaults.checks)
	defaults.steps = envInt(lookup, "RAPID_STEPS", defaults.steps)
	defaults.failfile = envString(lookup, "RAPID_FAILFILE", defaults.failfile)
	defaults.nofailfile = envBool(lookup, "RAPID_NOFAILFILE", defaults.nofailfile)
	defaults.seed = envUint64(lookup, "RAPID_SEED", defaults.seed)
	defaults.log = envBool(lookup, "RAPID_LOG", defaults.log)
	defaults.verbose = envBool(lookup, "RAPID_V", defaults.verbose)
	defaults.debug = envBool(lookup, "RAPID_DEBUG", defaults.debug)
	defaults.debugvis = envBool(lookup, "RAPID_DEBUGVIS", defaults.debugvis)
	defaults.shrinkTime = envDuration(lookup, "RAPID_SHRINKTIME", defaults.shrinkTime)

	return defaults
}

func envString(lookup func(string) (string, bool), key string, defaultValue string) string {
	if v, ok := lookup(key); ok {
		return v
	}
	return defaultValue
}

func envInt(lookup func(string) (string, bool), key string, defaultValue int) int {
	v, ok := lookup(key)
	if !ok {
		return defaultValue
	}
	n, err := strconv.ParseInt(v, 0, strconv.IntSize)
	if err != nil {
		panicInvalidEnv(key, v, err)
	}
	return int(n)
}

func envBool(lookup func(string) (string, bool), key string, defaultValue bool) bool {
	v, ok := lookup(key)
	if !ok {
		return defaultValue
	}
	b, err := strconv.ParseBool(v)
	if err != nil {
		panicInvalidEnv(key, v, err)
	}
	return b
}

func envUint64(lookup func(string) (string, bool), key string, defaultValue uint64) uint64 {
	v, ok := lookup(key)
	if !ok {
		return defaultValue
	}
	n, err := strconv.ParseUint(v, 0, 64)
	if err != nil {
		panicInvalidEnv(key, v, err)
	}
	return n
}

func envDuration(lookup func(string) (string, bool), key string, defaultValue time.Duration) time.Duration {
	v, ok := lookup(key)
	if !ok {
		return defaultValue
	}
	d, err := time.ParseDuration(v)
	if err != nil {
		panicInvalidEnv(key, v, err)
	}
	return d
}

func panicInvalidEnv(key, value string, err error) {
	panic(fmt.Sprintf("[rapid] invalid value for %s=%q: %v", key, value, err))
}

func assert(ok bool) {
	if !ok {
		panic("assertion failed")
	}
}

func assertf(ok bool, format string, args ...any) {
	if !ok {
		panic(fmt.Sprintf(format, args...))
	}
}

func assertValidRange(min int, max int) {
	if max >= 0 && min > max {
		panic(fmt.Sprintf("invalid range [%d, %d]", min, max))
	}
}

func checkDeadline(tb tb) time.Time {
	t, ok := tb.(*testing.T)
	if !ok {
		return time.Now().Add(maxTestTimeout)
	}
	d, ok := t.Deadline()
	if !ok {
		return time.Now().Add(maxTestTimeout)
	}
	return d
}

func shrinkDeadline(deadline time.Time) time.Time {
	d := time.Now().Add(flags.shrinkTime)
	max := deadline.Add(-shrinkStepBound) // account for the fact that shrink deadline is checked before the step
	if d.After(max) {
		d = max
	}
	return d
}

// Check fails the current test if rapid can find a test case which falsifies prop.
//
// Property is falsified in case of a panic or a call to
// [*T.Fatalf], [*T.Fatal], [*T.Errorf], [*T.Error], [*T.FailNow] or [*T.Fail].
func Check(t TB, prop func(*T)) {
	t.Helper()
	checkTB(t, checkDeadline(t), prop)
}

// MakeCheck is a convenience function for defining subtests suitable for
// [*testing.T.Run]. It allows you to write this:
//
//	t.Run("subtest name", rapid.MakeCheck(func(t *rapid.T) {
//	    // test code
//	}))
//
// instead of this:
//
//	t.Run("subtest name", func(t *testing.T) {
//	    rapid.Check(t, func(t *rapid.T) {
//	        // test code
//	    })
//	})
func MakeCheck(prop func(*T)) func(*testing.T) {
	return func(t *testing.T) {
		t.Helper()
		checkTB(t, checkDeadline(t), prop)
	}
}

// MakeFuzz creates a fuzz target for [*testing.F.Fuzz]:
//
//	func FuzzFoo(f *testing.F) {
//	    f.Fuzz(rapid.MakeFuzz(func(t *rapid.T) {
//	        // test code
//	    }))
//	}
func MakeFuzz(prop func(*T)) func(*testing.T, []byte) {
	return func(t *testing.T, input []byte) {
		t.Helper()
		checkFuzz(t, prop, input)
	}
}

func checkFuzz(tb tb, prop func(*T), input []byte) {
	tb.Helper()

	var buf []uint64
	for len(input) > 0 {
		var tmp [8]byte
		n := copy(tmp[:], input)
		buf = append(buf, binary.LittleEndian.Uint64(tmp[:]))
		input = input[n:]
	}

	t := newT(tb, newBufBitStream(buf, false), true, nil)
	err := checkOnce(t, prop)

	switch {
	case err == nil:
		// do nothing
	case err.isInvalidData():
		tb.SkipNow()
	case err.isStopTest():
		tb.Fatalf("[rapid] failed: %v", err)
	default:
		tb.Fatalf("[rapid] panic: %v\nTraceback:\n%v", err, traceback(err))
	}
}

func checkTB(tb tb, deadline time.Time, prop func(*T)) {
	tb.Helper()

	checks := flags.checks
	if testing.Short() {
		checks /= 5
	}

	start := time.Now()
	valid, invalid, earlyExit, seed, failfile, buf, err1, err2 := doCheck(tb, deadline, checks, baseSeed(), flags.failfile, true, prop)
	dt := time.Since(start)

	if err1 == nil && err2 == nil {
		if valid == checks || (earlyExit && valid > 0) {
			tb.Logf("[rapid] OK, passed %v tests (%v)", valid, dt)
		} else {
			tb.Errorf("[rapid] only generated %v valid tests from %v total (%v)", valid, valid+invalid, dt)
		}
	} else {
		if failfile == "" && !flags.nofailfile {
			_, failfile = failFileName(tb.Name())
			out := captureTestOutput(tb, prop, buf)
			err := saveFailFile(failfile, rapidVersion, out, seed, buf)
			if err != nil {
				tb.Logf("[rapid] %v", err)
				failfile = ""
			}
		}

		var repr string
		switch {
		case failfile != "" && seed != 0:
			repr = fmt.Sprintf("-rapid.failfile=%q (or -rapid.seed=%d)", failfile, seed)
		case failfile != "":
			repr = fmt.Sprintf("-rapid.failfile=%q", failfile)
		case seed != 0:
			repr = fmt.Sprintf("-rapid.seed=%d", seed)
		}

		name := regexp.QuoteMeta(tb.Name())
		if traceback(err1) == traceback(err2) {
			if err2.isStopTest() {
				tb.Errorf("[rapid] failed after %v tests: %v\nTo reproduce, specify -run=%q %v\nFailed test output:", valid, err2, name, repr)
			} else {
				tb.Errorf("[rapid] panic after %v tests: %v\nTo reproduce, specify -run=%q %v\nTraceback:\n%vFailed test output:", valid, err2, name, repr, traceback(err2))
			}
		} else {
			tb.Errorf("[rapid] flaky test, can not reproduce a failure\nTo try to reproduce, specify -run=%q %v\nTraceback (%v):\n%vOriginal traceback (%v):\n%vFailed test output:", name, repr, err2, traceback(err2), err1, traceback(err1))
		}

		_ = checkOnce(newT(tb, newBufBitStream(buf, false), true, nil), prop) // output using (*testing.T).Log for proper line numbers
	}

	if tb.Failed() {
		tb.FailNow() // do not try to run any checks after the first failed one
	}
}

func doCheck(tb tb, deadline time.Time, checks int, seed uint64, failfile string, globFailFiles bool, prop func(*T)) (int, int, bool, uint64, string, []uint64, *testError, *testError) {
	tb.Helper()

	assertf(!tb.Failed(), "check function called with *testing.T which has already failed")

	var failfiles []string
	if failfile != "" {
		failfiles = []string{failfile}
	}
	if globFailFiles {
		matches, _ := filepath.Glob(failFilePattern(tb.Name()))
		failfiles = append(failfiles, matches...)
	}
	for _, failfile := range failfiles {
		buf, err1, err2 := checkFailFile(tb, failfile, prop)
		if err1 != nil || err2 != nil {
			return 0, 0, false, 0, failfile, buf, err1, err2
		}
	}

	valid, invalid, earlyExit, seed, err1 := findBug(tb, deadline, checks, seed, prop)
	if err1 == nil {
		return valid, invalid, earlyExit, 0, "", nil, nil, nil
	}

	s := newRandomBitStream(seed, true)
	t := newT(tb, s, flags.verbose, nil)
	t.Logf("[rapid] trying to reproduce the failure")
	err2 := checkOnce(t, prop)
	if !sameError(err1, err2) {
		return valid, invalid, false, seed, "", s.data, err1, err2
	}

	t.Logf("[rapid] trying to minimize the failing test case")
	buf, err3 := shrink(tb, shrinkDeadline(deadline), s.recordedBits, err2, prop)

	return valid, invalid, false, seed, "", buf, err2, err3
}

func checkFailFile(tb tb, failfile string, prop func(*T)) ([]uint64, *testError, *testError) {
	tb.Helper()

	version, _, buf, err := loadFailFile(failfile)
	if err != nil {
		tb.Logf("[rapid] ignoring fail file: %v", err)
		return nil, nil, nil
	}
	if version != rapidVersion {
		tb.Logf("[rapid] ignoring fail file: version %q differs from rapid version %q", version, rapidVersion)
		return nil, nil, nil
	}

	s1 := newBufBitStream(buf, false)
	t1 := newT(tb, s1, flags.verbose, nil)
	err1 := checkOnce(t1, prop)
	if err1 == nil {
		return nil, nil, nil
	}
	if err1.isInvalidData() {
		tb.Logf("[rapid] fail file %q is no longer valid", failfile)
		return nil, nil, nil
	}

	s2 := newBufBitStream(buf, false)
	t2 := newT(tb, s2, flags.verbose, nil)
	t2.Logf("[rapid] trying to reproduce the failure")
	err2 := checkOnce(t2, prop)

	return buf, err1, err2
}

func findBug(tb tb, deadline time.Time, checks int, seed uint64, prop func(*T)) (int, int, bool, uint64, *testError) {
	tb.Helper()

	var (
		r       = newRandomBitStream(0, false)
		t       = newT(tb, r, flags.verbose, nil)
		valid   = 0
		invalid = 0
	)

	var total time.Duration
	for valid < checks && invalid < checks*invalidChecksMult {
		iter := valid + invalid
		if iter > 0 && time.Until(deadline) < total/time.Duration(iter)*5 {
			if t.shouldLog() {
				t.Logf("[rapid] early exit after test #%v (%v)", iter, total)
			}
			return valid, invalid, true, 0, nil
		}

		seed += uint64(iter)
		r.init(seed)
		start := time.Now()
		if t.shouldLog() {
			t.Logf("[rapid] test #%v start (seed %v)", iter+1, seed)
		}

		err := checkOnce(t, prop)
		dt := time.Since(start)
		total += dt
		if err == nil {
			if t.shouldLog() {
				t.Logf("[rapid] test #%v OK (%v)", iter+1, dt)
			}
			valid++
		} else if err.isInvalidData() {
			if t.shouldLog() {
				t.Logf("[rapid] test #%v invalid (%v)", iter+1, dt)
			}
			invalid++
		} else {
			if t.shouldLog() {
				t.Logf("[rapid] test #%v failed: %v", iter+1, err)
			}
			return valid, invalid, false, seed, err
		}
	}

	return valid, invalid, false, 0, nil
}

func checkOnce(t *T, prop func(*T)) (err *testError) {
	if t.tbLog {
		t.tb.Helper()
	}
	defer func() { err = panicToError(recover(), 3) }()

	defer t.cleanup()
	prop(t)
	t.failOnError()

	return nil
}

func captureTestOutput(tb tb, prop func(*T), buf []uint64) []byte {
	var b bytes.Buffer
	l := log.New(&b, fmt.Sprintf("[%v] ", tb.Name()), log.Lmsgprefix|log.Ldate|log.Ltime|log.Lmicroseconds)
	_ = checkOnce(newT(tb, newBufBitStream(buf, false), false, l), prop)
	return b.Bytes()
}

type invalidData string
type stopTest string

type testError struct {
	data      any
	traceback string
}

func panicToError(p any, skip int) *testError {
	if p == nil {
		return nil
	}

	if err, ok := p.(*testError); ok {
		return err
	}

	callers := make([]uintptr, tracebackLen)
	callers = callers[:runtime.Callers(skip, callers)]
	frames := runtime.CallersFrames(callers)

	b := &strings.Builder{}
	f, more, skipSpecial := runtime.Frame{}, true, true
	for more && !strings.HasSuffix(f.Function, tracebackStop) {
		f, more = frames.Next()

		if skipSpecial && (tracebackBlacklist[f.Function] || strings.HasPrefix(f.Function, runtimePrefix)) {
			continue
		}
		skipSpecial = false

		_, err := fmt.Fprintf(b, "    %s:%d in %s\n", f.File, f.Line, f.Function)
		assert(err == nil)
	}

	return &testError{
		data:      p,
		traceback: b.String(),
	}
}

func (err *testError) Error() string {
	if msg, ok := err.data.(stopTest); ok {
		return string(msg)
	}

	if msg, ok := err.data.(invalidData); ok {
		return fmt.Sprintf("invalid data: %s", string(msg))
	}

	return fmt.Sprintf("%v", err.data)
}

func (err *testError) isInvalidData() bool {
	_, ok := err.data.(invalidData)
	return ok
}

func (err *testError) isStopTest() bool {
	_, ok := err.data.(stopTest)
	return ok
}

func sameError(err1 *testError, err2 *testError) bool {
	return errorString(err1) == errorString(err2) && traceback(err1) == traceback(err2)
}

func errorString(err *testError) string {
	if err == nil {
		return ""
	}

	return err.Error()
}

func traceback(err *testError) string {
	if err == nil {
		return "    <no error>\n"
	}

	return err.traceback
}

// TB is a common interface between [*testing.T], [*testing.B] and [*T].
type TB interface {
	Helper()
	Name() string
	Logf(format string, args ...any)
	Log(args ...any)
	Skipf(format string, args ...any)
	Skip(args ...any)
	SkipNow()
	Errorf(format string, args ...any)
	Error(args ...any)
	Fatalf(format string, args ...any)
	Fatal(args ...any)
	FailNow()
	Fail()
	Failed() bool
}

type tb TB // tb is a private copy of TB, made to avoid T having public fields

type nilTB struct{}

func (nilTB) Helper()               {}
func (nilTB) Name() string          { return "" }
func (nilTB) Logf(string, ...any)   {}
func (nilTB) Log(...any)            {}
func (nilTB) Skipf(string, ...any)  { panic("call to TB.Skipf() outside a test") }
func (nilTB) Skip(...any)           { panic("call to TB.Skip() outside a test") }
func (nilTB) SkipNow()              { panic("call to TB.SkipNow() outside a test") }
func (nilTB) Errorf(string, ...any) { panic("call to TB.Errorf() outside a test") }
func (nilTB) Error(...any)          { panic("call to TB.Error() outside a test") }
func (nilTB) Fatalf(string, ...any) { panic("call to TB.Fatalf() outside a test") }
func (nilTB) Fatal(...any)          { panic("call to TB.Fatal() outside a test") }
func (nilTB) FailNow()              { panic("call to TB.FailNow() outside a test") }
func (nilTB) Fail()                 { panic("call to TB.Fail() outside a test") }
func (nilTB) Failed() bool          { panic("call to TB.Failed() outside a test") }

// T is similar to [testing.T], but with extra bookkeeping for property-based tests.
//
// For tests to be reproducible, they should generally run in a single goroutine.
// If concurrency is unavoidable, methods on *T, such as [*testing.T.Helper] and [*T.Errorf],
// are safe for concurrent calls, but *Generator.Draw from a given *T is not.
type T struct {
	tb // unnamed to force re-export of (*T).Helper()

	ctx       context.Context
	cancelCtx context.CancelFunc
	cleanups  []func()
	cleaning  atomic.Bool

	tbLog    bool
	rawLog   *log.Logger
	s        bitStream
	draws    int
	refDraws []any
	mu       sync.RWMutex
	failed   stopTest
}

func newT(tb tb, s bitStream, tbLog bool, rawLog *log.Logger, refDraws ...any) *T {
	if tb == nil {
		tb = nilTB{}
	}

	t := &T{
		tb:       tb,
		tbLog:    tbLog,
		rawLog:   rawLog,
		s:        s,
		refDraws: refDraws,
	}

	if rawLog == nil && flags.log {
		testName := "rapid test"
		if tb != nil {
			testName = tb.Name()
		}

		t.rawLog = log.New(os.Stdout, fmt.Sprintf("[%v] ", testName), log.Lmsgprefix|log.Ldate|log.Ltime|log.Lmicroseconds)
	}

	return t
}

func (t *T) shouldLog() bool {
	return t.rawLog != nil || t.tbLog
}

// Context returns a context.Context that is canceled
// after the property function exits,
// before Cleanup-registered functions are run.
//
// For [Check], [MakeFuzz], and similar functions,
// each call to the property function gets a unique context
// that is canceled after that property function exits.
//
// For [Custom], each time a new value is generated,
// the generator function gets a unique context
// that is canceled after the generator function exits.
func (t *T) Context() context.Context {
	// Fast path: no need to lock if the context is already set.
	t.mu.RLock()
	ctx := t.ctx
	t.mu.RUnlock()
	if ctx != nil {
		return ctx
	}

	// If we're in the middle of cleaning up
	// and the context has already been canceled and cleared,
	// don't create a new one. Return a canceled context instead.
	if t.cleaning.Load() {
		ctx, cancel := context.WithCancel(context.Background())
		cancel()
		return ctx
	}

	// Slow path: lock and check again, create new context if needed.
	t.mu.Lock()
	defer t.mu.Unlock()

	if t.ctx != nil {
		// Another goroutine set the context
		// while we were waiting for the lock.
		return t.ctx
	}

	// Use the testing.TB's context as the starting point if available,
	// and the Background context if not.
	//
	// T.Context was added in Go 1.24.
	if tctx, ok := t.tb.(interface{ Context() context.Context }); ok {
		ctx = tctx.Context()
	} else {
		ctx = context.Background()
	}

	ctx, cancel := context.WithCancel(ctx)
	t.ctx = ctx
	t.cancelCtx = cancel
	return ctx
}

// Cleanup registers a function to be called
// when a property function finishes running.
//
// For [Check], [MakeFuzz], and similar functions,
// each call to the property function registers its cleanup functions,
// which are called after the property function exits.
//
// For [Custom], each time a new value is generated,
// the generator function registers its cleanup functions,
// which are called after the generator function exits.
//
// Cleanup functions are called in last-in, first-out order.
//
// If [T.Context] is used, the context is canceled
// before the Cleanup functions are executed.
func (t *T) Cleanup(f func()) {
	t.mu.Lock()
	defer t.mu.Unlock()

	t.cleanups = append(t.cleanups, f)
}

// cleanup runs any cleanup tasks associated with the property check.
// It is safe to call multiple times.
func (t *T) cleanup() {
	t.cleaning.Store(true)
	defer t.cleaning.Store(false)

	// If a cleanup function panics,
	// we still want to run the remaining cleanup functions.
	defer func() {
		t.mu.Lock()
		recurse := len(t.cleanups) > 0
		t.mu.Unlock()

		if recurse {
			t.cleanup()
		}
	}()

	// Context must be closed before t.Cleanup functions are run.
	t.mu.Lock()
	if t.cancelCtx != nil {
		t.cancelCtx()
		t.cancelCtx = nil
		t.ctx = nil
	}
	t.mu.Unlock()

	for {
		var cleanup func()
		t.mu.Lock()
		if len(t.cleanups) > 0 {
			last := len(t.cleanups) - 1
			cleanup = t.cleanups[last]
			t.cleanups = t.cleanups[:last]
		}
		t.mu.Unlock()

		if cleanup == nil {
			break
		}

		cleanup()
	}
}

func (t *T) Logf(format string, args ...any) {
	if t.rawLog != nil {
		t.rawLog.Printf(format, args...)
	} else if t.tbLog {
		t.tb.Helper()
		t.tb.Logf(format, args...)
	}
}

func (t *T) Log(args ...any) {
	if t.rawLog != nil {
		t.rawLog.Print(args...)
	} else if t.tbLog {
		t.tb.Helper()
		t.tb.Log(args...)
	}
}

// Output returns a Writer that writes to the same test output stream as T.Log.
// The output is indented like T.Log lines, but Output does not
// add source locations or newlines. The output is internally line
// buffered, and a call to T.Log or the end of the test will implicitly
// flush the buffer, followed by a newline. After a test function and all its
// parents return, neither Output nor the Write method may be called.
//
// Only available on Go >= 1.25
func (t *T) Output() io.Writer {
	t.Helper()

	if t.rawLog != nil {
		return t.rawLog.Writer()
	} else if t.tbLog {
		if tout, ok := t.tb.(interface{ Output() io.Writer }); ok {
			return tout.Output()
		} else {
			t.Fatal("[rapid] Output requires Go 1.25 or newer")
			return nil
		}
	} else {
		return io.Discard
	}
}

// Skipf is equivalent to [T.Logf] followed by [T.SkipNow].
func (t *T) Skipf(format string, args ...any) {
	if t.tbLog {
		t.tb.Helper()
	}
	t.Logf(format, args...)
	t.skip(fmt.Sprintf(format, args...))
}

// Skip is equivalent to [T.Log] followed by [T.SkipNow].
func (t *T) Skip(args ...any) {
	if t.tbLog {
		t.tb.Helper()
	}
	t.Log(args...)
	t.skip(fmt.Sprint(args...))
}

// SkipNow marks the current test case as invalid (except in [T.Repeat]
// actions, where it marks current action as non-applicable instead).
// If too many test cases are skipped, rapid will mark the test as failing
// due to inability to generate enough valid test cases.
//
// The test case or action will be treated like it had never been drawn
// and will not be shown in test logs.
// Therefore, to avoid confusing test failures later on,
// [SkipNow] must not be called after the action has already mutated shared state.
//
// Prefer *Generator.Filter to SkipNow, and prefer generators that always produce
// valid test cases to Filter.
func (t *T) SkipNow() {
	t.skip("(*T).SkipNow() called")
}

// Errorf is equivalent to [T.Logf] followed by [T.Fail].
func (t *T) Errorf(format string, args ...any) {
	if t.tbLog {
		t.tb.Helper()
	}
	t.Logf(format, args...)
	t.fail(false, fmt.Sprintf(format, args...))
}

// Error is equivalent to [T.Log] followed by [T.Fail].
func (t *T) Error(args ...any) {
	if t.tbLog {
		t.tb.Helper()
	}
	t.Log(args...)
	t.fail(false, fmt.Sprint(args...))
}

// Fatalf is equivalent to [T.Logf] followed by [T.FailNow].
func (t *T) Fatalf(format string, args ...any) {
	if t.tbLog {
		t.tb.Helper()
	}
	t.Logf(format, args...)
	t.fail(true, fmt.Sprintf(format, args...))
}

// Fatal is equivalent to [T.Log] followed by [T.FailNow].
func (t *T) Fatal(args ...any) {
	if t.tbLog {
		t.tb.Helper()
	}
	t.Log(args...)
	t.fail(true, fmt.Sprint(args...))
}

func (t *T) FailNow() {
	t.fail(true, "(*T).FailNow() called")
}

func (t *T) Fail() {
	t.fail(false, "(*T).Fail() called")
}

func (t *T) Failed() bool {
	t.mu.RLock()
	defer t.mu.RUnlock()

	return t.failed != ""
}

func (t *T) skip(msg string) {
	panic(invalidData(msg))
}

func (t *T) fail(now bool, msg string) {
	t.mu.Lock()
	defer t.mu.Unlock()

	t.failed = stopTest(msg)
	if now {
		panic(t.failed)
	}
}

func (t *T) failOnError() {
	t.mu.RLock()
	defer t.mu.RUnlock()

	if t.failed != "" {
		panic(t.failed)
	}
}
