//go:build verif

package format_test

// Grammar-based generator of .api programs for C20.
//
// The grammar below is transcribed from the recursive-descent functions of
// tools/goctl/pkg/parser/api/parser/parser.go (parseStmt, parseSyntaxStmt, parseInfoStmt,
// parseImportStmt, parseTypeStmt/parseTypeExpr/parseDataType/parseElemExpr, parseService,
// parseAtServerKVExpression, parseServiceItemStmt, parseRouteStmt, parsePathExpr, parseBodyStmt),
// not from the documentation.  The generator emits text directly: every token is preceded by a
// "gap" (whitespace, newlines, comments) drawn under the constraints the parser imposes:
//
//   - a named struct field keeps its first name and the following token on one line, an embedded
//     field without tag is followed by a line break (parseElemExpr decides by line numbers);
//   - no comment directly after a '/' of a route path (notExpectPeekTokenGotComment);
//   - tokens that would merge when adjacent get a separator.
//
// Comments are emitted at every position the parser attaches comments to: on the line of the
// previous token ("leading" = trailing comment of that token) and on own lines before the next
// token ("head" comment of that token), line and block comments, multi-line block comments.
// Every comment carries a unique id.  A comment is of class "must" when it sits at a statement-level
// position (own line before a statement / key-value / import / type expression / field / @doc /
// @handler / route / closing bracket of a non-empty group, or at the end of the line after the last
// token of such an item or after the opening bracket of a non-empty group) - the package's golden
// tests show these are kept.  Comments between the tokens of one item are of class "may": the
// golden tests (the /*xx*/ markers in format_test.go) show the formatter drops many of them on
// purpose, so only "no comment is invented or duplicated" is asserted for them.

import (
	"fmt"
	"strings"

	"github.com/zeromicro/go-zero/internal/verifkit"
	rapid "github.com/zeromicro/go-zero/internal/verifrapid"
)

type cls int

const (
	clsNone cls = iota // no comment may be placed here
	clsMay             // comment allowed, formatter may drop it
	clsMust            // comment must survive formatting
)

type gapKind int

const (
	gAny     gapKind = iota // any whitespace, possibly none
	gSep                    // at least one separator
	gSame                   // stay on the line of the previous token
	gSameSep                // stay on the line, at least one separator
	gNL                     // at least one line break
)

type piece struct {
	text  string
	isTok bool
}

type comment struct {
	text string
	must bool
}

type gen struct {
	t        *rapid.T
	pieces   []piece
	prev     string          // previous token text ("" at file start)
	trail    cls             // class of comments trailing the previous token
	capMay   bool            // inside a construct the formatter drops on purpose: nothing is "must"
	pendNL   bool            // the next gap must contain a line break
	noCmt    bool            // program without comments
	noMay    bool            // no comments between the tokens of one item (class "may")
	area     string          // grammar area of the gap being emitted (for class "may" comments)
	mayOff   map[string]bool // areas in which no class "may" comment is placed
	mayAreas map[string]int  // histogram: class "may" comments per area
	assume   map[string]bool // findings assumed known: their signatures are excluded by construction
	cmtPct   int             // chance of a comment per slot
	nlPct    int             // chance of a voluntary line break per free gap
	focus    bool            // focus mode, see rare()
	wild     bool            // odd whitespace characters (\r\n, \f, \v, runs)
	comments []comment
	ncmt     int
	// features, for the non-trivial rule and histograms
	groups, stmts, fields, routes, nested, multiDoc, degenerate, bulk int
	lossy                                                             bool // the program holds a construct the formatter drops on purpose (empty group/import/@doc, "()", ';')
	kinds                                                             map[string]int
}

func (g *gen) n(lo, hi int, label string) int { return rapid.IntRange(lo, hi).Draw(g.t, label) }

// chance is true with probability pct/100 (granularity 1/64); the minimal draw (all bits false) is
// "false" so that shrinking removes optional material.  rapid's integer generators are deliberately skewed
// towards small values (IntRange(0,99) lands in 0..9 in 42 % of the draws and in 90..99 in 7 %), which made
// every nominal percentage about half of what was written and conjunctions of rare choices far rarer still;
// rapid.Bool() is uniform, so the value is assembled from six of them.
func (g *gen) chance(pct int, label string) bool {
	if pct <= 0 {
		return false
	}
	k := (pct*64 + 50) / 100
	if k < 1 {
		k = 1
	}
	v := 0
	for i := 0; i < 6; i++ {
		if rapid.Bool().Draw(g.t, label) {
			v |= 1 << i
		}
	}
	return v >= 64-k
}

func (g *gen) raw(s string) {
	if s != "" {
		g.pieces = append(g.pieces, piece{text: s})
	}
}

func (g *gen) source() string {
	var sb strings.Builder
	for _, p := range g.pieces {
		sb.WriteString(p.text)
	}
	return sb.String()
}

func isWordByte(b byte) bool {
	return b == '_' || (b >= '0' && b <= '9') || (b >= 'a' && b <= 'z') || (b >= 'A' && b <= 'Z') || b >= 0x80
}

func needSep(prev, next string) bool {
	if prev == "" || next == "" {
		return false
	}
	a, b := prev[len(prev)-1], next[0]
	if isWordByte(a) && isWordByte(b) {
		return true
	}
	// "/" followed by "/" or "*" would open a comment; "*" "/" is harmless outside comments
	if a == '/' && (b == '/' || b == '*') {
		return true
	}
	// "interface" directly followed by "{}" is scanned as the single token interface{}
	if strings.HasSuffix(prev, "interface") && b == '{' {
		return true
	}
	// '.' runs: "..." must stay one token
	if a == '.' && b == '.' {
		return true
	}
	return false
}

var sameWS = []string{" ", "\t", "  ", " \t", "\t\t", "   "}
var wildSameWS = []string{" ", "\t", "\f", "\v", " \r", "    ", "\t \t"}

func (g *gen) wsSame(label string) string {
	if g.wild {
		return rapid.SampledFrom(wildSameWS).Draw(g.t, label)
	}
	return rapid.SampledFrom(sameWS).Draw(g.t, label)
}

func (g *gen) newline(label string) string {
	k := g.n(0, 9, label)
	nl := "\n"
	if g.wild && k >= 7 {
		nl = "\r\n"
	}
	switch {
	case k == 5 || k == 8:
		return nl + nl
	case k == 6:
		return nl + " " + nl + nl
	}
	return nl
}

var cmtAlphabet = []string{"a", "b", "x", "Z", "0", "7", " ", " ", "_", ".", ",", ":", ";", "-", "+", "=", "(", ")", "{", "}", "[", "]",
	"%", "%d", "%s", "\"", "`", "'", "@doc", "@handler", "//", "/", "#", "\\", "中", "µ", "é", "?", "!", "*", "<", ">", "|", "&", "$", "~", "^", "\t"}

func (g *gen) cmtBody(label string) string {
	g.ncmt++
	id := fmt.Sprintf("c%d", g.ncmt)
	n := g.n(0, 6, label+"n")
	var sb strings.Builder
	lead := g.n(0, 2, label+"l")
	if lead == 1 {
		sb.WriteString(" ")
	}
	sb.WriteString(id)
	for i := 0; i < n; i++ {
		sb.WriteString(rapid.SampledFrom(cmtAlphabet).Draw(g.t, label+"c"))
	}
	return g.noTab(sb.String())
}

// noTab: finding C20-F2 (a tab inside a string or comment is rewritten by the tabwriter); when it is
// listed as known the generator keeps tabs out of strings and comments.
func (g *gen) noTab(s string) string {
	if g.assume["C20-F2"] {
		return strings.ReplaceAll(s, "\t", " ")
	}
	return s
}

// f2safe: with C20-F2 listed as known the generator keeps the finding's signature (sigTabInToken) out
// of multi-line tokens by construction: no tab; in a string no blank next to a line break, in a
// comment at most one.
func (g *gen) f2safe(s string, comment bool) string {
	if !g.assume["C20-F2"] {
		return s
	}
	s = strings.ReplaceAll(s, "\t", " ")
	before, after, to1, to2 := " \n", "\n ", "\n", "\n"
	if comment {
		before, after, to1, to2 = "  \n", "\n  ", " \n", "\n "
	}
	for strings.Contains(s, before) {
		s = strings.ReplaceAll(s, before, to1)
	}
	for strings.Contains(s, after) {
		s = strings.ReplaceAll(s, after, to2)
	}
	return s
}

func sanitizeBlock(s string) string {
	// scanDocument closes a block comment at the first '/' that follows ANY earlier '*' of the
	// body (its half-close state is never reset), so "/* 2 * 3 / 4 */" ends after "3 /".  Sources
	// the scanner lexes differently from what was meant are outside the generator's domain: after
	// the first '*' of a body no '/' is emitted.
	var sb strings.Builder
	star := false
	for _, r := range s {
		if r == '*' {
			star = true
		}
		if r == '/' && star {
			r = '|'
		}
		sb.WriteRune(r)
	}
	return sb.String()
}

func (g *gen) lineComment(c cls, label string) string {
	body := g.cmtBody(label)
	txt := "//" + body
	g.comments = append(g.comments, comment{text: txt, must: c == clsMust})
	return txt
}

func (g *gen) blockComment(c cls, multi bool, label string) string {
	body := sanitizeBlock(g.cmtBody(label))
	if multi {
		g.multiDoc++
		style := g.n(0, 3, label+"ms")
		extra := sanitizeBlock(g.cmtBody(label + "x"))
		g.ncmt-- // the id of the second body is not a separate comment
		switch style {
		case 0:
			body = body + "\n" + extra
		case 1:
			body = "*\n * " + body + "\n * " + extra + "\n "
		case 2:
			body = "\n  " + body + "\n    " + extra + "\n"
		default:
			body = " " + body + " \n\t" + extra + "  \n"
		}
	}
	txt := "/*" + sanitizeBlock(g.f2safe(body, true)) + "*/"
	g.comments = append(g.comments, comment{text: txt, must: c == clsMust})
	return txt
}

func (g *gen) wantComment(c cls, label string) bool {
	if c == clsNone || g.noCmt || (c == clsMay && (g.noMay || g.mayOff[g.area])) {
		return false
	}
	if !g.chance(g.cmtPct, label) {
		return false
	}
	if c == clsMay {
		if g.mayAreas == nil {
			g.mayAreas = map[string]int{}
		}
		g.mayAreas[g.area]++
	}
	return true
}

// tok emits the gap before the token, then the token.  head is the class of own-line comments
// before this token.  The class of comments trailing the token defaults to "may"; use tr().
func (g *gen) tok(text string, k gapKind, head cls) *gen {
	g.gap(k, g.cap(head), text)
	g.pieces = append(g.pieces, piece{text: text, isTok: true})
	g.prev = text
	g.trail = clsMay
	return g
}

func (g *gen) tr(c cls) *gen {
	g.trail = g.cap(c)
	return g
}

func (g *gen) gap(k gapKind, head cls, next string) {
	if g.prev == "" { // file start: everything before the first token is a head comment
		g.fileStart(head)
		return
	}
	if g.pendNL {
		g.pendNL = false
		k = gNL
	}
	sameOnly := k == gSame || k == gSameSep
	emitted := false
	forceNL := false
	if g.wantComment(g.trail, "tc") {
		if g.chance(70, "tcw") || strings.HasSuffix(g.prev, "/") { // "/" + "//c" would lex as "///c"
			g.raw(g.wsSame("tcws"))
		}
		nb := 0
		line := !sameOnly && g.chance(60, "tcl")
		if !line || g.chance(25, "tcb2") {
			nb = 1 + g.n(0, 1, "tcbn")
		}
		for i := 0; i < nb; i++ {
			g.raw(g.blockComment(g.trail, false, "tcb"))
			if g.chance(50, "tcbw") {
				g.raw(g.wsSame("tcbws"))
			}
		}
		if line {
			g.raw(g.lineComment(g.trail, "tcl"))
			forceNL = true
		}
		emitted = true
	}
	if k == gNL || forceNL || (!sameOnly && g.chance(g.nlPct, "nl")) {
		g.raw(g.newline("nlk"))
		emitted = true
		if g.wantComment(head, "hc") {
			n := 1 + g.n(0, 2, "hcn")
			for i := 0; i < n; i++ {
				if g.chance(40, "hci") {
					g.raw(g.wsSame("hciw"))
				}
				if g.chance(50, "hcl") {
					g.raw(g.lineComment(head, "hcl"))
					g.raw(g.newline("hcnl"))
				} else {
					g.raw(g.blockComment(head, g.chance(25, "hcm"), "hcb"))
					if i < n-1 || !g.chance(25, "hcsame") {
						g.raw(g.newline("hcnl2"))
					} else if g.chance(50, "hcsw") {
						g.raw(g.wsSame("hcsws")) // block comment and token share a line: still a head comment
					}
				}
			}
		}
		if g.chance(50, "ind") {
			g.raw(g.wsSame("indw"))
		}
	} else if g.chance(60, "ws") {
		g.raw(g.wsSame("wsw"))
		emitted = true
	}
	if !emitted && (k == gSep || k == gSameSep || needSep(g.prev, next)) {
		g.raw(" ")
	}
}

func (g *gen) fileStart(head cls) {
	if g.chance(20, "fsw") {
		g.raw(g.wsSame("fsws"))
	}
	if g.chance(20, "fsnl") {
		g.raw(g.newline("fsnlk"))
	}
	if g.wantComment(head, "fhc") {
		n := 1 + g.n(0, 2, "fhcn")
		for i := 0; i < n; i++ {
			if g.chance(50, "fhcl") {
				g.raw(g.lineComment(head, "fhcl"))
				g.raw(g.newline("fhcnl"))
			} else {
				g.raw(g.blockComment(head, g.chance(30, "fhcm"), "fhcb"))
				if i < n-1 || !g.chance(25, "fhcsame") {
					g.raw(g.newline("fhcnl2"))
				}
			}
		}
	}
}

// fileEnd emits what follows the last token: trailing comments, own-line comments (they become
// CommentStmt nodes at EOF), whitespace.
func (g *gen) fileEnd() {
	if g.prev == "" {
		// comment-only / whitespace-only program: never empty
		g.raw(g.newline("onlynl"))
		if !g.noCmt {
			n := 1 + g.n(0, 2, "onlyn")
			for i := 0; i < n; i++ {
				if g.chance(50, "onlyl") {
					g.raw(g.lineComment(clsMust, "onlyc"))
					g.raw(g.newline("onlycnl"))
				} else {
					g.raw(g.blockComment(clsMust, g.chance(25, "onlym"), "onlyb"))
					g.raw(g.newline("onlybnl"))
				}
			}
		}
		return
	}
	// reuse gap with a virtual EOF token that needs no separator
	g.gap(gAny, clsMust, "")
	// own-line comments emitted by gap may lack a final newline only for block comments: fine.
}

// ------------------------------------------------------------------ lexical material

var goKeywords = map[string]bool{"break": true, "case": true, "chan": true, "const": true, "continue": true, "default": true,
	"defer": true, "else": true, "fallthrough": true, "for": true, "func": true, "go": true, "goto": true, "if": true, "import": true,
	"interface": true, "map": true, "package": true, "range": true, "return": true, "select": true, "struct": true, "switch": true,
	"type": true, "var": true}

var typeNames = []string{"Req", "Resp", "User", "T1", "Foo", "Bar", "Baz", "Item", "LoginReq", "a", "B_2", "get", "info", "syntax", "service", "returns", "any", "Any"}
var baseTypes = []string{"int", "string", "bool", "int64", "float64", "uint8", "byte", "rune", "any", "uintptr", "complex128"}
var fieldNames = []string{"Name", "Age", "ID", "id", "a", "B", "Extra", "Address", "Hobby", "Child", "x_1", "Data", "List", "M", "get", "returns", "info", "service", "string", "int"}
var plainIdents = []string{"foo", "bar", "baz", "quux", "user", "v1", "api", "Auth", "login", "ping", "a", "b", "id", "name", "key1", "title", "desc", "author", "jwt", "group", "prefix", "middleware", "timeout", "maxBytes"}
var trickyIdents = []string{"type", "import", "info", "syntax", "service", "map", "interface", "any", "go", "func", "get", "post", "struct", "handler", "doc", "server", "_", "_a", "A1", "x_y_z"}
var httpMethods = []string{"get", "head", "post", "put", "patch", "delete", "connect", "options", "trace"}
var durations = []string{"1s", "3ms", "10m", "1h", "500µs", "20ns", "1h30m", "1m30s", "2h45m10s", "100ms"}

func (g *gen) ident(label string) string {
	k := g.n(0, 9, label+"k")
	switch {
	case k <= 6:
		return rapid.SampledFrom(plainIdents).Draw(g.t, label)
	case k <= 8:
		return rapid.StringMatching(`[A-Za-z_][A-Za-z0-9_]{0,7}`).Filter(func(s string) bool { return s != "returns" }).Draw(g.t, label+"r")
	default:
		return rapid.SampledFrom(trickyIdents).Draw(g.t, label+"t")
	}
}

// declIdent: a name the parser accepts for a type name / field name (no Go keyword).
func (g *gen) declIdent(pool []string, label string) string {
	if g.chance(75, label+"p") {
		return rapid.SampledFrom(pool).Draw(g.t, label)
	}
	return rapid.StringMatching(`[A-Za-z_][A-Za-z0-9_]{0,7}`).Filter(func(s string) bool { return !goKeywords[s] }).Draw(g.t, label+"r")
}

var strAlphabet = []string{"a", "b", "c", "X", "1", "9", " ", " ", "_", ".", ",", ":", ";", "-", "/", "*", "//", "/*", "*/", "%", "%s", "%d", "%v", "(", ")", "{", "}",
	"[", "]", "'", "\\", "\\n", "@", "#", "中", "µ", "é", "?", "!", "=", "<", ">", "|", "&", "\t", "v1", "foo", "user"}

func (g *gen) strBody(label string, max int) string {
	n := g.n(0, max, label+"n")
	var sb strings.Builder
	for i := 0; i < n; i++ {
		sb.WriteString(rapid.SampledFrom(strAlphabet).Draw(g.t, label+"c"))
	}
	return g.noTab(sb.String())
}

// str: a STRING token ("..."); the scanner has no escapes, so no '"' inside.  Non-empty unless
// empty is requested (the formatter drops items whose value is "").
func (g *gen) str(label string, empty bool) string {
	if empty {
		return `""`
	}
	b := g.strBody(label, 6)
	if b == "" {
		b = "v"
	}
	return `"` + b + `"`
}

func (g *gen) rawStr(label string, multiline bool) string {
	b := g.strBody(label, 6)
	if multiline {
		b = b + "\n" + g.strBody(label+"2", 4) + " \n  " + g.strBody(label+"3", 3)
	}
	if b == "" {
		b = "r"
	}
	return "`" + g.f2safe(b, false) + "`"
}

var tagPool = []string{"`json:\"name\"`", "`json:\"age,optional\"`", "`form:\"id\"`", "`path:\"id\"`", "`json:\"a,default=1\" validate:\"x\"`",
	"`json:\"-\"`", "`header:\"X-Id\"`", "`json:\"list,omitempty\"`", "`json:\"r,range=[0:10]\"`", "`json:\"o,options=a|b\"`", "`x`"}

func (g *gen) tag(label string) string {
	if g.chance(85, label+"p") {
		return rapid.SampledFrom(tagPool).Draw(g.t, label)
	}
	return g.rawStr(label+"r", false)
}

// ------------------------------------------------------------------ statements

func (g *gen) kind(k string) {
	if g.kinds == nil {
		g.kinds = map[string]int{}
	}
	g.kinds[k]++
}

// rare scales the chance of a rarely taken alternative (an empty or dropped construct, ';', a spaced path):
// in focus mode (one or two statements per program, dense comments) these are five times as likely, so
// that their interactions with comments and line breaks inside ONE statement are reached within the budget.
func (g *gen) rare(pct int) int {
	if g.focus {
		if pct*5 > 40 {
			return 40
		}
		return pct * 5
	}
	return pct
}

func (g *gen) program(maxStmts int) {
	if g.focus && maxStmts > 2 {
		maxStmts = 2
	}
	nst := g.n(0, maxStmts, "nstmts")
	if g.focus && nst == 0 {
		nst = 1
	}
	kinds := make([]int, nst)
	for i := range kinds {
		// 0 syntax 1 info 2 import-lit 3 import-group 4 type-lit 5 type-group 6 service
		kinds[i] = rapid.SampledFrom([]int{4, 6, 5, 2, 3, 1, 0, 4, 6, 4, 5, 6, 2}).Draw(g.t, "stmtkind")
	}
	if g.chance(70, "canonical") {
		// canonical order: syntax, info, imports, types/services
		rank := func(k int) int {
			switch k {
			case 0:
				return 0
			case 1:
				return 1
			case 2, 3:
				return 2
			}
			return 3
		}
		for i := 1; i < len(kinds); i++ { // stable insertion sort
			for j := i; j > 0 && rank(kinds[j-1]) > rank(kinds[j]); j-- {
				kinds[j-1], kinds[j] = kinds[j], kinds[j-1]
			}
		}
	}
	// scale: one program in eighty (unit `valid` only) holds one statement whose text is far larger than anything else in
	// the case (6 KB - 100 KB: past whatever size a buffer, a pool or a scanner window may have been
	// tuned for); the statements behind it and the programs of the next cases show what it left behind
	if !g.focus && maxStmts >= 6 && (bulkAlways || g.chance(2, "bulk") && g.chance(bulkPct, "bulk2")) {
		at := 0
		for at < len(kinds) && kinds[at] <= 3 {
			at++
		}
		if at < len(kinds) {
			at += g.n(0, len(kinds)-at, "bulkAt")
		}
		kinds = append(kinds[:at], append([]int{7}, kinds[at:]...)...)
	}
	for _, k := range kinds {
		g.stmts++
		switch k {
		case 7:
			g.bulkTypeGroup()
		case 0:
			g.syntaxStmt()
		case 1:
			g.infoStmt()
		case 2:
			g.importLit()
		case 3:
			g.importGroup()
		case 4:
			g.typeLit()
		case 5:
			g.typeGroup()
		case 6:
			g.service()
		}
	}
	g.fileEnd()
}

// dropped runs f with every comment class capped at "may": the construct is one the formatter
// removes on purpose (empty import / info / type group / @server / @doc, golden tests), and the
// comments around it go with it.
func (g *gen) dropped(f func()) {
	g.degenerate++
	g.lossy = true
	old := g.capMay
	g.capMay = true
	f()
	g.tr(clsMay)
	g.capMay = old
}

func (g *gen) cap(c cls) cls {
	if g.capMay && c == clsMust {
		return clsMay
	}
	return c
}

func (g *gen) syntaxStmt() {
	g.kind("syntax")
	g.area = "syntax"
	g.tok("syntax", gAny, g.cap(clsMust))
	g.tok("=", gAny, clsMay)
	g.tok(g.str("synv", false), gAny, clsMay).tr(g.cap(clsMust))
}

// empties draws which of n values are the empty string; allEmpty: every one is (such a group is
// dropped by the formatter as a whole).
func (g *gen) empties(n int, label string) (list []bool, all bool) {
	list = make([]bool, n)
	if n > 0 && g.chance(g.rare(5), label+"allempty") {
		for i := range list {
			list[i] = true
		}
		return list, true
	}
	some := false
	for i := range list {
		list[i] = g.chance(g.rare(6), label+"empty1")
		some = some || !list[i]
	}
	if !some && n > 0 {
		list[0] = false
	}
	return list, false
}

// kvGroup emits "( key: value ... )" for info and @doc groups (parseKVExpression: value is a
// STRING or RAW_STRING).
func (g *gen) kvGroup(label string, n int, empty []bool) {
	open := clsMust
	if n == 0 {
		open = clsMay
	}
	g.area = "kv"
	g.tok("(", gAny, clsMay).tr(g.cap(open))
	for i := 0; i < n; i++ {
		g.tok(g.ident(label+"key"), gAny, g.cap(clsMust))
		g.tok(":", gAny, clsMay)
		var v string
		switch {
		case empty[i]:
			v = rapid.SampledFrom([]string{`""`, "``"}).Draw(g.t, label+"ev")
		case g.chance(20, label+"raw"):
			v = g.rawStr(label+"rv", g.chance(30, label+"ml"))
		default:
			v = g.str(label+"sv", false)
		}
		g.tok(v, gAny, clsMay).tr(g.cap(clsMust))
	}
	g.tok(")", gAny, g.cap(open))
}

func (g *gen) infoStmt() {
	g.kind("info")
	n := g.n(0, 4, "infon")
	empty, allEmpty := g.empties(n, "info")
	body := func() {
		g.tok("info", gAny, g.cap(clsMust))
		g.kvGroup("info", n, empty)
		g.tr(g.cap(clsMust))
	}
	if n == 0 || allEmpty {
		g.dropped(body)
		return
	}
	body()
}

func (g *gen) importLit() {
	g.kind("import")
	if g.chance(g.rare(4), "impempty") {
		g.dropped(func() {
			g.area = "import"
			g.tok("import", gAny, clsMay)
			g.tok(`""`, gAny, clsMay)
		})
		return
	}
	g.area = "import"
	g.tok("import", gAny, clsMust)
	g.tok(g.str("impv", false), gAny, clsMay).tr(clsMust)
}

func (g *gen) importGroup() {
	g.kind("importgroup")
	g.groups++
	n := g.n(0, 4, "impgn")
	empty, allEmpty := g.empties(n, "impg")
	body := func() {
		g.area = "importgroup"
		g.tok("import", gAny, g.cap(clsMust))
		open := g.cap(clsMust)
		if n == 0 {
			open = clsMay
		}
		g.tok("(", gAny, clsMay).tr(open)
		for i := 0; i < n; i++ {
			v := `""`
			if !empty[i] {
				v = g.str("impgv", false)
			}
			g.tok(v, gAny, g.cap(clsMust)).tr(g.cap(clsMust))
		}
		g.tok(")", gAny, open).tr(g.cap(clsMust))
	}
	if n == 0 || allEmpty {
		g.dropped(body)
		return
	}
	body()
}

func (g *gen) typeLit() {
	g.kind("type")
	g.area = "typeexpr"
	g.tok("type", gAny, clsMust)
	g.typeExpr(clsMay)
}

func (g *gen) typeGroup() {
	g.kind("typegroup")
	g.groups++
	n := g.n(0, 4, "tgn")
	body := func() {
		open := g.cap(clsMust)
		if n == 0 {
			open = clsMay
		}
		g.area = "typegroup"
		g.tok("type", gAny, g.cap(clsMust))
		g.tok("(", gAny, clsMay).tr(open)
		for i := 0; i < n; i++ {
			g.typeExpr(clsMust)
		}
		g.area = "typegroup"
		g.tok(")", gAny, open).tr(g.cap(clsMust))
	}
	if n == 0 {
		g.dropped(body)
		return
	}
	body()
}

// bulk statements are drawn with probability 1/64 * bulkPct/100 (VERIF_C20_BULKPCT, quick 25, thorough 100)
var (
	bulkAlways = verifkit.EnvInt("c20_bulk_always", 0) == 1
	bulkPct    = verifkit.EnvInt("c20_bulkpct", 25)
)

// fixedTok appends a token behind a fixed separator, without any draw (bulk material).
func (g *gen) fixedTok(sep, text string) {
	g.raw(sep)
	g.pieces = append(g.pieces, piece{text: text, isTok: true})
	g.prev = text
	g.trail = clsMay
}

// bulkTypeGroup: a type group of many small structs, written in an already canonical layout; only its
// size and the shape of a member are drawn.
func (g *gen) bulkTypeGroup() {
	g.kind("typegroup-bulk")
	g.groups++
	g.bulk++
	target := rapid.SampledFrom([]int{6 << 10, 20 << 10, 40 << 10, 70 << 10, 100 << 10}).Draw(g.t, "bulkBytes")
	nf := g.n(1, 6, "bulkFields")
	tagged := rapid.Bool().Draw(g.t, "bulkTags")
	types := []string{"int64", "string", "[]string", "map[string]int", "*bool", "[]*Resp", "interface{}"}
	perMember := 12 + nf*34
	members := target/perMember + 1
	g.area = "typegroup"
	g.tok("type", gAny, clsMust)
	g.tok("(", gAny, clsMay)
	for i := 0; i < members; i++ {
		g.fixedTok("\n\t", fmt.Sprintf("Bulk%dx%d", g.bulk, i))
		g.fixedTok(" ", "{")
		for j := 0; j < nf; j++ {
			g.fixedTok("\n\t\t", fmt.Sprintf("Field%d", j))
			ty := types[(i+j)%len(types)]
			switch {
			case strings.HasPrefix(ty, "map["):
				g.fixedTok(" ", "map")
				g.fixedTok("", "[")
				g.fixedTok("", "string")
				g.fixedTok("", "]")
				g.fixedTok("", "int")
			case strings.HasPrefix(ty, "[]*"):
				g.fixedTok(" ", "[")
				g.fixedTok("", "]")
				g.fixedTok("", "*")
				g.fixedTok("", ty[3:])
			case strings.HasPrefix(ty, "[]"):
				g.fixedTok(" ", "[")
				g.fixedTok("", "]")
				g.fixedTok("", ty[2:])
			case strings.HasPrefix(ty, "*"):
				g.fixedTok(" ", "*")
				g.fixedTok("", ty[1:])
			default:
				g.fixedTok(" ", ty)
			}
			if tagged {
				g.fixedTok(" ", fmt.Sprintf("`json:\"f%d,optional\"`", j))
			}
		}
		g.fixedTok("\n\t", "}")
	}
	g.raw("\n")
	g.tok(")", gAny, clsMay).tr(g.cap(clsMust))
}

// typeExpr: Name [=] DataType  (parseTypeExpr)
func (g *gen) typeExpr(head cls) {
	g.area = "typeexpr"
	g.tok(g.declIdent(typeNames, "tname"), gAny, head)
	if g.chance(20, "assign") {
		g.tok("=", gAny, clsMay)
	}
	g.dataType(3, true, gAny, clsMay)
	g.tr(clsMust)
}

// dataType emits one DataType (parseDataType); the gap/head class of its first token are given by
// the caller.  structOK: a struct literal is allowed here (not directly behind '*').
func (g *gen) dataType(depth int, structOK bool, k gapKind, head cls) {
	outer := g.area
	defer func() { g.area = outer }()
	choices := []int{0, 0, 0, 1, 2, 3, 4, 5, 6, 7, 7, 0}
	c := rapid.SampledFrom(choices).Draw(g.t, "dt")
	if depth <= 0 && c != 1 && c != 6 {
		c = 0
	}
	if c == 7 && !structOK {
		c = 0
	}
	switch c {
	case 0: // base / user type identifier
		var name string
		if g.chance(60, "dtbase") {
			name = rapid.SampledFrom(baseTypes).Draw(g.t, "dtb")
		} else {
			name = g.declIdent(typeNames, "dtu")
		}
		g.tok(name, k, head)
	case 1: // any
		g.tok("any", k, head)
	case 2: // slice
		g.tok("[", k, head)
		g.area = "datatype"
		g.tok("]", gAny, clsMay)
		g.dataType(depth-1, true, gAny, clsMay)
	case 3: // array
		g.tok("[", k, head)
		g.area = "datatype"
		if g.chance(30, "ellipsis") {
			g.tok("...", gAny, clsMay)
		} else {
			g.tok(fmt.Sprint(g.n(0, 12, "alen")), gAny, clsMay)
		}
		g.tok("]", gAny, clsMay)
		g.dataType(depth-1, true, gAny, clsMay)
	case 4: // map
		g.tok("map", k, head)
		g.area = "datatype"
		g.tok("[", gAny, clsMay)
		// comments inside a map key are dropped on purpose (golden tests, /*xx*/ markers)
		oldCap := g.capMay
		g.capMay = true
		// a struct literal as map key is legal for the parser; rare on purpose
		g.dataType(depth-1, g.chance(6, "mapkeystruct"), gAny, clsMay)
		g.tok("]", gAny, clsMay)
		g.capMay = oldCap
		g.dataType(depth-1, true, gAny, clsMay)
	case 5: // pointer: next must be IDENT, '[', interface{} or '*'
		g.tok("*", k, head)
		g.area = "datatype"
		g.dataType(depth-1, false, gAny, clsMay)
	case 6: // interface{}
		g.tok("interface{}", k, head)
	case 7: // struct
		g.structType(depth-1, k, head)
	}
}

func (g *gen) structType(depth int, k gapKind, head cls) {
	nf := g.n(0, 5, "nfields")
	open := clsMust
	if nf == 0 {
		open = clsMay
	}
	g.tok("{", k, head).tr(open)
	outer := g.area
	defer func() { g.area = outer }()
	if depth < 2 {
		g.nested++
	}
	g.area = "emptystruct"
	for i := 0; i < nf; i++ {
		g.area = "field"
		g.fields++
		fk := g.n(0, 9, "fieldkind")
		switch {
		case fk == 0: // embedded T: followed by a line break unless a tag follows
			name := g.declIdent(typeNames, "embname")
			g.tok(name, gAny, clsMust)
			if g.chance(30, "embtag") {
				g.tok(g.tag("embtagv"), gAny, clsMay).tr(clsMust)
			} else {
				g.tr(clsMust)
				// the token after an embedded identifier must sit on a later line
				g.forceNL()
			}
		case fk == 1: // embedded *T (parseElemExpr: '*' IDENT)
			g.tok("*", gAny, clsMust)
			g.tok(g.declIdent(typeNames, "pembname"), gAny, clsMay).tr(clsMust)
			if g.chance(30, "pembtag") {
				g.tok(g.tag("pembtagv"), gAny, clsMay).tr(clsMust)
			}
		default: // Name[, Name...] DataType [tag]
			nn := 1
			if g.chance(15, "multiname") {
				nn = 2 + g.n(0, 1, "nnames")
			}
			g.tok(g.declIdent(fieldNames, "fname"), gAny, clsMust)
			for j := 1; j < nn; j++ {
				if j == 1 {
					g.tok(",", gSame, clsNone) // the first name and the comma share a line
				} else {
					g.tok(",", gAny, clsMay)
				}
				g.tok(g.declIdent(fieldNames, "fname2"), gAny, clsMay)
			}
			if nn == 1 {
				g.dataType(depth, true, gSameSep, clsNone) // name and type share a line
			} else {
				g.dataType(depth, true, gAny, clsMay)
			}
			g.tr(clsMust)
			if g.chance(60, "ftag") {
				g.tok(g.tag("ftagv"), gAny, clsMay).tr(clsMust)
			}
		}
	}
	g.tok("}", gAny, open)
}

// forceNL makes the next gap contain a line break.
func (g *gen) forceNL() { g.pendNL = true }

// ------------------------------------------------------------------ service

func (g *gen) service() {
	g.kind("service")
	if g.chance(50, "atserver") {
		n := g.n(0, 4, "asn")
		empty, allEmpty := g.empties(n, "as")
		body := func() {
			open := g.cap(clsMust)
			if n == 0 {
				open = clsMay
			}
			g.area = "atserver"
			g.tok("@server", gAny, g.cap(clsMust))
			g.tok("(", gAny, clsMay).tr(open)
			for i := 0; i < n; i++ {
				g.area = "atserver"
				g.tok(g.ident("askey"), gAny, g.cap(clsMust))
				g.tok(":", gAny, clsMay)
				g.serverValue(empty[i])
				g.tr(g.cap(clsMust))
			}
			g.area = "atserver"
			g.tok(")", gAny, open).tr(g.cap(clsMust))
		}
		if n == 0 || allEmpty {
			g.dropped(body)
			g.area = "servicehead"
			g.tok("service", gAny, clsMay)
		} else {
			body()
			g.area = "servicehead"
			g.tok("service", gAny, clsMust)
		}
	} else {
		g.area = "servicehead"
		g.tok("service", gAny, clsMust)
	}
	g.tok(g.ident("svcname"), gSep, clsMay)
	if g.chance(40, "svcapi") {
		g.tok("-", gAny, clsMay)
		g.tok("api", gAny, clsMay)
	}
	ni := g.n(0, 4, "nitems")
	open := clsMust
	if ni == 0 {
		open = clsMay
	}
	g.tok("{", gAny, clsMay).tr(open)
	g.area = "emptyservice"
	for i := 0; i < ni; i++ {
		g.serviceItem()
	}
	g.tok("}", gAny, open).tr(clsMust)
}

// serverValue: the value forms of parseAtServerKVExpression.
func (g *gen) serverValue(empty bool) {
	defer func(old string) { g.area = old }(g.area)
	if empty {
		g.tok(`""`, gAny, clsMay)
		return
	}
	dash := func(label string) {
		g.area = "servervalue"
		if g.chance(30, label) {
			g.tok("-", gAny, clsMay)
			g.tok(g.ident(label+"i"), gAny, clsMay)
		}
	}
	switch g.n(0, 8, "asv") {
	case 0: // plain identifier
		g.tok(g.ident("asvi"), gAny, clsMay)
	case 1: // /a/b-c
		n := 1 + g.n(0, 2, "asvpn")
		for i := 0; i < n; i++ {
			g.tok("/", gAny, clsMay)
			g.area = "servervalue"
			g.tok(g.ident("asvps"), gAny, clsMay)
			dash("asvpd")
		}
	case 2: // a/b/c
		g.tok(g.ident("asvi2"), gAny, clsMay)
		g.area = "servervalue"
		n := 1 + g.n(0, 2, "asvpn2")
		for i := 0; i < n; i++ {
			g.tok("/", gAny, clsMay)
			g.tok(g.ident("asvps2"), gAny, clsMay)
			dash("asvpd2")
		}
	case 3: // a,b,c
		g.tok(g.ident("asvi3"), gAny, clsMay)
		g.area = "servervalue"
		n := 1 + g.n(0, 2, "asvcn")
		for i := 0; i < n; i++ {
			g.tok(",", gAny, clsMay)
			g.tok(g.ident("asvcs"), gAny, clsMay)
		}
	case 4: // a-b-c
		g.tok(g.ident("asvi4"), gAny, clsMay)
		g.area = "servervalue"
		n := 1 + g.n(0, 2, "asvdn")
		for i := 0; i < n; i++ {
			g.tok("-", gAny, clsMay)
			g.tok(g.ident("asvds"), gAny, clsMay)
		}
	case 5:
		g.tok(rapid.SampledFrom(durations).Draw(g.t, "asvdur"), gAny, clsMay)
	case 6:
		g.tok(fmt.Sprint(g.n(0, 100000, "asvint")), gAny, clsMay)
	default:
		g.tok(g.str("asvstr", false), gAny, clsMay)
	}
}

func (g *gen) serviceItem() {
	g.routes++
	g.area = "doc"
	switch g.n(0, 3, "dock") {
	case 1, 2: // @doc "text"
		if g.chance(g.rare(6), "docempty") {
			g.dropped(func() {
				g.tok("@doc", gAny, clsMay)
				g.tok(`""`, gAny, clsMay)
			})
		} else {
			g.tok("@doc", gAny, clsMust)
			g.tok(g.str("docv", false), gAny, clsMay).tr(clsMust)
		}
	case 3: // @doc ( k: "v" ... )
		n := g.n(0, 3, "docgn")
		empty, allEmpty := g.empties(n, "docg")
		body := func() {
			g.tok("@doc", gAny, g.cap(clsMust))
			g.kvGroup("doc", n, empty)
			g.tr(g.cap(clsMust))
		}
		if n == 0 || allEmpty {
			g.dropped(body)
		} else {
			body()
		}
	}
	g.area = "handler"
	g.tok("@handler", gAny, clsMust)
	g.tok(g.ident("hname"), gSep, clsMay).tr(clsMust)
	g.area = "route"
	g.tok(rapid.SampledFrom(httpMethods).Draw(g.t, "method"), gAny, clsMust)
	hasReq, hasResp, semi := g.chance(60, "hasreq"), g.chance(60, "hasresp"), g.chance(g.rare(15), "semi")
	reqEmpty := hasReq && g.chance(g.rare(6), "reqempty")
	respEmpty := hasResp && g.chance(g.rare(6), "respempty")
	if semi || reqEmpty || respEmpty {
		g.lossy = true
	}
	// the comment at the end of the route line must survive when it hangs on the last token the
	// formatter keeps; "()" bodies are dropped on purpose (golden tests), and comments behind ';'
	// hang on a token the AST does not keep
	endCls := func(isLast, dropped bool) cls {
		if isLast && !dropped && !semi {
			return clsMust
		}
		return clsMay
	}
	g.path()
	g.area = "afterpath"
	g.tr(endCls(!hasReq && !hasResp, false))
	if hasReq {
		if reqEmpty {
			g.tok("(", gAny, clsMay)
			g.area = "inbody"
			g.tok(")", gAny, clsMay)
		} else {
			g.body()
		}
		g.area = "afterreq"
		g.tr(endCls(!hasResp, reqEmpty))
	}
	if hasResp {
		g.tok("returns", gAny, clsMay)
		g.area = "afterreturns"
		if respEmpty {
			g.tok("(", gAny, clsMay)
			g.area = "inbody"
			g.tok(")", gAny, clsMay)
		} else {
			g.body()
		}
		g.area = "afterresp"
		g.tr(endCls(true, respEmpty))
	}
	if semi {
		g.tok(";", gAny, clsMay)
	}
}

// path: ('/' [':'] (IDENT|INT) ('-' IDENT)*)+ ['/']   (parsePathExpr / parsePathItem); no comments
// inside (a comment right after '/' is a syntax error), whitespace only rarely.
func (g *gen) path() {
	spaced := g.chance(g.rare(8), "pathspaced")
	emit := func(text string, first bool) {
		switch {
		case first:
			g.tok(text, gAny, clsMay)
		case spaced:
			g.tok(text, gAny, clsNone)
		default:
			g.tight(text)
		}
		g.tr(clsNone)
	}
	n := 1 + g.n(0, 3, "pathn")
	for i := 0; i < n; i++ {
		emit("/", i == 0)
		if i == n-1 && g.chance(g.rare(6), "pathslash") {
			break
		}
		if g.chance(30, "pathcolon") {
			emit(":", false)
		}
		if g.chance(12, "pathint") {
			emit(fmt.Sprint(g.n(0, 99, "pathintv")), false)
		} else {
			emit(g.pathIdent(), false)
		}
		for g.chance(20, "pathdash") {
			emit("-", false)
			emit(g.pathIdent(), false)
		}
	}
}

func (g *gen) pathIdent() string {
	return rapid.SampledFrom([]string{"a", "b", "user", "users", "v1", "id", "name", "ping", "foo", "bar", "list", "info", "get", "api", "type", "x_y", "A1"}).Draw(g.t, "pathid")
}

// tight emits a token with no gap at all (inside route paths), inserting a blank only where two
// tokens would merge.
func (g *gen) tight(text string) {
	if needSep(g.prev, text) {
		g.raw(" ")
	}
	g.pieces = append(g.pieces, piece{text: text, isTok: true})
	g.prev = text
	g.trail = clsNone
}

// body: '(' ['[' ']'] ['*'] IDENT ')'   (parseBodyStmt / parseBodyExpr)
func (g *gen) body() {
	g.tok("(", gAny, clsMay)
	g.area = "inbody"
	if g.chance(25, "bodyslice") {
		g.tok("[", gAny, clsMay)
		g.tok("]", gAny, clsMay)
	}
	if g.chance(25, "bodystar") {
		g.tok("*", gAny, clsMay)
	}
	g.tok(g.declIdent(typeNames, "bodyt"), gAny, clsMay)
	g.tok(")", gAny, clsMay)
}
