//go:build verif

package format_test

// Independence of calls: the formatter is a function of its input.  "For every syntactically valid source
// formatting succeeds and the formatted text parses to the same description" cannot hold if the result of
// one call depends on another call that is in progress (another file being parsed by the same process, a
// second goroutine formatting).  Two sub-properties over generated programs (valid ones and mutants):
//   interleaved: parser.New(A) (the scanner reads its source lazily), then a complete format.Source(B),
//                then A is parsed and formatted: the outcome for A equals the one obtained alone;
//   concurrent:  k goroutines format/parse k programs for several rounds: every outcome equals the
//                sequential one.
// The sequential reference outcome of each program is computed first, by the same code under test; what is
// asserted is only that overlapping changes nothing (a metamorphic relation), the single-call oracles are
// the other units' business.

import (
	"bytes"
	"fmt"
	"strings"
	"sync"
	"testing"

	"github.com/zeromicro/go-zero/internal/verifkit"
	rapid "github.com/zeromicro/go-zero/internal/verifrapid"
	"github.com/zeromicro/go-zero/tools/goctl/pkg/parser/api/format"
	"github.com/zeromicro/go-zero/tools/goctl/pkg/parser/api/parser"
)

// outcome of one program: formatted text, or "error", plus the normal form of its AST.
func overlapOutcome(src string) (string, bool) {
	f := runFormat(src)
	if f.hung || f.slow {
		return "", false
	}
	if f.panicked != "" {
		return "panic", true
	}
	if f.err != nil {
		return "error", true
	}
	p := runParseNorm(src)
	if p.hung || p.slow {
		return "", false
	}
	return "ok\x00" + f.out + "\x00" + p.out, true
}

func overlapPrograms(t *rapid.T, known map[string]bool, n int) []string {
	var out []string
	for len(out) < n {
		g := newGen(t, true, known)
		g.program(3)
		src := g.source()
		if rapid.IntRange(0, 3).Draw(t, "mutant") == 0 {
			src, _, _ = mutate(t, g.pieces)
		}
		if src == "" || excludedKnown(known, src) != "" {
			src = "type A int"
		}
		out = append(out, src)
	}
	return out
}

func TestVerifC20Overlap(t *testing.T) {
	st := verifkit.New("overlap")
	defer st.Flush()
	known := assumed()
	rapid.Check(t, func(t *rapid.T) {
		k := rapid.IntRange(2, 6).Draw(t, "programs")
		srcs := overlapPrograms(t, known, k)
		rounds := rapid.IntRange(1, 4).Draw(t, "rounds")
		want := make([]string, k)
		for i, s := range srcs {
			w, ok := overlapOutcome(s)
			if !ok {
				st.Note("slow input (inconclusive): %q", s)
				return
			}
			want[i] = w
		}
		st.Eval()
		distinct := map[string]bool{}
		for _, s := range srcs {
			distinct[s] = true
		}

		// interleaved: A's parser exists (source handed over, nothing consumed yet or only part of it)
		// while B is formatted from start to end
		a, b := rapid.IntRange(0, k-1).Draw(t, "a"), rapid.IntRange(0, k-1).Draw(t, "b")
		got := func() (res string) {
			defer func() {
				if p := recover(); p != nil {
					res = "panic"
				}
			}()
			pa := parser.New("", srcs[a])
			var sink bytes.Buffer
			_ = format.Source([]byte(srcs[b]), &sink)
			tree := pa.Parse()
			if err := pa.CheckErrors(); err != nil || tree == nil {
				return "error"
			}
			norm := normAST(tree)
			var out bytes.Buffer
			if err := format.Source([]byte(srcs[a]), &out); err != nil {
				return "error"
			}
			return "ok\x00" + out.String() + "\x00" + norm
		}()
		if got != want[a] {
			t.Fatalf("C20: the outcome for a source changed because another source was formatted between parser.New and Parse (clause \"for every syntactically valid source ... parses to the same API description\": a function of the source alone)\n--- source A:\n%s\n--- source B (formatted in between):\n%s\n--- outcome alone: %s\n--- outcome interleaved: %s",
				visible(srcs[a]), visible(srcs[b]), overlapShow(want[a]), overlapShow(got))
		}

		// concurrent
		var wg sync.WaitGroup
		errs := make([]string, k)
		start := make(chan struct{})
		for i := range srcs {
			wg.Add(1)
			go func(i int) {
				defer wg.Done()
				<-start
				for r := 0; r < rounds; r++ {
					g, ok := overlapOutcome(srcs[i])
					if ok && g != want[i] && errs[i] == "" {
						errs[i] = g
					}
				}
			}(i)
		}
		close(start)
		wg.Wait()
		for i, e := range errs {
			if e != "" {
				t.Fatalf("C20: the outcome for a source changed while %d other sources were formatted concurrently (a function of the source alone)\n--- source:\n%s\n--- outcome alone: %s\n--- outcome under concurrency: %s\n--- the other sources: %q",
					k-1, visible(srcs[i]), overlapShow(want[i]), overlapShow(e), srcs)
			}
		}
		st.ClassN("programs", k)
		nok := 0
		for _, w := range want {
			if strings.HasPrefix(w, "ok") {
				nok++
			}
		}
		st.ClassN("programs-valid", nok)
		if len(distinct) >= 2 && nok >= 1 {
			st.NonTrivial(fmt.Sprintf("%q", srcs))
		}
	})
}

func overlapShow(o string) string {
	if len(o) > 600 {
		o = o[:600] + " …"
	}
	return fmt.Sprintf("%q", o)
}
