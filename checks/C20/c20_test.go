//go:build verif

package format_test

// C20 - goctl .api formatter: formatting a valid program succeeds, preserves the API description,
// is idempotent; scanner and parser report errors for invalid sources instead of crashing.
//
//	TestVerifC20Regress*   plain regressions for every shrunk defect found by this check
//	TestVerifC20Valid      grammar-generated valid programs -> parse/format/parse/format oracle
//	TestVerifC20Invalid    mutated (mostly invalid) variants -> no panic, no hang; if the parser
//	                       accepts a mutant, the valid-program oracle applies to it as well; one
//	                       mutant in five is invalid by the lexical rules alone (cut inside a
//	                       string / raw string / block comment, illegal character in front of a
//	                       token) and has to be rejected with an error
//	FuzzVerifC20Source     native fuzz target over raw bytes (thorough tier; quick replays seeds)

import (
	"regexp"
	"fmt"
	"os"
	"strings"
	"testing"
	"unicode/utf8"

	"github.com/zeromicro/go-zero/internal/verifkit"
	rapid "github.com/zeromicro/go-zero/internal/verifrapid"
	"github.com/zeromicro/go-zero/tools/goctl/pkg/parser/api/format"
	"github.com/zeromicro/go-zero/tools/goctl/pkg/parser/api/token"
)

// ------------------------------------------------------------------ known findings

// signatures of findings that may be listed as "known" in known_findings.json; inputs matching a
// listed signature are excluded by construction (counted) so that the search continues past them.
var knownSignatures = map[string]func(src string) bool{
	"D8":     sigD8,
	"C20-F2": sigTabInToken,
}

// sigTabInToken (C20-F2): ast.Writer.write() rewrites the joined text of every nesting level
// (" \n" -> "\n", "\n " -> "\n") and sends it through text/tabwriter, token interiors included:
//
//   - a character the tabwriter interprets (tab, vertical tab, form feed) inside a comment or a
//     string literal is replaced by padding / a line break;
//   - a blank next to a line break inside a string literal is removed (the value changes);
//   - inside a block comment one blank per side is removed per nesting level and again by every
//     later run: a single blank is gone after the first run (whitespace inside a comment may
//     differ), a run of two or more blanks makes the result depend on the nesting depth, so
//     format(format(x)) != format(x).
func sigTabInToken(src string) bool {
	for _, tok := range scanTokens(src) {
		switch tok.Type {
		case token.STRING, token.RAW_STRING:
			if strings.ContainsAny(tok.Text, "\t\v\f") || strings.Contains(tok.Text, " \n") || strings.Contains(tok.Text, "\n ") {
				return true
			}
		case token.COMMENT, token.DOCUMENT:
			if strings.ContainsAny(tok.Text, "\t\v\f") || strings.Contains(tok.Text, "  \n") || strings.Contains(tok.Text, "\n  ") {
				return true
			}
		}
	}
	return false
}

// sigD8: an http-method word directly followed by a token that ends an (empty) path.
func sigD8(src string) bool {
	toks := roughTokens(src)
	for i := 0; i+1 < len(toks); i++ {
		if !isMethod(toks[i]) {
			continue
		}
		switch toks[i+1] {
		case "(", "returns", "@doc", "@handler", ";", "}":
			return true
		}
	}
	return false
}

func isMethod(s string) bool {
	for _, m := range httpMethods {
		if s == m {
			return true
		}
	}
	return false
}

// roughTokens splits a source into words and punctuation without using the code under test
// (comments and strings are not recognised: the signature may over-approximate, never miss).
func roughTokens(src string) []string {
	var out []string
	i := 0
	for i < len(src) {
		c := src[i]
		switch {
		case c == ' ' || c == '\t' || c == '\n' || c == '\r' || c == '\f' || c == '\v':
			i++
		case c == '@' || isWordByte(c):
			j := i + 1
			for j < len(src) && isWordByte(src[j]) {
				j++
			}
			out = append(out, src[i:j])
			i = j
		default:
			out = append(out, string(c))
			i++
		}
	}
	return out
}

func excludedKnown(known map[string]bool, src string) string {
	for id, sig := range knownSignatures {
		if known[id] && sig(src) {
			return id
		}
	}
	return ""
}

// ------------------------------------------------------------------ regressions

type regressCase struct {
	name  string
	src   string
	valid bool // the source is expected to parse: the full oracle applies
}

// Shrunk inputs of the defects this check found on the pinned tree (see FINDINGS.md).  The ids are
// those of FINDINGS.md; cases whose source matches the signature of a finding listed as known are
// run once and reported as KNOWN-FINDING instead of failing.
var regressCases = []regressCase{
	{"D8-empty-path", "service a { @handler h \n get (Req) }", false},
	{"D8-empty-path-returns", "service a{@handler h get returns(R)}", false},
	{"D8-empty-path-brace", "service a{@handler h get}", false},
	{"F1-percent-in-text", "type A {\n\tB int `json:\"b,options=50%d|100%s\"` // 100%\n}\n", true},
	{"F1b-empty-doc-blank-line", "service a{@doc()@handler h get /a}", true},
	// C20-F2 (known): blank next to a line break / tabwriter characters inside a token
	{"F2-raw-string-blank-at-line-break", "info(\n\tdesc: `a \n  b`\n)", true},
	{"F2-tab-in-string", "info(desc: \"a\tb\")", true},
	{"F2-two-blanks-in-block-comment", "/*a\n   b*/\ntype A int", true},
	// C20-F3 .. F11: repaired by checks/C20/fixes/NN-*.diff
	{"F3-dropped-stmt-behind-import", "import\"v\"type()", true},
	{"F3-empty-import-between-imports", "import \"a\"\nimport \"\"\nimport \"b\"\n", true},
	{"F4-line-comment-trailing-blanks", "import(\"v\"//c1  \n)", true},
	{"F4-line-comment-crlf", "type A int // c1\r\ntype B int //c2 \r\n", true},
	{"F5-empty-service-line-comment", "service foo{//c1\n}", true},
	{"F5-empty-service-own-line-comment", "service foo{\n/*c1*/\n}", true},
	{"F6-map-key-pointer-comment", "type A map[*any//c\n]any", true},
	{"F6-map-key-slice-comment", "type A map[[]any/*c*/]any", true},
	{"F6-map-key-nested-comment", "type A map[[2][]*any//c\n]any", true},
	{"F7-comment-behind-path", "service foo{@handler foo get /0//c\nreturns (A)}", true},
	{"F7-comment-behind-path-request", "service foo{@handler foo get /0//c\n(A)}", true},
	{"F7-comment-before-body-type", "service foo{@handler foo get /0 returns(\n//c\n[]A)}", true},
	{"F7-comment-before-body-star", "service foo{@handler foo get /0 (\n/*c*/*A)}", true},
	{"F8-empty-body-on-next-line", "service foo{@handler foo get /0/*c1*/\n()}", true},
	{"F8-empty-body-behind-line-comment", "service foo{@handler foo get /0//c1\n()\nreturns (A)}", true},
	{"F9-request-rparen-comment-empty-returns", "service foo{@handler foo get /0(A\n//c\n)returns()}", true},
	{"F10-handler-without-name", "service a{@handler}", false},
	{"F10-handler-without-name-after-doc", "service a{@doc \"x\" @handler}", false},
	{"F10-handler-without-name-second-item", "service a{@handler h get /a @handler}", false},
	{"F11-split-path-item", "service foo{@handler foo get/0 name returns(A)}", false},
	{"F11-split-path-item-ident", "service foo{@handler foo get /a b}", false},
}

// Sources that are invalid by the lexical rules alone (a string, raw string or block comment that is
// not terminated; a character that starts no token): scanner/parser must report an error.
var rejectCases = []regressCase{
	{"reject-unterminated-string", "import \"abc", false},
	{"reject-unterminated-raw-string", "type A {\n\tB int `json:\"b\"\n}", false},
	{"reject-unterminated-block-comment", "type A int /* open", false},
	{"reject-unterminated-block-comment-star", "type A int /* open *", false},
	{"reject-illegal-character", "type A # int", false},
	{"reject-illegal-character-in-service", "service a{@handler h get /a ? }", false},
	{"reject-lone-at", "type A int @", false},
}

func TestVerifC20Regress(t *testing.T) {
	st := verifkit.New("regress")
	defer st.Flush()
	known := assumed()
	for _, rc := range regressCases {
		rc := rc
		t.Run(rc.name, func(t *testing.T) {
			st.Eval()
			if id := excludedKnown(known, rc.src); id != "" {
				// listed as known: run it once, report, do not fail
				if v := checkAny(rc.src, nil); !v.ok {
					st.KnownFinding(id, fmt.Sprintf("%s still fails: %s (clause %q)", rc.name, oneLine(v.detail), v.clause))
				}
				return
			}
			v := checkAny(rc.src, nil)
			if !v.ok {
				t.Fatalf("C20 regression %s: clause %q violated: %s\nsource:\n%s", rc.name, v.clause, v.detail, visible(rc.src))
			}
			if rc.valid {
				if r := runParseNorm(rc.src); r.err != nil {
					t.Fatalf("C20 regression %s: expected to parse, parser says: %v", rc.name, r.err)
				}
			}
			st.NonTrivial(rc.src)
		})
	}
	for _, rc := range rejectCases {
		rc := rc
		t.Run(rc.name, func(t *testing.T) {
			st.Eval()
			v := checkAny(rc.src, nil)
			if !v.ok {
				t.Fatalf("C20 regression %s: clause %q violated: %s\nsource:\n%s", rc.name, v.clause, v.detail, visible(rc.src))
			}
			if v.clause != "rejected" {
				t.Fatalf("C20 regression %s: clause %q violated: the parser accepted a source that is lexically invalid\nsource:\n%s", rc.name, clauseErrors, visible(rc.src))
			}
			st.NonTrivial(rc.src)
		})
	}
}

const clauseErrors = "scanner and parser report errors for invalid sources"
const clauseFormats = "formatting succeeds (format.File is format.Source on the file's bytes)"

func oneLine(s string) string {
	if i := strings.IndexByte(s, '\n'); i >= 0 {
		s = s[:i]
	}
	if len(s) > 160 {
		s = s[:160]
	}
	return s
}

// checkAny applies the whole statement to an arbitrary non-empty source: scanner and parser must
// return (error or result) without panic or hang; if the parser accepts the source it is a
// syntactically valid program and the formatting clauses apply.
func checkAny(src string, mustComments []string) verdict {
	slow := false
	sc := runScan(src)
	switch {
	case sc.hung:
		return fail("scanner reports errors rather than crashing", "scanner did not return within %v", hardWatchdog)
	case sc.panicked != "":
		return fail("scanner reports errors rather than crashing", "scanner panicked: %s", sc.panicked)
	}
	slow = slow || sc.slow
	p := runParseNorm(src)
	switch {
	case p.hung:
		return fail("parser reports errors rather than crashing", "parser did not return within %v", hardWatchdog)
	case p.panicked != "":
		return fail("parser reports errors rather than crashing", "parser panicked: %s", p.panicked)
	}
	slow = slow || p.slow
	if p.err != nil {
		// invalid source: format.Source must report an error too (it runs the same parser)
		f := runFormat(src)
		switch {
		case f.hung:
			return fail("parser reports errors rather than crashing", "format.Source did not return on an invalid source")
		case f.panicked != "":
			return fail("parser reports errors rather than crashing", "format.Source panicked on an invalid source: %s", f.panicked)
		case f.err == nil:
			return fail("parser reports errors rather than crashing", "format.Source accepted a source the parser rejects (%v)", p.err)
		}
		return verdict{ok: true, slow: slow || f.slow, clause: "rejected"}
	}
	v, _ := checkValid(src, p.out, mustComments, false)
	v.slow = v.slow || slow
	return v
}

// ------------------------------------------------------------------ valid programs

// assumed returns the findings whose signatures are excluded by construction: those listed with
// status "known" in known_findings.json, plus (development aid) VERIF_C20_ASSUME=id,id,...
func assumed() map[string]bool {
	m := verifkit.KnownFindings("C20")
	for _, id := range strings.Split(os.Getenv("VERIF_C20_ASSUME"), ",") {
		if id = strings.TrimSpace(id); id != "" {
			m[id] = true
		}
	}
	return m
}

// development aid: VERIF_C20_MAYOFF=area,area switches class "may" comments off per grammar area,
// VERIF_C20_MAYONLY=area,area switches them off everywhere else.
var allAreas = []string{"syntax", "kv", "import", "importgroup", "typeexpr", "typegroup", "datatype", "field", "emptystruct", "atserver",
	"servervalue", "servicehead", "emptyservice", "doc", "handler", "route", "afterpath", "inbody", "afterreq", "afterreturns", "afterresp", ""}

var mayOffAreas = func() map[string]bool {
	m := map[string]bool{}
	for _, a := range strings.Split(os.Getenv("VERIF_C20_MAYOFF"), ",") {
		if a = strings.TrimSpace(a); a != "" {
			m[a] = true
		}
	}
	if only := os.Getenv("VERIF_C20_MAYONLY"); only != "" {
		for _, a := range allAreas {
			m[a] = true
		}
		for _, a := range strings.Split(only, ",") {
			delete(m, strings.TrimSpace(a))
		}
	}
	return m
}()

var shapeEmptyReqBehindLineComment = regexp.MustCompile(`//[^\n]*\n[ \t]*\([ \t]*\)[ \t]*returns[ \t]*\(`)

func newGen(t *rapid.T, small bool, assume map[string]bool) *gen {
	g := &gen{t: t, assume: assume}
	g.noCmt = g.chance(15, "nocomments")
	g.cmtPct = rapid.SampledFrom([]int{8, 15, 30, 50}).Draw(t, "cmtpct")
	g.nlPct = rapid.SampledFrom([]int{30, 50, 10, 80}).Draw(t, "nlpct")
	g.wild = g.chance(15, "wildws")
	g.noMay = verifkit.EnvInt("c20_nomay", 0) == 1 || g.chance(25, "nomay")
	g.mayOff = mayOffAreas
	if small {
		g.cmtPct = rapid.SampledFrom([]int{0, 8, 20}).Draw(t, "cmtpct2")
	}
	if !small && verifkit.EnvInt("c20_focus", 0) == 1 {
		g.focus = true
		g.noCmt, g.noMay = false, false
		g.cmtPct = rapid.SampledFrom([]int{30, 50, 50}).Draw(t, "cmtpct3")
	}
	return g
}

func TestVerifC20Valid(t *testing.T) {
	stName := "valid"
	if verifkit.EnvInt("c20_focus", 0) == 1 {
		stName = "valid-focus"
	}
	st := verifkit.New(stName)
	defer st.Flush()
	known := assumed()
	maxStmts := verifkit.EnvInt("c20_maxstmts", 6)
	var total, rejected int
	fileDir := t.TempDir()
	rapid.Check(t, func(t *rapid.T) {
		g := newGen(t, false, known)
		g.program(maxStmts)
		src := g.source()
		if src == "" {
			t.Fatalf("generator produced an empty source")
		}
		if id := excludedKnown(known, src); id != "" {
			st.Excluded()
			return
		}
		st.Eval()
		total++
		// interference: one case in three first formats an unrelated, mostly invalid source (a mutant of a
		// small program; its outcome is judged by the `invalid` unit, not here).  Whether the valid source
		// below is formatted correctly must not depend on what the parser was fed before.
		if rapid.IntRange(0, 2).Draw(t, "interfere") == 0 {
			g2 := newGen(t, true, known)
			g2.program(2)
			g2.source()
			bad, _, _ := mutate(t, g2.pieces)
			if bad != "" {
				runFormat(bad)
				st.Class("preceded-by-mutant")
			}
		}
		p := runParseNorm(src)
		switch {
		case p.hung:
			t.Fatalf("C20 clause %q violated: parser did not return within %v on a generated program\n%s", "parser reports errors rather than crashing", hardWatchdog, visible(src))
		case p.panicked != "":
			t.Fatalf("C20 clause %q violated: parser panicked on a generated program: %s\n%s", "parser reports errors rather than crashing", p.panicked, visible(src))
		case p.err != nil:
			// the generator claims validity by construction; a rejection is a generator defect (or a
			// parser defect) and is measured, never silently skipped
			rejected++
			st.Class("generator-rejected")
			st.Note("rejected by parser: %v :: %q", p.err, src)
			return
		}
		var must []string
		nc := 0
		for _, c := range g.comments {
			nc++
			if c.must {
				must = append(must, c.text)
			}
		}
		v, formatted := checkValid(src, p.out, must, !g.lossy)
		if v.slow {
			st.Note("slow input (> %v, inconclusive): %q", softWatchdog, src)
		}
		if !v.ok {
			t.Fatalf("C20 clause %q violated: %s\nsource:\n%s", v.clause, v.detail, visible(src))
		}
		// format.File is format.Source applied to the file in place: same verdict, same bytes — for the
		// program as generated and with its line ends turned into CR LF (whatever the parser makes of
		// those, both entry points must make the same of them)
		if rapid.IntRange(0, 3).Draw(t, "viaFile") == 0 {
			content := src
			if rapid.Bool().Draw(t, "crlf") {
				content = strings.ReplaceAll(src, "\n", "\r\n")
				st.Class("file-route:crlf")
			} else {
				st.Class("file-route:lf")
			}
			want := runFormat(content)
			path := fileDir + "/c20.api"
			if err := os.WriteFile(path, []byte(content), 0o600); err != nil {
				st.Note("cannot write %s: %v", path, err)
			} else if !want.hung && want.panicked == "" {
				got := guarded(func() (string, error) {
					err := format.File(path)
					b, rerr := os.ReadFile(path)
					if rerr != nil {
						return "", rerr
					}
					return string(b), err
				})
				switch {
				case got.hung || got.panicked != "":
					t.Fatalf("C20 clause %q violated: format.File hung or panicked (%s) on a file that format.Source handles\n%s", clauseFormats, got.panicked, visible(content))
				case (want.err == nil) != (got.err == nil):
					t.Fatalf("C20 clause %q violated: format.Source and format.File disagree on the same bytes: Source err=%v, File err=%v\n%s", clauseFormats, want.err, got.err, visible(content))
				case want.err == nil && got.out != want.out:
					t.Fatalf("C20 clause %q violated: format.File wrote something else than format.Source produces for the same bytes: %s\nsource:\n%s", clauseFormats, firstDiff(want.out, got.out), visible(content))
				case want.err != nil && got.out != content:
					t.Fatalf("C20 violated: format.File failed (%v) and still changed the file\n%s", got.err, visible(content))
				}
			}
		}
		for k, n := range g.kinds {
			st.ClassN("stmt-"+k, n)
		}
		st.ClassN("comments", nc)
		st.ClassN("comments-must-survive", len(must))
		for a, n := range g.mayAreas {
			if a == "" {
				a = "other"
			}
			st.ClassN("interior-comments-"+a, n)
		}
		st.ClassN("struct-fields", g.fields)
		st.ClassN("routes", g.routes)
		st.ClassN("multi-line-block-comments", g.multiDoc)
		st.ClassN("constructs-dropped-on-purpose", g.degenerate)
		if !g.lossy {
			st.Class("token-sequence-compared-exactly")
		}
		if formatted == src {
			st.Class("already-formatted")
		}
		if g.focus {
			st.Class("focus-mode")
		}
		if shapeEmptyReqBehindLineComment.MatchString(src) {
			st.Class("shape:line-comment,-empty-request-on-the-next-line,-returns-on-its-line")
		}
		if (g.groups > 0 || (g.focus && g.degenerate > 0)) && nc > 0 {
			st.NonTrivial(src)
		} else {
			st.Class("trivial")
		}
	})
	if total >= 50 && rejected*20 > total {
		t.Fatalf("C20 generator defect: the parser rejected %d of %d generated programs (must stay below 5%%); see notes in the evidence", rejected, total)
	}
	st.Note("parser rejected %d of %d generated programs", rejected, total)
}

// ------------------------------------------------------------------ invalid programs

var mutVocab = []string{"(", ")", "[", "]", "{", "}", ",", ".", "...", ":", ";", "=", "*", "-", "/", "@doc", "@handler", "@server", "@", "@x", "@docs",
	"interface{}", "interface{", "interface", "any", "map", "returns", "service", "type", "import", "info", "syntax", "get", "post", "delete",
	"0", "12", "1s", "1m", "1mx", "1µ", "3h2", "5ms7", "\"", "`", "\"abc\"", "`x`", "\"\"", "``", "//", "/*", "*/", "/**", "**/", "/*/", "\x00", "é", "中",
	"\n", "\r\n", "  ", "foo", "Req", "api", "a-b", "/:id", "$", "#", "\\", "?", "!", "%", "%d"}

var injectBytes = []byte{0, 0xff, 0xc3, '"', '`', '/', '*', '@', '\n', '\r', ' ', 'a', 'Z', '0', '9', '{', '}', '(', ')', '[', ']', ':', ';', '-', '.', ',', '=', '%', '\\', 0x7f, 0xe4}

func tokIndexes(ps []piece) []int {
	var idx []int
	for i, p := range ps {
		if p.isTok {
			idx = append(idx, i)
		}
	}
	return idx
}

func join(ps []piece) string {
	var sb strings.Builder
	for _, p := range ps {
		sb.WriteString(p.text)
	}
	return sb.String()
}

var illegalRunes = []string{"#", "$", "?", "!", "%", "\\", "&", "~", "^", "|", "<", ">", "+", "'", "é", "中", "\x7f", "\x01"}

// mustRejectMutant derives from a valid program a source that is invalid by the lexical rules alone,
// independent of the code under test: either the text is cut inside a string, raw string or block
// comment (the generator knows where its tokens start and that they do not contain their own
// terminator), or a character that starts no token is placed in front of a token.
func mustRejectMutant(t *rapid.T, ps []piece) (string, string, bool) {
	var open []int // pieces that are a string, raw string or block comment
	var toks []int
	for i, p := range ps {
		switch {
		case p.isTok && len(p.text) >= 2 && (p.text[0] == '"' || p.text[0] == '`'):
			open = append(open, i)
			toks = append(toks, i)
		case !p.isTok && strings.HasPrefix(p.text, "/*") && len(p.text) >= 4:
			open = append(open, i)
		case p.isTok:
			toks = append(toks, i)
		}
	}
	prefix := func(i int) string { return join(ps[:i]) }
	if len(open) > 0 && rapid.IntRange(0, 1).Draw(t, "mrkind") == 0 {
		i := open[rapid.IntRange(0, len(open)-1).Draw(t, "mropen")]
		txt := ps[i].text
		lo, hi := 1, len(txt)-1 // keep the opening quote, lose the closing one
		if txt[0] == '/' {
			lo, hi = 2, len(txt)-2 // keep "/*", lose "*/"
		}
		k := rapid.IntRange(lo, hi).Draw(t, "mrcut")
		for k < hi && !utf8.RuneStart(txt[k]) {
			k++
		}
		return prefix(i) + txt[:k], fmt.Sprintf("cut the source inside the token %q (after %d bytes of it)", txt, k), true
	}
	if len(toks) == 0 {
		return "", "", false
	}
	i := toks[rapid.IntRange(0, len(toks)-1).Draw(t, "mrtok")]
	r := rapid.SampledFrom(illegalRunes).Draw(t, "mrrune")
	sep := rapid.SampledFrom([]string{"", " ", "\n"}).Draw(t, "mrsep")
	return prefix(i) + r + sep + join(ps[i:]), fmt.Sprintf("place the illegal character %q in front of token %q", r, ps[i].text), true
}

// mutate applies 1-3 random mutations to a generated program; ops describes them.  mustReject: the
// mutant is invalid by the lexical rules alone, scanner/parser have to report an error.
func mutate(t *rapid.T, ps []piece) (src string, ops []string, mustReject bool) {
	if rapid.IntRange(0, 9).Draw(t, "mustreject") >= 8 {
		if src, op, ok := mustRejectMutant(t, ps); ok {
			return src, []string{op}, true
		}
	}
	src, ops = mutateFree(t, ps)
	return src, ops, false
}

func mutateFree(t *rapid.T, ps []piece) (string, []string) {
	ps = append([]piece(nil), ps...)
	var ops []string
	nops := rapid.IntRange(1, 3).Draw(t, "nops")
	src := ""
	bytesMode := false
	for o := 0; o < nops; o++ {
		idx := tokIndexes(ps)
		kind := rapid.IntRange(0, 10).Draw(t, "mutkind")
		if bytesMode && kind < 7 {
			kind = 7 + kind%3
		}
		if len(idx) == 0 && kind < 7 {
			kind = 7
		}
		switch kind {
		case 0, 1: // delete a run of 1-3 tokens
			i := rapid.IntRange(0, len(idx)-1).Draw(t, "deli")
			n := rapid.IntRange(1, 3).Draw(t, "deln")
			var dropped []string
			for k := 0; k < n && i+k < len(idx); k++ {
				dropped = append(dropped, ps[idx[i+k]].text)
				ps[idx[i+k]] = piece{text: " "}
			}
			ops = append(ops, fmt.Sprintf("delete tokens %q", dropped))
		case 2: // duplicate a token
			i := idx[rapid.IntRange(0, len(idx)-1).Draw(t, "dupi")]
			ps = append(ps[:i+1], append([]piece{{text: " "}, ps[i]}, ps[i+1:]...)...)
			ops = append(ops, fmt.Sprintf("duplicate token %q", ps[i].text))
		case 3: // swap two tokens
			a := idx[rapid.IntRange(0, len(idx)-1).Draw(t, "swapa")]
			b := idx[rapid.IntRange(0, len(idx)-1).Draw(t, "swapb")]
			ps[a], ps[b] = ps[b], ps[a]
			ops = append(ops, fmt.Sprintf("swap tokens %q and %q", ps[b].text, ps[a].text))
		case 4: // replace a token by a vocabulary word
			i := idx[rapid.IntRange(0, len(idx)-1).Draw(t, "repi")]
			w := rapid.SampledFrom(mutVocab).Draw(t, "repw")
			ops = append(ops, fmt.Sprintf("replace token %q by %q", ps[i].text, w))
			ps[i] = piece{text: w, isTok: true}
		case 5: // insert a vocabulary word before a token
			i := idx[rapid.IntRange(0, len(idx)-1).Draw(t, "insi")]
			w := rapid.SampledFrom(mutVocab).Draw(t, "insw")
			ps = append(ps[:i], append([]piece{{text: w, isTok: true}, {text: " "}}, ps[i:]...)...)
			ops = append(ops, fmt.Sprintf("insert %q before token %q", w, ps[i+2].text))
		case 6: // change the gap before a token: remove it, or turn it into a line break / blank
			i := idx[rapid.IntRange(0, len(idx)-1).Draw(t, "gapi")]
			if i > 0 && !ps[i-1].isTok {
				w := rapid.SampledFrom([]string{"", "\n", " ", "\n\n"}).Draw(t, "gapw")
				ops = append(ops, fmt.Sprintf("gap %q before token %q becomes %q", ps[i-1].text, ps[i].text, w))
				ps[i-1] = piece{text: w}
			} else {
				ps = append(ps[:i], append([]piece{{text: "\n"}}, ps[i:]...)...)
				ops = append(ops, fmt.Sprintf("line break before token %q", ps[i+1].text))
			}
		default: // byte-level
			if !bytesMode {
				src = join(ps)
				bytesMode = true
			}
			if src == "" {
				src = " "
			}
			switch kind {
			case 7: // truncate
				n := rapid.IntRange(1, len(src)).Draw(t, "truncn")
				ops = append(ops, fmt.Sprintf("truncate to %d of %d bytes", n, len(src)))
				src = src[:n]
			case 8, 9: // inject bytes
				at := rapid.IntRange(0, len(src)).Draw(t, "injat")
				n := rapid.IntRange(1, 3).Draw(t, "injn")
				var b []byte
				for k := 0; k < n; k++ {
					b = append(b, rapid.SampledFrom(injectBytes).Draw(t, "injb"))
				}
				ops = append(ops, fmt.Sprintf("inject %q at byte %d", b, at))
				src = src[:at] + string(b) + src[at:]
			default: // delete a byte range
				at := rapid.IntRange(0, len(src)-1).Draw(t, "delat")
				n := rapid.IntRange(1, 4).Draw(t, "delbn")
				if at+n > len(src) {
					n = len(src) - at
				}
				ops = append(ops, fmt.Sprintf("delete %d bytes at %d (%q)", n, at, src[at:at+n]))
				src = src[:at] + src[at+n:]
			}
		}
	}
	if !bytesMode {
		src = join(ps)
	}
	if src == "" {
		src = " " // the empty source is outside the domain (log.Fatalln, documented)
	}
	return src, ops
}

func TestVerifC20Invalid(t *testing.T) {
	st := verifkit.New("invalid")
	defer st.Flush()
	known := assumed()
	rapid.Check(t, func(t *rapid.T) {
		g := newGen(t, true, known)
		g.program(3)
		orig := g.source()
		src, ops, mustReject := mutate(t, g.pieces)
		if id := excludedKnown(known, src); id != "" && !mustReject {
			st.Excluded()
			return
		}
		st.Eval()
		v := checkAny(src, nil)
		if v.slow {
			st.Note("slow input (> %v, inconclusive): %q", softWatchdog, src)
		}
		if !v.ok {
			t.Fatalf("C20 clause %q violated: %s\nmutations: %s\nsource:\n%s\nunmutated program:\n%s", v.clause, v.detail, strings.Join(ops, "; "), visible(src), visible(orig))
		}
		if mustReject {
			if v.clause != "rejected" {
				t.Fatalf("C20 clause %q violated: the parser accepted a source that is lexically invalid\nmutations: %s\nsource:\n%s\nunmutated program:\n%s", clauseErrors, strings.Join(ops, "; "), visible(src), visible(orig))
			}
			st.Class("mutant-lexically-invalid-rejected")
			st.NonTrivial(src)
			return
		}
		if src == orig {
			st.Class("mutation-was-a-no-op")
			return
		}
		if !utf8.ValidString(src) {
			st.Class("mutant-invalid-utf8")
		}
		if v.clause == "rejected" {
			st.Class("mutant-rejected-with-error")
			st.NonTrivial(src)
		} else {
			st.Class("mutant-still-valid")
		}
	})
}

// ------------------------------------------------------------------ native fuzz target

var fuzzSeeds = []string{
	"syntax = \"v1\"\n",
	"info(\n\ttitle: \"t\"\n\tdesc: `multi\nline`\n)\n",
	"import \"a.api\"\nimport (\n\t\"b.api\" // b\n\t\"c.api\"\n)\n",
	"type (\n\tReq {\n\t\tName string `json:\"name\"` // n\n\t\t*Base\n\t\tInner\n\t\tM map[string][]*Item `json:\"m,optional\"`\n\t\tA, B [3]int\n\t\tC [...]interface{}\n\t\tChild {\n\t\t\tX any\n\t\t} `json:\"child\"`\n\t}\n\tAlias = []Req\n)\n",
	"@server (\n\tjwt: Auth\n\tprefix: /v1/a-b\n\ttimeout: 3s\n\tmiddleware: A,B\n\tmaxBytes: 1024\n\tsummary: \"x\"\n)\nservice foo-api {\n\t@doc \"d\"\n\t@handler h1\n\tget /a/:id/b-c (Req) returns ([]*Resp);\n\n\t@doc (\n\t\tk: \"v\"\n\t)\n\t@handler h2\n\tpost /x\n}\n",
	"service a { @handler h \n get /p (Req) }",
	"/* doc */ type A int // tail\n// eof\n",
	"type T {}\nservice s {}\n",
	"@", "\"", "`", "/*", "/**", "//", "@doc", "1m", "3h2x", "interface{", "type A {", "service a{@handler h get /",
}

func FuzzVerifC20Source(f *testing.F) {
	st := verifkit.New("fuzz")
	defer st.Flush()
	known := assumed()
	for _, s := range fuzzSeeds {
		f.Add([]byte(s))
	}
	f.Fuzz(func(t *testing.T, data []byte) {
		if len(data) == 0 || len(data) > 4096 {
			return // the empty source exits the process (documented, outside the domain)
		}
		src := string(data)
		if id := excludedKnown(known, src); id != "" {
			st.Excluded()
			return
		}
		st.Eval()
		v := checkAny(src, nil)
		if !v.ok {
			t.Fatalf("C20 clause %q violated: %s\nsource:\n%s", v.clause, v.detail, visible(src))
		}
		if v.clause == "rejected" {
			st.Class("rejected-with-error")
			st.NonTrivial(src)
		} else {
			st.Class("valid")
		}
	})
}

// TestVerifC20Show is a replay aid: VERIF_C20_SHOW='<source>' prints what the code under test makes
// of one source (normal form, formatted text, second format, verdict).  Skipped otherwise.
func TestVerifC20Show(t *testing.T) {
	src := os.Getenv("VERIF_C20_SHOW")
	if src == "" {
		t.Skip("VERIF_C20_SHOW not set")
	}
	p := runParseNorm(src)
	fmt.Printf("parse: err=%v panicked=%q\n%s", p.err, oneLine(p.panicked), p.out)
	if p.err == nil && p.panicked == "" {
		f := runFormat(src)
		fmt.Printf("format: err=%v panicked=%q\n%s\n(quoted %q)\n", f.err, oneLine(f.panicked), f.out, f.out)
		if f.err == nil && strings.TrimSpace(f.out) != "" {
			f2 := runFormat(f.out)
			fmt.Printf("format again: err=%v same=%v\n(quoted %q)\n", f2.err, f2.out == f.out, f2.out)
		}
	}
	v := checkAny(src, nil)
	fmt.Printf("verdict: ok=%v clause=%q %s\n", v.ok, v.clause, v.detail)
}
