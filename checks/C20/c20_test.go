//go:build verif

package format_test

import (
	"bytes"
	"testing"

	"github.com/zeromicro/go-zero/internal/verifkit"
	"github.com/zeromicro/go-zero/tools/goctl/pkg/parser/api/format"
	rapid "github.com/zeromicro/go-zero/internal/verifrapid"
)

// placeholder smoke test proving the build path for the goctl module; replaced by the real check
func TestVerifC20Smoke(t *testing.T) {
	st := verifkit.New("smoke")
	defer st.Flush()
	rapid.Check(t, func(t *rapid.T) {
		st.Eval()
		name := rapid.StringMatching(`[a-z]{1,6}`).Draw(t, "name")
		src := "syntax = \"v1\"\n\ntype " + "T" + name + " {\n\tA string `json:\"a\"`\n}\n"
		var out bytes.Buffer
		if err := format.Source([]byte(src), &out); err != nil {
			t.Fatalf("format failed: %v\n%s", err, src)
		}
		st.NonTrivial(src)
	})
}
