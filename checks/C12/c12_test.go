//go:build verif

package collection_test

// C12 — timing wheel: every timer fires exactly once, at its due tick.
//
// The wheel is driven by timex.NewFakeTicker, so "time" is the number of Tick() calls.
// The oracle is a map key -> (value, due tick) written from the property statement:
//
//	set(k,v,d)  : pending[k] = (v, now + floor(d/interval))
//	move(k,d)   : if k pending: pending[k].due = now + floor(d/interval)   (value kept)
//	remove(k)   : delete pending[k]
//	tick        : now++; the callbacks observed for this tick == {pending[k] : due == now}
//	drain       : the callbacks handed to Drain's fn == pending; nothing fires afterwards
//
// and no callback is observed during set/move/remove.
//
// Synchronisation (the wheel runs callbacks on goroutines it spawns from its loop):
// after every operation the harness (1) waits until the ticker channel is empty (the loop
// has taken the tick), (2) does a RemoveTimer round trip on a key that is never set (the
// loop can only receive it after the handler of the previous event returned, so every `go`
// statement of that handler has executed), (3) waits until runtime.NumGoroutine() is back
// to the count measured with the wheel idle (every spawned callback goroutine has ended).
// None of the three depends on how long anything takes; the wall clock is only a watchdog
// and its expiry is "inconclusive", never a violation.  A mismatch is reported only if it
// reproduces when the recorded history is replayed on a fresh wheel with an additional
// sleep after every operation.

import (
	"fmt"
	"runtime"
	"sort"
	"strings"
	"sync"
	"testing"
	"time"

	"github.com/zeromicro/go-zero/core/collection"
	"github.com/zeromicro/go-zero/core/logx"
	"github.com/zeromicro/go-zero/core/timex"
	"github.com/zeromicro/go-zero/internal/verifkit"
	"pgregory.net/rapid"
)

const (
	c12Sentinel = "\x00verif-c12-sentinel" // never set; used for loop round trips
	c12Budget   = 20 * time.Second         // watchdog per wait; expiry = inconclusive
)

var c12Keys = []string{"k0", "k1", "k2", "k3"}

// ---------------------------------------------------------------- recorder

type c12Fire struct {
	key string
	val int
}

func (f c12Fire) String() string { return fmt.Sprintf("%s=v%d", f.key, f.val) }

type c12Recorder struct {
	mu      sync.Mutex
	fired   []c12Fire
	drained []c12Fire
}

func c12Conv(k, v any) c12Fire {
	ks, ok1 := k.(string)
	vi, ok2 := v.(int)
	if !ok1 || !ok2 {
		return c12Fire{key: fmt.Sprintf("?%#v/%#v", k, v), val: -1}
	}
	return c12Fire{ks, vi}
}

// c12PanicVal: a timer whose value is at least this makes the execute callback panic (after the fire has
// been recorded).  What a callback does is the user's business; the timers that are due at the same tick,
// and all later ones, must fire all the same ("fires exactly once, at its due tick" holds per timer).
const c12PanicVal = 1_000_000

func (r *c12Recorder) onFire(k, v any) {
	f := c12Conv(k, v)
	r.mu.Lock()
	r.fired = append(r.fired, f)
	r.mu.Unlock()
	if f.val >= c12PanicVal {
		panic(fmt.Sprintf("execute callback of %s panics (generated)", f))
	}
}

func (r *c12Recorder) onDrain(k, v any) {
	f := c12Conv(k, v)
	r.mu.Lock()
	r.drained = append(r.drained, f)
	r.mu.Unlock()
}

func (r *c12Recorder) take() (fired, drained []c12Fire) {
	r.mu.Lock()
	fired, drained = r.fired, r.drained
	r.fired, r.drained = nil, nil
	r.mu.Unlock()
	return
}

func c12Render(fs []c12Fire) string {
	s := make([]string, len(fs))
	for i, f := range fs {
		s[i] = f.String()
	}
	sort.Strings(s)
	return "{" + strings.Join(s, " ") + "}"
}

// ---------------------------------------------------------------- operations

type c12Op struct {
	kind  byte // 's'et 'm'ove 'r'emove 't'ick 'd'rain
	key   string
	val   int
	steps int           // floor(d/interval)
	rem   time.Duration // d - steps*interval, in [0, interval)
}

func (o c12Op) String() string {
	switch o.kind {
	case 's':
		return fmt.Sprintf("set(%s,v%d,%dt+%v)", o.key, o.val, o.steps, o.rem)
	case 'm':
		return fmt.Sprintf("move(%s,%dt+%v)", o.key, o.steps, o.rem)
	case 'r':
		return fmt.Sprintf("remove(%s)", o.key)
	case 't':
		return "tick"
	case 'd':
		return "drain"
	}
	return "?"
}

func c12RenderOps(n int, iv time.Duration, ops []c12Op) string {
	var b strings.Builder
	fmt.Fprintf(&b, "slots=%d interval=%v:", n, iv)
	for i := 0; i < len(ops); {
		if ops[i].kind == 't' {
			j := i
			for j < len(ops) && ops[j].kind == 't' {
				j++
			}
			if j-i == 1 {
				b.WriteString(" tick")
			} else {
				fmt.Fprintf(&b, " tick*%d", j-i)
			}
			i = j
			continue
		}
		b.WriteString(" " + ops[i].String())
		i++
	}
	return b.String()
}

// ---------------------------------------------------------------- harness

type c12Violation struct{ msg string }

func (v *c12Violation) Error() string { return v.msg }

type c12Stall struct{ msg string }

func (s *c12Stall) Error() string { return "inconclusive: " + s.msg }

type c12Pending struct {
	val, due int
	hard     bool // last set/move of this generation was issued in a "hard" situation
}

type c12Run struct {
	n      int
	iv     time.Duration
	slow   bool
	tw     *collection.TimingWheel
	tk     timex.FakeTicker
	rec    c12Recorder
	idle   int // runtime.NumGoroutine() with this wheel idle
	now    int
	closed bool
	done   bool // drained
	model  map[string]*c12Pending
	ops    []c12Op

	cls         map[string]int
	hardChecked int // "hard" generations whose delivery was verified
}

var c12Base int // goroutine count of the test process with no wheel alive

var c12Confirmed bool // some violation has been reproduced by a slow replay

func c12Pause(i int) {
	if i < 64 {
		runtime.Gosched()
	} else {
		time.Sleep(20 * time.Microsecond)
	}
}

// c12WaitGoroutines waits until at most want goroutines exist.
func c12WaitGoroutines(want int) error {
	var deadline time.Time
	for i := 0; runtime.NumGoroutine() > want; i++ {
		c12Pause(i)
		if i&1023 == 1023 {
			if deadline.IsZero() {
				deadline = time.Now().Add(c12Budget)
			} else if time.Now().After(deadline) {
				return &c12Stall{fmt.Sprintf("goroutine count %d did not return to %d", runtime.NumGoroutine(), want)}
			}
		}
	}
	return nil
}

// c12Calibrate measures the idle goroutine count of the process (once per test function,
// before any wheel exists).
func c12Calibrate() {
	last, same := -1, 0
	for i := 0; i < 2000 && same < 10; i++ {
		g := runtime.NumGoroutine()
		if g == last {
			same++
		} else {
			last, same = g, 0
		}
		time.Sleep(time.Millisecond)
	}
	c12Base = last
}

func c12New(n int, iv time.Duration, slow bool) (*c12Run, error) {
	if err := c12WaitGoroutines(c12Base); err != nil {
		return nil, err
	}
	if g := runtime.NumGoroutine(); g != c12Base {
		return nil, &c12Stall{fmt.Sprintf("goroutine baseline moved: %d, calibrated %d", g, c12Base)}
	}
	r := &c12Run{n: n, iv: iv, slow: slow, model: map[string]*c12Pending{}, cls: map[string]int{}}
	r.tk = timex.NewFakeTicker()
	tw, err := collection.NewTimingWheelWithTicker(iv, n, r.rec.onFire, r.tk)
	if err != nil {
		return nil, &c12Violation{fmt.Sprintf("NewTimingWheelWithTicker(%v,%d): %v", iv, n, err)}
	}
	r.tw = tw
	r.idle = c12Base + 1 // the wheel's loop
	return r, nil
}

func (r *c12Run) close() error {
	if r.closed {
		return nil
	}
	r.closed = true
	r.tw.Stop()
	return c12WaitGoroutines(c12Base)
}

// quiesce returns when the wheel's loop has finished handling everything issued so far
// and every goroutine it spawned has ended.
func (r *c12Run) quiesce() error {
	var deadline time.Time
	for i := 0; len(r.tk.Chan()) != 0; i++ {
		c12Pause(i)
		if i&1023 == 1023 {
			if deadline.IsZero() {
				deadline = time.Now().Add(c12Budget)
			} else if time.Now().After(deadline) {
				return &c12Stall{"tick not consumed by the wheel loop"}
			}
		}
	}
	if err := r.tw.RemoveTimer(c12Sentinel); err != nil {
		return &c12Violation{fmt.Sprintf("RemoveTimer on a running wheel: %v", err)}
	}
	if err := c12WaitGoroutines(r.idle); err != nil {
		return err
	}
	if r.slow {
		time.Sleep(time.Millisecond)
		if err := r.tw.RemoveTimer(c12Sentinel); err != nil {
			return &c12Violation{fmt.Sprintf("RemoveTimer on a running wheel: %v", err)}
		}
		return c12WaitGoroutines(r.idle)
	}
	return nil
}

func (r *c12Run) history() string { return c12RenderOps(r.n, r.iv, r.ops) }

func (r *c12Run) violation(format string, a ...any) error {
	return &c12Violation{fmt.Sprintf(format, a...) + "\n  history: " + r.history()}
}

func (r *c12Run) pos(tick int) int { return (r.n - 1 + tick) % r.n }

// noteRetarget classifies a set/move that re-targets the pending timer p to now+steps.
func (r *c12Run) noteRetarget(p *c12Pending, steps int) {
	cur, old, nw := r.pos(r.now), r.pos(p.due), r.pos(r.now+steps)
	wrapped := old <= cur // the slot of the previous due tick is not ahead of the position in this revolution
	long := steps > r.n
	r.cls["retarget-pending"]++
	if wrapped {
		r.cls["retarget-old-slot-wrapped"]++
	}
	if long {
		r.cls["retarget-delay>revolution"]++
	}
	if old <= cur && cur < nw {
		r.cls["shape old<=pos<new"]++
	}
	if nw <= cur && cur < old && long {
		r.cls["shape new<=pos<old,long"]++
	}
	p.hard = wrapped || long
}

func (r *c12Run) apply(op c12Op) error {
	if r.done && op.kind != 't' {
		return nil // Drain is terminal in the stated domain
	}
	r.ops = append(r.ops, op)
	d := time.Duration(op.steps)*r.iv + op.rem
	switch op.kind {
	case 's':
		if err := r.tw.SetTimer(op.key, op.val, d); err != nil {
			return r.violation("SetTimer(%s,%v) returned %v", op.key, d, err)
		}
		if p := r.model[op.key]; p != nil {
			r.noteRetarget(p, op.steps)
			p.val, p.due = op.val, r.now+op.steps
			r.cls["re-set-pending"]++
		} else {
			r.model[op.key] = &c12Pending{val: op.val, due: r.now + op.steps}
			if op.steps > r.n {
				r.cls["set-delay>revolution"]++
			}
		}
	case 'm':
		if err := r.tw.MoveTimer(op.key, d); err != nil {
			return r.violation("MoveTimer(%s,%v) returned %v", op.key, d, err)
		}
		if p := r.model[op.key]; p != nil {
			r.noteRetarget(p, op.steps)
			p.due = r.now + op.steps
			r.cls["move-pending"]++
		} else {
			r.cls["move-absent"]++
		}
	case 'r':
		if err := r.tw.RemoveTimer(op.key); err != nil {
			return r.violation("RemoveTimer(%s) returned %v", op.key, err)
		}
		if r.model[op.key] != nil {
			r.cls["remove-pending"]++
		}
		delete(r.model, op.key)
	case 't':
		r.tk.Tick()
		r.now++
	case 'd':
		if err := r.tw.Drain(r.rec.onDrain); err != nil {
			return r.violation("Drain returned %v", err)
		}
	}
	if err := r.quiesce(); err != nil {
		if v, ok := err.(*c12Violation); ok {
			return r.violation("%s", v.msg)
		}
		return err
	}
	fired, drained := r.rec.take()
	var wantFired, wantDrained []c12Fire
	switch op.kind {
	case 't':
		for k, p := range r.model {
			if p.due <= r.now {
				wantFired = append(wantFired, c12Fire{k, p.val})
			}
		}
	case 'd':
		for k, p := range r.model {
			wantDrained = append(wantDrained, c12Fire{k, p.val})
		}
	}
	gf, wf := c12Render(fired), c12Render(wantFired)
	gd, wd := c12Render(drained), c12Render(wantDrained)
	if gf != wf {
		return r.violation("after %s (tick %d): execute callbacks %s, statement requires %s (pending: %s)",
			op, r.now, gf, wf, r.pending())
	}
	if gd != wd {
		return r.violation("after %s (tick %d): Drain delivered %s, statement requires %s", op, r.now, gd, wd)
	}
	switch op.kind {
	case 't':
		for _, f := range wantFired {
			if r.model[f.key].hard {
				r.hardChecked++
			}
			delete(r.model, f.key)
		}
		if len(wantFired) > 0 {
			r.cls["tick-with-fires"]++
		}
	case 'd':
		for _, f := range wantDrained {
			if r.model[f.key].hard {
				r.hardChecked++
			}
		}
		if len(wantDrained) > 0 {
			r.cls["drain-with-pending"]++
		}
		r.model = map[string]*c12Pending{}
		r.done = true
	}
	return nil
}

func (r *c12Run) pending() string {
	var s []string
	for k, p := range r.model {
		s = append(s, fmt.Sprintf("%s=v%d@%d", k, p.val, p.due))
	}
	sort.Strings(s)
	return "{" + strings.Join(s, " ") + "}"
}

// runOut ticks until every pending timer is past its due tick, then one more revolution
// plus one tick for strays.
func (r *c12Run) runOut() error {
	last := r.now
	for _, p := range r.model {
		if p.due > last {
			last = p.due
		}
	}
	last += r.n + 1
	for r.now < last {
		if err := r.apply(c12Op{kind: 't'}); err != nil {
			return err
		}
	}
	return nil
}

// c12Replay runs a recorded history on a fresh wheel.
func c12Replay(n int, iv time.Duration, ops []c12Op, slow bool) (*c12Run, error) {
	r, err := c12New(n, iv, slow)
	if err != nil {
		return nil, err
	}
	for _, op := range ops {
		if err := r.apply(op); err != nil {
			r.close()
			return r, err
		}
	}
	return r, r.close()
}

// c12Confirm decides what a harness error means: a violation counts only if the slow
// replay of the same history shows a violation too.
func c12Confirm(r *c12Run, err error) (violation string, inconclusive string) {
	r.close()
	if _, ok := err.(*c12Violation); !ok {
		return "", err.Error()
	}
	if c12Confirmed {
		// a violation was already reproduced by a slow replay in this process: this run
		// fails anyway, what follows is shrinking, which would only be slowed down
		return err.Error(), ""
	}
	_, err2 := c12Replay(r.n, r.iv, r.ops, true)
	if _, ok := err2.(*c12Violation); ok {
		c12Confirmed = true
		// (the message must not depend on whether the replay ran: rapid's shrinker
		// requires identical messages from identical inputs)
		return err.Error(), ""
	}
	return "", fmt.Sprintf("mismatch not reproduced by slow replay (%v): %s", err2, err.Error())
}

// c12Flush writes the unit's counters.  (The driver's merge step cannot read a record
// whose sample list is empty, so a placeholder sample is offered in that case.)
func c12Flush(st *verifkit.Stats, sampled *bool) {
	if !*sampled {
		st.Sample("(no non-trivial case was completed in this run)")
	}
	st.Flush()
}

// ---------------------------------------------------------------- state machine

func c12Ticks(k int) []c12Op {
	ops := make([]c12Op, k)
	for i := range ops {
		ops[i].kind = 't'
	}
	return ops
}

func TestVerifC12Wheel(t *testing.T) {
	logx.Disable()
	st := verifkit.New("wheel")
	sampled := false
	defer c12Flush(st, &sampled)
	c12Calibrate()
	slotsGen := rapid.OneOf(rapid.IntRange(1, 8), rapid.IntRange(1, 8), rapid.IntRange(1, 8), rapid.IntRange(9, 64))
	ivGen := rapid.SampledFrom([]time.Duration{time.Second, 250 * time.Millisecond, 7})
	keyGen := rapid.SampledFrom(c12Keys)
	rapid.Check(t, func(t *rapid.T) {
		st.Eval()
		n := slotsGen.Draw(t, "slots")
		iv := ivGen.Draw(t, "interval")
		finish := rapid.SampledFrom([]string{"runout", "drain", "runout"}).Draw(t, "finish")
		r, err := c12New(n, iv, false)
		if err != nil {
			st.Note("%v", err)
			t.Skip(err.Error())
		}
		defer r.close()
		do := func(ops ...c12Op) {
			for _, op := range ops {
				err := r.apply(op)
				if err == nil {
					continue
				}
				v, inc := c12Confirm(r, err)
				if v != "" {
					t.Fatalf("C12 violated: %s", v)
				}
				st.Note("%s", inc)
				t.Skip(inc)
			}
		}
		delay := func(t *rapid.T) (int, time.Duration) {
			steps := rapid.IntRange(1, 3*n+2).Draw(t, "ticks")
			rem := rapid.SampledFrom([]time.Duration{0, 0, 1, iv / 2, iv - 1}).Draw(t, "rem")
			return steps, rem
		}
		val := 0
		t.Repeat(map[string]func(*rapid.T){
			"set": func(t *rapid.T) {
				k := keyGen.Draw(t, "key")
				steps, rem := delay(t)
				val++
				v := val
				if rapid.IntRange(0, 5).Draw(t, "callbackPanics") == 0 {
					v += c12PanicVal
					r.cls["timers-whose-callback-panics"]++
				}
				do(c12Op{kind: 's', key: k, val: v, steps: steps, rem: rem})
			},
			"move": func(t *rapid.T) {
				// mostly a pending key (by construction), sometimes any key
				var k string
				pend := make([]string, 0, len(r.model))
				for key := range r.model {
					pend = append(pend, key)
				}
				sort.Strings(pend)
				anyKey := rapid.IntRange(0, 7).Draw(t, "anykey") == 0
				if len(pend) > 0 && !anyKey {
					k = rapid.SampledFrom(pend).Draw(t, "pendingKey")
				} else {
					k = keyGen.Draw(t, "key")
				}
				steps, rem := delay(t)
				if len(pend) == 0 && !anyKey {
					// nothing to move: make something pending instead
					val++
					do(c12Op{kind: 's', key: k, val: val, steps: steps, rem: rem})
					return
				}
				do(c12Op{kind: 'm', key: k, steps: steps, rem: rem})
			},
			"remove": func(t *rapid.T) {
				do(c12Op{kind: 'r', key: keyGen.Draw(t, "key")})
			},
			"tick": func(t *rapid.T) {
				do(c12Op{kind: 't'})
			},
			"ticks": func(t *rapid.T) {
				k := rapid.SampledFrom([]int{1, 2, 3, n - 1, n, n + 1, 2 * n}).Draw(t, "count")
				if k < 1 {
					k = 1
				}
				do(c12Ticks(k)...)
			},
		})
		wrappedInBody := r.now >= n
		if finish == "drain" {
			do(c12Op{kind: 'd'})
		}
		if err := r.runOut(); err != nil {
			v, inc := c12Confirm(r, err)
			if v != "" {
				t.Fatalf("C12 violated: %s", v)
			}
			st.Note("%s", inc)
			t.Skip(inc)
		}
		if err := r.close(); err != nil {
			st.Note("%v", err)
			t.Skip(err.Error())
		}
		for k, c := range r.cls {
			st.ClassN(k, c)
		}
		if n > 8 {
			st.Class("slots>8")
		}
		if wrappedInBody {
			st.Class("position-wrapped-before-epilogue")
		}
		if r.hardChecked > 0 {
			st.NonTrivial(r.history())
			sampled = true
		}
	})
}

// ---------------------------------------------------------------- small-scope enumeration

// TestVerifC12SingleMoveEnum enumerates, for small wheels, every history
// tick*t0 ; set(k0,s) ; tick*a ; X(k0,m) ; run out   with X in {move, re-set}
// (0<=t0<=n, 1<=s,m<=D, 0<=a<s), i.e. every relative placement of old slot, new slot and
// position around the wrap-around point for a single re-targeting.
func TestVerifC12SingleMoveEnum(t *testing.T) {
	logx.Disable()
	st := verifkit.New("single-move-enum")
	sampled := false
	defer c12Flush(st, &sampled)
	c12Calibrate()
	maxN := verifkit.EnvInt("C12_ENUM_SLOTS", 5)
	shard, shards := verifkit.EnvInt("SHARD", 0), verifkit.EnvInt("SHARDS", 1)
	idx := 0
	for n := 1; n <= maxN; n++ {
		maxD := 3*n + 2
		if !verifkit.Thorough() {
			maxD = 2*n + 2
		}
		for t0 := 0; t0 <= n; t0++ {
			for s := 1; s <= maxD; s++ {
				for a := 0; a < s; a++ {
					for m := 1; m <= maxD; m++ {
						idx++
						if idx%shards != shard {
							continue
						}
						for _, kind := range []byte{'m', 's'} {
							// re-set (same arithmetic path as move) is enumerated on every 4th tuple
							if kind == 's' && (idx/shards)%4 != 0 {
								continue
							}
							st.Eval()
							ops := c12Ticks(t0)
							ops = append(ops, c12Op{kind: 's', key: "k0", val: 1, steps: s})
							ops = append(ops, c12Ticks(a)...)
							ops = append(ops, c12Op{kind: kind, key: "k0", val: 2, steps: m})
							if verr := c12EnumCase(st, &sampled, n, ops); verr != "" {
								t.Fatalf("C12 violated: %s", verr)
							}
						}
					}
				}
			}
		}
	}
}

func c12EnumCase(st *verifkit.Stats, sampled *bool, n int, ops []c12Op) string {
	r, err := c12New(n, time.Second, false)
	if err == nil {
		for _, op := range ops {
			if err = r.apply(op); err != nil {
				break
			}
		}
	}
	if err == nil {
		err = r.runOut()
	}
	if err != nil {
		if r == nil {
			st.Note("%v", err)
			return ""
		}
		v, inc := c12Confirm(r, err)
		if v != "" {
			return v
		}
		st.Note("%s", inc)
		return ""
	}
	if err := r.close(); err != nil {
		st.Note("%v", err)
		return ""
	}
	for k, c := range r.cls {
		st.ClassN(k, c)
	}
	if r.hardChecked > 0 {
		st.NonTrivial(r.history())
		*sampled = true
	}
	return ""
}

// ---------------------------------------------------------------- regressions

func c12Regress(t *testing.T, n int, ops []c12Op) {
	t.Helper()
	logx.Disable()
	c12Calibrate()
	st := verifkit.New("regress")
	sampled := false
	defer c12Flush(st, &sampled)
	st.Eval()
	if v := c12EnumCase(st, &sampled, n, ops); v != "" {
		t.Fatalf("C12 violated: %s", v)
	}
}

// D3 (DESIGN.md section 3), "late" shape: old slot <= position < new slot.
// Slots 10; the timer sits in slot 2 (13 ticks), position is 5 after 6 ticks, the move
// targets slot 7: due at tick 8, the unfixed wheel fires it at tick 18.
func TestVerifC12RegressD3MoveLate(t *testing.T) {
	ops := []c12Op{{kind: 's', key: "k0", val: 1, steps: 13}}
	ops = append(ops, c12Ticks(6)...)
	ops = append(ops, c12Op{kind: 'm', key: "k0", steps: 2})
	c12Regress(t, 10, ops)
}

// D3, "early" shape: new slot <= position < old slot with a delay longer than a
// revolution.  Slots 2; tick; set(k0,1 tick); move(k0,4 ticks): due at tick 5, the
// unfixed wheel fires it at tick 3.
func TestVerifC12RegressD3MoveEarly(t *testing.T) {
	ops := c12Ticks(1)
	ops = append(ops, c12Op{kind: 's', key: "k0", val: 1, steps: 1}, c12Op{kind: 'm', key: "k0", steps: 4})
	c12Regress(t, 2, ops)
}

// D3, "late" shape shrunk by rapid (seed 3): the timer sits in the slot the position is
// on.  Slots 3; tick; set(k0,3 ticks); move(k0,1 tick): due at tick 2, the unfixed wheel
// fires it at tick 5.
func TestVerifC12RegressD3MoveLateSameSlot(t *testing.T) {
	ops := c12Ticks(1)
	ops = append(ops, c12Op{kind: 's', key: "k0", val: 1, steps: 3}, c12Op{kind: 'm', key: "k0", steps: 1})
	c12Regress(t, 3, ops)
}

// D3, "early" shape reached through SetTimer on a pending key, shrunk by rapid (seed 4).
// Slots 5; tick*2; set(k0,v1,1 tick); set(k0,v2,9 ticks): due at tick 11, the unfixed
// wheel fires it at tick 6.
func TestVerifC12RegressD3ResetEarly(t *testing.T) {
	ops := c12Ticks(2)
	ops = append(ops, c12Op{kind: 's', key: "k0", val: 1, steps: 1}, c12Op{kind: 's', key: "k0", val: 2, steps: 9})
	c12Regress(t, 5, ops)
}
