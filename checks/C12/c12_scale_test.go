//go:build verif

package collection_test

// C12, unit `scale` — crowded ticks and big wheels.
//
// Everything the other units of C12 generate is small (at most 24 keys, at most 20 timers on one
// tick).  This unit runs the same model (due tick = now + floor(d/interval); exactly once; the most
// recently set value; removed never fires; Drain delivers exactly the pending set) over key spaces of
// 8 .. 20 000 keys, drawn log-uniformly, with BULK operations: hundreds or thousands of timers set
// with one delay or with delays spread over several revolutions, half of the pending timers moved
// (possibly onto one tick) or removed, a few timers with delays of hundreds of revolutions among
// them, several ticks issued back to back while the callbacks of the first one are still held on a
// gate, and a terminal Drain or run-out.  Sizes are not aimed at any threshold: key space, bulk
// sizes, spreads and far delays are log-uniform over their whole range.
//
// Comparison: per tick (or per group of ticks, see below) the multiset of (key, value) handed to the
// execute callback is compared with the model's due set by COUNT and by an FNV-64 hash of the sorted
// set; only on a mismatch is the difference worked out for the message.
//
// Ticks come in two forms.  "tick" / "tick*k": after every single tick the wheel is brought to a
// quiescent point (as in c12_test.go) and the callbacks of exactly that tick are compared.
// "tick*k as one set": k ticks are issued back to back and the callbacks of all of them are compared
// as one set with everything the model has due within these k ticks (used to skip stretches in which
// nothing is due, and — with the gate closed — to make the batches of consecutive ticks overlap:
// every callback blocks, after recording its arguments, until the k ticks have been taken).  This
// form only asserts "each due timer exactly once, nothing else, by the end of the group"; it is the
// weaker, one-directional reading and cannot raise an alarm on a wheel that fires every timer at its
// own tick.
//
// Synchronisation and the treatment of mismatches (slow replay; watchdog expiry = inconclusive)
// are those of c12_test.go.

import (
	"fmt"
	"hash/fnv"
	"math"
	"runtime"
	"slices"
	"strings"
	"sync"
	"testing"
	"time"

	"github.com/zeromicro/go-zero/core/collection"
	"github.com/zeromicro/go-zero/core/logx"
	"github.com/zeromicro/go-zero/core/timex"
	"github.com/zeromicro/go-zero/internal/verifkit"
	"pgregory.net/rapid"
)

const (
	c12xMaxKeys = 20000
	// the other units: at most 24 keys (wheel-reentrant, wide cases), at most 20 timers set for one tick
	c12xBigPending = 100 * 24
	c12xBigTick    = 100 * 20
	c12xFarTicks   = 20000 // longest delay, in ticks, of a "far" timer (hundreds of revolutions)
	c12xValBits    = 40
)

var (
	c12xOnce   sync.Once
	c12xKeyTab []string
	c12xKeyIdx map[string]int
)

func c12xInitKeys() {
	c12xOnce.Do(func() {
		c12xKeyTab = make([]string, c12xMaxKeys)
		c12xKeyIdx = make(map[string]int, c12xMaxKeys)
		for i := range c12xKeyTab {
			c12xKeyTab[i] = fmt.Sprintf("k%d", i)
			c12xKeyIdx[c12xKeyTab[i]] = i
		}
	})
}

func c12xPack(idx, val int) uint64 { return uint64(idx)<<c12xValBits | uint64(val) }

func c12xUnpack(p uint64) string {
	return fmt.Sprintf("%s=v%d", c12xKeyTab[int(p>>c12xValBits)], int(p&(1<<c12xValBits-1)))
}

// ---------------------------------------------------------------- recorder

type c12xRec struct {
	mu      sync.Mutex
	fired   []uint64
	drained []uint64
	foreign []string      // callbacks whose arguments are not a (key, value) this harness ever set
	gate    chan struct{} // non-nil: an execute callback blocks on it after having recorded its arguments
}

func (r *c12xRec) conv(k, v any) (uint64, string) {
	ks, ok1 := k.(string)
	vi, ok2 := v.(int)
	if ok1 && ok2 && vi > 0 && vi < 1<<c12xValBits {
		if idx, ok := c12xKeyIdx[ks]; ok {
			return c12xPack(idx, vi), ""
		}
	}
	return 0, fmt.Sprintf("(%#v, %#v)", k, v)
}

func (r *c12xRec) onFire(k, v any) {
	p, bad := r.conv(k, v)
	r.mu.Lock()
	if bad != "" {
		if len(r.foreign) < 8 {
			r.foreign = append(r.foreign, "execute"+bad)
		}
	} else {
		r.fired = append(r.fired, p)
	}
	g := r.gate
	r.mu.Unlock()
	if g != nil {
		<-g
	}
}

func (r *c12xRec) onDrain(k, v any) {
	p, bad := r.conv(k, v)
	r.mu.Lock()
	if bad != "" {
		if len(r.foreign) < 8 {
			r.foreign = append(r.foreign, "drain fn"+bad)
		}
	} else {
		r.drained = append(r.drained, p)
	}
	r.mu.Unlock()
}

func (r *c12xRec) setGate(g chan struct{}) {
	r.mu.Lock()
	r.gate = g
	r.mu.Unlock()
}

func (r *c12xRec) take() (fired, drained []uint64, foreign []string) {
	r.mu.Lock()
	fired, drained, foreign = r.fired, r.drained, r.foreign
	r.fired, r.drained, r.foreign = nil, nil, nil
	r.mu.Unlock()
	return
}

// ---------------------------------------------------------------- operations

// c12xSel names a set of keys by a rule that is evaluated against the model when the operation is
// applied: walk the key space from index `from` (wrapping), keep the keys of the wanted kind, of
// those take the ones whose running number j has j % den < num, at most max of them.
type c12xSel struct {
	which    byte // 'p' pending keys, 'a' keys that are not pending, '*' any key
	den, num int
	from     int
	max      int
}

func (s c12xSel) String() string {
	w := map[byte]string{'p': "pending", 'a': "absent", '*': "any"}[s.which]
	return fmt.Sprintf("%s %d/%d from k%d max %d", w, s.num, s.den, s.from, s.max)
}

// c12xDelay gives key number i the delay (steps + (i*mult) % span) ticks + rem.
type c12xDelay struct {
	steps      int
	mult, span int
	rem        time.Duration
}

func (d c12xDelay) of(i int) int {
	if d.span <= 1 {
		return d.steps
	}
	return d.steps + (i*d.mult)%d.span
}

func (d c12xDelay) String() string {
	if d.span <= 1 {
		return fmt.Sprintf("%dt+%v", d.steps, d.rem)
	}
	return fmt.Sprintf("%dt+(i*%d%%%d)t+%v", d.steps, d.mult, d.span, d.rem)
}

type c12xOp struct {
	kind  byte // 'S' bulk SetTimer, 'M' bulk MoveTimer, 'R' bulk RemoveTimer, 't' ticks, 'd' Drain
	sel   c12xSel
	dl    c12xDelay
	far   bool // the delay is one of hundreds of revolutions
	count int  // 't': number of ticks
	union bool // 't': issued back to back, callbacks compared as one set
	gated bool // 't' with union: callbacks held on the gate until all ticks have been taken
	hit   int  // realised: number of keys the operation was issued for
	hitP  int  // ... of which pending at that moment
}

func (o c12xOp) String() string {
	far := ""
	if o.far {
		far = " far"
	}
	switch o.kind {
	case 'S':
		return fmt.Sprintf("set[%s; %s%s](%d keys, %d pending)", o.sel, o.dl, far, o.hit, o.hitP)
	case 'M':
		return fmt.Sprintf("move[%s; %s%s](%d keys, %d pending)", o.sel, o.dl, far, o.hit, o.hitP)
	case 'R':
		return fmt.Sprintf("remove[%s](%d keys, %d pending)", o.sel, o.hit, o.hitP)
	case 't':
		switch {
		case o.union && o.gated:
			return fmt.Sprintf("tick*%d(as one set, callbacks gated)", o.count)
		case o.union:
			return fmt.Sprintf("tick*%d(as one set)", o.count)
		case o.count == 1:
			return "tick"
		}
		return fmt.Sprintf("tick*%d", o.count)
	case 'd':
		return "drain"
	}
	return "?"
}

func c12xRenderOps(n int, iv time.Duration, keys int, ops []c12xOp) string {
	var b strings.Builder
	fmt.Fprintf(&b, "slots=%d interval=%v keys=%d:", n, iv, keys)
	for i := 0; i < len(ops); {
		if ops[i].kind == 't' && !ops[i].union {
			c := 0
			for i < len(ops) && ops[i].kind == 't' && !ops[i].union {
				c += ops[i].count
				i++
			}
			b.WriteString(" " + c12xOp{kind: 't', count: c}.String())
			continue
		}
		b.WriteString(" " + ops[i].String())
		i++
	}
	return b.String()
}

// ---------------------------------------------------------------- harness

type c12xRun struct {
	n      int
	iv     time.Duration
	keys   int
	slow   bool
	tw     *collection.TimingWheel
	tk     timex.FakeTicker
	rec    c12xRec
	idle   int
	now    int
	closed bool
	done   bool // drained

	// the model: per key index, the due tick (-1: not pending), the value, how the due tick was given
	due     []int
	val     []int
	moved   []bool
	far     []bool
	pending int
	nextVal int
	ops     []c12xOp

	cls           map[string]int
	peakPending   int
	maxTickFired  int
	maxTickMoved  int // largest number of timers of one tick that had been MOVED to it
	drainedN      int
	lifetimeGone  int // timers fired, removed or drained so far
	farDelivered  int
	maxGatedTicks int // largest number of distinct due ticks inside one gated group
	maxGatedBatch int
	maxRemoveP    int
	maxMoveP      int
	maxResetP     int
}

func c12xNew(n int, iv time.Duration, keys int, slow bool) (*c12xRun, error) {
	c12xInitKeys()
	if err := c12WaitGoroutines(c12Base); err != nil {
		return nil, err
	}
	if g := runtime.NumGoroutine(); g != c12Base {
		return nil, &c12Stall{fmt.Sprintf("goroutine baseline moved: %d, calibrated %d", g, c12Base)}
	}
	r := &c12xRun{n: n, iv: iv, keys: keys, slow: slow, cls: map[string]int{}}
	r.due = make([]int, keys)
	for i := range r.due {
		r.due[i] = -1
	}
	r.val = make([]int, keys)
	r.moved = make([]bool, keys)
	r.far = make([]bool, keys)
	r.tk = timex.NewFakeTicker()
	tw, err := collection.NewTimingWheelWithTicker(iv, n, r.rec.onFire, r.tk)
	if err != nil {
		return nil, &c12Violation{fmt.Sprintf("NewTimingWheelWithTicker(%v,%d): %v", iv, n, err)}
	}
	r.tw = tw
	r.idle = c12Base + 1
	return r, nil
}

func (r *c12xRun) close() error {
	if r.closed {
		return nil
	}
	r.closed = true
	r.tw.Stop()
	return c12WaitGoroutines(c12Base)
}

func (r *c12xRun) waitTickTaken() error {
	var deadline time.Time
	for i := 0; len(r.tk.Chan()) != 0; i++ {
		c12Pause(i)
		if i&1023 == 1023 {
			if deadline.IsZero() {
				deadline = time.Now().Add(c12Budget)
			} else if time.Now().After(deadline) {
				return &c12Stall{"tick not consumed by the wheel loop"}
			}
		}
	}
	return nil
}

func (r *c12xRun) quiesce() error {
	if err := r.waitTickTaken(); err != nil {
		return err
	}
	if err := r.tw.RemoveTimer(c12Sentinel); err != nil {
		return &c12Violation{fmt.Sprintf("RemoveTimer on a running wheel: %v", err)}
	}
	if err := c12WaitGoroutines(r.idle); err != nil {
		return err
	}
	if r.slow {
		time.Sleep(time.Millisecond)
		if err := r.tw.RemoveTimer(c12Sentinel); err != nil {
			return &c12Violation{fmt.Sprintf("RemoveTimer on a running wheel: %v", err)}
		}
		return c12WaitGoroutines(r.idle)
	}
	return nil
}

func (r *c12xRun) history() string { return c12xRenderOps(r.n, r.iv, r.keys, r.ops) }

func (r *c12xRun) violation(format string, a ...any) error {
	return &c12Violation{fmt.Sprintf(format, a...) + "\n  history: " + r.history()}
}

func (r *c12xRun) selectKeys(s c12xSel) []int {
	var out []int
	j := 0
	for c := 0; c < r.keys && len(out) < s.max; c++ {
		i := (s.from + c) % r.keys
		p := r.due[i] >= 0
		if (s.which == 'p' && !p) || (s.which == 'a' && p) {
			continue
		}
		if j%s.den < s.num {
			out = append(out, i)
		}
		j++
	}
	return out
}

func c12xHash(sorted []uint64) uint64 {
	h := fnv.New64a()
	var b [8]byte
	for _, p := range sorted {
		for i := 0; i < 8; i++ {
			b[i] = byte(p >> (8 * i))
		}
		h.Write(b[:])
	}
	return h.Sum64()
}

// c12xCompare: "" if got and want are the same multiset (count and hash of the sorted sets).
func c12xCompare(got, want []uint64, explain func(uint64) string) string {
	slices.Sort(got)
	slices.Sort(want)
	hg, hw := c12xHash(got), c12xHash(want)
	if len(got) == len(want) && hg == hw {
		return ""
	}
	var missing, extra []string
	nm, ne := 0, 0
	i, j := 0, 0
	for i < len(got) || j < len(want) {
		switch {
		case j >= len(want) || (i < len(got) && got[i] < want[j]):
			if ne++; len(extra) < 6 {
				extra = append(extra, c12xUnpack(got[i])+explain(got[i]))
			}
			i++
		case i >= len(got) || want[j] < got[i]:
			if nm++; len(missing) < 6 {
				missing = append(missing, c12xUnpack(want[j])+explain(want[j]))
			}
			j++
		default:
			i++
			j++
		}
	}
	return fmt.Sprintf("%d delivered (hash %x), the statement requires %d (hash %x): %d required but not delivered %v, %d delivered but not required (or delivered twice) %v",
		len(got), hg, len(want), hw, nm, missing, ne, extra)
}

func (r *c12xRun) dueUpTo(tick int) []uint64 {
	var want []uint64
	for i, d := range r.due {
		if d >= 0 && d <= tick {
			want = append(want, c12xPack(i, r.val[i]))
		}
	}
	return want
}

// explain says what the model holds for the key of a (key, value) pair that is part of a mismatch.
func (r *c12xRun) explain(p uint64) string {
	i, v := int(p>>c12xValBits), int(p&(1<<c12xValBits-1))
	switch {
	case i >= r.keys || r.due[i] < 0:
		return "(model: key not pending)"
	case r.val[i] != v:
		return fmt.Sprintf("(model: pending with v%d, due at tick %d)", r.val[i], r.due[i])
	}
	return fmt.Sprintf("(model: due at tick %d)", r.due[i])
}

func (r *c12xRun) forget(i int) {
	r.due[i] = -1
	r.pending--
	r.lifetimeGone++
}

// check compares what the recorder saw since the last check with wantFired / wantDrained.
func (r *c12xRun) check(what string, wantFired, wantDrained []uint64) error {
	fired, drained, foreign := r.rec.take()
	if len(foreign) > 0 {
		return r.violation("%s (tick %d): callbacks with arguments that were never set: %v", what, r.now, foreign)
	}
	if d := c12xCompare(fired, wantFired, r.explain); d != "" {
		return r.violation("%s (tick %d): execute callbacks: %s (pending in the model: %d)", what, r.now, d, r.pending)
	}
	if d := c12xCompare(drained, wantDrained, r.explain); d != "" {
		return r.violation("%s (tick %d): Drain's fn: %s", what, r.now, d)
	}
	return nil
}

func (r *c12xRun) lift(err error) error {
	if v, ok := err.(*c12Violation); ok {
		return r.violation("%s", v.msg)
	}
	return err
}

func (r *c12xRun) apply(op c12xOp) error {
	if r.done && op.kind != 't' {
		return nil // Drain is terminal in the stated domain
	}
	switch op.kind {
	case 'S', 'M', 'R':
		ks := r.selectKeys(op.sel)
		op.hit = len(ks)
		for _, i := range ks {
			if r.due[i] >= 0 {
				op.hitP++
			}
		}
		r.ops = append(r.ops, op)
		for _, i := range ks {
			steps := op.dl.of(i)
			d := time.Duration(steps)*r.iv + op.dl.rem
			key := c12xKeyTab[i]
			switch op.kind {
			case 'S':
				r.nextVal++
				if err := r.tw.SetTimer(key, r.nextVal, d); err != nil {
					return r.violation("SetTimer(%s,%v) returned %v", key, d, err)
				}
				if r.due[i] < 0 {
					r.pending++
				}
				r.due[i], r.val[i], r.moved[i], r.far[i] = r.now+steps, r.nextVal, false, op.far
			case 'M':
				if err := r.tw.MoveTimer(key, d); err != nil {
					return r.violation("MoveTimer(%s,%v) returned %v", key, d, err)
				}
				if r.due[i] >= 0 {
					r.due[i], r.moved[i], r.far[i] = r.now+steps, true, op.far
				}
			case 'R':
				if err := r.tw.RemoveTimer(key); err != nil {
					return r.violation("RemoveTimer(%s) returned %v", key, err)
				}
				if r.due[i] >= 0 {
					r.forget(i)
				}
			}
		}
		r.peakPending = max(r.peakPending, r.pending)
		switch op.kind {
		case 'S':
			r.maxResetP = max(r.maxResetP, op.hitP)
		case 'M':
			r.maxMoveP = max(r.maxMoveP, op.hitP)
		case 'R':
			r.maxRemoveP = max(r.maxRemoveP, op.hitP)
		}
		if err := r.quiesce(); err != nil {
			return r.lift(err)
		}
		return r.check("after "+op.String(), nil, nil)
	case 't':
		r.ops = append(r.ops, op)
		if op.union {
			return r.group(op)
		}
		for c := 0; c < op.count; c++ {
			r.tk.Tick()
			r.now++
			if err := r.quiesce(); err != nil {
				return r.lift(err)
			}
			want := r.dueUpTo(r.now)
			if err := r.check("after tick", want, nil); err != nil {
				return err
			}
			r.delivered(want, false)
		}
		return nil
	case 'd':
		r.ops = append(r.ops, op)
		if err := r.tw.Drain(r.rec.onDrain); err != nil {
			return r.violation("Drain returned %v", err)
		}
		if err := r.quiesce(); err != nil {
			return r.lift(err)
		}
		want := r.dueUpTo(math.MaxInt)
		if err := r.check("after drain", nil, want); err != nil {
			return err
		}
		r.drainedN = len(want)
		r.delivered(want, true)
		r.done = true
	}
	return nil
}

// delivered takes timers whose delivery has been compared out of the model.
func (r *c12xRun) delivered(want []uint64, byDrain bool) {
	movedHere := 0
	for _, p := range want {
		i := int(p >> c12xValBits)
		if r.far[i] {
			r.farDelivered++
			if byDrain {
				r.cls["far timer handed to Drain"]++
			} else {
				r.cls["far timer fired at its tick"]++
			}
		}
		if r.moved[i] {
			movedHere++
		}
		r.forget(i)
	}
	if !byDrain {
		r.maxTickFired = max(r.maxTickFired, len(want))
		r.maxTickMoved = max(r.maxTickMoved, movedHere)
	}
}

// group issues op.count ticks back to back and compares the callbacks of all of them as one set.
func (r *c12xRun) group(op c12xOp) error {
	to := r.now + op.count
	want := r.dueUpTo(to)
	ticksWithDue := map[int]int{}
	for _, p := range want {
		ticksWithDue[r.due[int(p>>c12xValBits)]]++
	}
	var g chan struct{}
	if op.gated {
		g = make(chan struct{})
		r.rec.setGate(g)
	}
	// the ticks are issued from a helper so that a wheel whose loop does not take them (e.g. because it
	// runs the gated callbacks itself) ends as an inconclusive case instead of a hung process
	done := make(chan error, 1)
	go func() {
		for c := 0; c < op.count; c++ {
			r.tk.Tick()
		}
		if err := r.waitTickTaken(); err != nil {
			done <- err
			return
		}
		if err := r.tw.RemoveTimer(c12Sentinel); err != nil {
			done <- &c12Violation{fmt.Sprintf("RemoveTimer on a running wheel: %v", err)}
			return
		}
		done <- nil
	}()
	var err error
	var stalled bool
	select {
	case err = <-done:
	case <-time.After(c12Budget):
		stalled = true
	}
	if op.gated {
		r.rec.setGate(nil)
		close(g)
	}
	if stalled {
		select {
		case <-done:
		case <-time.After(c12Budget):
		}
		return &c12Stall{fmt.Sprintf("%s: the wheel's loop did not take the ticks within %v", op, c12Budget)}
	}
	if err != nil {
		return r.lift(err)
	}
	r.now = to
	if err := r.quiesce(); err != nil {
		return r.lift(err)
	}
	if err := r.check("after "+op.String(), want, nil); err != nil {
		return err
	}
	if op.gated {
		r.maxGatedTicks = max(r.maxGatedTicks, len(ticksWithDue))
		for _, c := range ticksWithDue {
			r.maxGatedBatch = max(r.maxGatedBatch, c)
		}
	}
	// (maxTickFired is only fed by ticks that were compared one by one)
	for _, p := range want {
		i := int(p >> c12xValBits)
		if r.far[i] {
			r.farDelivered++
			r.cls["far timer fired inside a group of ticks"]++
		}
		r.forget(i)
	}
	return nil
}

func (r *c12xRun) nextDue() int {
	next := -1
	for _, d := range r.due {
		if d >= 0 && (next < 0 || d < next) {
			next = d
		}
	}
	return next
}

// toNextDue skips the ticks at which the model has nothing due (compared as one set with the empty
// set) and then takes the next due tick on its own.
func (r *c12xRun) toNextDue() error {
	next := r.nextDue()
	if next < 0 {
		return r.apply(c12xOp{kind: 't', count: 1})
	}
	if gap := next - r.now - 1; gap > 0 {
		if err := r.apply(c12xOp{kind: 't', count: gap, union: true}); err != nil {
			return err
		}
	}
	return r.apply(c12xOp{kind: 't', count: 1})
}

// runOut ticks until nothing is pending, then one more revolution plus one tick for strays.  With
// group > 0 the due ticks are not taken one by one but in gated groups of `group` ticks (the batches
// of up to `group` consecutive ticks overlap), each starting at the next due tick.
func (r *c12xRun) runOut(group int) error {
	for r.pending > 0 {
		if group <= 0 {
			if err := r.toNextDue(); err != nil {
				return err
			}
			continue
		}
		if gap := r.nextDue() - r.now - 1; gap > 0 {
			if err := r.apply(c12xOp{kind: 't', count: gap, union: true}); err != nil {
				return err
			}
		}
		if err := r.apply(c12xOp{kind: 't', count: group, union: true, gated: true}); err != nil {
			return err
		}
	}
	return r.apply(c12xOp{kind: 't', count: r.n + 1})
}

func c12xReplay(n int, iv time.Duration, keys int, ops []c12xOp, slow bool) (*c12xRun, error) {
	r, err := c12xNew(n, iv, keys, slow)
	if err != nil {
		return nil, err
	}
	for _, op := range ops {
		op.hit, op.hitP = 0, 0
		if err := r.apply(op); err != nil {
			r.close()
			return r, err
		}
	}
	return r, r.close()
}

var c12xConfirmed bool

func c12xConfirm(r *c12xRun, err error) (violation string, inconclusive string) {
	r.close()
	if _, ok := err.(*c12Violation); !ok {
		return "", err.Error()
	}
	if c12xConfirmed {
		return err.Error(), ""
	}
	_, err2 := c12xReplay(r.n, r.iv, r.keys, r.ops, true)
	if _, ok := err2.(*c12Violation); ok {
		c12xConfirmed = true
		return err.Error(), ""
	}
	return "", fmt.Sprintf("mismatch not reproduced by slow replay (%v): %s", err2, err.Error())
}

// c12xLogUniform draws an integer of [lo, hi] whose logarithm is (about) uniform: eighths of an octave.
func c12xLogUniform(t *rapid.T, lo, hi int, label string) int {
	if hi <= lo {
		return lo
	}
	steps := int(math.Ceil(8 * math.Log2(float64(hi)/float64(lo))))
	x := c12xUniform(t, steps+1, label)
	v := int(math.Round(float64(lo) * math.Exp2(float64(x)/8)))
	return min(max(v, lo), hi)
}

// c12xUniform draws an integer of [0, m) uniformly (m <= 4096).  rapid's integer generators prefer small
// values and the ends of their range on purpose; the sizes of this unit are meant to be spread evenly
// over their logarithmic range, so they are assembled from fair bits (which still shrink towards 0).
var c12xBits = rapid.SliceOfN(rapid.Bool(), 16, 16)

func c12xUniform(t *rapid.T, m int, label string) int {
	u := 0
	for _, bit := range c12xBits.Draw(t, label) {
		u <<= 1
		if bit {
			u |= 1
		}
	}
	return u * m >> 16
}

// ---------------------------------------------------------------- the property

func TestVerifC12Scale(t *testing.T) {
	logx.Disable()
	st := verifkit.New("scale")
	sampled := false
	defer c12Flush(st, &sampled)
	c12Calibrate()
	c12xInitKeys()
	// one case in `rare` draws its key space from 1000..20000, the others from 8..1000
	rare := max(1, verifkit.EnvInt("C12_SCALE_RARE", 40))
	slotsGen := rapid.OneOf(rapid.IntRange(1, 8), rapid.IntRange(9, 64))
	ivGen := rapid.SampledFrom([]time.Duration{time.Second, 250 * time.Millisecond, 7})
	rapid.Check(t, func(t *rapid.T) {
		st.Eval()
		big := c12xUniform(t, rare, "sizeClass") == rare-1
		var keys int
		if big {
			keys = c12xLogUniform(t, 1000, c12xMaxKeys, "keysBig")
		} else {
			keys = c12xLogUniform(t, 8, 1000, "keys")
		}
		n := slotsGen.Draw(t, "slots")
		iv := ivGen.Draw(t, "interval")
		finish := rapid.SampledFrom([]string{"drain", "runout", "runout in gated groups"}).Draw(t, "finish")
		finishGroup := 0
		if finish == "runout in gated groups" {
			finishGroup = rapid.IntRange(2, n+2).Draw(t, "finishGroup")
		}
		r, err := c12xNew(n, iv, keys, false)
		if err != nil {
			st.Note("%v", err)
			t.Skip(err.Error())
		}
		defer r.close()
		dead := ""
		fail := func(err error) {
			v, inc := c12xConfirm(r, err)
			if v != "" {
				t.Fatalf("C12 violated: %s", v)
			}
			dead = inc
			st.Class("inconclusive")
			st.Note("%s", inc)
			t.Skip(inc)
		}
		do := func(op c12xOp) {
			if dead != "" {
				t.Skip(dead)
			}
			if err := r.apply(op); err != nil {
				fail(err)
			}
		}
		genSel := func(t *rapid.T, which byte, wholeOften bool) c12xSel {
			s := c12xSel{which: which}
			s.den = rapid.SampledFrom([]int{1, 2, 2, 2, 3, 4, 8}).Draw(t, "selDen")
			s.num = rapid.IntRange(1, s.den).Draw(t, "selNum")
			if s.den > 1 && s.num == s.den {
				s.num = s.den - 1
			}
			s.from = rapid.IntRange(0, keys-1).Draw(t, "selFrom")
			s.max = keys
			if !wholeOften || rapid.IntRange(0, 2).Draw(t, "selLimited") == 0 {
				s.max = c12xLogUniform(t, 1, keys, "selMax")
			}
			return s
		}
		rems := []time.Duration{0, 0, 1, iv / 2, iv - 1}
		genSteps := func(t *rapid.T) int {
			if rapid.IntRange(0, 3).Draw(t, "longDelay") == 0 {
				return c12xLogUniform(t, 1, 12*n+2, "ticksLong")
			}
			return rapid.IntRange(1, 3*n+2).Draw(t, "ticks")
		}
		genDelay := func(t *rapid.T, one bool) c12xDelay {
			d := c12xDelay{steps: genSteps(t), span: 1, rem: rapid.SampledFrom(rems).Draw(t, "rem")}
			if !one {
				d.span = c12xLogUniform(t, 2, 10*n+2, "spread")
				d.mult = rapid.SampledFrom([]int{1, 3, 7, 11, 101}).Draw(t, "spreadMult")
			}
			return d
		}
		farOps := 0
		genFar := func(t *rapid.T) c12xDelay {
			maxRevs := min(999, c12xFarTicks/n)
			revs := c12xLogUniform(t, 100, maxRevs, "farRevolutions")
			return c12xDelay{steps: revs*n + rapid.IntRange(0, n-1).Draw(t, "farOffset"), span: 1,
				rem: rapid.SampledFrom(rems).Draw(t, "rem")}
		}

		// prologue: fill the wheel (all of the key space, or a log-uniform part of it)
		{
			s := c12xSel{which: 'a', den: 1, num: 1, from: rapid.IntRange(0, keys-1).Draw(t, "selFrom"), max: keys}
			if rapid.IntRange(0, 2).Draw(t, "fillPart") == 0 {
				s.max = c12xLogUniform(t, 1, keys, "selMax")
			}
			do(c12xOp{kind: 'S', sel: s, dl: genDelay(t, rapid.Bool().Draw(t, "oneDelay"))})
		}
		t.Repeat(map[string]func(*rapid.T){
			"setBulk": func(t *rapid.T) {
				which := rapid.SampledFrom([]byte{'a', 'a', '*', 'p'}).Draw(t, "which")
				do(c12xOp{kind: 'S', sel: genSel(t, which, true), dl: genDelay(t, false)})
			},
			"setForOneTick": func(t *rapid.T) {
				which := rapid.SampledFrom([]byte{'a', '*'}).Draw(t, "which")
				do(c12xOp{kind: 'S', sel: genSel(t, which, true), dl: genDelay(t, true)})
			},
			"moveBulk": func(t *rapid.T) {
				which := rapid.SampledFrom([]byte{'p', 'p', 'p', '*'}).Draw(t, "which")
				do(c12xOp{kind: 'M', sel: genSel(t, which, true), dl: genDelay(t, false)})
			},
			"moveToOneTick": func(t *rapid.T) {
				do(c12xOp{kind: 'M', sel: genSel(t, 'p', true), dl: genDelay(t, true)})
			},
			"removeBulk": func(t *rapid.T) {
				which := rapid.SampledFrom([]byte{'p', 'p', 'p', '*'}).Draw(t, "which")
				do(c12xOp{kind: 'R', sel: genSel(t, which, true)})
			},
			"single": func(t *rapid.T) {
				kind := rapid.SampledFrom([]byte{'S', 'S', 'M', 'R'}).Draw(t, "kind")
				which := rapid.SampledFrom([]byte{'p', '*'}).Draw(t, "which")
				s := c12xSel{which: which, den: 1, num: 1, from: rapid.IntRange(0, keys-1).Draw(t, "selFrom"), max: 1}
				do(c12xOp{kind: kind, sel: s, dl: genDelay(t, true)})
			},
			"far": func(t *rapid.T) {
				if farOps >= 3 {
					do(c12xOp{kind: 't', count: 1})
					return
				}
				farOps++
				kind := rapid.SampledFrom([]byte{'S', 'S', 'M'}).Draw(t, "kind")
				which := byte('*')
				if kind == 'M' {
					which = 'p'
				}
				s := c12xSel{which: which, den: 1, num: 1, from: rapid.IntRange(0, keys-1).Draw(t, "selFrom"),
					max: rapid.IntRange(1, 3).Draw(t, "farKeys")}
				do(c12xOp{kind: kind, sel: s, dl: genFar(t), far: true})
			},
			"tick": func(t *rapid.T) {
				do(c12xOp{kind: 't', count: 1})
			},
			"ticks": func(t *rapid.T) {
				k := rapid.SampledFrom([]int{1, 2, 3, n - 1, n, n + 1, 2 * n}).Draw(t, "count")
				do(c12xOp{kind: 't', count: max(k, 1)})
			},
			"ticksAsOneSet": func(t *rapid.T) {
				k := rapid.IntRange(2, n+2).Draw(t, "count")
				do(c12xOp{kind: 't', count: k, union: true, gated: rapid.IntRange(0, 3).Draw(t, "gated") != 0})
			},
			"toNextDue": func(t *rapid.T) {
				if dead != "" {
					t.Skip(dead)
				}
				if err := r.toNextDue(); err != nil {
					fail(err)
				}
			},
		})
		if dead != "" {
			t.Skip(dead)
		}
		if finish == "drain" {
			do(c12xOp{kind: 'd'})
		}
		if err := r.runOut(finishGroup); err != nil {
			fail(err)
		}
		if err := r.close(); err != nil {
			st.Note("%v", err)
			t.Skip(err.Error())
		}

		for k, c := range r.cls {
			st.ClassN(k, c)
		}
		if big {
			st.Class("size class: key space 1000..20000 (rare draw)")
		}
		st.Class("key space " + c12xBucket(keys))
		st.Class("peak pending " + c12xBucket(r.peakPending))
		st.Class("largest single tick fired " + c12xBucket(r.maxTickFired))
		if r.maxTickMoved >= 1000 {
			st.Class("a tick fired >= 1000 timers that had been moved onto it")
		}
		if r.drainedN > 0 {
			st.Class("drain delivered " + c12xBucket(r.drainedN))
		}
		if r.maxRemoveP >= 1000 {
			st.Class("bulk remove of >= 1000 pending timers")
		}
		if r.maxMoveP >= 1000 {
			st.Class("bulk move of >= 1000 pending timers")
		}
		if r.maxResetP >= 1000 {
			st.Class("bulk re-set of >= 1000 pending timers")
		}
		if r.maxGatedTicks >= 2 {
			st.Class("gated group: batches of >= 2 ticks overlapped")
			if r.maxGatedBatch >= 1000 {
				st.Class("gated group: overlapping batches, one of >= 1000 timers")
			}
		}
		if r.lifetimeGone >= 10000 {
			st.Class("wheel lifetime: >= 10000 timers fired, removed or drained")
		}
		if n > 8 {
			st.Class("slots>8")
		}
		if r.peakPending >= c12xBigPending || r.maxTickFired >= c12xBigTick {
			st.Class("non-trivial (>= 2400 pending at once or >= 2000 fired by one tick)")
			st.NonTrivial(r.history())
			sampled = true
		}
	})
}

func c12xBucket(v int) string {
	switch {
	case v == 0:
		return "0"
	case v < 25:
		return "1..24"
	case v < 100:
		return "25..99"
	case v < 1000:
		return "100..999"
	case v < 2400:
		return "1000..2399"
	case v < 5000:
		return "2400..4999"
	case v < 10000:
		return "5000..9999"
	}
	return ">= 10000"
}
